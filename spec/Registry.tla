------------------------------ MODULE Registry ------------------------------
(* C06 -- packet id tables.

   A packet type is registered with a list of mappings <<id, from, last>> (last = 0:
   open).  Mapping i holds for every protocol v with  from_i <= v < from_(i+1) ; the
   final mapping holds up to `last` (inclusive) or for every later protocol.
   Expand(ms, v) is that id, or Absent.

   Ref is the reference id table as data: the packet registrations of Velocity's
   StateRegistry (written from the reference, NOT from gate's register.go), keyed by
   "state/dir/gate packet type".  It makes claims for protocols <= RefMax only.
   GoMcName maps gate's packet types to the names of the id table generated from the
   vanilla 1.20.2 jar that ships in github.com/Tnze/go-mc (data/packetid); that table
   arrives in the trace (event "gomc") and is the second, machine-generated reference
   for protocol 764.

   The module also carries the toy model that binds Expand to the real
   PacketRegistry.Register: TLC enumerates mapping lists for two packet types
   (ToyCases), exports them (EmitToy), and checks Expand against a second, differently
   phrased definition (ExpandAlt) on every one of them. *)
EXTENDS Integers, Sequences, FiniteSets, TLC, Json

VARIABLE tc      \* the toy case [a |-> mappings of type A, b |-> mappings of type B]

Absent == -1

\* <<id, from>> and <<id, from, last>> shorthands
M(id, from) == <<id, from, 0>>
ML(id, from, last) == <<id, from, last>>

Holds(ms, i, v) ==
    /\ ms[i][2] <= v
    /\ IF i < Len(ms) THEN v < ms[i + 1][2]
       ELSE ms[i][3] = 0 \/ v <= ms[i][3]

Expand(ms, v) ==
    LET idx == {i \in 1..Len(ms) : Holds(ms, i, v)} IN
    IF idx = {} THEN Absent ELSE ms[CHOOSE i \in idx : TRUE][1]

\* A well-formed list: `from` strictly ascending, `last` only on the final mapping and
\* not below its `from`.
Valid(ms) ==
    /\ \A i \in 1..(Len(ms) - 1) : ms[i][2] < ms[i + 1][2] /\ ms[i][3] = 0
    /\ Len(ms) > 0 => (ms[Len(ms)][3] = 0 \/ ms[Len(ms)][3] >= ms[Len(ms)][2])

\* second definition: the latest mapping that starts at or below v decides
ExpandAlt(ms, v) ==
    LET started == {i \in 1..Len(ms) : ms[i][2] <= v} IN
    IF started = {} THEN Absent
    ELSE LET i == CHOOSE j \in started : \A k \in started : k <= j IN
         IF i = Len(ms) /\ ms[i][3] # 0 /\ v > ms[i][3] THEN Absent ELSE ms[i][1]

-----------------------------------------------------------------------------
(* Protocol numbers (only used to write Ref legibly). *)
V1_7_2 == 4      V1_7_6 == 5      V1_8 == 47       V1_9 == 107      V1_9_1 == 108
V1_9_4 == 110    V1_10 == 210     V1_11 == 315     V1_11_1 == 316   V1_12 == 335
V1_12_1 == 338   V1_12_2 == 340   V1_13 == 393     V1_13_2 == 404   V1_14 == 477
V1_15 == 573     V1_16 == 735     V1_16_1 == 736   V1_16_2 == 751   V1_16_3 == 753
V1_16_4 == 754   V1_17 == 755     V1_17_1 == 756   V1_18 == 757     V1_18_2 == 758
V1_19 == 759     V1_19_1 == 760   V1_19_3 == 761   V1_19_4 == 762   V1_20 == 763
V1_20_2 == 764   V1_20_3 == 765   V1_20_5 == 766   V1_21 == 767     V1_21_2 == 768
V1_21_4 == 769   V1_21_5 == 770   V1_21_6 == 771   V1_21_7 == 772   V1_21_9 == 773

\* Ref makes no claim above this protocol (1.21.11, 26.1, 26.2: no independent source).
RefMax == V1_21_9

Key(state, dir, type) == state \o "/" \o dir \o "/" \o type

RefHandshakeSB ==
    ("handshake/sb/packet.Handshake"       :> <<M(0, V1_7_2)>>)
RefStatusSB ==
    ("status/sb/packet.StatusRequest"      :> <<M(0, V1_7_2)>>) @@
    ("status/sb/packet.StatusPing"         :> <<M(1, V1_7_2)>>)
RefStatusCB ==
    ("status/cb/packet.StatusResponse"     :> <<M(0, V1_7_2)>>) @@
    ("status/cb/packet.StatusPing"         :> <<M(1, V1_7_2)>>)
RefLoginSB ==
    ("login/sb/packet.ServerLogin"         :> <<M(0, V1_7_2)>>) @@
    ("login/sb/packet.EncryptionResponse"  :> <<M(1, V1_7_2)>>) @@
    ("login/sb/packet.LoginPluginResponse" :> <<M(2, V1_13)>>) @@
    ("login/sb/packet.LoginAcknowledged"   :> <<M(3, V1_20_2)>>) @@
    ("login/sb/cookie.CookieResponse"      :> <<M(4, V1_20_5)>>)
RefLoginCB ==
    ("login/cb/packet.Disconnect"          :> <<M(0, V1_7_2)>>) @@
    ("login/cb/packet.EncryptionRequest"   :> <<M(1, V1_7_2)>>) @@
    ("login/cb/packet.ServerLoginSuccess"  :> <<M(2, V1_7_2)>>) @@
    ("login/cb/packet.SetCompression"      :> <<M(3, V1_8)>>) @@
    ("login/cb/packet.LoginPluginMessage"  :> <<M(4, V1_13)>>) @@
    ("login/cb/cookie.CookieRequest"       :> <<M(5, V1_20_5)>>)

RefConfigSB ==
    ("config/sb/packet.ClientSettings"       :> <<M(0, V1_20_2)>>) @@
    ("config/sb/cookie.CookieResponse"       :> <<M(1, V1_20_5)>>) @@
    ("config/sb/plugin.Message"              :> <<M(1, V1_20_2), M(2, V1_20_5)>>) @@
    ("config/sb/config.FinishedUpdate"       :> <<M(2, V1_20_2), M(3, V1_20_5)>>) @@
    ("config/sb/packet.KeepAlive"            :> <<M(3, V1_20_2), M(4, V1_20_5)>>) @@
    ("config/sb/packet.PingIdentify"         :> <<M(4, V1_20_2), M(5, V1_20_5)>>) @@
    ("config/sb/packet.ResourcePackResponse" :> <<M(5, V1_20_2), M(6, V1_20_5)>>) @@
    ("config/sb/config.KnownPacks"           :> <<M(7, V1_20_5)>>) @@
    ("config/sb/packet.CustomClickActionPacket" :> <<M(8, V1_21_6)>>) @@
    ("config/sb/config.CodeOfConductAcceptPacket" :> <<M(9, V1_21_9)>>)
RefConfigCB ==
    ("config/cb/cookie.CookieRequest"        :> <<M(0, V1_20_5)>>) @@
    ("config/cb/plugin.Message"              :> <<M(0, V1_20_2), M(1, V1_20_5)>>) @@
    ("config/cb/packet.Disconnect"           :> <<M(1, V1_20_2), M(2, V1_20_5)>>) @@
    ("config/cb/config.FinishedUpdate"       :> <<M(2, V1_20_2), M(3, V1_20_5)>>) @@
    ("config/cb/packet.KeepAlive"            :> <<M(3, V1_20_2), M(4, V1_20_5)>>) @@
    ("config/cb/packet.PingIdentify"         :> <<M(4, V1_20_2), M(5, V1_20_5)>>) @@
    ("config/cb/config.RegistrySync"         :> <<M(5, V1_20_2), M(7, V1_20_5)>>) @@
    ("config/cb/packet.RemoveResourcePack"   :> <<M(6, V1_20_3), M(8, V1_20_5)>>) @@
    ("config/cb/packet.ResourcePackRequest"  :> <<M(6, V1_20_2), M(7, V1_20_3), M(9, V1_20_5)>>) @@
    ("config/cb/cookie.CookieStore"          :> <<M(10, V1_20_5)>>) @@
    ("config/cb/packet.Transfer"             :> <<M(11, V1_20_5)>>) @@
    ("config/cb/config.ActiveFeatures"       :> <<M(7, V1_20_2), M(8, V1_20_3), M(12, V1_20_5)>>) @@
    ("config/cb/config.TagsUpdate"           :> <<M(8, V1_20_2), M(9, V1_20_3), M(13, V1_20_5)>>) @@
    ("config/cb/config.KnownPacks"           :> <<M(14, V1_20_5)>>) @@
    ("config/cb/packet.CustomReportDetails"  :> <<M(15, V1_21)>>) @@
    ("config/cb/packet.ServerLinks"          :> <<M(16, V1_21)>>) @@
    ("config/cb/packet.DialogClear"          :> <<M(17, V1_21_6)>>) @@
    ("config/cb/packet.DialogShow"           :> <<M(18, V1_21_6)>>) @@
    ("config/cb/config.CodeOfConductPacket"  :> <<M(19, V1_21_9)>>)

RefPlaySB ==
    ("play/sb/packet.TabCompleteRequest" :> <<
        M(20, V1_7_2), M(1, V1_9), M(2, V1_12), M(1, V1_12_1), M(5, V1_13), M(6, V1_14),
        M(8, V1_19), M(9, V1_19_1), M(8, V1_19_3), M(9, V1_19_4), M(10, V1_20_2),
        M(11, V1_20_5), M(13, V1_21_2), M(14, V1_21_6)>>) @@
    ("play/sb/chat.LegacyChat" :> <<
        M(1, V1_7_2), M(2, V1_9), M(3, V1_12), M(2, V1_12_1), ML(3, V1_14, V1_18_2)>>) @@
    ("play/sb/chat.ChatAcknowledgement" :> <<
        M(3, V1_19_3), M(4, V1_21_2), M(5, V1_21_6)>>) @@
    ("play/sb/chat.KeyedPlayerCommand" :> <<
        M(3, V1_19), ML(4, V1_19_1, V1_19_1)>>) @@
    ("play/sb/chat.KeyedPlayerChat" :> <<
        M(4, V1_19), ML(5, V1_19_1, V1_19_1)>>) @@
    ("play/sb/chat.SessionPlayerCommand" :> <<
        M(4, V1_19_3), M(5, V1_20_5), M(6, V1_21_2), M(7, V1_21_6)>>) @@
    ("play/sb/chat.UnsignedPlayerCommand" :> <<
        M(4, V1_20_5), M(5, V1_21_2), M(6, V1_21_6)>>) @@
    ("play/sb/chat.SessionPlayerChat" :> <<
        M(5, V1_19_3), M(6, V1_20_5), M(7, V1_21_2), M(8, V1_21_6)>>) @@
    ("play/sb/packet.ClientSettings" :> <<
        M(21, V1_7_2), M(4, V1_9), M(5, V1_12), M(4, V1_12_1), M(5, V1_14), M(7, V1_19),
        M(8, V1_19_1), M(7, V1_19_3), M(8, V1_19_4), M(9, V1_20_2), M(10, V1_20_5),
        M(12, V1_21_2), M(13, V1_21_6)>>) @@
    ("play/sb/cookie.CookieResponse" :> <<
        M(17, V1_20_5), M(19, V1_21_2), M(20, V1_21_6)>>) @@
    ("play/sb/plugin.Message" :> <<
        M(23, V1_7_2), M(9, V1_9), M(10, V1_12), M(9, V1_12_1), M(10, V1_13), M(11, V1_14),
        M(10, V1_17), M(12, V1_19), M(13, V1_19_1), M(12, V1_19_3), M(13, V1_19_4),
        M(15, V1_20_2), M(16, V1_20_3), M(18, V1_20_5), M(20, V1_21_2), M(21, V1_21_6)>>) @@
    ("play/sb/packet.KeepAlive" :> <<
        M(0, V1_7_2), M(11, V1_9), M(12, V1_12), M(11, V1_12_1), M(14, V1_13), M(15, V1_14),
        M(16, V1_16), M(15, V1_17), M(17, V1_19), M(18, V1_19_1), M(17, V1_19_3),
        M(18, V1_19_4), M(20, V1_20_2), M(21, V1_20_3), M(24, V1_20_5), M(26, V1_21_2),
        M(27, V1_21_6)>>) @@
    ("play/sb/packet.ResourcePackResponse" :> <<
        M(25, V1_8), M(22, V1_9), M(24, V1_12), M(29, V1_13), M(31, V1_14), M(32, V1_16),
        M(33, V1_16_2), M(35, V1_19), M(36, V1_19_1), M(39, V1_20_2), M(40, V1_20_3),
        M(43, V1_20_5), M(45, V1_21_2), M(47, V1_21_4), M(48, V1_21_6)>>) @@
    ("play/sb/config.FinishedUpdate" :> <<
        M(11, V1_20_2), M(12, V1_20_5), M(14, V1_21_2), M(15, V1_21_6)>>)

RefPlayCB1 ==
    ("play/cb/bossbar.BossBar" :> <<
        M(12, V1_9), M(13, V1_15), M(12, V1_16), M(13, V1_17), M(10, V1_19), M(11, V1_19_4),
        M(10, V1_20_2), M(9, V1_21_5)>>) @@
    ("play/cb/chat.LegacyChat" :> <<
        M(2, V1_7_2), M(15, V1_9), M(14, V1_13), M(15, V1_15), M(14, V1_16),
        ML(15, V1_17, V1_18_2)>>) @@
    ("play/cb/packet.TabCompleteResponse" :> <<
        M(58, V1_7_2), M(14, V1_9), M(16, V1_13), M(17, V1_15), M(16, V1_16), M(15, V1_16_2),
        M(17, V1_17), M(14, V1_19), M(13, V1_19_3), M(15, V1_19_4), M(16, V1_20_2),
        M(15, V1_21_5)>>) @@
    ("play/cb/packet.AvailableCommands" :> <<
        M(17, V1_13), M(18, V1_15), M(17, V1_16), M(16, V1_16_2), M(18, V1_17), M(15, V1_19),
        M(14, V1_19_3), M(16, V1_19_4), M(17, V1_20_2), M(16, V1_21_5)>>) @@
    ("play/cb/cookie.CookieRequest" :> <<M(22, V1_20_5), M(21, V1_21_5)>>) @@
    ("play/cb/plugin.Message" :> <<
        M(63, V1_7_2), M(24, V1_9), M(25, V1_13), M(24, V1_14), M(25, V1_15), M(24, V1_16),
        M(23, V1_16_2), M(24, V1_17), M(21, V1_19), M(22, V1_19_1), M(21, V1_19_3),
        M(23, V1_19_4), M(24, V1_20_2), M(25, V1_20_5), M(24, V1_21_5)>>) @@
    ("play/cb/packet.Disconnect" :> <<
        M(64, V1_7_2), M(26, V1_9), M(27, V1_13), M(26, V1_14), M(27, V1_15), M(26, V1_16),
        M(25, V1_16_2), M(26, V1_17), M(23, V1_19), M(25, V1_19_1), M(23, V1_19_3),
        M(26, V1_19_4), M(27, V1_20_2), M(29, V1_20_5), M(28, V1_21_5), M(32, V1_21_9)>>) @@
    ("play/cb/packet.KeepAlive" :> <<
        M(0, V1_7_2), M(31, V1_9), M(33, V1_13), M(32, V1_14), M(33, V1_15), M(32, V1_16),
        M(31, V1_16_2), M(33, V1_17), M(30, V1_19), M(32, V1_19_1), M(31, V1_19_3),
        M(35, V1_19_4), M(36, V1_20_2), M(38, V1_20_5), M(39, V1_21_2), M(38, V1_21_5),
        M(43, V1_21_9)>>) @@
    ("play/cb/packet.JoinGame" :> <<
        M(1, V1_7_2), M(35, V1_9), M(37, V1_13), M(38, V1_15), M(37, V1_16), M(36, V1_16_2),
        M(38, V1_17), M(35, V1_19), M(37, V1_19_1), M(36, V1_19_3), M(40, V1_19_4),
        M(41, V1_20_2), M(43, V1_20_5), M(44, V1_21_2), M(43, V1_21_5), M(48, V1_21_9)>>) @@
    ("play/cb/packet.Respawn" :> <<
        M(7, V1_7_2), M(51, V1_9), M(52, V1_12), M(53, V1_12_1), M(56, V1_13), M(58, V1_14),
        M(59, V1_15), M(58, V1_16), M(57, V1_16_2), M(61, V1_17), M(59, V1_19), M(62, V1_19_1),
        M(61, V1_19_3), M(65, V1_19_4), M(67, V1_20_2), M(69, V1_20_3), M(71, V1_20_5),
        M(76, V1_21_2), M(75, V1_21_5), M(80, V1_21_9)>>) @@
    ("play/cb/packet.RemoveResourcePack" :> <<
        M(67, V1_20_3), M(69, V1_20_5), M(74, V1_21_2), M(73, V1_21_5), M(78, V1_21_9)>>) @@
    ("play/cb/packet.ResourcePackRequest" :> <<
        M(72, V1_8), M(50, V1_9), M(51, V1_12), M(52, V1_12_1), M(55, V1_13), M(57, V1_14),
        M(58, V1_15), M(57, V1_16), M(56, V1_16_2), M(60, V1_17), M(58, V1_19), M(61, V1_19_1),
        M(60, V1_19_3), M(64, V1_19_4), M(66, V1_20_2), M(68, V1_20_3), M(70, V1_20_5),
        M(75, V1_21_2), M(74, V1_21_5), M(79, V1_21_9)>>) @@
    ("play/cb/packet.HeaderAndFooter" :> <<
        M(71, V1_8), M(72, V1_9), M(71, V1_9_4), M(73, V1_12), M(74, V1_12_1), M(78, V1_13),
        M(83, V1_14), M(84, V1_15), M(83, V1_16), M(94, V1_17), M(95, V1_18), M(96, V1_19),
        M(99, V1_19_1), M(97, V1_19_3), M(101, V1_19_4), M(104, V1_20_2), M(106, V1_20_3),
        M(109, V1_20_5), M(116, V1_21_2), M(115, V1_21_5), M(120, V1_21_9)>>) @@
    ("play/cb/title.Legacy" :> <<
        M(69, V1_8), M(71, V1_12), M(72, V1_12_1), M(75, V1_13), M(79, V1_14), M(80, V1_15),
        ML(79, V1_16, V1_16_4)>>)

RefPlayCB2 ==
    ("play/cb/title.Subtitle" :> <<
        M(87, V1_17), M(88, V1_18), M(91, V1_19_1), M(89, V1_19_3), M(93, V1_19_4),
        M(95, V1_20_2), M(97, V1_20_3), M(99, V1_20_5), M(106, V1_21_2), M(105, V1_21_5),
        M(110, V1_21_9)>>) @@
    ("play/cb/title.Text" :> <<
        M(89, V1_17), M(90, V1_18), M(93, V1_19_1), M(91, V1_19_3), M(95, V1_19_4),
        M(97, V1_20_2), M(99, V1_20_3), M(101, V1_20_5), M(108, V1_21_2), M(107, V1_21_5),
        M(112, V1_21_9)>>) @@
    ("play/cb/title.Actionbar" :> <<
        M(65, V1_17), M(64, V1_19), M(67, V1_19_1), M(66, V1_19_3), M(70, V1_19_4),
        M(72, V1_20_2), M(74, V1_20_3), M(76, V1_20_5), M(81, V1_21_2), M(80, V1_21_5),
        M(85, V1_21_9)>>) @@
    ("play/cb/title.Times" :> <<
        M(90, V1_17), M(91, V1_18), M(94, V1_19_1), M(92, V1_19_3), M(96, V1_19_4),
        M(98, V1_20_2), M(100, V1_20_3), M(102, V1_20_5), M(109, V1_21_2), M(108, V1_21_5),
        M(113, V1_21_9)>>) @@
    ("play/cb/title.Clear" :> <<
        M(16, V1_17), M(13, V1_19), M(12, V1_19_3), M(14, V1_19_4), M(15, V1_20_2),
        M(14, V1_21_5)>>) @@
    ("play/cb/legacytablist.PlayerListItem" :> <<
        M(56, V1_7_2), M(45, V1_9), M(46, V1_12_1), M(48, V1_13), M(51, V1_14), M(52, V1_15),
        M(51, V1_16), M(50, V1_16_2), M(54, V1_17), M(52, V1_19), ML(55, V1_19_1, V1_19_1)>>) @@
    ("play/cb/playerinfo.Remove" :> <<
        M(53, V1_19_3), M(57, V1_19_4), M(59, V1_20_2), M(61, V1_20_5), M(63, V1_21_2),
        M(62, V1_21_5), M(67, V1_21_9)>>) @@
    ("play/cb/playerinfo.Upsert" :> <<
        M(54, V1_19_3), M(58, V1_19_4), M(60, V1_20_2), M(62, V1_20_5), M(64, V1_21_2),
        M(63, V1_21_5), M(68, V1_21_9)>>) @@
    ("play/cb/cookie.CookieStore" :> <<
        M(107, V1_20_5), M(114, V1_21_2), M(113, V1_21_5), M(118, V1_21_9)>>) @@
    ("play/cb/chat.SystemChat" :> <<
        M(95, V1_19), M(98, V1_19_1), M(96, V1_19_3), M(100, V1_19_4), M(103, V1_20_2),
        M(105, V1_20_3), M(108, V1_20_5), M(115, V1_21_2), M(114, V1_21_5), M(119, V1_21_9)>>) @@
    ("play/cb/packet.PlayerChatCompletion" :> <<
        M(21, V1_19_1), M(20, V1_19_3), M(22, V1_19_4), M(23, V1_20_2), M(24, V1_20_5),
        M(23, V1_21_5)>>) @@
    ("play/cb/packet.ServerData" :> <<
        M(63, V1_19), M(66, V1_19_1), M(65, V1_19_3), M(69, V1_19_4), M(71, V1_20_2),
        M(73, V1_20_3), M(75, V1_20_5), M(80, V1_21_2), M(79, V1_21_5), M(84, V1_21_9)>>) @@
    ("play/cb/config.StartUpdate" :> <<
        M(101, V1_20_2), M(103, V1_20_3), M(105, V1_20_5), M(112, V1_21_2), M(111, V1_21_5),
        M(116, V1_21_9)>>) @@
    ("play/cb/packet.BundleDelimiter" :> <<M(0, V1_19_4)>>) @@
    ("play/cb/packet.Transfer" :> <<M(115, V1_20_5), M(122, V1_21_2), M(127, V1_21_9)>>) @@
    ("play/cb/packet.CustomReportDetails" :> <<
        M(122, V1_21), M(129, V1_21_2), M(134, V1_21_9)>>) @@
    ("play/cb/packet.ServerLinks" :> <<
        M(123, V1_21), M(130, V1_21_2), M(135, V1_21_9)>>) @@
    ("play/cb/packet.SoundEntityPacket" :> <<
        M(93, V1_19_3), M(97, V1_19_4), M(99, V1_20_2), M(101, V1_20_3), M(103, V1_20_5),
        M(110, V1_21_2), M(109, V1_21_5), M(114, V1_21_9)>>) @@
    ("play/cb/packet.StopSoundPacket" :> <<
        M(95, V1_19_3), M(99, V1_19_4), M(102, V1_20_2), M(104, V1_20_3), M(106, V1_20_5),
        M(113, V1_21_2), M(112, V1_21_5), M(117, V1_21_9)>>)

RefPlayCB == RefPlayCB1 @@ RefPlayCB2
RefGroups == <<RefHandshakeSB, RefStatusSB, RefStatusCB, RefLoginSB, RefLoginCB,
               RefConfigSB, RefConfigCB, RefPlaySB, RefPlayCB>>
Ref == RefHandshakeSB @@ RefStatusSB @@ RefStatusCB @@ RefLoginSB @@ RefLoginCB @@
       RefConfigSB @@ RefConfigCB @@ RefPlaySB @@ RefPlayCB

RefId(k, v) == Expand(Ref[k], v)

\* every reference list is itself well formed (checked by TLC, cfg Registry.cfg)
RefWellFormed(r) == \A k \in DOMAIN r : Valid(r[k]) /\ Len(r[k]) > 0

(* The reference must be a possible id table itself: within one state/direction no two
   reference packets share an id in any protocol. *)
RefInjective(vs) ==
    \A g \in DOMAIN RefGroups : \A k1, k2 \in DOMAIN RefGroups[g] :
        k1 # k2 => \A v \in vs : v <= RefMax =>
            (RefId(k1, v) = Absent \/ RefId(k1, v) # RefId(k2, v))
\* no key was lost when the groups were merged
RefComplete(r) == Cardinality(DOMAIN r) =
    LET RECURSIVE Sum(_) Sum(i) == IF i = 0 THEN 0 ELSE Cardinality(DOMAIN RefGroups[i]) + Sum(i - 1)
    IN Sum(Len(RefGroups))

RefVersions == {V1_7_2, V1_7_6, V1_8, V1_9, V1_9_1, V1_9_4, V1_10, V1_11, V1_11_1, V1_12, V1_12_1,
                V1_12_2, V1_13, V1_13_2, V1_14, V1_15, V1_16, V1_16_1, V1_16_2, V1_16_3, V1_16_4,
                V1_17, V1_17_1, V1_18, V1_18_2, V1_19, V1_19_1, V1_19_3, V1_19_4, V1_20, V1_20_2,
                V1_20_3, V1_20_5, V1_21, V1_21_2, V1_21_4, V1_21_5, V1_21_6, V1_21_7, V1_21_9}
\* (mentions the variable so that TLC does not pre-evaluate it in every run of the module)
RefSane == (tc.a = <<>> /\ tc.b = <<>>) => RefWellFormed(Ref) /\ RefComplete(Ref) /\ RefInjective(RefVersions)

-----------------------------------------------------------------------------
(* go-mc's names (protocol 764) of the packet types gate registers. *)
GoMcName ==
    ("status/sb/packet.StatusRequest"       :> "StatusRequest") @@
    ("status/sb/packet.StatusPing"          :> "StatusPingRequest") @@
    ("status/cb/packet.StatusResponse"      :> "StatusResponse") @@
    ("status/cb/packet.StatusPing"          :> "StatusPongResponse") @@
    ("login/sb/packet.ServerLogin"          :> "LoginStart") @@
    ("login/sb/packet.EncryptionResponse"   :> "LoginEncryptionResponse") @@
    ("login/sb/packet.LoginPluginResponse"  :> "LoginPluginResponse") @@
    ("login/sb/packet.LoginAcknowledged"    :> "LoginAcknowledged") @@
    ("login/cb/packet.Disconnect"           :> "LoginDisconnect") @@
    ("login/cb/packet.EncryptionRequest"    :> "LoginEncryptionRequest") @@
    ("login/cb/packet.ServerLoginSuccess"   :> "LoginSuccess") @@
    ("login/cb/packet.SetCompression"       :> "LoginCompression") @@
    ("login/cb/packet.LoginPluginMessage"   :> "LoginPluginRequest") @@
    ("config/sb/packet.ClientSettings"      :> "ConfigClientInformation") @@
    ("config/sb/plugin.Message"             :> "ConfigCustomPayload") @@
    ("config/sb/config.FinishedUpdate"      :> "ConfigFinishConfiguration") @@
    ("config/sb/packet.KeepAlive"           :> "ConfigKeepAlive") @@
    ("config/sb/packet.PingIdentify"        :> "ConfigPong") @@
    ("config/sb/packet.ResourcePackResponse" :> "ConfigResourcePack") @@
    ("config/cb/plugin.Message"             :> "ConfigCustomPayload") @@
    ("config/cb/packet.Disconnect"          :> "ConfigDisconnect") @@
    ("config/cb/config.FinishedUpdate"      :> "ConfigFinishConfiguration") @@
    ("config/cb/packet.KeepAlive"           :> "ConfigKeepAlive") @@
    ("config/cb/packet.PingIdentify"        :> "ConfigPing") @@
    ("config/cb/config.RegistrySync"        :> "ConfigRegistryData") @@
    ("config/cb/packet.ResourcePackRequest" :> "ConfigResourcePack") @@
    ("config/cb/config.ActiveFeatures"      :> "ConfigUpdateEnabledFeatures") @@
    ("config/cb/config.TagsUpdate"          :> "ConfigUpdateTags") @@
    ("play/sb/packet.TabCompleteRequest"    :> "ServerboundCommandSuggestion") @@
    ("play/sb/chat.ChatAcknowledgement"     :> "ServerboundChatAck") @@
    ("play/sb/chat.SessionPlayerCommand"    :> "ServerboundChatCommand") @@
    ("play/sb/chat.SessionPlayerChat"       :> "ServerboundChat") @@
    ("play/sb/packet.ClientSettings"        :> "ServerboundClientInformation") @@
    ("play/sb/plugin.Message"               :> "ServerboundCustomPayload") @@
    ("play/sb/packet.KeepAlive"             :> "ServerboundKeepAlive") @@
    ("play/sb/packet.ResourcePackResponse"  :> "ServerboundResourcePack") @@
    ("play/sb/config.FinishedUpdate"        :> "ServerboundConfigurationAcknowledged") @@
    ("play/cb/bossbar.BossBar"              :> "ClientboundBossEvent") @@
    ("play/cb/packet.TabCompleteResponse"   :> "ClientboundCommandSuggestions") @@
    ("play/cb/packet.AvailableCommands"     :> "ClientboundCommands") @@
    ("play/cb/plugin.Message"               :> "ClientboundCustomPayload") @@
    ("play/cb/packet.Disconnect"            :> "ClientboundDisconnect") @@
    ("play/cb/packet.KeepAlive"             :> "ClientboundKeepAlive") @@
    ("play/cb/packet.JoinGame"              :> "ClientboundLogin") @@
    ("play/cb/packet.Respawn"               :> "ClientboundRespawn") @@
    ("play/cb/packet.ResourcePackRequest"   :> "ClientboundResourcePack") @@
    ("play/cb/packet.HeaderAndFooter"       :> "ClientboundTabList") @@
    ("play/cb/title.Subtitle"               :> "ClientboundSetSubtitleText") @@
    ("play/cb/title.Text"                   :> "ClientboundSetTitleText") @@
    ("play/cb/title.Actionbar"              :> "ClientboundSetActionBarText") @@
    ("play/cb/title.Times"                  :> "ClientboundSetTitlesAnimation") @@
    ("play/cb/title.Clear"                  :> "ClientboundClearTitles") @@
    ("play/cb/playerinfo.Remove"            :> "ClientboundPlayerInfoRemove") @@
    ("play/cb/playerinfo.Upsert"            :> "ClientboundPlayerInfoUpdate") @@
    ("play/cb/chat.SystemChat"              :> "ClientboundSystemChat") @@
    ("play/cb/packet.PlayerChatCompletion"  :> "ClientboundCustomChatCompletions") @@
    ("play/cb/packet.ServerData"            :> "ClientboundServerData") @@
    ("play/cb/config.StartUpdate"           :> "ClientboundStartConfiguration") @@
    ("play/cb/packet.BundleDelimiter"       :> "BundleDelimiter") @@
    ("play/cb/packet.SoundEntityPacket"     :> "ClientboundSoundEntity") @@
    ("play/cb/packet.StopSoundPacket"       :> "ClientboundStopSound")

GoMcProto == 764

-----------------------------------------------------------------------------
(* Judging a dump.  A table record has byType = <<[t, id], ...>> (PacketID(of) for
   every registered type) and byId = <<[t, id], ...>> (CreatePacket(id) for every id). *)

SeqToSet(s) == {s[i] : i \in DOMAIN s}

Bijective(byType, byId) ==
    /\ SeqToSet(byType) = SeqToSet(byId)                       \* mutually inverse
    /\ \A i, j \in DOMAIN byType : i # j => (byType[i].t # byType[j].t /\ byType[i].id # byType[j].id)
    /\ \A i, j \in DOMAIN byId : i # j => (byId[i].t # byId[j].t /\ byId[i].id # byId[j].id)

\* one cell: gate's id (or Absent) of a type it registers in this state and direction
RefAgree(state, dir, type, proto, id) ==
    LET k == Key(state, dir, type) IN
    (k \in DOMAIN Ref /\ proto <= RefMax /\ RefId(k, proto) # Absent) => id = RefId(k, proto)

\* gm = the go-mc cells <<[state, dir, name, id], ...>>
GoMcAgree(gm, state, dir, type, proto, id) ==
    LET k == Key(state, dir, type) IN
    (proto = GoMcProto /\ k \in DOMAIN GoMcName) =>
        LET hits == {i \in DOMAIN gm : gm[i].state = state /\ gm[i].dir = dir /\ gm[i].name = GoMcName[k]} IN
        IF id = Absent THEN hits = {}
        ELSE hits # {} /\ \A i \in hits : gm[i].id = id

-----------------------------------------------------------------------------
(* Toy model: mapping lists for packet type A (all lists up to MaxLen over ToyFrom x ToyIds,
   every order, optional `last` on the final mapping) and a few lists for type B. *)
CONSTANTS MaxLen, ToyFrom, ToyIds, ToyLast

ToyEntries == {M(i, f) : i \in ToyIds, f \in ToyFrom}

RECURSIVE ListsUpTo(_)
ListsUpTo(n) == IF n = 0 THEN {<<>>}
                ELSE LET prev == ListsUpTo(n - 1) IN
                     prev \cup {Append(s, e) : s \in {x \in prev : Len(x) = n - 1}, e \in ToyEntries}

WithLast(s, last) == IF s = <<>> \/ last = 0 THEN s
                     ELSE [s EXCEPT ![Len(s)] = <<s[Len(s)][1], s[Len(s)][2], last>>]

ToyA == {WithLast(s, last) : s \in ListsUpTo(MaxLen), last \in ToyLast}
ToyB == { <<>>, <<M(1, 4)>>, <<M(2, 4)>>, <<M(1, 764)>>, <<ML(2, 47, 764)>>, <<M(1, 4), M(2, 764)>>,
          <<ML(1, 47, 0), ML(2, 764, 776)>> }

\* A and B claim the same id in some protocol
Collide(a, b, vs) == \E v \in vs : Expand(a, v) # Absent /\ Expand(a, v) = Expand(b, v)

ToyInit == tc \in {[a |-> a, b |-> b] : a \in ToyA, b \in ToyB}
ToyNext == FALSE
ToySpec == ToyInit /\ [][ToyNext]_tc

ToyVersions == ToyFrom \cup {5, 46, 48, 763, 765, 775}
MsJson(ms) == [i \in DOMAIN ms |-> [id |-> ms[i][1], from |-> ms[i][2], last |-> ms[i][3]]]
EmitToy == PrintT(<<"TOY", ToJson([a |-> MsJson(tc.a), b |-> MsJson(tc.b)])>>)

\* the two definitions agree on every well-formed list, and a well-formed list never
\* lets two of its mappings hold at once
TwoDefinitionsAgree ==
    Valid(tc.a) => \A v \in ToyVersions :
        /\ Expand(tc.a, v) = ExpandAlt(tc.a, v)
        /\ Cardinality({i \in 1..Len(tc.a) : Holds(tc.a, i, v)}) <= 1
=============================================================================
