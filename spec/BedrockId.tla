------------------------------ MODULE BedrockId ------------------------------
(* C40 -- Bedrock players get valid, stable Java identities.

   Names are sequences of Unicode code points.  The Java profile name of a Bedrock
   player is JavaName(Format(fmt, gamertag)); it must be Valid: 1..16 characters out of
   A-Z a-z 0-9 _ .  JavaName is the reference normalisation (each code point itself if
   allowed, else "_"; cut at 16; empty -> "_").  TLC checks on every gamertag over a
   hostile alphabet (letters, digit, "_", space, ".", e-acute, an emoji, NUL, case-folding
   lookalikes of s / k / i) of length
   <= MaxShort and on long ones (15..18) under every format that the result is Valid,
   that JavaName is idempotent and leaves Valid names alone; a normalisation that cuts
   at 17 must violate.  The inputs are exported.

   UUIDs are 16 bytes; RFC 4122 means variant bits 10 and a version nibble 1..5. *)
EXTENDS Integers, Sequences, FiniteSets, TLC, Json

CONSTANTS MaxShort,   \* exhaustive up to this gamertag length
          Cut         \* 16; 17 for the broken variant

Allowed(r) == (r >= 97 /\ r <= 122) \/ (r >= 65 /\ r <= 90) \/ (r >= 48 /\ r <= 57) \/ r = 95
Valid(n0) == LET n == n0 IN Len(n) >= 1 /\ Len(n) <= 16 /\ \A i \in 1..Len(n) : Allowed(n[i])
JavaName(s0) == LET s == s0
                    k == IF Len(s) < Cut THEN Len(s) ELSE Cut
                IN IF k = 0 THEN <<95>> ELSE [i \in 1..k |-> IF Allowed(s[i]) THEN s[i] ELSE 95]

\* ... and the code points that Unicode case folding identifies with ASCII letters:
\* U+017F long s, U+212A Kelvin sign, U+0130 dotted capital I, U+0131 dotless i
Alphabet == {97, 90, 53, 95, 32, 46, 233, 128512, 0, 383, 8490, 304, 305}
\* formats as prefix / suffix around %s; "" means the gamertag is used as it is
Formats == {[pre |-> <<>>, suf |-> <<>>], [pre |-> <<46>>, suf |-> <<>>], [pre |-> <<95>>, suf |-> <<>>],
            [pre |-> <<42>>, suf |-> <<95, 98, 101>>]}
Format(f, tag) == f.pre \o tag \o f.suf

RECURSIVE Tags(_)
Tags(n) == IF n = 0 THEN {<<>>} ELSE LET T == Tags(n - 1) IN T \cup {Append(t, a) : t \in {x \in T : Len(x) = n - 1}, a \in Alphabet}
\* long gamertags: a filler with one hostile character at the cut
Long == {[i \in 1..n |-> IF i = k THEN a ELSE 97] : n \in 12..18, k \in {1, 13, 15, 16, 17}, a \in {97, 32, 128512, 383, 8490}}

VARIABLES tag, f
Init == tag \in Tags(MaxShort) \cup Long /\ f \in Formats
Next == UNCHANGED <<tag, f>>
Spec == Init /\ [][Next]_<<tag, f>>

Name == JavaName(Format(f, tag))
AlwaysValid == Valid(Name)
Idempotent == JavaName(Name) = Name
KeepsValid == Valid(Format(f, tag)) => Name = Format(f, tag)
Emit == PrintT(<<"NAME", ToJson([pre |-> f.pre, suf |-> f.suf, tag |-> tag])>>)

RFC4122(u0) == LET u == u0 IN /\ Len(u) = 16
                              /\ u[9] \div 64 = 2                     \* variant 10xx xxxx
                              /\ u[7] \div 16 \in 1..5                \* version
=============================================================================
