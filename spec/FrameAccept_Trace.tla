------------------------- MODULE FrameAccept_Trace -------------------------
(* Judges what the real codec.Decoder did on byte streams (harness/c02).

   {"ev":"reset","dir","thr","total","src"}   a new decoder (direction, compression threshold or -1)
                                              on a finite stream of total bytes, all available at once
   {"ev":"frame","head","avail","zoff","zlen","z":{"ok","n","trail"},"phead"}
        the frame at the decoder's position as the harness' own parser sees it: first <= 16 bytes,
        bytes left in the stream, where it took the zlib body from and what Go's compress/zlib
        made of it (complete + checksum ok, bytes produced, bytes behind the stream end), and the
        first bytes of the inflated data.  Frames that yield nothing are logged one by one
        until a frame that must yield, reject or is incomplete.
   {"ev":"decode","res","plen","pis","alloc"}
        the real Decode() call covering the frames logged since the last decode:
        res = payload | error | panic | hang; payload length; pis = which bytes the payload
        equals ("raw": the bytes in the frame, "inflated": Go's inflation, "other");
        alloc = bytes allocated during the call.

   A "frame" line only has to be consistent with the spec's own parse of the head bytes
   (a mismatch is a harness error, not a verdict); the "decode" line carries the verdict. *)
EXTENDS FrameAccept, TraceLib

CONSTANT Diagnose   \* FALSE: a forbidden decode line rejects the trace.  TRUE (second pass after a
                    \* rejection): such lines are printed as <<"BAD", line>> and the trace goes on,
                    \* so that one pass lists every forbidden outcome.

VARIABLE st   \* [dir, thr, avail, skips, dead, exp]; exp = pending verdict (kind "none": nothing pending)

None == V("none", 0, 0, 0, TRUE, FALSE, FALSE, 0) @@ [pidok |-> TRUE]
Slack == 524288      \* zlib reader state, buffers, error values

TReset == /\ IsEv("reset")
          /\ st' = [dir |-> Rec.dir, thr |-> Rec.thr, avail |-> Rec.total, skips |-> 0,
                    dead |-> FALSE, exp |-> None]
          /\ UNCHANGED r

\* the packet id VarInt at the front of a payload parses (else the decoder may fail later on)
PidOK(f, head, phead) ==
    IF f.kind = "raw" THEN DecVarInt(SubSeq(head, f.off + 1, Min2(Len(head), f.off + Min2(5, f.plen)))).ok
    ELSE IF f.kind = "inflated" THEN DecVarInt(phead).ok
    ELSE TRUE

TFrame == /\ IsEv("frame")
          /\ ~st.dead /\ st.exp.kind = "none"
          /\ Rec.avail = st.avail
          /\ Len(Rec.head) = Min2(16, Rec.avail)
          /\ LET f == Frame(st.dir, st.thr, Rec.head, Rec.avail, Rec.z) IN
               /\ f.inflOK => (Rec.zoff = ZRegion(Rec.head).off /\ Rec.zlen = ZRegion(Rec.head).len)
               /\ IF f.kind = "skip"
                    THEN st' = [st EXCEPT !.avail = @ - f.used, !.skips = @ + 1]
                    ELSE st' = [st EXCEPT !.exp = f @@ [pidok |-> PidOK(f, Rec.head, Rec.phead)]]
          /\ UNCHANGED r

TDecode == /\ IsEv("decode")
           /\ st.exp.kind # "none"
           /\ LET f == st.exp IN
                /\ IF /\ Rec.res \in {"payload", "error"}                    \* never a panic, never a hang
                      /\ Rec.alloc <= 2 * f.need + Slack                     \* no memory for frames it must refuse
                      /\ f.judged =>
                           CASE f.kind \in {"raw", "inflated"} /\ f.pidok ->
                                  Rec.res = "payload" /\ Rec.pis = f.kind /\ Rec.plen = f.plen
                             [] f.kind \in {"reject", "incomplete"} -> Rec.res = "error"
                             [] OTHER -> TRUE
                   THEN TRUE
                   ELSE Diagnose /\ PrintT(<<"BAD", l>>)
                /\ IF Rec.res = "payload" /\ f.kind \in {"raw", "inflated"}
                     THEN st' = [st EXCEPT !.avail = @ - f.used, !.skips = 0, !.exp = None]
                     ELSE st' = [st EXCEPT !.dead = TRUE, !.exp = None]
           /\ UNCHANGED r

TNext == TReset \/ TFrame \/ TDecode
TSpec == /\ r = 0 /\ CursorInit
         /\ st = [dir |-> "sb", thr |-> -1, avail |-> 0, skips |-> 0, dead |-> TRUE, exp |-> None]
         /\ [][TNext]_<<r, st, l>>
=============================================================================
