--------------------------- MODULE Registry_Trace ---------------------------
(* Judges what the real registries answered (harness/c06):

   {"ev":"versions","supported":[4,5,47,...],"min":4,"max":776}
   {"ev":"gomc","proto":764,"cells":[{"state","dir","name","id"},...]}   go-mc's generated table
   {"ev":"table","state","dir","proto","reports","byType":[{"t","id"}],"byId":[{"t","id"}]}
        one protocol table seen through PacketID(of) / CreatePacket(id)          -> Bijective
   {"ev":"cell","state","dir","proto","t","id"}   id (or -1) of a type gate registers in this
        state and direction                                                       -> SharedAgree
   {"ev":"ctable"/"ccell", ...}   the same, for tables handed out by concurrent / alternating lookups
   {"ev":"unknown","state","dir","proto","none","byType","byId","reports"}
        resolution of a protocol gate does not know                               -> Fallback
   {"ev":"reg","a":[{id,from,last}],"b":[...],"panicA","panicB","tabA":[{p,id}],"tabB","inv":[{p,id,w}]}
        a toy case replayed into a fresh real PacketRegistry.Register             -> Expand *)
EXTENDS Registry, TraceLib

VARIABLES vers,     \* supported protocols, ascending (from the "versions" line)
          gm,       \* go-mc cells
          minTab    \* "state/dir" -> [byType, byId] of the lowest supported protocol

tvars == <<tc, vers, gm, minTab, l>>

(* Every line is consumed; a line whose judgement fails is remembered (TLC register 2, the
   trace is one linear behaviour, -workers 1) and printed so that one run reports all of them.  The run
   is accepted iff all lines were consumed and none was remembered (POSTCONDITION AllGood). *)
Judge(P) == IF P THEN TRUE ELSE PrintT(<<"BAD", l>>) /\ TLCSet(2, TLCGet(2) + 1)
AllGood == /\ Accepted
           /\ PrintT(<<"NBAD", TLCGet(2)>>)
           /\ TLCGet(2) = 0

SD(r) == r.state \o "/" \o r.dir

Ascending(s) == \A i \in 1..(Len(s) - 1) : s[i] < s[i + 1]

TVersions ==
    /\ IsEv("versions")
    /\ Len(Rec.supported) > 0 /\ Ascending(Rec.supported)
    /\ Rec.min = Rec.supported[1] /\ Rec.max = Rec.supported[Len(Rec.supported)]
    /\ vers' = Rec.supported
    /\ UNCHANGED <<tc, gm, minTab>>

TGoMc == IsEv("gomc") /\ Rec.proto = GoMcProto /\ gm' = Rec.cells /\ UNCHANGED <<tc, vers, minTab>>

TTable ==
    /\ IsEv("table")
    /\ Judge(Rec.reports = Rec.proto /\ Bijective(Rec.byType, Rec.byId))
    /\ minTab' = IF Rec.proto = vers[1]
                 THEN (SD(Rec) :> [byType |-> Rec.byType, byId |-> Rec.byId]) @@ minTab
                 ELSE minTab
    /\ UNCHANGED <<tc, vers, gm>>

TCell ==
    /\ IsEv("cell")
    /\ Judge(/\ RefAgree(Rec.state, Rec.dir, Rec.t, Rec.proto, Rec.id)
             /\ GoMcAgree(gm, Rec.state, Rec.dir, Rec.t, Rec.proto, Rec.id))
    /\ UNCHANGED <<tc, vers, gm, minTab>>

(* The same two judgements on what CONCURRENT lookups were handed: several goroutines resolve
   different protocols of one state and direction at the same moment (and one goroutine
   alternates between protocols); for every distinct (requested protocol, table handed out)
   pair the table is read as above and judged as the table of the REQUESTED protocol. *)
TCTable ==
    /\ IsEv("ctable")
    /\ Judge(Rec.reports = Rec.proto /\ Bijective(Rec.byType, Rec.byId))
    /\ UNCHANGED <<tc, vers, gm, minTab>>

TCCell ==
    /\ IsEv("ccell")
    /\ Judge(/\ RefAgree(Rec.state, Rec.dir, Rec.t, Rec.proto, Rec.id)
             /\ GoMcAgree(gm, Rec.state, Rec.dir, Rec.t, Rec.proto, Rec.id))
    /\ UNCHANGED <<tc, vers, gm, minTab>>

(* Fallback: a protocol that is not supported resolves to the table of the lowest supported
   protocol.  The play registries switch the fallback off (as the reference does), so there
   "no table" is accepted as well; a table, if one is returned, must still be the lowest one. *)
TUnknown ==
    /\ IsEv("unknown")
    /\ \A i \in DOMAIN vers : vers[i] # Rec.proto
    /\ Judge(IF Rec.none THEN Rec.state = "play"
             ELSE /\ SD(Rec) \in DOMAIN minTab
                  /\ Rec.reports = vers[1]
                  /\ Rec.byType = minTab[SD(Rec)].byType
                  /\ Rec.byId = minTab[SD(Rec)].byId)
    /\ UNCHANGED <<tc, vers, gm, minTab>>

\* ------------------------------------------------------------------ toy replay
Ms(js) == [i \in DOMAIN js |-> <<js[i].id, js[i].from, js[i].last>>]
VersSet == {vers[i] : i \in DOMAIN vers}
Table(ms) == {[p |-> v, id |-> Expand(ms, v)] : v \in {w \in VersSet : Expand(ms, w) # Absent}}

TReg ==
    /\ IsEv("reg")
    /\ LET a == Ms(Rec.a)  b == Ms(Rec.b)
           panic == Rec.panicA \/ Rec.panicB
       IN Judge(
          /\ (Valid(a) /\ Valid(b) /\ ~Collide(a, b, VersSet)) => ~panic
          \* two types that claim one id in one protocol must be refused
          /\ (Valid(a) /\ Valid(b) /\ Collide(a, b, VersSet)) => Rec.panicB
          /\ ~panic =>
                /\ SeqToSet(Rec.tabA) = Table(a)
                /\ SeqToSet(Rec.tabB) = Table(b)
                /\ SeqToSet(Rec.inv) = {[p |-> x.p, id |-> x.id, w |-> "A"] : x \in Table(a)}
                                       \cup {[p |-> x.p, id |-> x.id, w |-> "B"] : x \in Table(b)})
    /\ UNCHANGED <<tc, vers, gm, minTab>>

TNext == TVersions \/ TGoMc \/ TTable \/ TCell \/ TCTable \/ TCCell \/ TUnknown \/ TReg
TSpec == /\ tc = [a |-> <<>>, b |-> <<>>] /\ vers = <<>> /\ gm = <<>>
         /\ minTab = ("none" :> [byType |-> <<>>, byId |-> <<>>])
         /\ CursorInit /\ TLCSet(2, 0) /\ [][TNext]_tvars
=============================================================================
