-------------------------- MODULE Forwarding_Trace --------------------------
(* Lines (byte strings as int arrays):
   {"ev":"neg","proto":p,"key":"none"|"v1"|"v2","got":[256 ints]}
        the real findForwardingVersion for requested = 0..255
   {"ev":"fwd","src":"live"|"shim","proto":p,"key":k,"req":r (-1: no single version byte),
    "macok":bool        HMAC-SHA256(secret, data after the first 32 bytes) = first 32 bytes (crypto/hmac)
    "macwrong":bool     the same under a different secret (must not verify); "secret" = the configured secret,
                        used byte for byte (leading / trailing white space included)
    "data":[..]         the bytes after the signature
    "want":{"ip","uuid","name","props":[{name,value,sig}],"key":{expiry:[4 limbs],pub,sig,holder}}
                        what the player really is (harness knowledge; key only for shim players)
    "parsed":bool,"p":{"version","ip","uuid","name","props","key":{..},"rest":n}
                        the result of the harness parser written after Paper's VelocityProxy }
   {"ev":"noreq","proto":p,"connected":bool,"otherchannel":bool,"otheranswered":bool}
        the backend sent login success without ever requesting forwarding; connected = the proxy
        reported this backend as the player's current server afterwards; otheranswered = before that a
        proxy plugin had answered a login plugin request of the backend on some other channel *)
EXTENDS Forwarding, TraceLib

CONSTANT Collect

NoKey == [expiry |-> <<0, 0, 0, 0>>, pub |-> <<>>, sig |-> <<>>, holder |-> <<>>]

NegOK == Rec.got = [i \in 1..256 |-> Negotiate(i - 1, Rec.proto, Rec.key)]

FwdOK ==
    LET v == Negotiate(Effective(Rec.req), Rec.proto, Rec.key)
        w == Rec.want
    IN /\ Rec.macok /\ ~Rec.macwrong
       /\ Rec.data = Payload(v, w.ip, w.uuid, w.name, w.props, w.key)
       /\ Rec.parsed
       /\ Rec.p.version = v /\ Rec.p.ip = w.ip /\ Rec.p.uuid = w.uuid /\ Rec.p.name = w.name
       /\ Rec.p.props = w.props /\ Rec.p.rest = 0
       /\ Rec.p.key = (IF v \in {WithKey, WithKeyV2}
                       THEN (IF v = WithKeyV2 THEN w.key ELSE [w.key EXCEPT !.holder = <<>>])
                       ELSE NoKey)

Allowed == CASE Rec.ev = "neg" -> NegOK
             [] Rec.ev = "fwd" -> FwdOK
             [] Rec.ev = "noreq" -> ~Rec.connected

TLine == /\ l <= Len(Trace) /\ l' = l + 1
         /\ IF Allowed THEN TRUE ELSE (Collect /\ PrintT(<<"REJECT", l>>))
         /\ UNCHANGED vars
TSpec == req = 0 /\ proto = 0 /\ key = "none" /\ CursorInit /\ [][TLine]_<<vars, l>>
=============================================================================
