----------------------------- MODULE LiveConfig -----------------------------
(* C35 -- live config changes are atomic, validated, versioned by content and
   compare-and-swap.

   Abstract object: one current configuration `cur` (a content), its version
   Ver(cur) with Ver injective (the model uses the content itself as version).
   A content is [r |-> routes id, o |-> id of everything else].  Candidates
   come from a named pool (Pool) that the harness realises on real configs.

   Threads run small programs of operations:
     [op |-> "snap"]                              ConfigSnapshot(): remember the version
     [op |-> "apply",   c |-> name]               ApplyLiveConfig(cand)
     [op |-> "applyif", c |-> name, e |-> exp]    ApplyLiveConfigIfVersion(cand, exp) with
          exp = "mine" (the version this thread saw last: its last snapshot or
          the version it was started with), "junk" (a string that is no version).

   With Atomic = TRUE every operation is one atomic step (what reloadMu gives).
   With Atomic = FALSE a conditional apply is split at the gate point that the
   instrumented code has between the version check and the commit
   (lc.checked): the CAS property then fails in the model (non-vacuity), and
   the finer interleavings are exported as schedules -- the real mutex makes
   them infeasible, which the harness observes and skips. *)
EXTENDS LiveConfigBase, Naturals, Sequences, FiniteSets, TLC, Json

CONSTANTS Threads,    \* e.g. {"t1", "t2"}
          Cands,      \* candidate names used in programs, e.g. {"A", "B", "same", "inv", "other"}
          Atomic,     \* BOOLEAN
          Export      \* BOOLEAN: print every complete behaviour as a schedule

VARIABLES prog, cur, pc, mine, chk, applied, res, last, h
vars == <<prog, cur, pc, mine, chk, applied, res, last, h>>
View == <<prog, cur, pc, mine, chk, applied, res, last>>

Snp == [op |-> "snap"]
Ap(c) == [op |-> "apply", c |-> c]
ApIf(c, e) == [op |-> "applyif", c |-> c, e |-> e]
\* the programs a thread may run
Programs == {<<Snp, ApIf(c, "mine")>> : c \in Cands}        \* read the version, then CAS (fresh unless overtaken)
            \cup {<<Ap(c)>> : c \in Cands}                  \* unconditional
            \cup {<<ApIf(c, "mine")>> : c \in Cands}        \* CAS on the version known at start (may be stale)
            \cup {<<Ap(c), Snp>> : c \in Cands}
            \cup {<<ApIf("A", "junk")>>, <<Snp>>}

Prog(t) == prog[t]
Done(t) == pc[t] > Len(Prog(t))
Op(t) == Prog(t)[pc[t]]

Init == /\ prog \in [Threads -> Programs]
        /\ cur = Init0
        /\ pc = [t \in Threads |-> 1]
        /\ mine = [t \in Threads |-> Init0]       \* every thread starts knowing the initial version
        /\ chk = [t \in Threads |-> "no"]         \* "no" | "ok" (version check passed, not yet committed)
        /\ applied = {}
        /\ res = [t \in Threads |-> <<>>]
        /\ last = [t |-> "none", changed |-> FALSE, cond |-> FALSE, match |-> FALSE]
        /\ h = <<>>

Adv(t) == pc' = [pc EXCEPT ![t] = @ + 1] /\ h' = Append(h, t) /\ UNCHANGED prog
Stay(t) == UNCHANGED <<pc, prog>> /\ h' = Append(h, t)
Out(t, code) == res' = [res EXCEPT ![t] = Append(@, code)]

\* the decision taken inside the critical section once the precondition holds
Decide(c) == IF c = cur THEN "unchanged"
             ELSE IF ~Valid(c) THEN "invalid"
             ELSE IF ~RoutesOnly(cur, c) THEN "unsupported"
             ELSE "applied"

Commit(t, c, cond, match) ==
    LET code == Decide(c) IN
    /\ Out(t, code)
    /\ IF code = "applied"
         THEN cur' = c /\ applied' = applied \cup {c}
         ELSE UNCHANGED <<cur, applied>>
    /\ last' = [t |-> t, changed |-> (code = "applied"), cond |-> cond, match |-> match]

Snap(t) == /\ ~Done(t) /\ Op(t).op = "snap" /\ chk[t] = "no"
           /\ mine' = [mine EXCEPT ![t] = cur]
           /\ Out(t, "snap") /\ Adv(t)
           /\ last' = [t |-> t, changed |-> FALSE, cond |-> FALSE, match |-> FALSE]
           /\ UNCHANGED <<cur, chk, applied>>

Apply(t) == /\ ~Done(t) /\ Op(t).op = "apply" /\ chk[t] = "no"
            /\ Commit(t, Pool[Op(t).c], FALSE, FALSE) /\ Adv(t)
            /\ UNCHANGED <<mine, chk>>

Expected(t) == IF Op(t).e = "mine" THEN mine[t] ELSE [r |-> "junk", o |-> "junk"]

\* conditional apply, atomic: check and commit in one step
ApplyIf(t) == /\ Atomic /\ ~Done(t) /\ Op(t).op = "applyif"
              /\ IF Expected(t) = cur
                   THEN Commit(t, Pool[Op(t).c], TRUE, TRUE)
                   ELSE /\ Out(t, "precondition_failed") /\ UNCHANGED <<cur, applied>>
                        /\ last' = [t |-> t, changed |-> FALSE, cond |-> TRUE, match |-> FALSE]
              /\ Adv(t) /\ UNCHANGED <<mine, chk>>

\* the same split at the lc.checked gate (mutex ignored)
Check(t) == /\ ~Atomic /\ ~Done(t) /\ Op(t).op = "applyif" /\ chk[t] = "no"
            /\ IF Expected(t) = cur
                 THEN chk' = [chk EXCEPT ![t] = "ok"] /\ Stay(t) /\ UNCHANGED res
                 ELSE Out(t, "precondition_failed") /\ Adv(t) /\ UNCHANGED chk
            /\ last' = [t |-> t, changed |-> FALSE, cond |-> TRUE, match |-> FALSE]
            /\ UNCHANGED <<cur, mine, applied>>
CommitChecked(t) == /\ ~Atomic /\ ~Done(t) /\ chk[t] = "ok"
                    /\ Commit(t, Pool[Op(t).c], TRUE, Expected(t) = cur)
                    /\ chk' = [chk EXCEPT ![t] = "no"] /\ Adv(t)
                    /\ UNCHANGED mine

Next == \E t \in Threads : Snap(t) \/ Apply(t) \/ ApplyIf(t) \/ Check(t) \/ CommitChecked(t)
Spec == Init /\ [][Next]_vars

Quiescent == \A t \in Threads : Done(t)

----------------------------------------------------------------------------
(* The property on the model. *)
\* every published configuration is the initial one or one complete accepted candidate:
\* valid, and differing from what it replaced in Lite routes only
Published == /\ cur \in {Init0} \cup applied
             /\ Valid(cur) /\ cur.o = Init0.o
             /\ \A c \in applied : Valid(c) /\ c.o = Init0.o
\* compare-and-swap: a conditional apply changes the configuration only if its expected
\* version is the current one at that moment
CAS == last.changed /\ last.cond => last.match
\* rejected candidates leave everything unchanged (action property)
RejectedUnchanged == [][cur' # cur => last'.changed]_vars
TypeOK == /\ cur \in {Pool[n] : n \in DOMAIN Pool}
          /\ \A t \in Threads : pc[t] \in 1..(Len(Prog(t)) + 1)

Emit == (Export /\ Quiescent) => PrintT(<<"SCHED", ToJson([prog |-> prog, sched |-> h])>>)
=============================================================================
