SPECIFICATION Spec
CONSTANTS NoAuth = TRUE
INVARIANTS DecoderMeetsStatement
