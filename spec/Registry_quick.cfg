SPECIFICATION ToySpec
CONSTANTS
  MaxLen = 2
  ToyFrom = {4, 47, 764, 776}
  ToyIds = {1, 2}
  ToyLast = {0, 47, 764, 776}
INVARIANTS TwoDefinitionsAgree EmitToy RefSane
