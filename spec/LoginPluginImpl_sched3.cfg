SPECIFICATION Spec
CONSTANTS
  Handlers = {"h1", "h2"}
  MaxPre = 1
  MaxResp = 3
  Ids = {1, 2, 3, 4}
  Chain = TRUE
  ClearOnRun = TRUE
  Export = TRUE
INVARIANTS Emit
