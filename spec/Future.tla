------------------------------ MODULE Future ------------------------------
(* C42 -- futures complete once and run every callback exactly once.

   Code-shaped model of pkg/internal/future: one action per step of
   ThenAccept / Complete between the gate points of the instrumented code.
   With Locked = TRUE the steps of one call happen inside the critical section
   of the future's mutex (what the code does); with Locked = FALSE the mutex is
   ignored: that lock-agnostic variant (a) shows the invariants are not vacuous
   (TLC finds the lost-callback / double-run interleavings) and (b) enumerates
   every interleaving of gate points, which the harness then forces on the real
   code (infeasible ones are skipped there).

   A thread t executes one call Prog[t]:
     [op |-> "accept", cb |-> c]      f.ThenAccept(c)
     [op |-> "complete", v |-> v]     f.Complete(v)
*)
EXTENDS Naturals, Sequences, FiniteSets, TLC, Json

CONSTANTS Threads,      \* e.g. {"t1","t2","t3"}
          Values,       \* e.g. {1, 2}
          Locked,       \* BOOLEAN
          Export        \* BOOLEAN: print every complete behaviour as a schedule

VARIABLES prog,         \* [Threads -> call]
          pc,           \* [Threads -> step]
          lock,         \* thread holding the mutex or "none"
          completed, value, callbacks,
          ran,          \* [Threads -> Nat]  how often thread t's callback ran (cb id = t)
          saw,          \* [Threads -> Values \cup {0}]
          seen,         \* per thread: what `completed` was when it tested it
          h             \* history of thread ids (schedule); hidden by VIEW

vars == <<prog, pc, lock, completed, value, callbacks, ran, saw, seen, h>>
View == <<prog, pc, lock, completed, value, callbacks, ran, saw, seen>>

Calls == [op : {"accept"}] \cup [op : {"complete"}, v : Values]

Init == /\ prog \in [Threads -> Calls]
        /\ pc = [t \in Threads |-> "start"]
        /\ lock = "none"
        /\ completed = FALSE /\ value = 0 /\ callbacks = <<>>
        /\ ran = [t \in Threads |-> 0]
        /\ saw = [t \in Threads |-> 0]
        /\ seen = [t \in Threads |-> FALSE]
        /\ h = <<>>

Go(t, to) == pc' = [pc EXCEPT ![t] = to] /\ h' = Append(h, t)
\* the last step of a call also releases the mutex (defer f.mu.Unlock())
Fin(t) == /\ Go(t, "done")
          /\ IF Locked THEN lock' = "none" ELSE UNCHANGED lock

RunCb(c, v) == /\ ran' = [ran EXCEPT ![c] = @ + 1]
               /\ saw' = [saw EXCEPT ![c] = v]

\* f.mu.Lock()
Enter(t) == /\ pc[t] = "start"
            /\ IF Locked THEN lock = "none" /\ lock' = t ELSE UNCHANGED lock
            /\ Go(t, "locked")
            /\ UNCHANGED <<prog, completed, value, callbacks, ran, saw, seen>>

\* ThenAccept: if f.completed { callback(f.value) } else { -> pending }
AcceptTest(t) == /\ pc[t] = "locked" /\ prog[t].op = "accept"
                 /\ seen' = [seen EXCEPT ![t] = completed]
                 /\ IF completed
                      THEN RunCb(t, value) /\ Fin(t)
                      ELSE UNCHANGED <<ran, saw, lock>> /\ Go(t, "pending")
                 /\ UNCHANGED <<prog, completed, value, callbacks>>

\* f.callback = append(f.callback, callback)
AcceptAppend(t) == /\ pc[t] = "pending"
                   /\ callbacks' = Append(callbacks, t)
                   /\ Fin(t)
                   /\ UNCHANGED <<prog, completed, value, ran, saw, seen>>

\* Complete: if f.completed { return }
CompleteTest(t) == /\ pc[t] = "locked" /\ prog[t].op = "complete"
                   /\ seen' = [seen EXCEPT ![t] = completed]
                   /\ IF completed THEN Fin(t) ELSE Go(t, "first") /\ UNCHANGED lock
                   /\ UNCHANGED <<prog, completed, value, callbacks, ran, saw>>

\* f.value = value; f.completed = true
CompleteSet(t) == /\ pc[t] = "first"
                  /\ value' = prog[t].v /\ completed' = TRUE
                  /\ Go(t, "run")
                  /\ UNCHANGED <<prog, lock, callbacks, ran, saw, seen>>

\* for _, fn := range f.callback { fn(value) }   (the slice header read here)
RECURSIVE Bump(_, _)
Bump(r, s) == IF s = <<>> THEN r ELSE Bump([r EXCEPT ![Head(s)] = @ + 1], Tail(s))
CompleteRun(t) == /\ pc[t] = "run"
                  /\ ran' = Bump(ran, callbacks)
                  /\ saw' = [c \in Threads |->
                               IF \E i \in 1..Len(callbacks) : callbacks[i] = c
                                 THEN prog[t].v ELSE saw[c]]
                  /\ Fin(t)
                  /\ UNCHANGED <<prog, completed, value, callbacks, seen>>

Next == \E t \in Threads :
           \/ Enter(t) \/ AcceptTest(t) \/ AcceptAppend(t)
           \/ CompleteTest(t) \/ CompleteSet(t) \/ CompleteRun(t)

Spec == Init /\ [][Next]_vars

Quiescent == \A t \in Threads : pc[t] = "done"

----------------------------------------------------------------------------
(* The property, on the model's state. *)

AtMostOnce == \A t \in Threads : ran[t] <= 1

\* a callback that ran saw the future's (fixed) value
SawValue == \A t \in Threads : ran[t] > 0 => (completed /\ saw[t] = value)

\* at quiescence: if any Complete was called, every registered callback ran once
ExactlyOnce ==
    Quiescent /\ (\E t \in Threads : prog[t].op = "complete")
       => \A t \in Threads : prog[t].op = "accept" => ran[t] = 1

\* the value is fixed by the first completion
ValueFixed == [][completed => (completed' /\ value' = value)]_vars

TypeOK == /\ completed \in BOOLEAN
          /\ value \in Values \cup {0}
          /\ \A t \in Threads : ran[t] \in 0..3

----------------------------------------------------------------------------
(* Schedule export: each complete behaviour once (h makes them distinct). *)
Emit == (Export /\ Quiescent) =>
           PrintT(<<"SCHED", ToJson([prog |-> prog, sched |-> h])>>)
=============================================================================
