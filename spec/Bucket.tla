------------------------------- MODULE Bucket -------------------------------
(* C34 -- quota buckets: an address belongs to the /24 of its IPv4 address (also when
   it is written as an IPv4-mapped IPv6 address) or to the /64 of its IPv6 address; a zone
   does not matter.  Addresses are [fam, d (bytes), zone].

   The model pairs boundary-structured addresses (a base with one bit flipped around the
   /24 and /64 boundaries, plain / mapped / zoned) and exports every pair with the
   verdict "same bucket"; TLC also checks that bucketing by masking bytes equals
   bucketing by comparing the leading bits. *)
EXTENDS Integers, Sequences, FiniteSets, TLC, Json

MapTag == <<0, 0, 0, 0, 0, 0, 0, 0, 0, 0, 255, 255>>
IsMapped(a0) == LET a == a0 IN a.fam = 6 /\ SubSeq(a.d, 1, 12) = MapTag
Norm(a0) == LET a == a0 IN IF IsMapped(a) THEN [fam |-> 4, d |-> SubSeq(a.d, 13, 16)] ELSE [fam |-> a.fam, d |-> a.d]
\* the bucket: family and the leading 3 / 8 bytes
BucketOf(a0) == LET a == Norm(a0) IN [fam |-> a.fam, d |-> SubSeq(a.d, 1, IF a.fam = 4 THEN 3 ELSE 8)]
SameBucket(a, b) == BucketOf(a) = BucketOf(b)

\* the same by bits
BitOf(d, k) == (d[(k - 1) \div 8 + 1] \div (2 ^ (7 - ((k - 1) % 8)))) % 2
SameBucketBits(a0, b0) == LET a == Norm(a0)
                              b == Norm(b0)
                          IN a.fam = b.fam /\ \A k \in 1..(IF a.fam = 4 THEN 24 ELSE 64) : BitOf(a.d, k) = BitOf(b.d, k)

Flip(b, k) == LET i == (k - 1) \div 8 + 1
                  w == 2 ^ (7 - ((k - 1) % 8))
              IN [b EXCEPT ![i] = IF BitOf(b, k) = 1 THEN @ - w ELSE @ + w]
Fl(b, k) == IF k = 0 THEN b ELSE Flip(b, k)
Base4 == <<203, 0, 113, 77>>
Base6 == <<32, 1, 13, 184, 0, 66, 0, 7, 171, 205, 0, 0, 18, 52, 86, 120>>
Addrs == {[fam |-> 4, d |-> Fl(Base4, k), zone |-> FALSE] : k \in {0, 1, 23, 24, 25, 32}}
         \cup {[fam |-> 6, d |-> MapTag \o Fl(Base4, k), zone |-> z] : k \in {0, 24, 25}, z \in BOOLEAN}
         \cup {[fam |-> 6, d |-> Fl(Base6, k), zone |-> z] : k \in {0, 1, 63, 64, 65, 128}, z \in BOOLEAN}
         \cup {[fam |-> 6, d |-> <<0, 0, 0, 0, 0, 0, 0, 0, 0, 0, 0, 0, 203, 0, 113, 77>>, zone |-> FALSE]}

VARIABLES a, b
Init == a \in Addrs /\ b \in Addrs
Next == UNCHANGED <<a, b>>
Spec == Init /\ [][Next]_<<a, b>>

BytesEqBits == SameBucket(a, b) = SameBucketBits(a, b)
ZoneIrrelevant == SameBucket(a, [a EXCEPT !.zone = ~@])
MappedIsV4 == IsMapped(a) => SameBucket(a, [fam |-> 4, d |-> SubSeq(a.d, 13, 16), zone |-> FALSE])
Emit == PrintT(<<"PAIR", ToJson([a |-> a, b |-> b, same |-> SameBucket(a, b)])>>)
=============================================================================
