------------------------- MODULE CommandTree_Trace -------------------------
(* Judges what the real backend play session handler wrote to the player for an
   AvailableCommands packet from the backend:
     {"ev":"merge","proto":n,"pid":n,"perms":[..],
      "proxy":[input nodes...]     the proxy's command tree as registered on the command manager
      "backend":[input nodes...]   the tree inside the backend's packet
      "got":[output nodes...]}     the tree decoded (independently) from the packet the player received
   Arrays of nodes are turned into sets; the received forest must equal Merge(...).
     {"ev":"begin","mode"} {"ev":"returned","bytes"} | {"ev":"crashed"}
   frame the cyclic-redirect probe, which runs in its own process. *)
EXTENDS CommandTree, TraceLib

tv == <<vars, l>>

RECURSIVE InNode(_), OutNode(_)
InNode(t) == [name |-> t.name, kind |-> t.kind, exec |-> t.exec, req |-> t.req, rd |-> t.rd,
              ch |-> {InNode(t.ch[i]) : i \in 1..Len(t.ch)}]
OutNode(t) == [name |-> t.name, kind |-> t.kind, exec |-> t.exec,
               ch |-> {OutNode(t.ch[i]) : i \in 1..Len(t.ch)},
               rt |-> {OutNode(t.rt[i]) : i \in 1..Len(t.rt)}]
SetOf(s) == {s[i] : i \in 1..Len(s)}

\* clientbound play id of the Commands packet where the harness knows it independently
PidOK(pr, pid) == (pr \in {764, 765}) => pid = 17

TInit == CursorInit /\ Init

TMerge == /\ IsEv("merge")
          /\ LET pr == {InNode(Rec.proxy[i]) : i \in 1..Len(Rec.proxy)}
                 bk == {InNode(Rec.backend[i]) : i \in 1..Len(Rec.backend)}
                 got == {OutNode(Rec.got[i]) : i \in 1..Len(Rec.got)} IN
               /\ Len(Rec.got) = Cardinality(got)          \* no two received top-level nodes are the same
               /\ \/ got = MergeRS(bk, pr, SetOf(Rec.perms), "copy")
                  \/ got = MergeRS(bk, pr, SetOf(Rec.perms), "merged")
               /\ PidOK(Rec.proto, Rec.pid)
          /\ UNCHANGED vars

\* probe run in its own process: a proxy command with a redirect back to the root / its parent
TBegin == IsEv("begin") /\ UNCHANGED vars
TReturned == IsEv("returned") /\ Rec.bytes > 0 /\ UNCHANGED vars      \* ("crashed" has no action)

TNext == TMerge \/ TBegin \/ TReturned
TSpec == TInit /\ [][TNext]_tv
=============================================================================
