---------------------------- MODULE Login_Trace ----------------------------
(* Judges what the real proxy did on login connections (live rig).  Lines:
     {"ev":"reset","pre":..,"sess":..}
     {"ev":"step","k":..,"name":..,"tok":..,"sec":..,"got":..,"closed":bool,"registered":bool}
         one client packet and the proxy's complete reaction; registered = the user name
         was findable in the proxy's player registry after the reaction
     {"ev":"end","registered":bool,"queried":n,"sidok":bool}
         sidok = every session-server query for this user carried the server id derived
         (by the harness, independently) from the secret the client sent *)
EXTENDS Login, TraceLib

VARIABLE pend   \* the last step was a stray plugin response seen as (no reaction, still open):
                \* the proxy may have decided to close and the close may surface at the next step
tv == <<vars, pend, l>>

TInit == CursorInit /\ pend = FALSE /\ ls = "closed" /\ admitted = FALSE /\ pre = "allow" /\ sess = "ok" /\ h = <<>>

TReset == /\ IsEv("reset")
          /\ ls' = "expected" /\ admitted' = FALSE /\ h' = <<>>
          /\ pre' = Rec.pre /\ sess' = Rec.sess /\ pend' = FALSE

Pkt(r) == IF r.k = "start" THEN [k |-> "start", name |-> r.name]
          ELSE IF r.k = "enc" THEN [k |-> "enc", tok |-> r.tok, sec |-> r.sec]
          ELSE [k |-> r.k]

LateClose == /\ pend /\ Rec.closed /\ Rec.got \in {"none", "disconnect", "garbled"} /\ ~Rec.registered
             /\ ls' = "closed" /\ admitted' = admitted

TStep == /\ IsEv("step") /\ ls \in {"expected", "encSent"}
         /\ pend' = (Rec.k = "plugin" /\ Rec.got = "none" /\ ~Rec.closed)
         /\ \/ LateClose
            \/ \E s2 \in {"expected", "encSent", "done", "closed"}, a2 \in BOOLEAN :
               /\ Step(ls, admitted, pre, sess, Pkt(Rec), Rec.got, Rec.closed, s2, a2)
               /\ (Rec.registered => a2)          \* never registered unless admitted
               /\ ls' = s2 /\ admitted' = a2
         /\ h' = Append(h, Pkt(Rec))
         /\ UNCHANGED <<pre, sess>>

TEnd == /\ IsEv("end")
        /\ (Rec.registered => admitted)
        /\ (admitted /\ Online(pre) => (Rec.queried >= 1 /\ Rec.sidok))
        /\ UNCHANGED <<vars, pend>>

TNext == TReset \/ TStep \/ TEnd
TSpec == TInit /\ [][TNext]_tv
=============================================================================
