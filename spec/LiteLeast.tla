------------------------------ MODULE LiteLeast ------------------------------
(* C30 -- least-connections reads "fewest active" also while connections to the same
   backend open and close concurrently.

   Code-shaped model of the per-backend strategy counter behind TrackConnection:
     open  (IncrementConnection, under strategyCountersMu): use the counter object in the
           map or create one, add 1
     close (the returned closure, under strategyCountersMu): subtract 1; if the object
           reads 0 -- gate lb.untrack.zero -- remove it from the map (if still the one)
   Two workers open and later close a connection to backend "B"; an observer asks the
   least-connections strategy to choose between "B" and an idle backend "C" (list <<B, C>>:
   B is returned when its counter reads no more than C's, i.e. 0).

   With Locked = TRUE an open waits while a close sits between its zero test and the
   removal (the code).  With Locked = FALSE the mutex is ignored: an open can then add to
   an object that is removed right after -- the open connection is no longer counted.
   That variant must violate PickOK (non-vacuity) and enumerates the gate interleavings
   the harness forces (the infeasible ones simply block on the real mutex).

   PickOK (also the trace rule): B may be chosen only if it is not certain that a
   connection to B is open during the whole choice, i.e. unless
   #track calls returned before the choice began  >  #untrack calls begun by its end. *)
EXTENDS Integers, Sequences, FiniteSets, TLC, Json

CONSTANTS Workers, Observer, Picks, Locked, Export

VARIABLES pc, cobj, cur, myc, smu, tb, te, ub, ue, picks, lastPick, h

vars == <<pc, cobj, cur, myc, smu, tb, te, ub, ue, picks, lastPick, h>>
View == <<pc, cobj, cur, myc, smu, tb, te, ub, ue, picks, lastPick>>

Init == /\ pc = [w \in Workers |-> "idle"]
        /\ cobj = <<>> /\ cur = 0 /\ myc = [w \in Workers |-> 0]
        /\ smu = "none"
        /\ tb = 0 /\ te = 0 /\ ub = 0 /\ ue = 0
        /\ picks = 0 /\ lastPick = [b |-> "C", ok |-> TRUE] /\ h = <<>>

Free == ~Locked \/ smu = "none"
Go(w, to) == pc' = [pc EXCEPT ![w] = to] /\ h' = Append(h, w)

\* TrackConnection up to lb.track.mid (the public count is not modelled here)
Track1(w) == /\ pc[w] = "idle" /\ Go(w, "t1") /\ tb' = tb + 1
             /\ UNCHANGED <<cobj, cur, myc, smu, te, ub, ue, picks, lastPick>>
\* IncrementConnection, then the harness's own gate "hold"
Track2(w) == /\ pc[w] = "t1" /\ Free /\ Go(w, "held")
             /\ LET c == IF cur = 0 THEN Len(cobj) + 1 ELSE cur
                    objs == IF cur = 0 THEN Append(cobj, 0) ELSE cobj
                IN /\ cobj' = [objs EXCEPT ![c] = @ + 1]
                   /\ cur' = c
                   /\ myc' = [myc EXCEPT ![w] = c]
             /\ te' = te + 1
             /\ UNCHANGED <<smu, tb, ub, ue, picks, lastPick>>
\* the closure: lock, subtract 1; zero -> park at lb.untrack.zero holding the mutex,
\* otherwise unlock and park at lb.untrack.mid
Untrack1(w) == /\ pc[w] = "held" /\ Free
               /\ ub' = ub + 1
               /\ cobj' = [cobj EXCEPT ![myc[w]] = @ - 1]
               /\ IF cobj[myc[w]] = 1 THEN Go(w, "uz") /\ smu' = w
                  ELSE Go(w, "u1") /\ UNCHANGED smu
               /\ UNCHANGED <<cur, myc, tb, te, ue, picks, lastPick>>
\* CompareAndDelete, unlock, park at lb.untrack.mid
UntrackDel(w) == /\ pc[w] = "uz" /\ Go(w, "u1")
                 /\ cur' = IF cur = myc[w] THEN 0 ELSE cur
                 /\ smu' = "none"
                 /\ UNCHANGED <<cobj, myc, tb, te, ub, ue, picks, lastPick>>
Untrack2(w) == /\ pc[w] = "u1" /\ Go(w, "done") /\ ue' = ue + 1
               /\ UNCHANGED <<cobj, cur, myc, smu, tb, te, ub, picks, lastPick>>

PickRule(b, teBegin, ubEnd) == b = "B" => teBegin - ubEnd <= 0
Pick == /\ picks < Picks
        /\ LET n == IF cur = 0 THEN 0 ELSE cobj[cur]
               b == IF n <= 0 THEN "B" ELSE "C"
           IN lastPick' = [b |-> b, ok |-> PickRule(b, te, ub)]
        /\ picks' = picks + 1
        /\ h' = Append(h, Observer)
        /\ UNCHANGED <<pc, cobj, cur, myc, smu, tb, te, ub, ue>>

Next == Pick \/ \E w \in Workers : Track1(w) \/ Track2(w) \/ Untrack1(w) \/ UntrackDel(w) \/ Untrack2(w)
Spec == Init /\ [][Next]_vars

PickOK == lastPick.ok
AllDone == (\A w \in Workers : pc[w] = "done") /\ picks = Picks
Emit == (Export /\ AllDone) => PrintT(<<"SCHED", ToJson(h)>>)
=============================================================================
