SPECIFICATION Spec
CONSTANTS
  MaxDev = 2
  Export = TRUE
INVARIANTS Emit
