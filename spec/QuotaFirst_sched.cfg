SPECIFICATION Spec
CONSTANTS
  Threads = {"a", "b", "c"}
  Burst = 1
  Locked = FALSE
  Export = TRUE
INVARIANTS Emit
