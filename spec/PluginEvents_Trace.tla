-------------------------- MODULE PluginEvents_Trace --------------------------
(* One line per message: {"ev":"row","phase":..,"kind":..,"action":..,"shape":..,
   "body":[..],"regEvents":n,"pm":[[..],..],"fwd":[[..],..]} judged by Allowed. *)
EXTENDS PluginEvents, TraceLib
\* rows are independent: a rejected row is recorded (its line number) and judging goes on
VARIABLE rej
tv == <<row, rej, l>>
TInit == /\ CursorInit /\ rej = <<>>
         /\ row = [phase |-> "clientPlay", kind |-> "unregistered", action |-> "none", shape |-> "empty", overlap |-> FALSE]
TRow == /\ IsEv("row")
        /\ rej' = IF Allowed(Rec) THEN rej ELSE Append(rej, l)
        /\ UNCHANGED row
TSpec == TInit /\ [][TRow]_tv
\* the rejected lines are reported once the whole trace was read
Verdict == (l > Len(Trace)) => PrintT(<<"REJECTED", ToJson([lines |-> rej])>>)
=============================================================================
