SPECIFICATION Spec
CONSTANTS
  Versions = {768}
  FullVersions = {768}
  MaxLen = 2
  InPlaceProfile = TRUE
INVARIANTS Match
