SPECIFICATION Spec
CONSTANTS
  Contents = {"A", "B"}
  MaxOps = 3
  Kinds = {"write", "replace"}
  Fates = {"deliver", "drop", "dup"}
  Recheck = FALSE
  Export = TRUE
INVARIANTS Emit
