SPECIFICATION Spec
CONSTANTS
  NonceLen = 16
  MaxEnv = 16384
  Nums = {6, 7, 9, 12, 13}
  MaxFields = 2
  Fanout = 0
  ExportMin = 99
  Broken = TRUE
INVARIANTS Equiv NeverDowngraded OnlyListed
