SPECIFICATION Spec
CONSTANTS
  Contents = {"A", "empty"}
  MaxOps = 2
  Kinds = {"write"}
  Fates = {"deliver", "drop"}
  Rejects = {}
  CbOps = "none"
  Recheck = TRUE
  Post = "forget"
  Record = "always"
  Breaks = FALSE
  Blind = FALSE
  Export = TRUE
INVARIANTS Emit
