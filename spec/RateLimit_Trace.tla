--------------------------- MODULE RateLimit_Trace ---------------------------
(* Judges recorded histories of the real packetlimiter counter / Limiter (clock injected,
   times in milliseconds) and of addrquota.Quota (real time) against the abstract sliding
   window, the Exceeded rule and the bucket rule.  Runs are separated by "reset" lines.

   {"ev":"reset","kind":"counter","w":W,"ups":u}    {"ev":"add","t":t,"n":n,"sum":s,"cap":c}
        (times and W in units of which u make a second: 1000 = ms, 1000000 = us)
   {"ev":"reset","kind":"limiter","w":W,"ups":u,"pps":p,"bps":b}   (0 = dimension off)
                                                    {"ev":"acct","t":t,"bytes":n,"ok":bool}
   {"ev":"reset","kind":"quota","eps_milli":e,"burst":b,"conc":bool}   (conc: calls overlap)
                                                    {"ev":"q","ip":[codes],"blocked":bool,"t0":ms,"t1":ms}
   {"ev":"key","a":[codes],"b":[codes],"ka":bool,"kb":bool,"same":bool}   ipKey non-empty / equal

   An event exactly W old may or may not count (either boundary reading is accepted).
   The quota bound is one-sided: allowed <= burst + rate * elapsed, with elapsed measured
   around the calls (t0 before the bucket's first call, t1 after this one) and half an
   event of slack, elapsed = latest end - earliest start seen for the bucket (sound also
   when calls overlap and are logged out of order); in sequential runs a bucket's first
   event is allowed (burst >= 1).  Texts that are no IP address are not constrained. *)
EXTENDS RateLimit, IPText, TraceLib

B == INSTANCE Bucket WITH a <- 0, b <- 0

VARIABLES cfg,     \* the reset record of the current run
          pw, bw,  \* abstract windows: packets (or the counter's events), bytes
          lastT,
          qb       \* quota: sequence of [k |-> bucket, first |-> earliest start ms, last |-> latest end ms, n |-> allowed]

tvars == <<cfg, pw, bw, lastT, qb>>

TInit == /\ Init /\ CursorInit
         /\ cfg = [kind |-> "none"] /\ pw = <<>> /\ bw = <<>> /\ lastT = 0 /\ qb = <<>>

TReset == /\ IsEv("reset")
          /\ cfg' = Rec /\ pw' = <<>> /\ bw' = <<>> /\ lastT' = 0 /\ qb' = <<>>

TAdd == /\ IsEv("add") /\ cfg.kind = "counter"
        /\ LET r == Rec
               w2 == Keep(Append(pw, [t |-> r.t, n |-> r.n]), r.t, cfg.w)
           IN /\ r.t >= lastT
              /\ r.sum \in {SumIncl(w2, r.t, cfg.w), SumExcl(w2, r.t, cfg.w)}
              /\ pw' = w2 /\ lastT' = r.t
        /\ UNCHANGED <<cfg, bw, qb>>

TAcct == /\ IsEv("acct") /\ cfg.kind = "limiter"
         /\ LET r == Rec
                p2 == Keep(Append(pw, [t |-> r.t, n |-> 1]), r.t, cfg.w)
                b2 == Keep(Append(bw, [t |-> r.t, n |-> r.bytes]), r.t, cfg.w)
                okI == /\ ~(cfg.pps > 0 /\ Exceeded(SumIncl(p2, r.t, cfg.w), cfg.pps, cfg.w, cfg.ups))
                       /\ ~(cfg.bps > 0 /\ Exceeded(SumIncl(b2, r.t, cfg.w), cfg.bps, cfg.w, cfg.ups))
                okE == /\ ~(cfg.pps > 0 /\ Exceeded(SumExcl(p2, r.t, cfg.w), cfg.pps, cfg.w, cfg.ups))
                       /\ ~(cfg.bps > 0 /\ Exceeded(SumExcl(b2, r.t, cfg.w), cfg.bps, cfg.w, cfg.ups))
            IN /\ r.t >= lastT
               /\ r.ok \in {okI, okE}
               /\ pw' = p2 /\ bw' = b2 /\ lastT' = r.t
         /\ UNCHANGED <<cfg, qb>>

AddrOfText(s) == LET ip == ParseIP(s) IN [ok |-> ip.st = "ok", fam |-> ip.fam, d |-> ip.bytes, zone |-> ip.zone]

TQuota == /\ IsEv("q") /\ cfg.kind = "quota"
          /\ LET r == Rec
                 ad == AddrOfText(r.ip)
             IN IF ~ad.ok THEN qb' = qb
                ELSE LET k == B!BucketOf(ad)
                         I == {i \in 1..Len(qb) : qb[i].k = k}
                         fresh == I = {}
                         i == IF fresh THEN 0 ELSE CHOOSE x \in I : TRUE
                         first == IF fresh \/ r.t0 < qb[i].first THEN r.t0 ELSE qb[i].first
                         last == IF fresh \/ r.t1 > qb[i].last THEN r.t1 ELSE qb[i].last
                         n == IF fresh THEN 0 ELSE qb[i].n
                         n2 == IF r.blocked THEN n ELSE n + 1
                     IN /\ (fresh /\ ~cfg.conc) => ~r.blocked
                        /\ n2 * 1000 <= cfg.burst * 1000 + (cfg.eps_milli * (last - first)) \div 1000 + 500
                        /\ qb' = IF fresh THEN Append(qb, [k |-> k, first |-> first, last |-> last, n |-> n2])
                                 ELSE [qb EXCEPT ![i] = [k |-> k, first |-> first, last |-> last, n |-> n2]]
          /\ UNCHANGED <<cfg, pw, bw, lastT>>

TKey == /\ IsEv("key")
        /\ LET r == Rec
               x == AddrOfText(r.a)
               y == AddrOfText(r.b)
           IN (x.ok /\ y.ok) => (r.ka /\ r.kb /\ r.same = B!SameBucket(x, y))
        /\ UNCHANGED tvars

TNext == (TReset \/ TAdd \/ TAcct \/ TQuota \/ TKey) /\ UNCHANGED vars
TSpec == TInit /\ [][TNext]_<<vars, tvars, l>>
=============================================================================
