------------------------------- MODULE Bungee -------------------------------
(* C26 -- the BungeeCord plugin messaging channel behaves like BungeeCord, as ported by
   Velocity's BungeeCordMessageResponder.

   Respond(st, rq) is the reference: for a proxy state st (players with name, uuid,
   address, current server; registered servers; the requester is players[1]) and a
   request rq a backend sent on the BungeeCord channel, the set of things the proxy must
   do: responses written to a player's server connection (DataOutput layout: UTF =
   unsigned-short length + bytes, short, int), forwarded payloads handed to a target
   server, connects, kicks, chat messages.  It is transcribed from Velocity's responder,
   not from gate.  Where BungeeCord/Velocity behaviour is not certain (incomplete
   requests, ForwardToPlayer to a player without server) Respond says "free".

   All text is carried as UTF-8 byte strings (Wire convention); Asc is the table of the
   literals this module needs. *)
EXTENDS Wire, FiniteSets, TLC, Json

Asc(s) == CASE s = "Connect" -> <<67, 111, 110, 110, 101, 99, 116>>
           [] s = "ConnectOther" -> <<67, 111, 110, 110, 101, 99, 116, 79, 116, 104, 101, 114>>
           [] s = "IP" -> <<73, 80>>
           [] s = "IPOther" -> <<73, 80, 79, 116, 104, 101, 114>>
           [] s = "PlayerCount" -> <<80, 108, 97, 121, 101, 114, 67, 111, 117, 110, 116>>
           [] s = "PlayerList" -> <<80, 108, 97, 121, 101, 114, 76, 105, 115, 116>>
           [] s = "GetServers" -> <<71, 101, 116, 83, 101, 114, 118, 101, 114, 115>>
           [] s = "GetServer" -> <<71, 101, 116, 83, 101, 114, 118, 101, 114>>
           [] s = "Message" -> <<77, 101, 115, 115, 97, 103, 101>>
           [] s = "MessageRaw" -> <<77, 101, 115, 115, 97, 103, 101, 82, 97, 119>>
           [] s = "UUID" -> <<85, 85, 73, 68>>
           [] s = "UUIDOther" -> <<85, 85, 73, 68, 79, 116, 104, 101, 114>>
           [] s = "ServerIP" -> <<83, 101, 114, 118, 101, 114, 73, 80>>
           [] s = "KickPlayer" -> <<75, 105, 99, 107, 80, 108, 97, 121, 101, 114>>
           [] s = "KickPlayerRaw" -> <<75, 105, 99, 107, 80, 108, 97, 121, 101, 114, 82, 97, 119>>
           [] s = "ForwardToPlayer" -> <<70, 111, 114, 119, 97, 114, 100, 84, 111, 80, 108, 97, 121, 101, 114>>
           [] s = "Forward" -> <<70, 111, 114, 119, 97, 114, 100>>
           [] s = "GetPlayerServer" -> <<71, 101, 116, 80, 108, 97, 121, 101, 114, 83, 101, 114, 118, 101, 114>>
           [] s = "Bogus" -> <<66, 111, 103, 117, 115>>
           [] s = "ALL" -> <<65, 76, 76>>
           [] s = "ONLINE" -> <<79, 78, 76, 73, 78, 69>>
           [] s = ", " -> <<44, 32>>
           [] s = "{\"text\":\"" -> <<123, 34, 116, 101, 120, 116, 34, 58, 34>>
           [] s = "\"}" -> <<34, 125>>
           [] s = "Al" -> <<65, 108>>
           [] s = "Bob" -> <<66, 111, 98>>
           [] s = "Cy" -> <<67, 121>>
           [] s = "nobody" -> <<110, 111, 98, 111, 100, 121>>
           [] s = "lobby" -> <<108, 111, 98, 98, 121>>
           [] s = "games" -> <<103, 97, 109, 101, 115>>
           [] s = "empty" -> <<101, 109, 112, 116, 121>>
           [] s = "nowhere" -> <<110, 111, 119, 104, 101, 114, 101>>
           [] s = "10.0.0.1" -> <<49, 48, 46, 48, 46, 48, 46, 49>>
           [] s = "10.0.0.2" -> <<49, 48, 46, 48, 46, 48, 46, 50>>
           [] s = "10.0.0.3" -> <<49, 48, 46, 48, 46, 48, 46, 51>>
           [] s = "192.168.1.10" -> <<49, 57, 50, 46, 49, 54, 56, 46, 49, 46, 49, 48>>
           [] s = "192.168.1.20" -> <<49, 57, 50, 46, 49, 54, 56, 46, 49, 46, 50, 48>>
           [] s = "192.168.1.30" -> <<49, 57, 50, 46, 49, 54, 56, 46, 49, 46, 51, 48>>
           [] s = "00000000000000000000000000000001" -> <<48, 48, 48, 48, 48, 48, 48, 48, 48, 48, 48, 48, 48, 48, 48, 48, 48, 48, 48, 48, 48, 48, 48, 48, 48, 48, 48, 48, 48, 48, 48, 49>>
           [] s = "a0b1c2d3e4f5061728394a5b6c7d8e9f" -> <<97, 48, 98, 49, 99, 50, 100, 51, 101, 52, 102, 53, 48, 54, 49, 55, 50, 56, 51, 57, 52, 97, 53, 98, 54, 99, 55, 100, 56, 101, 57, 102>>
           [] s = "ffffffffffffffffffffffffffffffff" -> <<102, 102, 102, 102, 102, 102, 102, 102, 102, 102, 102, 102, 102, 102, 102, 102, 102, 102, 102, 102, 102, 102, 102, 102, 102, 102, 102, 102, 102, 102, 102, 102>>
           [] s = "my:chan" -> <<109, 121, 58, 99, 104, 97, 110>>
           [] s = "hi" -> <<104, 105>>
           [] s = "you are out" -> <<121, 111, 117, 32, 97, 114, 101, 32, 111, 117, 116>>
           [] s = "" -> <<>>

NoArgSubs == {"IP", "UUID", "GetServers", "GetServer", "Bogus"}
OneArgSubs == {"Connect", "IPOther", "PlayerCount", "PlayerList", "UUIDOther", "ServerIP", "GetPlayerServer"}
TwoArgSubs == {"ConnectOther", "Message", "KickPlayer"}
RawSubs == {"MessageRaw", "KickPlayerRaw"}
FwdSubs == {"ForwardToPlayer", "Forward"}
Subs == NoArgSubs \cup OneArgSubs \cup TwoArgSubs \cup RawSubs \cup FwdSubs

RawJson(text) == Asc("{\"text\":\"") \o text \o Asc("\"}")

(* A request rq = [sub, a, b, ch, pay, trunc]: sub-channel, first / second string
   argument, forwarded channel and payload, number of bytes missing at the end. *)
ReqArgs(rq) ==
    CASE rq.sub \in NoArgSubs -> <<>>
      [] rq.sub \in OneArgSubs -> EncUTF(rq.a)
      [] rq.sub \in TwoArgSubs -> EncUTF(rq.a) \o EncUTF(rq.b)
      [] rq.sub \in RawSubs -> EncUTF(rq.a) \o EncUTF(RawJson(rq.b))
      [] rq.sub \in FwdSubs -> EncUTF(rq.a) \o EncUTF(rq.ch) \o EncI16(Len(rq.pay)) \o rq.pay
ReqBytes(rq) == LET full == EncUTF(Asc(rq.sub)) \o ReqArgs(rq) IN SubSeq(full, 1, Len(full) - rq.trunc)

-----------------------------------------------------------------------------
(* proxy state: st = [players : Seq([name, uuid, host, port, server, modern]),   server = <<>>: none;
                                 modern: the player and its server connection speak 1.13+
                      servers : Seq([name, host, port])]
   The BungeeCord channel is called "BungeeCord" before 1.13 and "bungeecord:main" since; a
   message is written under the name the RECEIVING connection understands. *)
FindP(st, n) == LET s == {i \in 1..Len(st.players) : st.players[i].name = n} IN
                IF s = {} THEN 0 ELSE CHOOSE i \in s : TRUE
FindS(st, n) == LET s == {i \in 1..Len(st.servers) : st.servers[i].name = n} IN
                IF s = {} THEN 0 ELSE CHOOSE i \in s : TRUE

RECURSIVE Join(_)
Join(names) == IF names = <<>> THEN <<>>
               ELSE IF Len(names) = 1 THEN names[1]
               ELSE names[1] \o Asc(", ") \o Join(Tail(names))
NamesOf(seq) == [i \in 1..Len(seq) |-> seq[i].name]
OnServer(st, sn) == SelectSeq(st.players, LAMBDA p : p.server = sn)

ChanOf(p) == IF p.modern THEN "bungeecord:main" ELSE "BungeeCord"
\* channel name on the server connection of the player called `who`
Chan(st, who) == ChanOf(st.players[FindP(st, who)])

\* one thing the proxy does
Out(kind, who, where, chan, data) == [kind |-> kind, who |-> who, where |-> where, chan |-> chan, data |-> data]
\* response written to the server connection of player `who`
Resp(st, who, data) == Out("resp", who, <<>>, Chan(st, who), data)
\* payload handed to server `where` (once), on the BungeeCord channel
Fwd(where, data) == Out("forward", <<>>, where, "bungee", data)

Only(o) == [free |-> FALSE, outs |-> {o}]
Nothing == [free |-> FALSE, outs |-> {}]
Free == [free |-> TRUE, outs |-> {}]

\* the forwarded form: channel name length-prefixed, length, payload -- unchanged
Forwarded(rq) == EncUTF(rq.ch) \o EncI16(Len(rq.pay)) \o rq.pay

Respond(st, rq) ==
    LET me == st.players[1]
        sub == Asc(rq.sub)
        pa == FindP(st, rq.a)      \* the player / server named by the first argument (0: unknown)
        sa == FindS(st, rq.a)
        sb == FindS(st, rq.b)
    IN
    IF rq.trunc > 0 THEN Free
    ELSE CASE rq.sub = "Connect" ->
                IF sa = 0 THEN Nothing ELSE Only(Out("connect", me.name, rq.a, "", <<>>))
           [] rq.sub = "ConnectOther" ->
                IF pa = 0 \/ sb = 0 THEN Nothing ELSE Only(Out("connect", rq.a, rq.b, "", <<>>))
           [] rq.sub = "IP" ->
                Only(Resp(st, me.name, EncUTF(sub) \o EncUTF(me.host) \o EncI32(me.port)))
           [] rq.sub = "IPOther" ->
                IF pa = 0 THEN Nothing
                ELSE LET p == st.players[pa] IN
                     Only(Resp(st, me.name, EncUTF(sub) \o EncUTF(p.name) \o EncUTF(p.host) \o EncI32(p.port)))
           [] rq.sub = "PlayerCount" ->
                IF rq.a = Asc("ALL")
                  THEN Only(Resp(st, me.name, EncUTF(sub) \o EncUTF(Asc("ALL")) \o EncI32(Len(st.players))))
                ELSE IF sa = 0 THEN Nothing
                ELSE Only(Resp(st, me.name, EncUTF(sub) \o EncUTF(rq.a) \o EncI32(Len(OnServer(st, rq.a)))))
           [] rq.sub = "PlayerList" ->
                IF rq.a = Asc("ALL")
                  THEN Only(Resp(st, me.name, EncUTF(sub) \o EncUTF(Asc("ALL")) \o EncUTF(Join(NamesOf(st.players)))))
                ELSE IF sa = 0 THEN Nothing
                ELSE Only(Resp(st, me.name, EncUTF(sub) \o EncUTF(rq.a) \o EncUTF(Join(NamesOf(OnServer(st, rq.a))))))
           [] rq.sub = "GetServers" ->
                Only(Resp(st, me.name, EncUTF(sub) \o EncUTF(Join(NamesOf(st.servers)))))
           [] rq.sub = "GetServer" ->
                Only(Resp(st, me.name, EncUTF(sub) \o EncUTF(me.server)))
           [] rq.sub \in {"Message", "MessageRaw"} ->
                IF rq.a = Asc("ALL") THEN Only(Out("broadcast", <<>>, <<>>, "", rq.b))
                ELSE IF pa = 0 THEN Nothing
                ELSE Only(Out("msg", rq.a, <<>>, "", rq.b))
           [] rq.sub = "UUID" ->
                Only(Resp(st, me.name, EncUTF(sub) \o EncUTF(me.uuid)))
           [] rq.sub = "UUIDOther" ->
                IF pa = 0 THEN Nothing
                ELSE Only(Resp(st, me.name, EncUTF(sub) \o EncUTF(rq.a) \o EncUTF(st.players[pa].uuid)))
           [] rq.sub = "ServerIP" ->
                IF sa = 0 THEN Nothing
                ELSE LET s == st.servers[sa] IN
                     Only(Resp(st, me.name, EncUTF(sub) \o EncUTF(s.name) \o EncUTF(s.host) \o EncI16(s.port)))
           [] rq.sub \in {"KickPlayer", "KickPlayerRaw"} ->
                IF pa = 0 THEN Nothing ELSE Only(Out("kick", rq.a, <<>>, "", rq.b))
           [] rq.sub = "ForwardToPlayer" ->
                IF pa = 0 THEN Nothing
                ELSE IF st.players[pa].server = <<>> THEN Free
                \* delivered on the TARGET player's server connection
                ELSE Only(Resp(st, rq.a, Forwarded(rq)))
           [] rq.sub = "Forward" ->
                IF rq.a \in {Asc("ALL"), Asc("ONLINE")}
                  \* every server but the requester's current one, once each
                  THEN [free |-> FALSE,
                        outs |-> {Fwd(st.servers[i].name, Forwarded(rq)) :
                                    i \in {j \in 1..Len(st.servers) : st.servers[j].name # me.server}}]
                ELSE IF sa = 0 THEN Nothing
                ELSE Only(Fwd(rq.a, Forwarded(rq)))
           [] rq.sub = "GetPlayerServer" ->
                IF pa = 0 \/ st.players[pa].server = <<>> THEN Nothing
                ELSE Only(Resp(st, me.name, EncUTF(sub) \o EncUTF(rq.a) \o EncUTF(st.players[pa].server)))
           [] rq.sub = "Bogus" -> Nothing

-----------------------------------------------------------------------------
(* The enumerated space: small proxy states x sub-channels x argument classes. *)
Pl(n, u, h, port, srv, m) == [name |-> Asc(n), uuid |-> Asc(u), host |-> Asc(h), port |-> port, server |-> srv, modern |-> m]
Sv(n, h, port) == [name |-> Asc(n), host |-> Asc(h), port |-> port]

None == <<>>
P1s == {<<Pl("Al", "00000000000000000000000000000001", "10.0.0.1", 50001, Asc("lobby"), m)>> : m \in BOOLEAN}
\* the other players may be on the other side of the 1.13 channel rename
P2s == {<<>>, <<Pl("Bob", "a0b1c2d3e4f5061728394a5b6c7d8e9f", "10.0.0.2", 65535, None, TRUE)>>}
       \cup {<<Pl("Bob", "a0b1c2d3e4f5061728394a5b6c7d8e9f", "10.0.0.2", 65535, s, m)>> :
                      s \in {Asc("lobby"), Asc("games")}, m \in BOOLEAN}
P3s == {<<>>, <<Pl("Cy", "ffffffffffffffffffffffffffffffff", "10.0.0.3", 1, Asc("games"), TRUE)>>}
Svs == {<<Sv("lobby", "192.168.1.10", 25565), Sv("games", "192.168.1.20", 40000)>>,
        <<Sv("lobby", "192.168.1.10", 25565), Sv("games", "192.168.1.20", 40000), Sv("empty", "192.168.1.30", 80)>>}
States == {[players |-> p1 \o p2 \o p3, servers |-> sv] : p1 \in P1s, p2 \in P2s, p3 \in P3s, sv \in Svs}

PlayerArgs == {Asc("Al"), Asc("Bob"), Asc("Cy"), Asc("nobody"), Asc("")}
ServerArgs == {Asc("lobby"), Asc("games"), Asc("empty"), Asc("nowhere")}
Payloads == {<<>>, <<0, 255, 128, 7>>}
Rq(sub, a, b, ch, pay) == [sub |-> sub, a |-> a, b |-> b, ch |-> ch, pay |-> pay, trunc |-> 0]

Complete ==
    {Rq(s, <<>>, <<>>, <<>>, <<>>) : s \in NoArgSubs}
    \cup {Rq(s, a, <<>>, <<>>, <<>>) : s \in {"Connect", "ServerIP"}, a \in ServerArgs}
    \cup {Rq(s, a, <<>>, <<>>, <<>>) : s \in {"IPOther", "UUIDOther", "GetPlayerServer"}, a \in PlayerArgs}
    \cup {Rq(s, a, <<>>, <<>>, <<>>) : s \in {"PlayerCount", "PlayerList"},
                                       a \in {Asc("ALL"), Asc("lobby"), Asc("games"), Asc("nowhere")}}
    \cup {Rq("ConnectOther", a, b, <<>>, <<>>) : a \in PlayerArgs, b \in ServerArgs}
    \cup {Rq(s, a, Asc("hi"), <<>>, <<>>) : s \in {"Message", "MessageRaw"},
                                           a \in {Asc("ALL"), Asc("Al"), Asc("Bob"), Asc("nobody"), Asc("lobby")}}
    \cup {Rq(s, a, Asc("you are out"), <<>>, <<>>) : s \in {"KickPlayer", "KickPlayerRaw"}, a \in PlayerArgs}
    \cup {Rq("ForwardToPlayer", a, <<>>, Asc("my:chan"), p) : a \in PlayerArgs, p \in Payloads}
    \cup {Rq("Forward", a, <<>>, Asc("my:chan"), p) :
            a \in {Asc("ALL"), Asc("ONLINE")} \cup ServerArgs, p \in Payloads}

\* incomplete requests: some bytes missing at the end of the arguments
Truncated == {[r EXCEPT !.trunc = t] : r \in {x \in Complete : x.sub \notin NoArgSubs /\ x.a \in {Asc("Bob"), Asc("games"), Asc("ALL")}},
                                      t \in {1, 3}}
Requests == Complete \cup {r \in Truncated : r.trunc <= Len(ReqArgs(r))}

VARIABLES st, rq
vars == <<st, rq>>
Init == st \in States /\ rq \in Requests
Next == UNCHANGED vars
Spec == Init /\ [][Next]_vars

-----------------------------------------------------------------------------
(* The statement, checked on the reference itself. *)
R == Respond(st, rq)
Resps == {o \in R.outs : o.kind = "resp"}
Fwds == {o \in R.outs : o.kind = "forward"}

\* responses are in DataOutput layout and start with the sub-channel name, on the requester's connection
ResponseLayout == \A o \in Resps : rq.sub # "ForwardToPlayer" =>
                     /\ DecUTF(o.data).ok /\ DecUTF(o.data).v = Asc(rq.sub)
                     /\ o.who = st.players[1].name
\* forwarded payloads are unchanged, channel name length-prefixed
ForwardUnchanged == \A o \in Fwds \cup {x \in Resps : rq.sub = "ForwardToPlayer"} :
                       LET c == DecUTF(o.data) IN
                       /\ c.ok /\ c.v = rq.ch
                       /\ Drop(o.data, c.n) = EncI16(Len(rq.pay)) \o rq.pay
\* each target server receives a forwarded payload once, the requester's own server never on ALL
ForwardOnce == /\ \A o1, o2 \in Fwds : o1.where = o2.where => o1 = o2
               /\ (rq.sub = "Forward" /\ rq.a \in {Asc("ALL"), Asc("ONLINE")} /\ rq.trunc = 0) =>
                     {o.where : o \in Fwds} = {st.servers[i].name : i \in 1..Len(st.servers)} \ {st.players[1].server}
\* player-targeted requests act on the named player
\* every response is written under the channel name of the connection it is written to
ChannelOfReceiver == \A o \in Resps : o.chan = ChanOf(st.players[FindP(st, o.who)])
ActsOnNamed == \A o \in R.outs : o.kind \in {"kick", "msg"} \/ (o.kind = "connect" /\ rq.sub = "ConnectOther") => o.who = rq.a
\* unknown players / servers: nothing happens
UnknownNothing ==
    (/\ rq.trunc = 0
     /\ \/ rq.sub \in {"IPOther", "UUIDOther", "GetPlayerServer", "KickPlayer", "KickPlayerRaw", "ForwardToPlayer"} /\ FindP(st, rq.a) = 0
        \/ rq.sub \in {"Connect", "ServerIP"} /\ FindS(st, rq.a) = 0
        \/ rq.sub = "ConnectOther" /\ (FindP(st, rq.a) = 0 \/ FindS(st, rq.b) = 0)
        \/ rq.sub \in {"PlayerCount", "PlayerList", "Forward"} /\ FindS(st, rq.a) = 0 /\ rq.a \notin {Asc("ALL"), Asc("ONLINE")}
        \/ rq.sub \in {"Message", "MessageRaw"} /\ FindP(st, rq.a) = 0 /\ rq.a # Asc("ALL"))
    => (R.outs = {} /\ ~R.free)

Emit == PrintT(<<"REQ", ToJson([st |-> st, rq |-> rq, data |-> ReqBytes(rq)])>>)
=============================================================================
