--------------------------- MODULE Session_Trace ---------------------------
(* One player session per run.  Lines (per session, in log order):
     {"ev":"reset","modern":bool}
     {"ev":"c","what":"hs"|"start"|"encreq"|"encresp"|"success"|"ack"|"cfgfin"|"cfgack"|"join"|
                      "startcfg"|"cfgenter"|"closed","name":".."}
     {"ev":"end"}     the harness closed the client and waited for the proxy to drop the backend connections
     {"ev":"b","conn":"b1".., "what":"accept"|"hs"|"start"|"success"|"ack"|"cfgfin"|"cfgack"|"join"|"closed","name":".."}
   Packets that are none of these (keep-alives, plugin messages, chunks ...) are not logged. *)
EXTENDS Session, TraceLib

tv == <<svars, l>>

TInit == CursorInit /\ SInit(FALSE)
TReset == IsEv("reset") /\ cph' = "init" /\ modern' = Rec.modern /\ name' = "" /\ joins' = 0 /\ cnt' = Zero
          /\ bph' = [b \in Backends |-> "none"]

TC == /\ IsEv("c")
      /\ LET w == Rec.what IN
         CASE w = "hs" -> CSendHandshake
           [] w = "start" -> CSendStart(Rec.name)
           [] w = "encreq" -> CRecvEncRequest
           [] w = "encresp" -> CSendEncResponse
           [] w = "success" -> CRecvSuccess
           [] w = "ack" -> CSendAck
           [] w = "cfgfin" -> CRecvCfgFinish
           [] w = "cfgack" -> CSendCfgAck
           [] w = "join" -> CRecvJoin
           [] w = "startcfg" -> CRecvStartCfg
           [] w = "cfgenter" -> CSendCfgEnter
           [] w = "closed" -> CClosed

TB == /\ IsEv("b") /\ Rec.conn \in Backends
      /\ LET w == Rec.what  b == Rec.conn IN
         CASE w = "accept" -> BAccept(b)
           [] w = "hs" -> BRecvHandshake(b)
           [] w = "start" -> BRecvStart(b, Rec.name)
           [] w = "success" -> BSendSuccess(b)
           [] w = "ack" -> BRecvAck(b)
           [] w = "cfgfin" -> BSendCfgFinish(b)
           [] w = "cfgack" -> BRecvCfgAck(b)
           [] w = "join" -> BSendJoin(b)
           [] w = "closed" -> BClosed(b)

\* end of a session: the client was closed by the harness and the proxy had time to settle
TEnd == IsEv("end") /\ cph = "closed" /\ AllBackendsClosed /\ UNCHANGED svars

TNext == TReset \/ TC \/ TB \/ TEnd
TSpec == TInit /\ [][TNext]_tv
=============================================================================
