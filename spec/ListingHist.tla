---------------------------- MODULE ListingHist ----------------------------
(* C12 -- abstract (black-box) specification of one listable collection of the proxy
   (online players, registered servers, or a server's player list), phrased over
   calls and returns:

     w.call / w.ret   a writer adds or removes one element (register / unregister a
                      player, Register / Unregister a server, players.add / remove), or
                      tries to add one that is present and is refused ("dup": a duplicate
                      login that is rejected and torn down, Register of an existing name);
                      the change takes effect atomically at some instant inside the call
                      (silent step Apply)
     r.call / r.ret   a listing call and what it returned: the list (Players, Servers,
                      Range / PlayersToSlice), the count (PlayerCount, Len), or the set
                      of players that DisconnectAll disconnected

   A returned list must be the collection's value at one instant between call and
   return, without duplicates ("no list that mixes entries from different moments");
   a count must be the size at one such instant; DisconnectAll must disconnect every
   player that was registered during the whole call and nobody that was never
   registered during it.  Crashes and data races are not expressible here: they are
   judged from the child process (fatal error / race detector report). *)
EXTENDS Naturals, Sequences, FiniteSets

VARIABLES m,      \* the collection (a set of element names)
          wop,    \* pending writer calls: thread -> [op, k, done]
          rd      \* open listing calls: thread -> set of values of m since the call

lvars == <<m, wop, rd>>

Put(fn, k, v) == [x \in DOMAIN fn \cup {k} |-> IF x = k THEN v ELSE fn[x]]
Drop(fn, k) == [x \in DOMAIN fn \ {k} |-> fn[x]]
ToSet(s) == {s[i] : i \in 1..Len(s)}

HInit(init) == m = init /\ wop = <<>> /\ rd = <<>>

WCall(t, op, k) == /\ t \notin DOMAIN wop /\ op \in {"add", "del", "dup"}
                   /\ wop' = Put(wop, t, [op |-> op, k |-> k, done |-> FALSE])
                   /\ UNCHANGED <<m, rd>>

\* silent: the pending change of t takes effect
Apply(t) == /\ t \in DOMAIN wop /\ ~wop[t].done
            /\ m' = IF wop[t].op = "add" THEN m \cup {wop[t].k}
                    ELSE IF wop[t].op = "del" THEN m \ {wop[t].k}
                    ELSE m          \* "dup": a refused duplicate changes nothing
            /\ wop' = [wop EXCEPT ![t].done = TRUE]
            /\ rd' = [r \in DOMAIN rd |-> rd[r] \cup {m'}]

WRet(t) == /\ t \in DOMAIN wop /\ wop[t].done
           /\ wop' = Drop(wop, t)
           /\ UNCHANGED <<m, rd>>

RCall(t) == /\ t \notin DOMAIN rd
            /\ rd' = Put(rd, t, {m})
            /\ UNCHANGED <<m, wop>>

Close(t) == rd' = Drop(rd, t) /\ UNCHANGED <<m, wop>>

RRetList(t, list) == /\ t \in DOMAIN rd
                     /\ Len(list) = Cardinality(ToSet(list))
                     /\ ToSet(list) \in rd[t]
                     /\ Close(t)

RRetCount(t, n) == /\ t \in DOMAIN rd
                   /\ \E s \in rd[t] : Cardinality(s) = n
                   /\ Close(t)

RRetClosed(t, closed) == /\ t \in DOMAIN rd
                         /\ LET all == UNION rd[t] IN
                              /\ ToSet(closed) \subseteq all
                              /\ {k \in all : \A s \in rd[t] : k \in s} \subseteq ToSet(closed)
                         /\ Close(t)

End == wop = <<>> /\ rd = <<>> /\ UNCHANGED lvars
=============================================================================
