SPECIFICATION TSpec
CONSTANTS
  MConns = {}
  MIds = {}
  MNames = {}
INVARIANT Mark
POSTCONDITION Accepted
CHECK_DEADLOCK FALSE
