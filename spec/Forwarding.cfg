SPECIFICATION Spec
CONSTANTS
  Protos = {393, 754, 759, 760, 761, 763, 765, 767}
INVARIANTS TranscriptionMatchesDeclarative NeverAboveRequest Emit
