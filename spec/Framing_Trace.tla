--------------------------- MODULE Framing_Trace ---------------------------
(* Judges what the real netmc writer / reader pair did (harness/c01).  Same structure as
   Framing.tla -- payloads written, frames on the wire, payloads delivered -- with the
   abstract Z / cipher replaced by facts the harness measured on the real wire bytes with
   Go's standard library (own VarInt parser, compress/zlib, own CFB8 over crypto/aes), and
   payload contents replaced by (length, hash).  The frame rules are the very operators of
   lib/FrameRules.tla that Framing.tla's reader uses.

   {"ev":"reset","dir","thr","level","enc","late","chunk","content","n"}   a new writer/reader pair
   {"ev":"setcomp","thr"}                both sides set this compression threshold (from here on)
   {"ev":"setenc"}                       both sides switch encryption on (from here on)
   {"ev":"write","len","sum","werr", "span","prefix","outer","cprefix","claimed","rest",
                 "z":{"ok","n","trail"},"same"}
        Write(payload of len bytes, hash sum) and what it put on the wire: span bytes, starting with
        the length VarInt bytes `prefix` announcing `outer` bytes; with compression on the frame
        starts with the VarInt bytes `cprefix` = `claimed`, followed by `rest` bytes, which
        compress/zlib inflates as z; same = the bytes that a reader must take for the payload
        (the raw rest, or the inflation) are the written payload.
   {"ev":"read","len","sum"}             the real reader delivered a payload
   "rep": n on a write / read line (long-running connections): n consecutive writes of the same
        payload that put byte-identical frames on the wire / n consecutive identical deliveries
        are logged once.  Absent = 1.
   {"ev":"end","err"}                    the reader hit the end of the stream ("eof") or failed ("error")

   Required: every frame is one a conforming reader accepts as exactly the written payload
   (or, for an empty payload, skips), deliveries are exactly the non-empty payloads in order,
   and the stream ends cleanly.  A frame longer than 2^21-1 bytes cannot be carried by the
   protocol at all (incompressible payload near the maximum with compression on): from there
   on only "nothing wrong is delivered" is required. *)
EXTENDS FrameRules, TraceLib

CONSTANT Diagnose   \* FALSE: a forbidden line rejects the trace.  TRUE: it is printed as <<"BAD", line>>,
                    \* the rest of that connection is skipped and the trace goes on with the next reset,
                    \* so that one pass lists every offending connection.

VARIABLE st   \* [dir, thr, pending, broken, skip]; pending = run-length queue of <<len, sum, count>>

Rep(rec) == IF "rep" \in DOMAIN rec THEN rec.rep ELSE 1

\* take r deliveries of (len, sum) from the front of the run-length queue q
RECURSIVE Consume(_, _, _, _)
Consume(q, len, sum, r) ==
    IF r = 0 THEN [ok |-> TRUE, q |-> q]
    ELSE IF q = <<>> \/ Head(q)[1] # len \/ Head(q)[2] # sum THEN [ok |-> FALSE, q |-> q]
    ELSE LET h == Head(q) IN
         IF h[3] > r THEN [ok |-> TRUE, q |-> <<<<h[1], h[2], h[3] - r>>>> \o Tail(q)]
         ELSE Consume(Tail(q), len, sum, r - h[3])

Fresh(dir, thr) == [dir |-> dir, thr |-> thr, pending |-> <<>>, broken |-> FALSE, skip |-> FALSE]

TReset == IsEv("reset") /\ st' = Fresh(Rec.dir, Rec.thr)

\* a forbidden line (only reachable in Diagnose mode)
Bad == Diagnose /\ PrintT(<<"BAD", l>>) /\ st' = [st EXCEPT !.skip = TRUE]
\* lines of a connection that already went wrong
TIgnore == /\ st.skip /\ l <= Len(Trace) /\ Trace[l].ev # "reset" /\ l' = l + 1 /\ UNCHANGED st

TSetComp == IsEv("setcomp") /\ ~st.skip /\ st' = [st EXCEPT !.thr = Rec.thr]
TSetEnc == IsEv("setenc") /\ ~st.skip /\ UNCHANGED st

\* verdict of a conforming reader on the frame the writer produced
FrameOf(rec, thr, dir) ==
    IF thr < 0 THEN "raw"
    ELSE Envelope(dir, thr, rec.claimed, rec.rest, rec.z)

WriteOK(rec) ==
    /\ ~rec.werr
    /\ LET p == DecVarInt(rec.prefix) IN
         /\ p.ok /\ p.n = Len(rec.prefix) /\ p.v = rec.outer          \* the length prefix says what follows
         /\ rec.span = Len(rec.prefix) + rec.outer                     \* exactly one frame per write
         /\ rec.outer <= MaxFrame =>
              /\ Len(rec.prefix) <= 3                                  \* vanilla reads a 21-bit length
              /\ LET c == DecVarInt(rec.cprefix)
                     v == FrameOf(rec, st.thr, st.dir)
                 IN /\ st.thr >= 0 => (c.ok /\ c.n = Len(rec.cprefix) /\ c.v = rec.claimed
                                        /\ rec.rest = rec.outer - c.n)
                    /\ st.thr < 0 => rec.rest = rec.outer
                    /\ IF rec.len = 0
                         THEN \* an empty payload must look like nothing: empty frame / empty uncompressed
                              (st.thr < 0 /\ rec.outer = 0) \/ (st.thr >= 0 /\ v = "skip")
                         ELSE /\ v \in {"raw", "inflated"}
                              /\ v = "raw" => rec.rest = rec.len
                              /\ v = "inflated" => rec.claimed = rec.len
                              /\ rec.same

TWrite ==
    /\ IsEv("write") /\ ~st.skip
    /\ IF WriteOK(Rec)
         THEN IF Rec.outer > MaxFrame
                THEN st' = [st EXCEPT !.broken = TRUE]                 \* cannot be framed: see above
                ELSE st' = [st EXCEPT !.pending = IF Rec.len = 0 \/ st.broken THEN @
                                                 ELSE Append(@, <<Rec.len, Rec.sum, Rep(Rec)>>)]
         ELSE Bad

TRead == /\ IsEv("read") /\ ~st.skip
         /\ LET c == Consume(st.pending, Rec.len, Rec.sum, Rep(Rec)) IN
              IF c.ok THEN st' = [st EXCEPT !.pending = c.q] ELSE Bad

\* a payload delivered earlier still has the content it was delivered with once the whole
\* stream has been read (the harness keeps the delivered slices without copying them)
THeld == /\ IsEv("held") /\ ~st.skip
         /\ IF Rec.then = Rec.now THEN UNCHANGED st ELSE Bad

TEnd == /\ IsEv("end") /\ ~st.skip
        /\ IF st.broken \/ (st.pending = <<>> /\ Rec.err = "eof") THEN UNCHANGED st ELSE Bad

TNext == TReset \/ TIgnore \/ TSetComp \/ TSetEnc \/ TWrite \/ TRead \/ THeld \/ TEnd
TSpec == /\ CursorInit
         /\ st = Fresh("cb", -1)
         /\ [][TNext]_<<st, l>>
=============================================================================
