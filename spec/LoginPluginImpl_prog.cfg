SPECIFICATION Spec
CONSTANTS
  Handlers = {"h1"}
  MaxPre = 2
  MaxResp = 3
  Ids = {1, 2, 3, 9}
  Chain = TRUE
  ClearOnRun = TRUE
  Export = FALSE
INVARIANTS EmitProg
CONSTRAINT Stop
