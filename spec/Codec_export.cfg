SPECIFICATION Spec
CONSTANTS
  Mode = "export"
  Bug = "none"
INVARIANTS Holds Emit
