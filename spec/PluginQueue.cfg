SPECIFICATION MSpec
CONSTANTS
  MaxCount = 2
  MaxBytes = 4
  MaxMsgs = 4
  Sizes = {1, 2}
  Kinds = {"join765", "join763", "switch765", "playq763", "fallback765", "flushfail765"}
INVARIANTS InOrder NoLoss Queued Bounded OverflowOnlyWhenFull
