SPECIFICATION Spec
CONSTANTS
  DB = 8
  W4 = 4
  W6 = 16
  TagOnes = 2
  Mode = "lists"
  NoUnmap = FALSE
INVARIANTS ListRules EmitList
