SPECIFICATION Spec
CONSTANTS
  Raw <- RawSmall
  Dead = {}
  MaxList = 2
  Strategies <- AllStrategies
  DropAll = FALSE
  Export = FALSE
INVARIANTS LoopOK TriesOnce
