------------------------------ MODULE Principal ------------------------------
(* C41 -- Connect session principal fields are extracted exactly or rejected.

   A session proposal is a protobuf message.  Abstractly it is a sequence of
   top-level fields  [num, wt, v]:
     wt = 0 varint   v = the 64-bit value as 8 bytes, most significant first
     wt = 2 bytes    v = [n |-> length, f |-> fill byte if all bytes are equal else -1,
                          b |-> the bytes (left out when uniform and longer than 64)]
     wt = 1 / 5      fixed 64 / 32       v = <<>>
     wt = 3          a well-formed group (content skipped)      v = <<>>
     wt = 4          a stray end-group: malformed at top level
     wt = 6, 7       reserved wire types: malformed
     wt = 9          pseudo field: a partial (cut) field, only ever last: malformed

   ExtractD is the statement of the property, written declaratively (sets of
   indices, "last index wins").  ExtractS is a left-to-right fold in the style a
   parser is written.  TLC proves them equal on every field sequence of the
   exhaustive model; the trace spec judges the real extractor with ExtractD.

   The second half is the wire level: Parse reads a byte string into the abstract
   form (the "reference protobuf reading"), so recorded inputs are judged from their
   bytes alone. *)
EXTENDS Integers, Sequences, FiniteSets, TLC, Json, Randomization

CONSTANTS NonceLen,     \* 16
          MaxEnv,       \* bedrockprincipal.MaxEnvelopeBytes = 16384
          Nums,         \* field numbers of the exhaustive model
          MaxFields,    \* bound on the sequence length
          Fanout,       \* 0: all field kinds are successors; k > 0: k random ones per shape (simulation)
          ExportMin,    \* export sequences of at least this length (99: no export)
          Broken        \* TRUE: ExtractS forgets the nonce rule (non-vacuity of Equiv)

Zero8 == <<0, 0, 0, 0, 0, 0, 0, 0>>
EmptyB == [n |-> 0, f |-> -1, b |-> <<>>]
Low4(v) == SubSeq(v, 5, 8)

IsP(f) == f.num >= 6 /\ f.num <= 12
Want(num) == IF num \in {7, 8, 9, 12} THEN 2 ELSE 0
Malformed(f) == f.wt \in {4, 6, 7, 9}

Idx(fs, num, wt) == {i \in 1..Len(fs) : fs[i].num = num /\ fs[i].wt = wt}
MaxOf(S) == CHOOSE x \in S : \A y \in S : y <= x
LastV(fs, num, wt, dflt) == LET I == Idx(fs, num, wt) IN IF I = {} THEN dflt ELSE fs[MaxOf(I)].v

Rejected == [out |-> "err"]
NoPrincipal == [out |-> "nil"]

\* The conditions the statement lists; any of them forces a rejection.
Listed(fs) ==
    LET N == 1..Len(fs)
        Envs == Idx(fs, 12, 2)
    IN \/ \E i \in N : Malformed(fs[i])                            \* malformed field encoding
       \/ \E i \in N : IsP(fs[i]) /\ fs[i].wt # Want(fs[i].num)    \* wrong wire type
       \/ Cardinality(Envs) >= 2                                   \* second envelope
       \/ \E i \in Envs : fs[i].v.n = 0 \/ fs[i].v.n > MaxEnv      \* empty / oversized
       \/ Envs # {} /\ LastV(fs, 9, 2, EmptyB).n # NonceLen        \* envelope without nonce

ExtractD(fs0) ==
    LET fs == fs0 IN
    IF Listed(fs) THEN Rejected
    ELSE IF \A i \in 1..Len(fs) : ~IsP(fs[i]) THEN NoPrincipal
    ELSE [out |-> "ok",
          proto |-> Low4(LastV(fs, 6, 0, Zero8)),
          ep |-> LastV(fs, 7, 2, EmptyB),
          org |-> LastV(fs, 8, 2, EmptyB),
          nonce |-> LastV(fs, 9, 2, EmptyB),
          spv |-> Low4(LastV(fs, 10, 0, Zero8)),
          rev |-> LastV(fs, 11, 0, Zero8),
          env |-> LastV(fs, 12, 2, EmptyB)]

----------------------------------------------------------------------------
(* The same function as a left-to-right fold. *)
S0 == [out |-> "run", found |-> FALSE, proto |-> Low4(Zero8), ep |-> EmptyB, org |-> EmptyB,
       nonce |-> EmptyB, spv |-> Low4(Zero8), rev |-> Zero8, env |-> EmptyB]

Step(s, f) ==
    IF s.out = "err" THEN s
    ELSE IF Malformed(f) THEN [s EXCEPT !.out = "err"]
    ELSE IF ~IsP(f) THEN s
    ELSE IF f.wt # Want(f.num) THEN [s EXCEPT !.out = "err"]
    ELSE LET t == [s EXCEPT !.found = TRUE] IN
         CASE f.num = 6 -> [t EXCEPT !.proto = Low4(f.v)]
           [] f.num = 7 -> [t EXCEPT !.ep = f.v]
           [] f.num = 8 -> [t EXCEPT !.org = f.v]
           [] f.num = 9 -> [t EXCEPT !.nonce = f.v]
           [] f.num = 10 -> [t EXCEPT !.spv = Low4(f.v)]
           [] f.num = 11 -> [t EXCEPT !.rev = f.v]
           [] f.num = 12 -> IF s.env.n > 0 \/ f.v.n = 0 \/ f.v.n > MaxEnv
                              THEN [s EXCEPT !.out = "err"]
                              ELSE [t EXCEPT !.env = f.v]

RECURSIVE Fold(_, _)
Fold(s, fs) == IF fs = <<>> THEN s ELSE Fold(Step(s, Head(fs)), Tail(fs))

ExtractS(fs) ==
    LET s == Fold(S0, fs) IN
    IF s.out = "err" THEN Rejected
    ELSE IF ~s.found THEN NoPrincipal
    ELSE IF ~Broken /\ s.env.n > 0 /\ s.nonce.n # NonceLen THEN Rejected
    ELSE [out |-> "ok", proto |-> s.proto, ep |-> s.ep, org |-> s.org, nonce |-> s.nonce,
          spv |-> s.spv, rev |-> s.rev, env |-> s.env]

----------------------------------------------------------------------------
(* Exhaustive model: every sequence of at most MaxFields fields over a universe of
   field kinds (cut fields only in last position). *)
VARIABLE fs

BVal(n, f) == [n |-> n, f |-> IF n = 0 THEN -1 ELSE f,
               b |-> IF n <= 64 THEN [i \in 1..n |-> f] ELSE <<>>]

VarVals == { Zero8,
             <<0, 0, 0, 0, 0, 0, 0, 2>>,          \* SESSION_PROTOCOL_BEDROCK
             <<0, 0, 0, 0, 128, 0, 0, 0>>,        \* 2^31: negative as int32
             <<0, 0, 0, 1, 0, 0, 0, 2>>,          \* 2^32 + 2: int32 truncation gives 2
             <<255, 255, 255, 255, 255, 255, 255, 255>> }

BytesVals == { BVal(0, 65), BVal(1, 65), BVal(1, 66),
               BVal(NonceLen - 1, 65), BVal(NonceLen, 65), BVal(NonceLen, 66), BVal(NonceLen + 1, 65),
               BVal(MaxEnv, 65), BVal(MaxEnv + 1, 65) }

\* (kept apart: TLC cannot build one set of records whose v have different shapes)
VarU == [num : Nums, wt : {0}, v : VarVals]
BytesU == [num : Nums, wt : {2}, v : BytesVals]
OtherU == [num : Nums, wt : {1, 3, 4, 5}, v : {<<>>}]
CutU == [num : {0}, wt : {9}, v : {<<k>> : k \in 1..6}]

Pick(U) == IF Fanout = 0 THEN U ELSE RandomSubset(Fanout, U)

Init == fs = <<>>
Next == /\ Len(fs) < MaxFields
        /\ IF fs = <<>> THEN TRUE ELSE fs[Len(fs)].wt # 9
        /\ \/ \E f \in Pick(VarU) : fs' = Append(fs, f)
           \/ \E f \in Pick(BytesU) : fs' = Append(fs, f)
           \/ \E f \in Pick(OtherU) : fs' = Append(fs, f)
           \/ \E f \in Pick(CutU) : fs' = Append(fs, f)
Spec == Init /\ [][Next]_fs

Equiv == ExtractD(fs) = ExtractS(fs)
\* the statement's "rejected, never silently downgraded", on the fold
NeverDowngraded == Listed(fs) => ExtractS(fs).out = "err"
\* and nothing else is rejected
OnlyListed == ExtractS(fs).out = "err" => Listed(fs)

Terminal == Len(fs) = MaxFields \/ (fs # <<>> /\ fs[Len(fs)].wt = 9)
Emit == Len(fs) >= ExportMin => PrintT(<<"VEC", ToJson(fs)>>)

----------------------------------------------------------------------------
(* Wire level: the reference reading of a byte string b (1-based, bytes 0..255). *)

Min2(a, b) == IF a < b THEN a ELSE b

\* index of the last byte of the varint that starts at b[i]; 0 if it is cut or longer than 10 bytes
RECURSIVE Scan(_, _, _)
Scan(b, j, hi) == IF j > hi THEN 0 ELSE IF b[j] < 128 THEN j ELSE Scan(b, j + 1, hi)
VarEnd(b, i) == Scan(b, i, Min2(i + 9, Len(b)))

\* 7-bit group g (0 = least significant) of the varint in b[i..e]
Grp(b, i, e, g) == IF i + g > e THEN 0 ELSE b[i + g] % 128
VBit(b, i, e, n) == (Grp(b, i, e, n \div 7) \div (2 ^ (n % 7))) % 2
\* the tenth byte may only carry bit 63
VOverflow(b, i, e) == e = i + 9 /\ b[e] > 1
VBad(b, i, e) == e = 0 \/ VOverflow(b, i, e)

V8(b, i, e) ==
    IF e = i THEN <<0, 0, 0, 0, 0, 0, 0, b[i]>>
    ELSE [m \in 1..8 |->
            LET base == (8 - m) * 8 IN
              VBit(b, i, e, base) + 2 * VBit(b, i, e, base + 1) + 4 * VBit(b, i, e, base + 2)
              + 8 * VBit(b, i, e, base + 3) + 16 * VBit(b, i, e, base + 4) + 32 * VBit(b, i, e, base + 5)
              + 64 * VBit(b, i, e, base + 6) + 128 * VBit(b, i, e, base + 7)]

\* the value as a natural number, -1 if it does not fit 31 bits
VNat(b, i, e) ==
    IF e = i THEN b[i]
    ELSE IF (\E g \in 5..9 : Grp(b, i, e, g) # 0) \/ Grp(b, i, e, 4) >= 8 THEN -1
    ELSE Grp(b, i, e, 0) + 128 * Grp(b, i, e, 1) + 16384 * Grp(b, i, e, 2)
         + 2097152 * Grp(b, i, e, 3) + 268435456 * Grp(b, i, e, 4)

BadTag == [ok |-> FALSE, num |-> 0, wt |-> 0, next |-> 0]
\* lax: field numbers up to 2^31-1 (Go's protowire); strict: up to 2^29-1 (the protobuf spec)
Tag(b, i, lax) ==
    IF b[i] < 128      \* one-byte tag: field numbers 1..15
      THEN IF b[i] < 8 THEN BadTag ELSE [ok |-> TRUE, num |-> b[i] \div 8, wt |-> b[i] % 8, next |-> i + 1]
    ELSE LET e == VarEnd(b, i) IN
    IF VBad(b, i, e) THEN BadTag
    ELSE IF (\E g \in 5..9 : Grp(b, i, e, g) # 0) \/ Grp(b, i, e, 4) >= 64 THEN BadTag
    ELSE LET num == (Grp(b, i, e, 0) \div 8) + 16 * Grp(b, i, e, 1) + 2048 * Grp(b, i, e, 2)
                    + 262144 * Grp(b, i, e, 3) + 33554432 * Grp(b, i, e, 4)
         IN IF num = 0 \/ (~lax /\ num > 536870911) THEN BadTag
            ELSE [ok |-> TRUE, num |-> num, wt |-> b[i] % 8, next |-> e + 1]

\* (TLC re-evaluates an operator argument at every use but evaluates a LET definition once:
\*  anything used repeatedly is LET-bound first)
Abs(s0) == LET s == s0
               u == Len(s) > 0 /\ \A k \in 1..Len(s) : s[k] = s[1]
           IN [n |-> Len(s), f |-> IF u THEN s[1] ELSE -1, b |-> IF u /\ Len(s) > 64 THEN <<>> ELSE s]

BadVal == [ok |-> FALSE, v |-> <<>>, next |-> 0]

RECURSIVE Val(_, _, _, _, _), SkipGroup(_, _, _, _)
\* the value of a field of type wt starting at b[i]
Val(b, i, num, wt, lax) ==
    CASE wt = 0 -> LET e == VarEnd(b, i) IN
                   IF VBad(b, i, e) THEN BadVal ELSE [ok |-> TRUE, v |-> V8(b, i, e), next |-> e + 1]
      [] wt = 1 -> IF i + 7 > Len(b) THEN BadVal ELSE [ok |-> TRUE, v |-> <<>>, next |-> i + 8]
      [] wt = 5 -> IF i + 3 > Len(b) THEN BadVal ELSE [ok |-> TRUE, v |-> <<>>, next |-> i + 4]
      [] wt = 2 -> LET e == VarEnd(b, i) IN
                   IF VBad(b, i, e) THEN BadVal
                   ELSE LET n == VNat(b, i, e) IN
                        IF n < 0 \/ n > Len(b) - e THEN BadVal
                        ELSE [ok |-> TRUE, v |-> Abs(SubSeq(b, e + 1, e + n)), next |-> e + n + 1]
      [] wt = 3 -> LET nx == SkipGroup(b, i, num, lax) IN
                   IF nx = 0 THEN BadVal ELSE [ok |-> TRUE, v |-> <<>>, next |-> nx]
      [] OTHER -> BadVal
\* index after the end-group tag that closes group gnum whose content starts at b[i]; 0 if malformed
SkipGroup(b, i, gnum, lax) ==
    IF i > Len(b) THEN 0
    ELSE LET t == Tag(b, i, lax) IN
         IF ~t.ok THEN 0
         ELSE IF t.wt = 4 THEN (IF t.num = gnum THEN t.next ELSE 0)
         ELSE LET f == Val(b, t.next, t.num, t.wt, lax) IN
              IF ~f.ok THEN 0 ELSE SkipGroup(b, f.next, gnum, lax)

BadParse == [ok |-> FALSE, fs |-> <<>>]
RECURSIVE ParseFrom(_, _, _, _)
ParseFrom(b, i, acc, lax) ==
    IF i > Len(b) THEN [ok |-> TRUE, fs |-> acc]
    ELSE LET t == Tag(b, i, lax) IN
         IF ~t.ok THEN BadParse
         ELSE LET f == Val(b, t.next, t.num, t.wt, lax) IN
              IF ~f.ok THEN BadParse
              ELSE LET acc2 == Append(acc, [num |-> t.num, wt |-> t.wt, v |-> f.v])
                   IN ParseFrom(b, f.next, acc2, lax)
Parse(b, lax) == ParseFrom(b, 1, <<>>, lax)

ExtractRaw(b0, lax) == LET b == b0  p == Parse(b, lax) IN IF p.ok THEN ExtractD(p.fs) ELSE Rejected
=============================================================================
