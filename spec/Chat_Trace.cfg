SPECIFICATION TSpec
CONSTANTS
  MaxLen = 99
  MaxQueue = 99
  Offs = {0}
  Outcomes = {"forwarded"}
  Sigs = {FALSE}
  Fams = {"pre1205", "1205"}
  Disc = TRUE
  Variant = "velocity"
  Export = FALSE
  Sample = FALSE
INVARIANT Mark
POSTCONDITION Accepted
CHECK_DEADLOCK FALSE
