SPECIFICATION Spec
CONSTANTS
  PatAlpha = {42, 63, 97}
  HostAlpha = {97, 46, 47, 0, 42}
  MaxPat = 3
  MaxHost = 3
INVARIANTS ThreeDefinitionsAgree CleanLaws SubstLaw
