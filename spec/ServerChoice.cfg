SPECIFICATION Spec
CONSTANTS
  MaxForced = 1
  MaxTry = 2
  MaxFail = 2
  FailKinds = {"kl", "kp", "kpi"}
  NVH = 3
  MinReg = 0
  Renames = FALSE
INVARIANTS CleanOK OnlyRegisteredListed NeverTheFailedOne ForcedFirst DisconnectMeansNoneLeft
