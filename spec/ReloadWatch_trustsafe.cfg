SPECIFICATION FairSpec
CONSTANTS
  Contents = {"A", "B"}
  MaxOps = 3
  Kinds = {"write", "replace"}
  Fates = {"deliver", "drop", "dup"}
  Recheck = FALSE
  Export = FALSE
INVARIANTS TypeOK NoRepeat
PROPERTIES NeverForEvaluated Converges
