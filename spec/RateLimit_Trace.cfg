SPECIFICATION TSpec
CONSTANTS
  W = 1
  MaxT = 0
  MaxLen = 0
  Counts = {1}
  InitCap = 2
  BrokenResize = FALSE
  Export = FALSE
INVARIANT Mark
POSTCONDITION Accepted
CHECK_DEADLOCK FALSE
