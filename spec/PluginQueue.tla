---------------------------- MODULE PluginQueue ----------------------------
(* C24 -- plugin messages a client sends before its backend is ready are delivered to
   that backend exactly once, in order, before any later one; the buffer is bounded by
   MaxCount messages and MaxBytes bytes, exceeding either disconnects the player.

   The abstract design (q, ready, toBackend) as a machine that TLC checks and from which
   connection histories are exported (Emit).  Traces of the real proxy are judged by the
   black-box acceptor PluginQueueObs.tla. *)
EXTENDS Naturals, Sequences, FiniteSets, TLC, Json

CONSTANTS MaxCount, MaxBytes,   \* buffer caps
          MaxMsgs,              \* messages per generated history
          Sizes,                \* message sizes used by the machine
          Kinds                 \* history kinds to generate

(* ------------------------------------------------------------------ machine *)
Milestones(k) == CASE k = "join765" -> <<"ready", "finish", "join">>
                   [] k = "join763" -> <<"ready", "join">>
                   [] k = "switch765" -> <<"switch", "ready", "ack", "finish", "join">>
                   \* 1.20.1 client whose pre-join queue is in use ("hold": its connection phase is
                   \* not complete, as during a legacy Forge handshake): the queue is drained to the
                   \* backend that sends the next JoinGame
                   \* the first backend becomes ready and is then lost during the configuration phase;
                   \* the player falls back to the next server of the try list, which becomes ready later
                   [] k = "fallback765" -> <<"ready", "kick", "ready", "finish", "join">>
                   \* fault: the first backend dies while the queue is flushed to it (its login just
                   \* succeeded); what was queued for it is gone with it; fallback to the next server
                   [] k = "flushfail765" -> <<"failready", "ready", "finish", "join">>
                   [] k = "playq763" -> <<"hold", "switch", "ready", "join", "unhold">>

VARIABLES kind, ms,      \* history kind, milestones passed
          sent,          \* sizes of the messages the client sent, in order
          q, qbytes,     \* buffered messages (indices into sent), their bytes
          ready,         \* the backend is ready for direct delivery
          toBackend,     \* indices delivered to the backend, in order
          overflowed,    \* the player was disconnected for exceeding a cap
          lost,          \* messages that went down with a failed backend
          h              \* the history (for export)

mvars == <<kind, ms, sent, q, qbytes, ready, toBackend, overflowed, lost, h>>

\* the client may send custom payloads once it left the login state; in a switch history
\* only the messages of the new backend's configuration phase are looked at
CanSend == IF kind = "switch765" THEN ms >= 3
           ELSE IF kind = "playq763" THEN ms = 1 \/ ms = 5
           ELSE IF kind = "fallback765" THEN ms >= 2      \* only what is meant for the fallback backend
           ELSE TRUE
ReadyAt == CASE kind \in {"join765", "join763"} -> 1
             [] kind = "playq763" -> 4
             [] kind = "fallback765" -> 3
             [] kind = "flushfail765" -> 2
             [] OTHER -> 2

MInit == /\ kind \in Kinds /\ ms = 0 /\ sent = <<>> /\ q = <<>> /\ qbytes = 0
         /\ ready = FALSE /\ toBackend = <<>> /\ overflowed = FALSE /\ lost = 0 /\ h = <<>>

ClientMsg(sz) ==
    /\ ~overflowed /\ CanSend /\ Len(sent) < MaxMsgs
    /\ sent' = Append(sent, sz)
    /\ h' = Append(h, "msg")
    /\ IF ready
         THEN /\ toBackend' = Append(toBackend, Len(sent) + 1)
              /\ UNCHANGED <<q, qbytes, overflowed>>
         ELSE IF Len(q) + 1 > MaxCount \/ qbytes + sz > MaxBytes
                THEN /\ overflowed' = TRUE /\ q' = <<>> /\ qbytes' = 0     \* disconnect, never drop silently
                     /\ UNCHANGED toBackend
                ELSE /\ q' = Append(q, Len(sent) + 1) /\ qbytes' = qbytes + sz
                     /\ UNCHANGED <<toBackend, overflowed>>
    /\ UNCHANGED <<kind, ms, ready, lost>>

\* the next milestone; passing ReadyAt flushes the queue and makes the backend ready, atomically
Milestone ==
    /\ ~overflowed /\ ms < Len(Milestones(kind))
    /\ ms' = ms + 1
    /\ h' = Append(h, Milestones(kind)[ms + 1])
    /\ IF ms + 1 = ReadyAt
         THEN /\ toBackend' = toBackend \o q /\ q' = <<>> /\ qbytes' = 0 /\ ready' = TRUE
              /\ UNCHANGED lost
         ELSE IF Milestones(kind)[ms + 1] = "failready"
           THEN /\ lost' = lost + Len(q) /\ q' = <<>> /\ qbytes' = 0
                /\ UNCHANGED <<toBackend, ready>>
           ELSE UNCHANGED <<toBackend, q, qbytes, ready, lost>>
    /\ UNCHANGED <<kind, sent, overflowed>>

MNext == (\E sz \in Sizes : ClientMsg(sz)) \/ Milestone
MSpec == MInit /\ [][MNext]_mvars

\* exactly once, in the order sent, queued ones before any later one
InOrder == \A i \in 1..Len(toBackend) : toBackend[i] = lost + i
NoLoss == (~overflowed /\ ready) => lost + Len(toBackend) + Len(q) = Len(sent) /\ q = <<>>
Queued == ~overflowed => (\A i \in 1..Len(q) : q[i] = lost + Len(toBackend) + i)
Bounded == Len(q) <= MaxCount /\ qbytes <= MaxBytes
OverflowOnlyWhenFull == overflowed => ~ready

Terminal == overflowed \/ (ms = Len(Milestones(kind)) /\ Len(sent) = MaxMsgs)
Emit == (ms = Len(Milestones(kind)) \/ overflowed) =>
           PrintT(<<"HIST", ToJson([kind |-> kind, h |-> h])>>)
=============================================================================
