SPECIFICATION Spec
CONSTANTS
  Big = TRUE
  Sample = 6000
INVARIANTS Sane Emit
