SPECIFICATION TSpec
CONSTANTS
  Alphabet = {97}
  MaxShort = 0
INVARIANT Mark
POSTCONDITION Accepted
CHECK_DEADLOCK FALSE
