SPECIFICATION TSpec
CONSTANTS
  Servers = {"s1"}
  Threads = {"t1"}
  MaxCalls = 0
  GenCfg = FALSE
  GenFallbacks = {"s1"}
INVARIANT Mark
POSTCONDITION Accepted
CHECK_DEADLOCK FALSE
