------------------------------- MODULE Relay -------------------------------
(* C15 -- while a player is in play on a backend, every packet the proxy does not
   intercept is relayed with an identical payload and in order, in both directions,
   whatever the sizes, the two (independent) compression thresholds and the version.

   Abstract specification: the proxy between a client and a backend is two independent
   FIFO channels.  A packet is [n, size, kind]: n = position in its direction's send
   order, size = an abstract size class, kind in
       "unknown"  id not registered for (version, play, direction): relayed
       "pass"     known packet whose handler forwards the received payload as is: relayed
       "icpt"     known packet the proxy consumes/answers itself: no obligation
   Relay(d) takes the oldest packet of direction d the proxy has not looked at yet and
   either consumes it (intercepted) or delivers it.  The property:
       recv[d] is a prefix of the non-intercepted subsequence of sent[d]   (always)
       and equal to it once the proxy has looked at everything sent        (quiescence)
   The same module is the scenario generator (h = the send order with size classes and
   kinds, exported at the end of a behaviour) and, through Relay_Trace, the judge of what
   the endpoints of the live rig logged.

   With Faulty = TRUE the channel may also drop, duplicate or overtake: that variant must
   violate the invariants (non-vacuity). *)
EXTENDS Naturals, Sequences, TLC, Json

CONSTANTS Versions,     \* protocol numbers to drive
          ThrPlus1,     \* compression thresholds + 1 (cfg files hold no negatives): 0 = off
          Sizes,        \* size classes (strings), see checks/C15.py
          Kinds,        \* subset of {"unknown", "pass", "icpt"}
          SmallSize,    \* the one size class used with the fixed-layout kinds
          MaxSend,      \* packets (or bursts) per direction
          Faulty

Dirs == {"c2s", "s2c"}

VARIABLES ver, cthr, bthr,   \* scenario parameters (thresholds + 1)
          sent,              \* [Dirs -> Seq(packet)]
          pos,               \* [Dirs -> Nat] how many packets of sent[d] the proxy has looked at
          recv,              \* [Dirs -> Seq(packet)]
          h                  \* send order (scenario export)

vars == <<ver, cthr, bthr, sent, pos, recv, h>>
View == <<ver, cthr, bthr, sent, pos, recv>>

Intercepted(p) == p.kind = "icpt"

RECURSIVE NonIcpt(_)
NonIcpt(s) == IF s = <<>> THEN <<>>
              ELSE IF Intercepted(Head(s)) THEN NonIcpt(Tail(s))
              ELSE <<Head(s)>> \o NonIcpt(Tail(s))

IsPrefix(a, b) == Len(a) <= Len(b) /\ SubSeq(b, 1, Len(a)) = a

Init == /\ ver \in Versions /\ cthr \in ThrPlus1 /\ bthr \in ThrPlus1
        /\ sent = [d \in Dirs |-> <<>>] /\ recv = [d \in Dirs |-> <<>>]
        /\ pos = [d \in Dirs |-> 0] /\ h = <<>>

Send(d) == /\ Len(sent[d]) < MaxSend
           /\ \E sz \in Sizes, k \in Kinds :
                 /\ (k # "unknown" => sz = SmallSize)    \* fixed-layout packets: one variant
                 /\ sent' = [sent EXCEPT ![d] = Append(@, [n |-> Len(@) + 1, size |-> sz, kind |-> k])]
                 /\ h' = Append(h, [dir |-> d, size |-> sz, kind |-> k])
           /\ UNCHANGED <<ver, cthr, bthr, pos, recv>>

Relay(d) == /\ pos[d] < Len(sent[d])
            /\ LET p == sent[d][pos[d] + 1] IN
                 recv' = IF Intercepted(p) THEN recv ELSE [recv EXCEPT ![d] = Append(@, p)]
            /\ pos' = [pos EXCEPT ![d] = @ + 1]
            /\ UNCHANGED <<ver, cthr, bthr, sent, h>>

\* fault injection (non-vacuity only)
Drop(d) == /\ Faulty /\ pos[d] < Len(sent[d])
           /\ pos' = [pos EXCEPT ![d] = @ + 1]
           /\ UNCHANGED <<ver, cthr, bthr, sent, recv, h>>
Dup(d) == /\ Faulty /\ pos[d] > 0 /\ ~Intercepted(sent[d][pos[d]])
          /\ recv' = [recv EXCEPT ![d] = Append(@, sent[d][pos[d]])]
          /\ UNCHANGED <<ver, cthr, bthr, sent, pos, h>>
Overtake(d) == /\ Faulty /\ pos[d] + 1 < Len(sent[d])
               /\ ~Intercepted(sent[d][pos[d] + 1]) /\ ~Intercepted(sent[d][pos[d] + 2])
               /\ recv' = [recv EXCEPT ![d] = @ \o <<sent[d][pos[d] + 2], sent[d][pos[d] + 1]>>]
               /\ pos' = [pos EXCEPT ![d] = @ + 2]
               /\ UNCHANGED <<ver, cthr, bthr, sent, h>>

Next == \E d \in Dirs : Send(d) \/ Relay(d) \/ Drop(d) \/ Dup(d) \/ Overtake(d)
Spec == Init /\ [][Next]_vars

----------------------------------------------------------------------------
(* The property *)
InOrderNoLossNoDup == \A d \in Dirs : IsPrefix(recv[d], NonIcpt(sent[d]))
Quiescent == \A d \in Dirs : pos[d] = Len(sent[d])
CompleteAtQuiescence == Quiescent => \A d \in Dirs : recv[d] = NonIcpt(sent[d])

(* What a vanilla peer accepts of a frame that carries a payload of plen bytes (id +
   body) on a link with compression threshold thr (-1 = off): the frame length fits the
   21-bit length prefix, and a compressed frame is only legal at or above the threshold.
   Used by the trace spec; thresholds there are the real (possibly negative) numbers. *)
MaxFrame == 2097151
Acceptable(thrp1, plen, comp, flen) ==
    /\ flen <= MaxFrame
    /\ (comp => (thrp1 > 0 /\ plen + 1 >= thrp1))

----------------------------------------------------------------------------
Terminal == Quiescent /\ \A d \in Dirs : Len(sent[d]) = MaxSend
Emit == Terminal => PrintT(<<"SCEN", ToJson([ver |-> ver, cthr |-> cthr, bthr |-> bthr, h |-> h])>>)
=============================================================================
