SPECIFICATION Spec
CONSTANTS
  Kinds = {"cfg765", "sw763"}
  Ids = {1, 2}
  Unknown = 9
  Cap = 2
  MaxLen = 4
INVARIANTS OnlyIfAsked OncePerReply UnknownDropped Bounded Emit
