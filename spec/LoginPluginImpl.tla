-------------------------- MODULE LoginPluginImpl --------------------------
(* C13 -- code-shaped model of pkg/edition/java/proxy/login_inbound.go.

   One action per segment of SendLoginPluginMessage / loginEventFired /
   handleLoginPluginResponse between the gate points of the instrumented code
   (lp.send.id, lp.send.registered, lp.fired.enter, lp.fired.popped, lp.resp.taken,
   lp.resp.consumed, lp.resp.checked; the harness adds lp.call between two calls of
   one thread).  Every segment touches the shared state inside at most one critical
   section of l.mu, so a segment is one atomic action.

   Threads: the client read loop "rl" runs
       pre sends (the pre-login handler calls SendLoginPluginMessage synchronously),
       loginEventFired, then one handleLoginPluginResponse per client response
       (a consumer may send a follow-up message: chain);
   every handler goroutine in prog.gor performs one SendLoginPluginMessage at any time.

   ClearOnRun = TRUE  : the completion callback is taken (disarmed) by the one who runs it
   ClearOnRun = FALSE : it stays armed after it ran (non-vacuity: TLC finds the double run)

   The model generates schedules (Emit) and programs (EmitProg) and documents the
   implementation; traces of the real code are judged by LoginPlugin.tla only. *)
EXTENDS Naturals, Sequences, FiniteSets, TLC, Json

CONSTANTS Handlers, MaxPre, MaxResp, Ids, Chain, ClearOnRun, Export

RL == "rl"
Threads == Handlers \cup {RL}

\* a response may ask the consumer it hits to send a follow-up message (chain) and / or to
\* return an error (cerr); only a successful response with a body can say so.  A successful
\* response may also have an empty body (empty).  A consumer's error is reported to the caller
\* and changes nothing else.
RespT == {r \in [id : Ids, ok : BOOLEAN, chain : (IF Chain THEN BOOLEAN ELSE {FALSE}), cerr : BOOLEAN,
                 empty : BOOLEAN] :
             /\ (r.chain => r.ok) /\ (r.cerr => r.ok)
             /\ (r.empty => r.ok /\ ~r.chain /\ ~r.cerr)}
Progs == [pre : 0..MaxPre,
          resps : UNION {[1..n -> RespT] : n \in 0..MaxResp},
          gor : SUBSET Handlers]

PTag(i) == "p" \o ToString(i)
CTag(i) == "c" \o ToString(i)

VARIABLES prog, ci, pc, loc,
          seq,        \* sequenceCounter
          out,        \* outstandingResponses: set of <<id, tag>>
          queue,      \* loginMessagesToSend (ids)
          firedF,     \* isLoginEventFired
          armed,      \* onAllMessagesHandled # nil
          written,    \* ids written to the client
          regid,      \* tag -> id it was registered with (set of <<tag, id>>)
          dlog,       \* consumer invocations: sequence of <<tag, id>>
          completedN, \* completion runs
          cbad,       \* a completion ran while a message was outstanding at its decision / before fired
          h

vars == <<prog, ci, pc, loc, seq, out, queue, firedF, armed, written, regid, dlog, completedN, cbad, h>>
View == <<prog, ci, pc, loc, seq, out, queue, firedF, armed, written, regid, dlog, completedN, cbad>>

NCalls(t) == IF t = RL THEN prog.pre + 1 + Len(prog.resps)
             ELSE IF t \in prog.gor THEN 1 ELSE 0

Call(t, i) == IF t # RL THEN [k |-> "send", tag |-> t]
              ELSE IF i <= prog.pre THEN [k |-> "send", tag |-> PTag(i)]
              ELSE IF i = prog.pre + 1 THEN [k |-> "fired"]
              ELSE [k |-> "resp", r |-> prog.resps[i - prog.pre - 1], ctag |-> CTag(i - prog.pre - 1)]

NoLoc == [id |-> 0, tag |-> "", msgs |-> <<>>, done |-> FALSE, a |-> FALSE]

Init == /\ prog \in Progs
        /\ ci = [t \in Threads |-> 1]
        /\ pc = [t \in Threads |-> IF NCalls(t) = 0 THEN "done" ELSE "call"]
        /\ loc = [t \in Threads |-> NoLoc]
        /\ seq = 0 /\ out = {} /\ queue = <<>> /\ firedF = FALSE /\ armed = FALSE
        /\ written = {} /\ regid = {} /\ dlog = <<>> /\ completedN = 0 /\ cbad = FALSE
        /\ h = <<>>

Go(t, to) == pc' = [pc EXCEPT ![t] = to] /\ h' = Append(h, t) /\ UNCHANGED <<ci, prog>>
\* the current call of t is finished: park at the next call gate, or finish
Next_(t) == /\ h' = Append(h, t) /\ UNCHANGED prog
            /\ IF ci[t] + 1 > NCalls(t)
                 THEN pc' = [pc EXCEPT ![t] = "done"] /\ UNCHANGED ci
                 ELSE pc' = [pc EXCEPT ![t] = "call"] /\ ci' = [ci EXCEPT ![t] = @ + 1]

Cur(t) == Call(t, ci[t])
SetLoc(t, r) == loc' = [loc EXCEPT ![t] = r]

RunComplete(ok) == /\ completedN' = completedN + 1
                   /\ cbad' = (cbad \/ ~ok)

----------------------------------------------------------------------------
(* SendLoginPluginMessage; `back` is where the thread continues afterwards ("" = call ends) *)
SendA(t, tag, from, to) ==
    /\ pc[t] = from
    /\ seq' = seq + 1
    /\ SetLoc(t, [loc[t] EXCEPT !.id = seq + 1, !.tag = tag])
    /\ Go(t, to)
    /\ UNCHANGED <<out, queue, firedF, armed, written, regid, dlog, completedN, cbad>>

SendB(t, from, to) ==
    /\ pc[t] = from
    /\ out' = out \cup {<<loc[t].id, loc[t].tag>>}
    /\ regid' = regid \cup {<<loc[t].tag, loc[t].id>>}
    /\ queue' = IF firedF THEN queue ELSE Append(queue, loc[t].id)
    /\ SetLoc(t, [loc[t] EXCEPT !.done = firedF])        \* local `fired`
    /\ Go(t, to)
    /\ UNCHANGED <<seq, firedF, armed, written, dlog, completedN, cbad>>

\* if fired { WritePacket }
SendWrite(t) == written' = IF loc[t].done THEN written \cup {loc[t].id} ELSE written

SendCall(t) ==
    /\ Cur(t).k = "send"
    /\ \/ SendA(t, Cur(t).tag, "call", "sid")
       \/ SendB(t, "sid", "sreg")
       \/ /\ pc[t] = "sreg" /\ SendWrite(t) /\ Next_(t) /\ SetLoc(t, NoLoc)
          /\ UNCHANGED <<seq, out, queue, firedF, armed, regid, dlog, completedN, cbad>>

----------------------------------------------------------------------------
(* loginEventFired *)
FiredCall(t) ==
    /\ Cur(t).k = "fired"
    /\ \/ /\ pc[t] = "call" /\ Go(t, "fent")
          /\ UNCHANGED <<loc, seq, out, queue, firedF, armed, written, regid, dlog, completedN, cbad>>
       \/ /\ pc[t] = "fent"
          /\ firedF' = TRUE
          /\ armed' = (IF ClearOnRun THEN queue # <<>> ELSE TRUE)
          /\ SetLoc(t, [loc[t] EXCEPT !.msgs = queue, !.done = (out = {})])   \* decision point
          /\ queue' = <<>>
          /\ Go(t, "fpop")
          /\ UNCHANGED <<seq, out, written, regid, dlog, completedN, cbad>>
       \/ /\ pc[t] = "fpop"
          /\ IF loc[t].msgs = <<>>
               THEN RunComplete(loc[t].done) /\ UNCHANGED written
               ELSE /\ written' = written \cup {loc[t].msgs[i] : i \in 1..Len(loc[t].msgs)}
                    /\ UNCHANGED <<completedN, cbad>>
          /\ Next_(t) /\ SetLoc(t, NoLoc)
          /\ UNCHANGED <<seq, out, queue, firedF, armed, regid, dlog>>

----------------------------------------------------------------------------
(* handleLoginPluginResponse *)
TagOf(id) == CHOOSE tg \in {p[2] : p \in {q \in out : q[1] = id}} : TRUE
Found(id) == \E p \in out : p[1] = id

RespCall(t) ==
    /\ Cur(t).k = "resp"
    /\ LET r == Cur(t).r IN
       \/ /\ pc[t] = "call"                      \* take the consumer under the lock
          /\ IF Found(r.id)
               THEN /\ out' = {p \in out : p[1] # r.id}
                    /\ SetLoc(t, [loc[t] EXCEPT !.tag = TagOf(r.id), !.id = r.id])
                    /\ Go(t, "rtaken")
               ELSE /\ UNCHANGED <<out, loc>> /\ Next_(t)
          /\ UNCHANGED <<seq, queue, firedF, armed, written, regid, dlog, completedN, cbad>>
       \/ /\ pc[t] = "rtaken"                    \* the consumer runs (outside the lock)
          /\ dlog' = Append(dlog, <<loc[t].tag, loc[t].id>>)
          /\ IF r.chain
               THEN /\ seq' = seq + 1            \* ... and sends a follow-up: up to lp.send.id
                    /\ SetLoc(t, [loc[t] EXCEPT !.id = seq + 1, !.tag = Cur(t).ctag])
                    /\ Go(t, "csid")
               ELSE /\ UNCHANGED <<seq, loc>> /\ Go(t, "rcons")
          /\ UNCHANGED <<out, queue, firedF, armed, written, regid, completedN, cbad>>
       \/ SendB(t, "csid", "csreg")
       \/ /\ pc[t] = "csreg" /\ SendWrite(t) /\ Go(t, "rcons") /\ UNCHANGED loc
          /\ UNCHANGED <<seq, out, queue, firedF, armed, regid, dlog, completedN, cbad>>
       \/ /\ pc[t] = "rcons"                     \* the done check under the lock
          /\ LET done == out = {} IN
             /\ SetLoc(t, [loc[t] EXCEPT !.done = done, !.a = armed])
             /\ armed' = (IF ClearOnRun /\ done THEN FALSE ELSE armed)
          /\ Go(t, "rchk")
          /\ UNCHANGED <<seq, out, queue, firedF, written, regid, dlog, completedN, cbad>>
       \/ /\ pc[t] = "rchk"
          /\ IF loc[t].done /\ loc[t].a
               THEN RunComplete(firedF)
               ELSE UNCHANGED <<completedN, cbad>>
          /\ Next_(t) /\ SetLoc(t, NoLoc)
          /\ UNCHANGED <<seq, out, queue, firedF, armed, written, regid, dlog>>

Next == \E t \in Threads : SendCall(t) \/ FiredCall(t) \/ RespCall(t)

Spec == Init /\ [][Next]_vars

Quiescent == \A t \in Threads : pc[t] = "done"

----------------------------------------------------------------------------
(* The property on the model's state *)
DTags == {dlog[i][1] : i \in 1..Len(dlog)}

\* every consumer is invoked at most once
DeliveredOnce == \A i, j \in 1..Len(dlog) : dlog[i][1] = dlog[j][1] => i = j
\* ... and only for a response carrying the id its message was registered with
DeliveredMatch == \A i \in 1..Len(dlog) : <<dlog[i][1], dlog[i][2]>> \in regid
\* the completion step runs at most once, after the pre-login event, with nothing outstanding
CompletedOnce == completedN <= 1
CompletedClean == ~cbad
\* at quiescence: it ran exactly once if every message that was sent has been answered
CompletedExactly ==
    Quiescent /\ (\A p \in regid : p[1] \in DTags) => completedN = 1

TypeOK == /\ seq \in 0..8 /\ completedN \in 0..4 /\ firedF \in BOOLEAN /\ armed \in BOOLEAN

----------------------------------------------------------------------------
Emit == (Export /\ Quiescent) =>
           PrintT(<<"SCHED", ToJson([prog |-> prog, sched |-> h])>>)
\* programs only (live-rig histories): printed for every initial state
EmitProg == (h = <<>>) => PrintT(<<"PROG", ToJson(prog)>>)
Stop == h = <<>> /\ FALSE
=============================================================================
