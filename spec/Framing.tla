------------------------------ MODULE Framing ------------------------------
(* C01 -- packet frames survive compression, encryption and arbitrary stream chunking.

   A writer turns payloads into frames (length prefix, compression envelope), optionally
   encrypts the byte stream, the bytes reach the reader in arbitrary chunks, the reader
   decrypts, cuts frames (lib/FrameRules.tla: the same acceptance rules C02 holds the real
   decoder to) and delivers payloads.  Both sides change the compression threshold and
   switch encryption on at the same point of the stream (after a given payload).

   zlib and AES/CFB8 are uninterpreted.  In this model they are instantiated by arbitrary
   functions with the only properties the argument needs: Z is injective (UnZ \o Z = id)
   and the cipher is a position-dependent stream bijection whose state depends on the
   ciphertext so far (like CFB8), so that any desynchronisation garbles what follows.

   The property:  Delivered  recv is always a prefix of the non-empty payloads sent, in order
                  NoError    the reader never rejects
                  AllRead    when everything is written and has arrived, recv = non-empty(sent)
   for every chunking (Deliver(k) for every k) and every interleaving of writes, arrivals and
   reads.  An empty payload is an empty frame, which readers skip by design (vanilla, Velocity,
   Gate): it must not be delivered as anything else and must not disturb its neighbours.

   EmptyCompressed = TRUE is the naive writer that compresses a 0-byte payload when the
   threshold is 0 (claimed size 0 followed by a zlib body, which every reader takes for an
   uncompressed frame): TLC must find NoError violated (non-vacuity, and the reason the
   envelope rule below has its "len = 0" case). *)
EXTENDS FrameRules, FiniteSets

CONSTANTS Payloads,         \* set of byte strings that may be written
          MaxWrites,
          Thresholds,       \* subset of -1 .. ; -1 = compression off
          EmptyCompressed   \* BOOLEAN, see above

VARIABLES cfg,      \* [thr, enc, sw]: settings from the start; sw = [after, thr, enc] switch after the
                    \* after-th non-empty payload (after = 0: never)
          sent,     \* payloads written so far
          wire,     \* bytes on the wire (ciphertext once encryption is on)
          encFrom,  \* wire position from which bytes are encrypted (0 = not yet)
          wthr,     \* writer's current threshold
          arrived,  \* how many wire bytes have reached the reader
          rpos,     \* wire bytes consumed by the reader
          rthr,     \* reader's current threshold
          rdecFrom, \* wire position from which the reader decrypts (0 = not yet)
          recv,     \* payloads delivered
          rdead     \* the reader rejected something

\* payload sets for the configs (cfg files cannot write tuples): Payloads <- PayloadsN
PayloadsFull == {<<>>, <<1>>, <<2>>, <<1, 2>>, <<2, 2>>, <<1, 2, 1>>}
PayloadsQuick == {<<>>, <<1>>, <<1, 2>>, <<2, 1, 2>>}
PayloadsTiny == {<<>>, <<1>>}
ThrFull == {-1, 0, 1, 2, 3}
ThrTiny == {-1, 0}
ThrQuick == {-1, 0, 2}

vars == <<cfg, sent, wire, encFrom, wthr, arrived, rpos, rthr, rdecFrom, recv, rdead>>

-----------------------------------------------------------------------------
(* the uninterpreted primitives, instantiated *)
Z(p) == <<250>> \o p \o <<251>>
IsZ(b) == Len(b) >= 2 /\ b[1] = 250 /\ b[Len(b)] = 251
UnZ(b) == SubSeq(b, 2, Len(b) - 1)

Key == 77
IV == 5
\* ciphertext byte for plaintext byte x when the previous ciphertext byte was prev
EncByte(x, prev) == (x + prev * 3 + Key) % 256
DecByte(y, prev) == (y - prev * 3 - Key) % 256
\* encrypt plaintext bs as a continuation of a stream whose last ciphertext byte was prev
RECURSIVE EncFrom(_, _)
EncFrom(bs, prev) == IF bs = <<>> THEN <<>>
                     ELSE LET y == EncByte(Head(bs), prev) IN <<y>> \o EncFrom(Tail(bs), y)

\* the writer's envelope
WFrame(thr, p) ==
    LET n == Len(p) IN
    IF thr < 0 THEN EncVarInt(n) \o p
    ELSE IF n < thr \/ (n = 0 /\ ~EmptyCompressed) THEN EncVarInt(n + 1) \o <<0>> \o p
    ELSE LET body == EncVarInt(n) \o Z(p) IN EncVarInt(Len(body)) \o body

NonEmpty(s) == SelectSeq(s, LAMBDA p : p # <<>>)
IsPrefix(a, b) == Len(a) <= Len(b) /\ SubSeq(b, 1, Len(a)) = a

-----------------------------------------------------------------------------
Switches == {[after |-> 0, thr |-> -1, enc |-> FALSE]}
            \cup [after : 1..(MaxWrites - 1), thr : Thresholds, enc : BOOLEAN]

Init == /\ cfg \in [thr : Thresholds, enc : BOOLEAN, sw : Switches]
        /\ (cfg.enc => ~(cfg.sw.after > 0 /\ ~cfg.sw.enc))        \* encryption is never switched off
        /\ sent = <<>> /\ wire = <<>> /\ recv = <<>>
        /\ encFrom = IF cfg.enc THEN 1 ELSE 0
        /\ rdecFrom = IF cfg.enc THEN 1 ELSE 0
        /\ wthr = cfg.thr /\ rthr = cfg.thr
        /\ arrived = 0 /\ rpos = 0 /\ rdead = FALSE

LastCipher(w, from) == IF from = 0 \/ Len(w) < from THEN IV ELSE w[Len(w)]

Write(p) ==
    /\ Len(sent) < MaxWrites
    /\ LET f == WFrame(wthr, p)
           bytes == IF encFrom > 0 THEN EncFrom(f, LastCipher(wire, encFrom)) ELSE f
           k == Len(NonEmpty(sent)) + (IF p # <<>> THEN 1 ELSE 0)
           sw == cfg.sw.after > 0 /\ p # <<>> /\ k = cfg.sw.after
       IN /\ wire' = wire \o bytes
          /\ sent' = Append(sent, p)
          /\ wthr' = IF sw THEN cfg.sw.thr ELSE wthr
          /\ encFrom' = IF sw /\ cfg.sw.enc /\ encFrom = 0 THEN Len(wire) + Len(bytes) + 1 ELSE encFrom
    /\ UNCHANGED <<cfg, arrived, rpos, rthr, rdecFrom, recv, rdead>>

Deliver(k) == /\ arrived + k <= Len(wire)
              /\ arrived' = arrived + k
              /\ UNCHANGED <<cfg, sent, wire, encFrom, wthr, rpos, rthr, rdecFrom, recv, rdead>>

\* the reader's view of the arrived, unconsumed bytes (decrypted where encryption applies)
Plain(i) == IF rdecFrom > 0 /\ i >= rdecFrom
              THEN DecByte(wire[i], IF i = rdecFrom THEN IV ELSE wire[i - 1])
              ELSE wire[i]
Pending == [j \in 1..(arrived - rpos) |-> Plain(rpos + j)]

ZFacts(body) == [ok |-> IsZ(body), n |-> IF IsZ(body) THEN Len(UnZ(body)) ELSE 0, trail |-> 0]

Read ==
    /\ ~rdead
    /\ LET pend == Pending
           head == Take(pend, 16)
           zr == ZRegion(head)
           body == IF rthr >= 0 /\ DecVarInt(head).ok /\ zr.len >= 0 /\ zr.off + zr.len <= Len(pend)
                     THEN SubSeq(pend, zr.off + 1, zr.off + zr.len) ELSE <<>>
           f == Frame("cb", rthr, head, Len(pend), ZFacts(body))
       IN CASE f.kind = "incomplete" -> FALSE                       \* waits for more bytes
            [] f.kind = "reject" -> rdead' = TRUE /\ UNCHANGED <<rpos, recv, rthr, rdecFrom>>
            [] f.kind = "skip" -> rpos' = rpos + f.used /\ UNCHANGED <<recv, rdead, rthr, rdecFrom>>
            [] OTHER ->
                 LET p == IF f.kind = "raw" THEN SubSeq(pend, f.off + 1, f.off + f.plen) ELSE UnZ(body)
                     sw == cfg.sw.after > 0 /\ Len(recv) + 1 = cfg.sw.after
                 IN /\ recv' = Append(recv, p)
                    /\ rpos' = rpos + f.used
                    /\ rthr' = IF sw THEN cfg.sw.thr ELSE rthr
                    /\ rdecFrom' = IF sw /\ cfg.sw.enc /\ rdecFrom = 0 THEN rpos + f.used + 1 ELSE rdecFrom
                    /\ UNCHANGED rdead
    /\ UNCHANGED <<cfg, sent, wire, encFrom, wthr, arrived>>

Next == \/ \E p \in Payloads : Write(p)
        \/ \E k \in 1..(Len(wire) - arrived) : Deliver(k)
        \/ Read

Spec == Init /\ [][Next]_vars

-----------------------------------------------------------------------------
Delivered == IsPrefix(recv, NonEmpty(sent))
NoError == ~rdead
Quiescent == Len(sent) = MaxWrites /\ arrived = Len(wire) /\ ~ENABLED Read
AllRead == Quiescent => recv = NonEmpty(sent)
\* frames never exceed what the reader may buffer, the reader never runs ahead of the wire
TypeOK == rpos <= arrived /\ arrived <= Len(wire) /\ IsBytes(wire)
=============================================================================
