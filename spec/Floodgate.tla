------------------------------ MODULE Floodgate ------------------------------
(* C39 -- Floodgate identity data is authentic and interoperable.

   hostname = orig NUL envelope [":" port],
   envelope = HEADER  B64(iv)  "!"  B64(AEAD(key, iv, record)),   record = 12 NUL-joined fields.
   AEAD (AES-GCM) and Base64 are uninterpreted: a sealed box opens exactly under the key and
   the iv it was sealed with and only if no ciphertext / tag bit changed.

   A case = [ks (key size), keykind (what the key bytes look like), wrongkey, mut (what was
   done to the hostname), shape (of the record)].  Expected is the statement; Read walks the stages of a decoder.  TLC checks
   that they agree on every case (and that a decoder without the authenticity stage does
   not), and exports the cases; the harness builds each with its own Floodgate-style
   encoder over crypto/aes + cipher.NewGCM and gives it to the real ReadHostname. *)
EXTENDS Integers, Sequences, FiniteSets, TLC, Json

CONSTANTS NoAuth      \* TRUE: a broken decoder that skips the AEAD check (non-vacuity)

KeySizes == {16, 24, 32}
\* the shared key is raw bytes: random ones, bytes that all happen to be Base64 alphabet
\* characters, and such text ending in "==" (it must still be used as it is)
KeyKinds == {"random", "b64text", "b64pad"}
\* what happened to a correctly built hostname
Muts == {"none", "port",                          \* untouched / ":25565" appended
         "header", "iv", "splitter", "ct", "tag", \* one byte changed in that part
         "nosplit", "b64iv", "b64ct",             \* splitter removed / a non-base64 character
         "extranul", "nonul",                     \* a third NUL part / the NUL removed
         "shortiv", "longiv", "emptyct", "trunc", \* iv of 3 / 15 bytes, no ciphertext, tag cut off
         "swapiv"}                                \* iv of another message under the same key
\* the record inside
Shapes == {"ok", "unicode", "f11", "f13", "nouser", "xuid0", "xuidbad", "osbad", "os99"}

Cases == [ks : KeySizes, keykind : KeyKinds, wrongkey : BOOLEAN, mut : Muts, shape : Shapes]

\* the statement: authentic, unaltered data decodes to its fields; data under another key or
\* altered anywhere is rejected; records Floodgate itself would not produce are left open
Expected(c) == IF c.wrongkey \/ c.mut \notin {"none", "port"} THEN "reject"
               ELSE IF c.shape \in {"ok", "unicode", "os99"} THEN "fields"
               ELSE "any"

\* a decoder, stage by stage
Read(c) ==
    IF c.mut \in {"extranul", "nonul"} THEN "reject"                 \* exactly two NUL parts
    ELSE IF c.mut = "header" THEN "reject"                           \* after stripping ":port"
    ELSE IF c.mut \in {"nosplit", "splitter"} THEN "reject"          \* no "!" (or it moved: base64 breaks)
    ELSE IF c.mut \in {"b64iv", "b64ct"} THEN "reject"
    ELSE IF c.mut \in {"shortiv", "longiv"} THEN "reject"            \* the nonce is 12 bytes
    ELSE IF ~NoAuth /\ (c.wrongkey \/ c.mut \in {"iv", "ct", "tag", "emptyct", "trunc", "swapiv"}) THEN "reject"
    ELSE IF c.shape \in {"ok", "unicode", "os99"} THEN "fields"
    ELSE "any"

VARIABLE c
Init == c \in Cases
Next == UNCHANGED c
Spec == Init /\ [][Next]_c

DecoderMeetsStatement == Read(c) = Expected(c)
Emit == PrintT(<<"CASE", ToJson(c)>>)

----------------------------------------------------------------------------
(* field mapping: the 12 strings of a record and the typed fields a decoder shows *)
\* decimal digits (character codes) of a small natural number
RECURSIVE Dec(_)
Dec(n) == IF n < 10 THEN <<48 + n>> ELSE Dec(n \div 10) \o <<48 + (n % 10)>>
\* value of a string of 1..2 digits, -1 otherwise
SmallNat(s0) == LET s == s0 IN
                IF Len(s) = 1 /\ s[1] >= 48 /\ s[1] <= 57 THEN s[1] - 48
                ELSE IF Len(s) = 2 /\ s[1] >= 49 /\ s[1] <= 57 /\ s[2] >= 48 /\ s[2] <= 57 THEN 10 * (s[1] - 48) + s[2] - 48
                ELSE -1
\* what a decoder must show for record fields f (12 strings); os ids outside 0..15 read as 0 (unknown)
Shown(f0) == LET f == f0
                 os == SmallNat(f[4]) IN
             [version |-> f[1], username |-> f[2], xuid |-> f[3],
              os |-> IF os >= 0 /\ os <= 15 THEN os ELSE 0,
              language |-> f[5], ui |-> f[6], input |-> f[7], ip |-> f[8], linked |-> f[9],
              proxy |-> f[10] = <<49>>, subscribe |-> f[11], verify |-> f[12]]
=============================================================================
