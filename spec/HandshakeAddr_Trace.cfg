SPECIFICATION TSpec
CONSTANT Collect = FALSE
INVARIANT Mark
POSTCONDITION Accepted
CHECK_DEADLOCK FALSE
