SPECIFICATION TSpec
CONSTANTS
  Raw = {}
  Dead = {}
  MaxList = 0
  Strategies = {}
  DropAll = TRUE
  Export = FALSE
INVARIANT Mark
POSTCONDITION Accepted
CHECK_DEADLOCK FALSE
