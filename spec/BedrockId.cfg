SPECIFICATION Spec
CONSTANTS
  MaxShort = 3
  Cut = 16
INVARIANTS AlwaysValid Idempotent KeepsValid Emit
