--------------------------- MODULE BedrockId_Trace ---------------------------
(* {"ev":"name","in":[code points of the formatted name],"out":[code points]}
        javaCompatibleUsername(in) = out
   {"ev":"uuid","xuid":[decimal digits],"uuid":[16],"again":[16]}
        JavaUuid of two BedrockData with this XUID and different other fields
   The trace spec remembers every (xuid, uuid) and demands: RFC 4122 layout, the same XUID
   gives the same UUID (within the event and across events), different XUIDs different UUIDs. *)
EXTENDS BedrockId, TraceLib

VARIABLES byX,   \* xuid -> uuid seen so far (as a set of pairs)
          us     \* uuids seen so far
tv == <<byX, us>>

TName == /\ IsEv("name")
         /\ LET r == Rec
                o == r.out
            IN Valid(o) /\ o = JavaName(r.in)
         /\ UNCHANGED tv

TUuid == /\ IsEv("uuid")
         /\ LET r == Rec
                u == r.uuid
                x == r.xuid
                known == \E q \in byX : q[1] = x
            IN /\ RFC4122(u)
               /\ r.again = u
               /\ IF known THEN <<x, u>> \in byX ELSE u \notin us
               /\ byX' = byX \cup {<<x, u>>}
               /\ us' = us \cup {u}

TNext == (TName \/ TUuid) /\ UNCHANGED <<tag, f>>
TSpec == tag = <<>> /\ f = 0 /\ byX = {} /\ us = {} /\ CursorInit /\ [][TNext]_<<tag, f, byX, us, l>>
=============================================================================
