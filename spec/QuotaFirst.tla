----------------------------- MODULE QuotaFirst -----------------------------
(* C34 -- first events of one address block arriving together.

   Code-shaped model of addrquota.Quota.Blocked for threads whose addresses share one
   (not yet cached) bucket, rate 0:  lookup in the cache; on a miss build a limiter with a
   full bucket and insert it; then take a token from the limiter one holds.  The gate
   point "quota.miss" sits between the miss and the insertion.  With Locked = TRUE lookup
   and insertion are one critical section (the code); with Locked = FALSE the mutex is
   ignored: TLC then finds the group getting more than Burst events (non-vacuity) and
   every interleaving of the gate points is exported as a schedule, which the harness
   forces on the real Quota (infeasible ones just run as the real lock lets them). *)
EXTENDS Naturals, Sequences, FiniteSets, TLC, Json

CONSTANTS Threads, Burst, Locked, Export

VARIABLES pc,        \* [Threads -> "start" | "miss" | "done"]
          lock,      \* holder or "none"
          cached,    \* the limiter in the cache: its creator, or "none"
          tokens,    \* [creator -> tokens left in the limiter it built]
          allowed,   \* events let through
          h          \* schedule: thread of every segment run
vars == <<pc, lock, cached, tokens, allowed, h>>
View == <<pc, lock, cached, tokens, allowed>>

Init == /\ pc = [t \in Threads |-> "start"] /\ lock = "none" /\ cached = "none"
        /\ tokens = [t \in Threads |-> 0] /\ allowed = 0 /\ h = <<>>

\* limiter.Allow() on the limiter built by thread c
Take(c) == IF tokens[c] > 0 THEN /\ tokens' = [tokens EXCEPT ![c] = @ - 1] /\ allowed' = allowed + 1
           ELSE UNCHANGED <<tokens, allowed>>

\* from the call to the gate (miss) or to the end (hit)
Lookup(t) == /\ pc[t] = "start"
             /\ Locked => lock = "none"
             /\ h' = Append(h, t)
             /\ IF cached # "none"
                  THEN /\ Take(cached) /\ pc' = [pc EXCEPT ![t] = "done"] /\ UNCHANGED <<lock, cached>>
                  ELSE /\ pc' = [pc EXCEPT ![t] = "miss"]
                       /\ lock' = IF Locked THEN t ELSE lock
                       /\ UNCHANGED <<cached, tokens, allowed>>
\* from the gate to the end: build, insert, take a token from one's own limiter
Insert(t) == /\ pc[t] = "miss"
             /\ h' = Append(h, t)
             /\ cached' = t
             /\ tokens' = [tokens EXCEPT ![t] = Burst - 1]     \* full bucket, one taken
             /\ allowed' = allowed + 1
             /\ lock' = IF Locked THEN "none" ELSE lock
             /\ pc' = [pc EXCEPT ![t] = "done"]

Next == \E t \in Threads : Lookup(t) \/ Insert(t)
Spec == Init /\ [][Next]_vars

Quiescent == \A t \in Threads : pc[t] = "done"
\* rate 0: the block never gets more than its burst
GroupBound == allowed <= Burst
Emit == (Export /\ Quiescent) => PrintT(<<"SCHED", ToJson(h)>>)
=============================================================================
