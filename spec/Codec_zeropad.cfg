SPECIFICATION Spec
CONSTANTS
  Mode = "export"
  Bug = "zeropad"
INVARIANTS PrefixRejected
