SPECIFICATION Spec
CONSTANTS
  Mode = "small"
  Deep = FALSE
  Cyc = FALSE
  Variant = "reference"
  BackPairs = TRUE
  Export = TRUE
INVARIANTS EveryProxyNodePasses EveryUsableProxyNodeShown NamesDistinct ProxyReplacesBackend BackendKept NothingElse Emit
