SPECIFICATION TSpec
CONSTANTS
  Protos = {0}
  Collect = FALSE
INVARIANT Mark
POSTCONDITION Accepted
CHECK_DEADLOCK FALSE
