SPECIFICATION Spec
CONSTANTS
  Workers = {"w1", "w2"}
  Observer = "o"
  Picks = 2
  Locked = FALSE
  Export = FALSE
VIEW View
INVARIANT PickOK
