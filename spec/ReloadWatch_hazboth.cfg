SPECIFICATION Spec
CONSTANTS
  Contents = {"A", "B"}
  MaxOps = 3
  Kinds = {"write"}
  Fates = {"drop"}
  Rejects = {}
  CbOps = "both"
  Recheck = TRUE
  Post = "forget"
  Record = "always"
  Breaks = FALSE
  Blind = FALSE
  Export = TRUE
INVARIANTS EmitHazard
