SPECIFICATION Spec
INVARIANTS ResponseLayout ForwardUnchanged ForwardOnce ActsOnNamed UnknownNothing Emit
