SPECIFICATION Spec
INVARIANTS ResponseLayout ForwardUnchanged ForwardOnce ChannelOfReceiver ActsOnNamed UnknownNothing Emit
