SPECIFICATION TSpec
CONSTANTS
  Diagnose = FALSE
INVARIANT Mark
POSTCONDITION Accepted
CHECK_DEADLOCK FALSE
