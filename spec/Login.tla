------------------------------- MODULE Login -------------------------------
(* C08 -- online-mode players are admitted only after verified encryption and session
   authentication; out-of-order / repeated login packets close the connection.

   History machine of one login-phase connection as the client and the environment
   (pre-login handler result, session-server outcome) see it.  One step = one client
   packet and the proxy's complete reaction to it.

   Client packets (k):
     "start"  login start with a valid ("v") or invalid ("i") user name
     "enc"    encryption response; tok in {"exact","wrong","garbage","empty","prefix","longer"}
              (the issued token; one bit flipped; undecryptable bytes; zero bytes; a proper
              prefix of the issued token; the issued token followed by extra bytes),
              sec in {"ok","garbage","short"}
     "plugin" login plugin response with an id nobody asked for
     "unknown" a packet id that is no login packet
   Environment: pre in {"allow","deny","forceOnline","forceOffline"},
     sess in {"ok","okany","204","401","500","drop","empty200","noname"}  (session server's
     answer for the exact (derived server id, user name) pair; anything else gets 204 --
     except "okany", a session server that confirms this user for ANY server id: admission
     then still needs the secret the client sent to have decrypted),
     cfgOnline (online-mode setting).

   Reactions: got in {"encreq","success","disconnect","none","garbled"}, closed.
   "success" means a login success packet that decoded correctly under the secret the
   client sent (so encryption was on with that secret) -- or in clear when no encryption
   response was ever accepted. *)
EXTENDS Naturals, Sequences, TLC, Json

CONSTANTS MaxLen, CfgOnline

Pres == {"allow", "deny", "forceOnline", "forceOffline"}
Sesss == {"ok", "okany", "204", "401", "500", "drop", "empty200", "noname"}
Toks == {"exact", "wrong", "garbage", "empty", "prefix", "longer"}
Secs == {"ok", "garbage", "short"}

Pkts == [k : {"start"}, name : {"v", "i"}]
        \cup [k : {"enc"}, tok : Toks, sec : Secs]
        \cup [k : {"plugin"}] \cup [k : {"unknown"}]

VARIABLES ls,        \* "expected" | "encSent" | "done" | "closed"
          admitted,  \* login success was sent / player registered
          pre, sess, \* environment
          h          \* client packets so far

vars == <<ls, admitted, pre, sess, h>>

Online(p) == (CfgOnline /\ p # "forceOffline") \/ p = "forceOnline"

(* Step(s, a, p, e, pkt, got, closed, s2, a2): in login state s (admitted a), with
   environment (p, e), client packet pkt may be answered by reaction (got, closed),
   leading to (s2, a2).  This relation is THE specification; Next and the trace spec
   both use it. *)
Fail(got, closed, s2, a2, a) ==      \* not admitted; the connection must be closed
    /\ got \in {"none", "disconnect", "garbled"} /\ closed /\ s2 = "closed" /\ a2 = a

Step(s, a, p, e, pkt, got, closed, s2, a2) ==
    CASE pkt.k = "start" /\ s = "expected" /\ pkt.name = "i" -> Fail(got, closed, s2, a2, a)
      [] pkt.k = "start" /\ s = "expected" /\ pkt.name = "v" ->
            IF p = "deny" THEN Fail(got, closed, s2, a2, a)
            ELSE IF Online(p)
              THEN got = "encreq" /\ ~closed /\ s2 = "encSent" /\ a2 = a
              ELSE got = "success" /\ ~closed /\ s2 = "done" /\ a2 = TRUE
      [] pkt.k = "start" /\ s # "expected" -> Fail(got, closed, s2, a2, a)      \* twice / late
      [] pkt.k = "enc" /\ s = "encSent" ->
            IF pkt.tok = "exact" /\ pkt.sec = "ok" /\ e \in {"ok", "okany"}
              THEN got = "success" /\ ~closed /\ s2 = "done" /\ a2 = TRUE
              \* authentication failed: never admitted; whether and when the proxy closes
              \* is not what the property is about
              ELSE got \in {"none", "disconnect", "garbled"} /\ a2 = a
                   /\ s2 = (IF closed THEN "closed" ELSE "encSent")
      [] pkt.k = "enc" /\ s # "encSent" -> Fail(got, closed, s2, a2, a)         \* out of order
      [] pkt.k = "plugin" ->                 \* unknown id: ignored, or treated as unexpected
            \/ (got = "none" /\ ~closed /\ s2 = s /\ a2 = a)
            \/ Fail(got, closed, s2, a2, a)
      [] pkt.k = "unknown" -> Fail(got, closed, s2, a2, a)

Gots == {"encreq", "success", "disconnect", "none", "garbled"}

Init == /\ ls = "expected" /\ admitted = FALSE /\ h = <<>>
        /\ pre \in Pres /\ sess \in Sesss

Next == /\ ls \in {"expected", "encSent"} /\ Len(h) < MaxLen
        /\ \E pkt \in Pkts, got \in {"encreq", "success", "none"}, closed \in BOOLEAN :
              /\ Step(ls, admitted, pre, sess, pkt, got, closed, ls', admitted')
              /\ h' = Append(h, pkt)
        /\ UNCHANGED <<pre, sess>>

Spec == Init /\ [][Next]_vars

(* The property, as invariants of the history machine *)
AdmitOnlyIfVerified ==
    admitted /\ Online(pre) =>
        \E i \in 1..Len(h) : h[i].k = "enc" /\ h[i].tok = "exact" /\ h[i].sec = "ok" /\ sess \in {"ok", "okany"}
NoAdmissionAfterDisorder ==     \* a second login start or an early/late encryption response never admits
    \A i \in 1..Len(h) :
        (h[i].k = "start" /\ \E j \in 1..(i-1) : h[j].k = "start") => ls = "closed"
DenyNeverAdmits == pre = "deny" => ~admitted

Terminal == ls \in {"closed", "done"} \/ Len(h) = MaxLen
Emit == Terminal => PrintT(<<"HIST", ToJson([pre |-> pre, sess |-> sess, h |-> h])>>)
=============================================================================
