---------------------------- MODULE ConfigValid ----------------------------
(* C37 -- validation accepts exactly the documented configuration space.

   A configuration is abstracted to one atom per documented constraint; the
   harness concretises every atom value with one of several concrete
   realisations (logged) on top of config.DefaultConfig and calls the real
   Validate().  Broken(c) is the set of documented constraints a configuration
   breaks; Valid(c) == Broken(c) = {}.  Lite mode replaces the classic backend
   checks (servers / try / forced hosts / forwarding / compression) by the Lite
   route checks, as documented; bind, quotas and the trusted proxy list are
   always checked.

   TLC enumerates the baseline, every single deviation, every pair (and every
   triple in the thorough configuration), for Lite mode off and on. *)
EXTENDS Integers, Sequences, FiniteSets, TLC, Json

CONSTANTS MaxDev,     \* how many atoms may deviate from the baseline at once
          Export      \* BOOLEAN: print every configuration for the harness

\* atom domains; the first element of each is the baseline (DefaultConfig-like, valid)
Dom == [
  bind     |-> <<"ok", "empty", "blank", "noport">>,
  sname    |-> <<"ok", "bad", "long">>,          \* server name: qualified name, <= 63 chars
  saddr    |-> <<"ok", "bad">>,                   \* server address host:port
  try      |-> <<"ok", "unknown">>,               \* try list references a registered server
  forced   |-> <<"ok", "unknown">>,               \* forced host references a registered server
  mode     |-> <<"legacy", "none", "velocity", "bungeeguard", "unknown">>,
  level    |-> <<-1, -2, 0, 9, 10>>,
  thr      |-> <<256, -2, -1, 0>>,
  qcEn     |-> <<TRUE, FALSE>>,                   \* quota.connections
  qcOps    |-> <<"pos", "zero", "neg">>,
  qcBurst  |-> <<1, 0>>,
  qcMax    |-> <<1, 0>>,
  qlEn     |-> <<TRUE, FALSE>>,                   \* quota.logins
  qlOps    |-> <<"pos", "zero", "neg">>,
  qlBurst  |-> <<1, 0>>,
  qlMax    |-> <<1, 0>>,
  trusted  |-> <<"default", "cidr", "ip", "bad">>,
  routes   |-> <<"two", "one", "none">>,          \* lite.routes (the last route carries the deviations)
  rhost    |-> <<"ok", "missing">>,
  rbackend |-> <<"ok", "missing">>,
  strat    |-> <<"", "sequential", "random", "round-robin", "least-connections", "lowest-latency", "bad">>,
  baddr    |-> <<"ok", "noport", "bad">>
]
Atoms == DOMAIN Dom
Base == [a \in Atoms |-> Dom[a][1]]
Vals(a) == {Dom[a][i] : i \in DOMAIN Dom[a]}

QuotaBroken(name, en, ops, burst, max) ==
    IF ~en THEN {}
    ELSE (IF ops # "pos" THEN {name \o ".ops"} ELSE {})
         \cup (IF burst < 1 THEN {name \o ".burst"} ELSE {})
         \cup (IF max < 1 THEN {name \o ".maxEntries"} ELSE {})

ClassicBroken(c) ==
    (IF c.mode = "unknown" THEN {"forwarding.mode"} ELSE {})
    \cup (IF c.sname # "ok" THEN {"servers.name"} ELSE {})
    \cup (IF c.saddr # "ok" THEN {"servers.address"} ELSE {})
    \cup (IF c.try # "ok" THEN {"try"} ELSE {})
    \cup (IF c.forced # "ok" THEN {"forcedHosts"} ELSE {})
    \cup (IF c.level < -1 \/ c.level > 9 THEN {"compression.level"} ELSE {})
    \cup (IF c.thr < -1 THEN {"compression.threshold"} ELSE {})

LiteBroken(c) ==
    IF c.routes = "none" THEN {"lite.routes"}
    ELSE (IF c.rhost # "ok" THEN {"route.host"} ELSE {})
         \cup (IF c.rbackend # "ok" THEN {"route.backend"} ELSE {})
         \cup (IF c.strat = "bad" THEN {"route.strategy"} ELSE {})
         \* a backend address is only there to be judged if the route has backends
         \cup (IF c.rbackend = "ok" /\ c.baddr = "bad" THEN {"route.backend.address"} ELSE {})

Broken(c, lite) ==
    (IF c.bind # "ok" THEN {"bind"} ELSE {})
    \cup QuotaBroken("quota.connections", c.qcEn, c.qcOps, c.qcBurst, c.qcMax)
    \cup QuotaBroken("quota.logins", c.qlEn, c.qlOps, c.qlBurst, c.qlMax)
    \cup (IF c.trusted = "bad" THEN {"proxyProtocolTrustedProxies"} ELSE {})
    \cup (IF lite THEN LiteBroken(c) ELSE ClassicBroken(c))

Valid(c, lite) == Broken(c, lite) = {}

----------------------------------------------------------------------------
Deviating(c) == {a \in Atoms : c[a] # Base[a]}

RECURSIVE Deviate(_, _)
\* all configurations that differ from c in at most n further atoms
Deviate(S, n) ==
    IF n = 0 THEN S
    ELSE Deviate(S \cup UNION {UNION {{[c EXCEPT ![a] = v] : v \in Vals(a)} : a \in Atoms} : c \in S}, n - 1)

Configs == Deviate({Base}, MaxDev)

VARIABLES cfg, lite
vars == <<cfg, lite>>
Init == cfg \in Configs /\ lite \in BOOLEAN
Next == UNCHANGED vars
Spec == Init /\ [][Next]_vars

\* the second reading of the documentation: a configuration is accepted iff every atom that
\* is looked at in its mode has one of its documented good values
Good == [
  bind |-> {"ok"}, sname |-> {"ok"}, saddr |-> {"ok"}, try |-> {"ok"}, forced |-> {"ok"},
  mode |-> {"legacy", "none", "velocity", "bungeeguard"}, level |-> -1..9, thr |-> {-1, 0, 256},
  qcOps |-> {"pos"}, qcBurst |-> {1}, qcMax |-> {1}, qlOps |-> {"pos"}, qlBurst |-> {1}, qlMax |-> {1},
  trusted |-> {"default", "cidr", "ip"}, routes |-> {"one", "two"}, rhost |-> {"ok"}, rbackend |-> {"ok"},
  strat |-> {"", "sequential", "random", "round-robin", "least-connections", "lowest-latency"},
  baddr |-> {"ok", "noport"}, qcEn |-> BOOLEAN, qlEn |-> BOOLEAN ]
LookedAt(c, l) ==
    {"bind", "trusted"}
    \cup (IF c.qcEn THEN {"qcOps", "qcBurst", "qcMax"} ELSE {})
    \cup (IF c.qlEn THEN {"qlOps", "qlBurst", "qlMax"} ELSE {})
    \cup (IF l THEN {"routes"} \cup (IF c.routes = "none" THEN {}
                                     ELSE {"rhost", "rbackend", "strat"}
                                          \cup (IF c.rbackend = "ok" THEN {"baddr"} ELSE {}))
          ELSE {"mode", "sname", "saddr", "try", "forced", "level", "thr"})
Agree == Valid(cfg, lite) <=> \A a \in LookedAt(cfg, lite) : cfg[a] \in Good[a]

BaselineValid == Valid(Base, TRUE) /\ Valid(Base, FALSE)
\* non-vacuity: both verdicts occur (each of these invariants must be violated)
AllValid == Valid(cfg, lite)
AllInvalid == ~Valid(cfg, lite)

Emit == Export => PrintT(<<"CFG", ToJson([atoms |-> cfg, lite |-> lite])>>)
=============================================================================
