SPECIFICATION TSpec
CONSTANTS
  MaxLen = 0
  ToyFrom = {4}
  ToyIds = {1}
  ToyLast = {0}
INVARIANT Mark
POSTCONDITION AllGood
CHECK_DEADLOCK FALSE
