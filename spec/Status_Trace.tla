---------------------------- MODULE Status_Trace ----------------------------
(* Judges what the real proxy did on a status connection.  Lines:
     {"ev":"reset","cp":<client protocol>,"online":<players online>,"supported":[..],"max":n}
     {"ev":"step","send":"req"|"ping"|"other","payload":[8 bytes],
      "got":"response"|"pong"|"none","n":<packets received>,"protocol":n,"online":n,
      "wellformed":bool,"echo":[bytes],"closed":bool}
   A step is the proxy's complete reaction to one client packet. *)
EXTENDS Integers, Sequences, TLC, TraceLib

VARIABLES st, cp, online, supported, maxp
tv == <<st, cp, online, supported, maxp, l>>

AsSet(s) == {s[i] : i \in 1..Len(s)}
Adv(p) == IF p \in supported THEN p ELSE maxp

TInit == CursorInit /\ st = "closed" /\ cp = 0 /\ online = 0 /\ supported = {} /\ maxp = 0

TReset == /\ IsEv("reset")
          /\ st' = "awaiting" /\ cp' = Rec.cp /\ online' = Rec.online
          /\ supported' = AsSet(Rec.supported) /\ maxp' = Rec.max

Keep == UNCHANGED <<cp, online, supported, maxp>>

TStep == /\ IsEv("step") /\ st # "closed" /\ Keep
         /\ LET r == Rec IN
            CASE r.send = "req" /\ st = "awaiting" ->
                   /\ r.got = "response" /\ r.n = 1 /\ r.wellformed
                   /\ r.protocol = Adv(cp) /\ r.online = online
                   /\ ~r.closed
                   /\ st' = "responded"
              [] r.send = "req" /\ st = "responded" ->   \* never a second response
                   /\ r.got # "response" /\ r.closed /\ st' = "closed"
              [] r.send = "ping" /\ st = "responded" ->
                   /\ r.got = "pong" /\ r.n = 1 /\ r.echo = r.payload /\ r.closed /\ st' = "closed"
              [] r.send = "ping" /\ st = "awaiting" ->
                   /\ r.closed /\ (r.got = "pong" => (r.n = 1 /\ r.echo = r.payload))
                   /\ r.got \in {"pong", "none"} /\ st' = "closed"
              [] r.send = "other" ->      \* the statement only requires the close; no status response though
                   /\ r.got # "response" /\ r.closed /\ st' = "closed"

(* A pipelined run: the client wrote all its packets before reading anything.  The proxy must
   produce exactly the outputs of the lockstep machine, in order, and then close. *)
RECURSIVE Expect(_, _)
\* expected output list for the remaining client packets from state s; each element is
\* [got, echo, opt] where opt = TRUE means the output may be missing (ping before any request)
Expect(s, sends) ==
    IF sends = <<>> \/ s = "closed" THEN <<>>
    ELSE LET x == Head(sends) IN
         CASE x.k = "req" /\ s = "awaiting" -> <<[got |-> "response", echo |-> <<>>, opt |-> FALSE]>> \o Expect("responded", Tail(sends))
           [] x.k = "req" /\ s = "responded" -> <<>>
           [] x.k = "ping" /\ s = "responded" -> <<[got |-> "pong", echo |-> x.payload, opt |-> FALSE]>>
           [] x.k = "ping" /\ s = "awaiting" -> <<[got |-> "pong", echo |-> x.payload, opt |-> TRUE]>>
           [] x.k = "other" -> <<>>

\* does every client packet sequence end in a close?  (only a lone request leaves it open)
EndsClosed(s, sends) == \E i \in 1..Len(sends) : sends[i].k # "req" \/ (\E j \in 1..(i-1) : sends[j].k = "req")

OutOK(o, e) == /\ o.got = e.got
               /\ e.got = "pong" => o.echo = e.echo
               /\ e.got = "response" => (o.wellformed /\ o.protocol = Adv(cp) /\ o.online = online)

TPipe == /\ IsEv("pipe") /\ st = "awaiting" /\ Keep /\ st' = "closed"
         /\ LET e == Expect("awaiting", Rec.sends)
                o == Rec.outs
            IN /\ \/ (Len(o) = Len(e) /\ \A i \in 1..Len(e) : OutOK(o[i], e[i]))
                  \/ (Len(e) >= 1 /\ e[Len(e)].opt /\ Len(o) = Len(e) - 1 /\ \A i \in 1..Len(o) : OutOK(o[i], e[i]))
               /\ EndsClosed("awaiting", Rec.sends) => Rec.closed

TNext == TReset \/ TStep \/ TPipe
TSpec == TInit /\ [][TNext]_tv
=============================================================================
