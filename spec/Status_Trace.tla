---------------------------- MODULE Status_Trace ----------------------------
(* Judges what the real proxy did on a status connection.  Lines:
     {"ev":"reset","cp":<client protocol>,"online":<players online>,"supported":[..],"max":n}
     {"ev":"step","send":"req"|"ping"|"other","payload":[8 bytes],
      "got":"response"|"pong"|"none","n":<packets received>,"protocol":n,"online":n,
      "wellformed":bool,"echo":[bytes],"closed":bool}
   A step is the proxy's complete reaction to one client packet. *)
EXTENDS Integers, Sequences, TLC, TraceLib

VARIABLES st, cp, online, supported, maxp
tv == <<st, cp, online, supported, maxp, l>>

AsSet(s) == {s[i] : i \in 1..Len(s)}
Adv(p) == IF p \in supported THEN p ELSE maxp

TInit == CursorInit /\ st = "closed" /\ cp = 0 /\ online = 0 /\ supported = {} /\ maxp = 0

TReset == /\ IsEv("reset")
          /\ st' = "awaiting" /\ cp' = Rec.cp /\ online' = Rec.online
          /\ supported' = AsSet(Rec.supported) /\ maxp' = Rec.max

Keep == UNCHANGED <<cp, online, supported, maxp>>

TStep == /\ IsEv("step") /\ st # "closed" /\ Keep
         /\ LET r == Rec IN
            CASE r.send = "req" /\ st = "awaiting" ->
                   /\ r.got = "response" /\ r.n = 1 /\ r.wellformed
                   /\ r.protocol = Adv(cp) /\ r.online = online
                   /\ ~r.closed
                   /\ st' = "responded"
              [] r.send = "req" /\ st = "responded" ->   \* never a second response
                   /\ r.got # "response" /\ r.closed /\ st' = "closed"
              [] r.send = "ping" /\ st = "responded" ->
                   /\ r.got = "pong" /\ r.n = 1 /\ r.echo = r.payload /\ r.closed /\ st' = "closed"
              [] r.send = "ping" /\ st = "awaiting" ->
                   /\ r.closed /\ (r.got = "pong" => (r.n = 1 /\ r.echo = r.payload))
                   /\ r.got \in {"pong", "none"} /\ st' = "closed"
              [] r.send = "other" ->      \* the statement only requires the close; no status response though
                   /\ r.got # "response" /\ r.closed /\ st' = "closed"

TNext == TReset \/ TStep
TSpec == TInit /\ [][TNext]_tv
=============================================================================
