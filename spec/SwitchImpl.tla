----------------------------- MODULE SwitchImpl -----------------------------
(* C16 -- code-shaped model of a player's server switching (switch.go, player.go,
   session_backend_*.go), used (a) to model-check the design and show which code shapes
   break it, and (b) to enumerate schedules -- interleavings of the gate points of concurrent
   Connect calls, backend behaviours and a kick from the current server -- that the harness
   forces on the real proxy.  Traces of the real code are judged by the abstract Switch.tla,
   never by this module.

   One player, initially in play on Init server.  Thread t runs one request
       prog[t] = [s |-> server, api |-> "connect" | "indication", beh |-> backend behaviour]
   through the steps of connectionRequest.connect / ConnectWithIndication:
     Check   checkServer (twice, read lock): InProgress / AlreadyConnected / ok       [gate sw.checked]
     Set     setInFlightConnection (write lock), then the dial starts: the thread blocks in Dial
     Dial    the TCP dial completes, handshake + login start are sent: the thread blocks again
     Backend the fake backend acts (accept / refuse / kick in login / kick after login /
             stall / hang until the request context expires / stay silent in login or before
             JoinGame until the caller cancels the context); the thread wakes up    [gate sw.reset]
     Reset   deferred resetIfInFlightIs                                               [gate sw.failed]
     Clear   connect(): resetInFlightConnection() after a non-successful result; with the
             indication API a failure runs handleKickEvent, which clears the slot as well
   Shape switches (TRUE = what the code did when this model was written):
     Atomic        FALSE: Check and Set are separate critical sections
     StaleClears   TRUE : the Clear step empties the slot whatever it holds (also after a mere
                          InProgress/AlreadyConnected rejection); FALSE: it leaves it alone
                          (the deferred Reset already released the request's own attempt)
     KickClears    TRUE : a kick from the current server clears the in-flight slot and
                          starts a fallback attempt although another attempt may be live *)
EXTENDS Naturals, Sequences, FiniteSets, TLC, Json

CONSTANTS Threads, Servers, InitServer, Try1, Try2, Apis, Behs,
          Atomic, StaleClears, KickClears, AllowKick, AllowQuit, Sequential, Export,
          FirstRound, AckThenInstall

VARIABLES prog, pc, out,     \* per thread: request, step, outcome ("", "success", "already", "inprogress", "fail")
          inflight,          \* the connInFlight slot: a thread, "fb" or "none"
          live,              \* ghost: attempts started and not finished (threads, "fb")
          cur,               \* server of connectedServer_ or "none"
          alive,             \* the player is still connected to the proxy
          fb,                \* fallback attempt after a kick: "none" | "run" | "done"
          fbs,               \* its target
          fj,                \* the player's first connection (1.20.2+, first configuration round):
                             \* "off" | "cfg" | "acked" | "early" | "installed" | "joined" | "lost"
          h                  \* schedule (history of steps)

vars == <<prog, pc, out, inflight, live, cur, alive, fb, fbs, fj, h>>
View == <<prog, pc, out, inflight, live, cur, alive, fb, fbs, fj>>

Try == <<Try1, Try2>>     \* the proxy's try list (cfg files hold no tuples)
Reqs == [s : Servers, api : Apis, beh : Behs]

Init == /\ prog \in [Threads -> Reqs]
        /\ pc = [t \in Threads |-> "start"] /\ out = [t \in Threads |-> ""]
        /\ inflight = "none" /\ live = {} /\ cur = InitServer /\ alive = TRUE
        /\ fb = "none" /\ fbs = "none" /\ h = <<>>
        /\ fj = IF FirstRound THEN "cfg" ELSE "off"

Log(k, t) == h' = Append(h, [k |-> k, t |-> t])
Busy(t) == pc[t] \notin {"start", "done"}
\* sequential histories: a thread starts only while no other one is under way
MayStart(t) == Sequential => \A u \in Threads \ {t} : ~Busy(u)

Rejection(t) == IF inflight # "none" THEN "inprogress"
                ELSE IF cur = prog[t].s THEN "already" ELSE ""

Check(t) == /\ pc[t] = "start" /\ alive /\ MayStart(t)
            /\ LET r == Rejection(t) IN
                 IF r = "" THEN /\ pc' = [pc EXCEPT ![t] = "checked"] /\ UNCHANGED out
                 ELSE /\ out' = [out EXCEPT ![t] = r]
                      /\ pc' = [pc EXCEPT ![t] = IF prog[t].api = "connect" THEN "clear" ELSE "done"]
            /\ Log("t", t) /\ UNCHANGED <<prog, inflight, live, cur, alive, fb, fbs, fj>>

Set(t) == /\ pc[t] = "checked" /\ alive
          /\ IF Atomic /\ Rejection(t) # ""
               THEN /\ out' = [out EXCEPT ![t] = Rejection(t)]
                    /\ pc' = [pc EXCEPT ![t] = IF prog[t].api = "connect" THEN "clear" ELSE "done"]
                    /\ UNCHANGED <<inflight, live>>
               ELSE /\ inflight' = t /\ live' = live \cup {t}
                    /\ pc' = [pc EXCEPT ![t] = "dial"] /\ UNCHANGED out
          /\ Log("t", t) /\ UNCHANGED <<prog, cur, alive, fb, fbs, fj>>

Dial(t) == /\ pc[t] = "dial"
           /\ pc' = [pc EXCEPT ![t] = "wait"]
           /\ Log("d", t) /\ UNCHANGED <<prog, out, inflight, live, cur, alive, fb, fbs, fj>>

Backend(t) == /\ pc[t] = "wait"
              /\ IF prog[t].beh \in {"accept", "stall"} /\ alive
                   THEN /\ cur' = prog[t].s
                        /\ inflight' = IF inflight = t THEN "none" ELSE inflight
                        /\ live' = live \ {t}
                        /\ out' = [out EXCEPT ![t] = "success"]
                   ELSE /\ out' = [out EXCEPT ![t] = "fail"]
                        /\ UNCHANGED <<cur, inflight, live>>
              /\ pc' = [pc EXCEPT ![t] = "reset"]
              /\ Log("b", t) /\ UNCHANGED <<prog, alive, fb, fbs, fj>>

\* the destination accepts, and the client's connection breaks while the proxy completes the
\* switch (JoinGame has arrived, the old backend is detached, the client is being told): the
\* switch fails and the player is gone
BackendBreak(t) == /\ AllowQuit /\ pc[t] = "wait" /\ alive /\ fb # "run"
                   /\ prog[t].beh \in {"accept", "stall"}
                   /\ \A u \in Threads : pc[u] # "checked"
                   /\ alive' = FALSE /\ cur' = "none"
                   /\ out' = [out EXCEPT ![t] = "fail"]
                   /\ pc' = [pc EXCEPT ![t] = "reset"]
                   /\ Log("x", t) /\ UNCHANGED <<prog, inflight, live, fb, fbs, fj>>

\* the destination accepts while the backend the player is on closes that connection by itself:
\* its teardown in the proxy overlaps the switch.  Same outcome as Backend(t) with "accept".
BackendOldDrop(t) == /\ AllowQuit /\ pc[t] = "wait" /\ alive /\ fb # "run" /\ cur # "none"
                     /\ prog[t].beh = "accept"
                     /\ cur' = prog[t].s
                     /\ inflight' = IF inflight = t THEN "none" ELSE inflight
                     /\ live' = live \ {t}
                     /\ out' = [out EXCEPT ![t] = "success"]
                     /\ pc' = [pc EXCEPT ![t] = "reset"]
                     /\ Log("o", t) /\ UNCHANGED <<prog, alive, fb, fbs, fj>>

\* err != nil (refuse, hang) skips connect()'s clear; a disconnect result runs it
NeedsClear(t) == \/ (prog[t].api = "connect" /\ out[t] = "fail" /\ prog[t].beh \in {"kicklogin", "kickmid"})
                 \/ (prog[t].api = "indication" /\ out[t] = "fail")

Reset(t) == /\ pc[t] = "reset"
            /\ inflight' = IF inflight = t THEN "none" ELSE inflight
            /\ live' = live \ {t}
            /\ pc' = [pc EXCEPT ![t] = IF NeedsClear(t) THEN "clear" ELSE "done"]
            /\ Log("t", t) /\ UNCHANGED <<prog, out, cur, alive, fb, fbs, fj>>

Clear(t) == /\ pc[t] = "clear"
            /\ inflight' = IF StaleClears THEN "none" ELSE inflight
            /\ pc' = [pc EXCEPT ![t] = "done"]
            /\ Log("t", t) /\ UNCHANGED <<prog, out, live, cur, alive, fb, fbs, fj>>

\* the current backend kicks the player: fall back to the first server of the try list that
\* is neither the kicking one nor the target of the attempt in flight
RECURSIVE FirstOk(_, _)
FirstOk(s, bad) == IF s = <<>> THEN "none"
                   ELSE IF Head(s) \in bad THEN FirstOk(Tail(s), bad) ELSE Head(s)
InflightServer == IF inflight \in Threads THEN {prog[inflight].s} ELSE {}

Kick == /\ AllowKick /\ alive /\ cur # "none" /\ fb = "none"
        /\ (Sequential => \A u \in Threads : ~Busy(u))
        /\ LET next == FirstOk(Try, {cur} \cup InflightServer) IN
             IF next = "none" \/ (~KickClears /\ inflight # "none")
               THEN \* nowhere to go (or an attempt is under way and is left alone)
                    /\ alive' = (inflight # "none" /\ ~KickClears)
                    /\ cur' = "none" /\ UNCHANGED <<inflight, live, fb, fbs, fj>>
               ELSE /\ cur' = "none" /\ inflight' = "fb" /\ live' = live \cup {"fb"}
                    /\ fb' = "run" /\ fbs' = next /\ UNCHANGED alive
        /\ Log("kick", "") /\ UNCHANGED <<prog, pc, out, fj>>

\* the client quits: the proxy tears the player down (every backend connection is closed; the
\* attempts under way fail).  Requests not yet made are not made; none sits between Check and Set.
Quit == /\ AllowQuit /\ alive /\ fb # "run"
        /\ \A t \in Threads : pc[t] # "checked"
        /\ (Sequential => \A u \in Threads : ~Busy(u))
        /\ alive' = FALSE /\ cur' = "none"
        /\ Log("quit", "") /\ UNCHANGED <<prog, pc, out, inflight, live, fb, fbs, fj>>

\* the fallback attempt is accepted by its backend (not a schedule step: nothing to force)
Fallback == /\ fb = "run"
            /\ cur' = fbs /\ fb' = "done" /\ live' = live \ {"fb"}
            /\ inflight' = IF inflight = "fb" THEN "none" ELSE inflight
            /\ UNCHANGED <<prog, pc, out, alive, fbs, fj, h>>

(* First configuration round (backendConfigSessionHandler.handleFinishedUpdate): the client's
   acknowledgement completes a future whose callback -- on the CLIENT's goroutine -- writes the
   FinishedUpdate acknowledgement to the backend and then installs the transition handler that
   waits for JoinGame.  A healthy backend answers the acknowledgement with JoinGame at once; the
   backend read loop may handle it before the handler is installed (AckThenInstall: nothing
   stops it), the configuration handler forwards it like any other packet and the join is lost. *)
FjVars == UNCHANGED <<prog, pc, out, inflight, live, cur, alive, fb, fbs>>
FjAck == fj = "cfg" /\ fj' = "acked" /\ h' = Append(h, [k |-> "first", t |-> "ack"]) /\ FjVars
FjEarly == AckThenInstall /\ fj = "acked" /\ fj' = "early" /\ h' = Append(h, [k |-> "first", t |-> "joingame"]) /\ FjVars
FjInstall == /\ fj \in {"acked", "early"} /\ fj' = IF fj = "early" THEN "lost" ELSE "installed"
             /\ h' = Append(h, [k |-> "first", t |-> "install"]) /\ FjVars
FjJoin == fj = "installed" /\ fj' = "joined" /\ h' = Append(h, [k |-> "first", t |-> "joingame"]) /\ FjVars
First == FjAck \/ FjEarly \/ FjInstall \/ FjJoin

Next == First \/ Kick \/ Quit \/ Fallback \/ \E t \in Threads : Check(t) \/ Set(t) \/ Dial(t) \/ Backend(t) \/ BackendBreak(t) \/ BackendOldDrop(t) \/ Reset(t) \/ Clear(t)
Spec == Init /\ [][Next]_vars

----------------------------------------------------------------------------
AtMostOneInFlight == Cardinality(live) <= 1
\* the slot never forgets an attempt that is still under way
SlotTracksAttempt == live # {} => inflight # "none"
Quiescent == fj \in {"off", "joined", "lost"} /\ (\A t \in Threads : pc[t] \in {"done"} \/ (pc[t] = "start" /\ ~alive)) /\ fb # "run"
QuiescentClean == Quiescent => (live = {} /\ inflight = "none")
\* a healthy backend's JoinGame is never lost
FirstJoinLands == fj # "lost"

Emit == (Export /\ Quiescent) => PrintT(<<"SCHED", ToJson([prog |-> prog, sched |-> h])>>)
=============================================================================
