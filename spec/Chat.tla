------------------------------- MODULE Chat -------------------------------
(* C21 -- secure-chat packets keep the client's order and conserve acknowledgements
   (1.19.3+ clients).

   The Velocity ChatQueue / ChatState semantics as a machine: client packets are
   queued as tasks in arrival order; exactly one task (the head) runs at a time; a
   task may have asynchronous phases ("create": the command is dispatched in its own
   goroutine, "write": the packet is written to the backend in its own goroutine)
   whose completion is an independent step "fin".  Chat acknowledgements are held
   back (`delayed`) so that the last known 'last seen' state stays reusable; they are
   released with the next packet that carries a 'last seen' update, or explicitly once
   the backlog reaches two windows.

   Client packets (uniform records [k, off, out, sig]):
     k = "chat"  signed/unsigned chat message, last-seen offset off
     k = "scmd"  session command carrying a last-seen update (offset off); sig = it has
                 argument signatures; out = what becomes of it:
                   "forwarded"  the command event forwards it / no proxy command matches
                   "rewritten"  the event changes the command line, result goes to the backend
                   "consumed"   a proxy command runs it
                   "denied"     the event denies it
     k = "ucmd"  1.20.5+ command without last-seen update (off = 0), same outcomes
     k = "ack"   chat acknowledgement, offset off

   A schedule is the sequence h of "recv" (the next client packet is handled) and
   "fin" (the one asynchronous phase in flight completes) steps: all completion orders
   of the asynchronous command handling relative to the client's packets.

   Variant # "velocity" are deliberately broken machines (non-vacuity of the invariants):
     "ucmdflush"    an unsigned command flushes and discards the held acknowledgements (gate#915)
     "rewritedrop"  a rewritten session command is rebuilt without the last-seen update
     "sigdrop"      consuming a command with signed arguments drops its last-seen update
*)
EXTENDS Integers, Sequences, FiniteSets, TLC, Json

CONSTANTS MaxLen,     \* client packets per history
          MaxQueue,   \* bound on tasks waiting behind the running one
          Offs,       \* offsets used by the client
          Outcomes,   \* subset of {"forwarded","rewritten","consumed","denied"}
          Sigs,       \* subset of BOOLEAN: may session commands have argument signatures
          Fams,       \* subset of {"pre1205", "1205"}: client families. "1205" = 1.20.5+: commands without
                      \* signed arguments arrive as UnsignedPlayerCommand, session commands always have signatures
          Disc,       \* BOOLEAN: consuming / rewriting a command with signed arguments disconnects
          Variant,
          Export,
          Sample      \* BOOLEAN: -simulate only: one random client packet per step, so that "recv" and
                      \* "fin" steps are equally likely (RandomElement; never used for model checking)

Window == 20

Pkts(f) == [k : {"chat"}, off : Offs, out : {"forwarded"}, sig : {FALSE}]
           \cup [k : {"scmd"}, off : Offs, out : Outcomes, sig : IF f = "1205" THEN {TRUE} ELSE Sigs]
           \cup (IF f = "1205" THEN [k : {"ucmd"}, off : {0}, out : Outcomes, sig : {FALSE}] ELSE {})
           \cup [k : {"ack"}, off : Offs, out : {"none"}, sig : {FALSE}]

None == [k |-> "none", off |-> 0]

VARIABLES fam,       \* client family of this history
          sent,      \* client packets so far, in client order
          next,      \* index in sent of the first task that has not started
          phase,     \* "idle" | "create" | "write": asynchronous phase of the running task (index next-1)
          newoff,    \* running command: its last-seen offset after adding the held acknowledgements
          outp,      \* phase = "write": the packet being written
          delayed,   \* held acknowledgements (ChatState.delayedAckCount)
          lag,       \* ghost: acknowledgements of fully processed client packets minus those the backend got
          bad,       \* ghost: a forwarded packet with last-seen did not catch up completely
          closed,    \* the player was disconnected
          blog,      \* what the backend received: [k, off, i (index of the client packet), b (acks so far)]
          h          \* schedule

vars == <<fam, sent, next, phase, newoff, outp, delayed, lag, bad, closed, blog, h>>
View == <<fam, SubSeq(sent, next - (IF phase = "idle" THEN 0 ELSE 1), Len(sent)), Len(sent),
          phase, newoff, outp, delayed, lag, bad, closed>>

RECURSIVE Sum(_, _)
Sum(s, n) == IF n = 0 THEN 0 ELSE Sum(s, n - 1) + s[n].off
ClientAcked(n) == Sum(sent, n)

(* MayDisconnect(p): the proxy cannot pass p on as the client signed it. *)
MayDisconnect(p) == p.k = "scmd" /\ p.sig /\ p.out \in {"consumed", "denied", "rewritten"}

(* Start of a task: [d |-> new delayed, ph |-> phase it blocks in or "done", no |-> newoff, o |-> output] *)
StartTask(p, d) ==
    CASE p.k = "chat" -> [d |-> 0, ph |-> "write", no |-> 0, o |-> [k |-> "chat", off |-> p.off + d]]
      [] p.k = "scmd" -> [d |-> 0, ph |-> "create", no |-> p.off + d, o |-> None]
      [] p.k = "ucmd" -> [d |-> IF Variant = "ucmdflush" THEN 0 ELSE d, ph |-> "create", no |-> 0, o |-> None]
      [] p.k = "ack"  -> LET dd == d + p.off IN
                         IF dd - Window >= Window
                           THEN [d |-> Window, ph |-> "write", no |-> 0, o |-> [k |-> "ack", off |-> dd - Window]]
                           ELSE [d |-> dd, ph |-> "done", no |-> 0, o |-> None]

(* What the command goroutine produces. "disc" = the player is disconnected. *)
Created(p, no) ==
    IF p.k = "ucmd"
      THEN IF p.out \in {"forwarded", "rewritten"} THEN [k |-> "ucmd", off |-> 0] ELSE None
    ELSE IF MayDisconnect(p) /\ Disc THEN [k |-> "disc", off |-> 0]
    ELSE CASE p.out = "forwarded" -> [k |-> "scmd", off |-> no]
           [] p.out = "rewritten" -> [k |-> "scmd", off |-> IF Variant = "rewritedrop" THEN 0 ELSE no]
           [] OTHER -> IF p.sig /\ Variant = "sigdrop" THEN None
                       ELSE IF no # 0 THEN [k |-> "ack", off |-> no] ELSE None

(* Run queued tasks until one blocks in an asynchronous phase or the queue is empty.
   st = [next, phase, newoff, outp, delayed, lag]; a task that ends without output
   adds its offset to lag. *)
RECURSIVE Settle(_, _)
Settle(st, snt) ==
    IF st.next > Len(snt) THEN st
    ELSE LET p == snt[st.next]
             r == StartTask(p, st.delayed) IN
         IF r.ph = "done"
           THEN Settle([st EXCEPT !.next = @ + 1, !.delayed = r.d, !.lag = @ + p.off], snt)
           ELSE [st EXCEPT !.next = @ + 1, !.phase = r.ph, !.newoff = r.no, !.outp = r.o, !.delayed = r.d]

Cur == [next |-> next, phase |-> phase, newoff |-> newoff, outp |-> outp, delayed |-> delayed, lag |-> lag]
Set(st) == /\ next' = st.next /\ phase' = st.phase /\ newoff' = st.newoff /\ outp' = st.outp
           /\ delayed' = st.delayed /\ lag' = st.lag

Init == /\ fam \in Fams /\ sent = <<>> /\ next = 1 /\ phase = "idle" /\ newoff = 0 /\ outp = None
        /\ delayed = 0 /\ lag = 0 /\ bad = FALSE /\ closed = FALSE /\ blog = <<>> /\ h = <<>>

Waiting == Len(sent) - next + 1

Recv(p) == /\ ~closed /\ Len(sent) < MaxLen /\ Waiting < MaxQueue + (IF phase = "idle" THEN 1 ELSE 0)
           /\ sent' = Append(sent, p)
           /\ h' = Append(h, "recv")
           /\ IF phase = "idle" THEN Set(Settle(Cur, sent')) ELSE UNCHANGED <<next, phase, newoff, outp, delayed, lag>>
           /\ UNCHANGED <<fam, bad, closed, blog>>

Running == sent[next - 1]

FinCreate == /\ phase = "create"
             /\ h' = Append(h, "fin")
             /\ LET p == Running
                    o == Created(p, newoff) IN
                CASE o.k = "disc" -> /\ closed' = TRUE
                                     /\ Set([Cur EXCEPT !.next = Len(sent) + 1, !.phase = "idle", !.outp = None])
                  [] o.k = "none" -> /\ Set(Settle([Cur EXCEPT !.phase = "idle", !.lag = @ + p.off], sent))
                                     /\ UNCHANGED closed
                  [] OTHER -> /\ Set([Cur EXCEPT !.phase = "write", !.outp = o])
                              /\ UNCHANGED closed
             /\ UNCHANGED <<fam, sent, bad, blog>>

FinWrite == /\ phase = "write"
            /\ h' = Append(h, "fin")
            /\ LET p == Running
                   l2 == lag + p.off - outp.off
                   b == (IF blog = <<>> THEN 0 ELSE blog[Len(blog)].b) + outp.off IN
               /\ blog' = Append(blog, [k |-> outp.k, off |-> outp.off, i |-> next - 1, b |-> b])
               /\ bad' = (bad \/ (outp.k \in {"chat", "scmd"} /\ l2 # 0))
               /\ Set(Settle([Cur EXCEPT !.phase = "idle", !.outp = None, !.lag = l2], sent))
            /\ UNCHANGED <<fam, sent, closed>>

Next == \/ IF Sample THEN Recv(RandomElement(Pkts(fam))) ELSE \E p \in Pkts(fam) : Recv(p)
        \/ FinCreate \/ FinWrite
Spec == Init /\ [][Next]_vars

----------------------------------------------------------------------------
(* The property, on the machine's state (ghost counters; usable under VIEW). *)

NeverExceeds == lag >= 0
LagBelowTwoWindows == ~closed => lag < 2 * Window
CatchesUp == ~bad
Conserved == (phase = "idle" /\ ~closed) => lag = delayed

(* The same on the full history (configs without VIEW). *)
HistOrder == \A a, b \in 1..Len(blog) : a < b => blog[a].i < blog[b].i
HistExceeds == \A a \in 1..Len(blog) : blog[a].b <= ClientAcked(blog[a].i)
HistCatchUp == \A a \in 1..Len(blog) : blog[a].k \in {"chat", "scmd"} => blog[a].b = ClientAcked(blog[a].i)
HistUcmd == \A a \in 1..Len(blog) : sent[blog[a].i].k = "ucmd" => (blog[a].k = "ucmd" /\ blog[a].off = 0)
HistKinds == \A a \in 1..Len(blog) :
               LET p == sent[blog[a].i] IN
                 CASE blog[a].k = "chat" -> p.k = "chat"
                   [] blog[a].k = "scmd" -> p.k = "scmd" /\ p.out \in {"forwarded", "rewritten"}
                   [] blog[a].k = "ucmd" -> p.k = "ucmd" /\ p.out \in {"forwarded", "rewritten"}
                   [] blog[a].k = "ack"  -> p.k = "ack" \/ (p.k = "scmd" /\ p.out \in {"consumed", "denied"})

TypeOK == /\ phase \in {"idle", "create", "write"}
          /\ delayed \in 0..(2 * Window - 1)
          /\ next \in 1..(MaxLen + 1)

----------------------------------------------------------------------------
Terminal == phase = "idle" /\ next = Len(sent) + 1 /\ (closed \/ Len(sent) = MaxLen)
Emit == (Export /\ Terminal) =>
           PrintT(<<"HIST", ToJson([fam |-> fam, sent |-> sent, sched |-> h, blog |-> blog, closed |-> closed])>>)
=============================================================================
