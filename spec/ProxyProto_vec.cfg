SPECIFICATION Spec
CONSTANTS
  DB = 8
  W4 = 4
  W6 = 16
  TagOnes = 2
  Mode = "vec"
  NoUnmap = FALSE
INVARIANTS BitsEqArith MappedAsV4 ZoneIrrelevant NonIPUntrusted OnlyTrustedChangesAddress UntrustedHeaderFails NoHeaderKeepsOwn Extremes Emit
