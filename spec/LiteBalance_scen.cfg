SPECIFICATION Spec
CONSTANTS
  Raw <- RawDef
  Dead <- DeadDef
  MaxList = 3
  Strategies <- AllStrategies
  DropAll = TRUE
  Export = TRUE
INVARIANTS Emit
