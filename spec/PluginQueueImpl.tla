-------------------------- MODULE PluginQueueImpl --------------------------
(* C24 -- code-shaped model of the configuration-phase plugin message queue
   (session_client_config.go: handlePluginMessage / enqueuePluginMessage /
   flushQueuedPluginMessagesTo), one action per segment between the gate points
   pmq.cfg.enqueue (before h.mu is taken), pmq.cfg.direct (the queue path declined, before
   the direct write) and pmq.cfg.flush (before h.mu is taken by the flush).

   Threads: "c" the client read loop handling kk messages one after the other,
            "b" the backend goroutine that flushes when the backend's login succeeded.
   Locked = TRUE : enqueue and flush are critical sections of one mutex (the code);
                   an action is "pass gate X and run to the next gate"; h records the
                   gates in passing order = the schedule the harness forces.
   Locked = FALSE: the mutex is ignored (test / push and pop / write / set-ready are
                   separate steps): TLC finds the lost and reordered messages (non-vacuity). *)
EXTENDS Naturals, Sequences, TLC, Json

CONSTANTS Ks,         \* numbers of client messages to explore
          Locked, Export

VARIABLES kk,           \* number of client messages of this behaviour
          cpc, ci,      \* client loop: step, current message
          bpc,          \* backend: step
          q, ready, toBackend,
          seen,         \* unlocked: what the client loop saw when it tested ready
          popped,       \* unlocked: the flush's local copy
          h

vars == <<kk, cpc, ci, bpc, q, ready, toBackend, seen, popped, h>>
View == <<kk, cpc, ci, bpc, q, ready, toBackend, seen, popped>>

Init == /\ kk \in Ks /\ cpc = "enq" /\ ci = 1 /\ bpc = "flush"
        /\ q = <<>> /\ ready = FALSE /\ toBackend = <<>> /\ seen = FALSE /\ popped = <<>>
        /\ h = <<>>

NextMsg == IF ci = kk THEN cpc' = "done" /\ UNCHANGED ci ELSE cpc' = "enq" /\ ci' = ci + 1

\* pass pmq.cfg.enqueue: the critical section of enqueuePluginMessage
Enqueue == /\ cpc = "enq" /\ Locked
           /\ h' = Append(h, "pmq.cfg.enqueue")
           /\ IF ready
                THEN cpc' = "direct" /\ UNCHANGED <<ci, q>>
                ELSE q' = Append(q, ci) /\ NextMsg
           /\ UNCHANGED <<bpc, ready, toBackend, seen, popped>>

EnqTest == /\ cpc = "enq" /\ ~Locked
           /\ seen' = ready /\ cpc' = "enq2" /\ h' = Append(h, "c")
           /\ UNCHANGED <<ci, bpc, q, ready, toBackend, popped>>
EnqPush == /\ cpc = "enq2"
           /\ h' = Append(h, "c")
           /\ IF seen THEN cpc' = "direct" /\ UNCHANGED <<ci, q>>
              ELSE q' = Append(q, ci) /\ NextMsg
           /\ UNCHANGED <<bpc, ready, toBackend, seen, popped>>

\* pass pmq.cfg.direct: write the message straight to the backend
Direct == /\ cpc = "direct"
          /\ h' = Append(h, IF Locked THEN "pmq.cfg.direct" ELSE "c")
          /\ toBackend' = Append(toBackend, ci)
          /\ NextMsg
          /\ UNCHANGED <<bpc, q, ready, seen, popped>>

\* pass pmq.cfg.flush: the critical section of flushQueuedPluginMessagesTo
Flush == /\ bpc = "flush" /\ Locked
         /\ h' = Append(h, "pmq.cfg.flush")
         /\ toBackend' = toBackend \o q /\ q' = <<>> /\ ready' = TRUE
         /\ bpc' = "done"
         /\ UNCHANGED <<cpc, ci, seen, popped>>

FlushPop == /\ bpc = "flush" /\ ~Locked
            /\ popped' = q /\ q' = <<>> /\ bpc' = "write" /\ h' = Append(h, "b")
            /\ UNCHANGED <<cpc, ci, ready, toBackend, seen>>
FlushWrite == /\ bpc = "write"
              /\ toBackend' = toBackend \o popped /\ bpc' = "set" /\ h' = Append(h, "b")
              /\ UNCHANGED <<cpc, ci, q, ready, seen, popped>>
FlushSet == /\ bpc = "set"
            /\ ready' = TRUE /\ bpc' = "done" /\ h' = Append(h, "b")
            /\ UNCHANGED <<cpc, ci, q, toBackend, seen, popped>>

Next == /\ (Enqueue \/ EnqTest \/ EnqPush \/ Direct \/ Flush \/ FlushPop \/ FlushWrite \/ FlushSet)
        /\ UNCHANGED kk
Spec == Init /\ [][Next]_vars

Quiescent == cpc = "done" /\ bpc = "done"

\* exactly once and in order at every moment; nothing is left behind at quiescence
InOrder == \A i \in 1..Len(toBackend) : toBackend[i] = i
NoLoss == Quiescent => Len(toBackend) = kk

Emit == (Export /\ Quiescent) => PrintT(<<"SCHED", ToJson([k |-> kk, order |-> h])>>)
=============================================================================
