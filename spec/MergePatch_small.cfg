SPECIFICATION Spec
CONSTANTS
  Keys = {"a", "b"}
  LeafSel = "small"
  Export = FALSE
INVARIANTS Agree Laws
