SPECIFICATION TSpec
CONSTANTS
  MaxForced = 0
  MaxTry = 0
  MaxFail = 0
  FailKinds = {"kl"}
  NVH = 1
  MinReg = 0
  Renames = FALSE
  Collect = TRUE
INVARIANT Mark
POSTCONDITION Accepted
CHECK_DEADLOCK FALSE
