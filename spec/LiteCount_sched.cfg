SPECIFICATION Spec
CONSTANTS
  Workers = {"w1", "w2"}
  Observer = "o"
  Reads = 2
  Export = TRUE
INVARIANTS Emit
