SPECIFICATION Spec
CONSTANTS
  Keys = {"a", "b"}
  LeafSel = "std"
  Export = FALSE
INVARIANTS Agree Laws
