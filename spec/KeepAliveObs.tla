----------------------------- MODULE KeepAliveObs -----------------------------
(* C18 -- black-box acceptor over what backends and the client observe:
     BSend(b, id)   backend connection b sent a keep-alive with id
     CReply(id)     the client sent a keep-alive reply with id (or a reply handler was
                    started for it: the concurrent-handler runs)
     BRecv(b, id)   backend connection b received a keep-alive reply with id
   A reply may be forwarded to b only if b sent that id and has not been given an answer
   for that sending yet, and every reply is forwarded at most once. *)
EXTENDS Naturals, Sequences, FiniteSets

VARIABLES sent,   \* <<b, id>> -> how often b sent id
          fwd,    \* <<b, id>> -> how often b received a reply with id
          rep,    \* id -> client replies
          got     \* id -> forwarded replies (to any backend)
ovars == <<sent, fwd, rep, got>>

OInit == sent = <<>> /\ fwd = <<>> /\ rep = <<>> /\ got = <<>>

Get(f, k) == IF k \in DOMAIN f THEN f[k] ELSE 0
Inc(f, k) == [x \in DOMAIN f \cup {k} |-> IF x = k THEN Get(f, k) + 1 ELSE f[x]]

BSend(b, id) == sent' = Inc(sent, <<b, id>>) /\ UNCHANGED <<fwd, rep, got>>
CReply(id) == rep' = Inc(rep, id) /\ UNCHANGED <<sent, fwd, got>>
BRecv(b, id) == /\ Get(fwd, <<b, id>>) < Get(sent, <<b, id>>)     \* that backend asked, not answered yet
                /\ Get(got, id) < Get(rep, id)                    \* a reply the client really sent, once
                /\ fwd' = Inc(fwd, <<b, id>>)
                /\ got' = Inc(got, id)
                /\ UNCHANGED <<sent, rep>>
=============================================================================
