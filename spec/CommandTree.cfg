SPECIFICATION Spec
CONSTANTS
  Mode = "small"
  Deep = FALSE
  Cyc = FALSE
  Variant = "reference"
  BackPairs = TRUE
  Export = FALSE
INVARIANTS EveryProxyNodePasses EveryUsableProxyNodeShown NamesDistinct ProxyReplacesBackend BackendKept NothingElse
