------------------------------- MODULE Switch -------------------------------
(* C16 -- server switches keep exactly one live backend and consistent server player lists.

   Abstract specification of one player's backend connections as its users see them: API
   calls starting and returning, connection attempts starting and ending, the player
   joining / leaving a backend, kicks, and observations at quiescence.  It knows nothing of
   locks or session handlers; traces of the real proxy are judged against the action
   predicates below (Switch_Trace), and Next generates every abstract behaviour for TLC.

     cur     server the player is in play on, or "none"
     att     connection attempts under way: records [who, s]
     calls   API calls in progress: thread -> [s, api, chk, started, joined]
     prev    the last observation at quiescence
     since   what happened since then (drives the expectations of the next observation)

   The property, clause by clause:
     AtMostOneInFlight   an attempt starts only when none is under way        (guard of Start)
     Reported            a request to the current server / while an attempt is under way is
                         answered AlreadyConnected / InProgress; "go ahead" only otherwise
                                                                             (guard of Check)
     NoSideEffects       a request answered that way never started an attempt (guard of Ret)
                         and leaves current server and its connection as they were  (ObsOk H0)
     OneBackend          at quiescence exactly the current server's connection is open, so the
                         previous one was closed after a successful switch       (ObsOk S1)
     ListsConsistent     the player is in the player list of exactly its current server (S2)
     SuccessLands        after a successful switch the player is on the destination    (H1)
     FailureSafe         a safe failure leaves the previous server (same connection where the
                         protocol allows) or a fallback                                (H2)
     KickFallsBack       a kick from the current server sends the player to a fallback (H3)
     HealthyLands        a lone request to a backend that accepts it succeeds (so the player is
                         on the destination): the switch machinery loses no join        (H4)
     GoneIsNowhere       once the client has left, no backend connection of the player stays
                         open and no server lists it, whatever was in flight          (S3) *)
EXTENDS Naturals, Sequences, FiniteSets, TLC

VARIABLES cur, att, calls, prev, since,
          env      \* fixed per run: [cfg |-> client has a configuration phase (1.20.2+),
                   \*                 fallbacks |-> servers of the try list]
svars == <<cur, att, calls, prev, since, env>>
CfgPhase == env.cfg
Fallbacks == env.fallbacks

NoSince == [n |-> 0, succ |-> {}, failed |-> FALSE, healthyFailed |-> FALSE, kicked |-> FALSE, quit |-> FALSE,
            keep |-> TRUE, limbo |-> FALSE]
Only(s) == IF s = "none" THEN <<>> ELSE <<s>>
OnlySet(s) == IF s = "none" THEN {} ELSE {s}
Obs0(s) == [current |-> s, alive |-> TRUE, open |-> Only(s), openids |-> Only("init"), lists |-> OnlySet(s)]

SInit(s, e) == /\ cur = s /\ att = {} /\ calls = <<>> /\ prev = Obs0(s) /\ since = NoSince /\ env = e

Put(f, k, v) == [x \in DOMAIN f \cup {k} |-> IF x = k THEN v ELSE f[x]]
Drop(f, k) == [x \in DOMAIN f \ {k} |-> f[x]]

Call(t, s, api) ==
    /\ t \notin DOMAIN calls
    /\ calls' = Put(calls, t, [s |-> s, api |-> api, chk |-> "none", started |-> FALSE, joined |-> FALSE])
    /\ since' = [since EXCEPT !.n = @ + 1]
    /\ UNCHANGED <<cur, att, prev, env>>

\* what the proxy may answer when it looks at a request for server s
CheckOk(s, res) == CASE res = "inprogress" -> att # {}
                     [] res = "already" -> cur = s
                     [] res = "ok" -> att = {} /\ cur # s
                     [] OTHER -> FALSE

\* who = a calling thread, or "?" for the proxy's own fallback request
Check(who, s, res) ==
    /\ CheckOk(s, res)
    /\ calls' = IF who \in DOMAIN calls THEN [calls EXCEPT ![who].chk = res] ELSE calls
    /\ UNCHANGED <<cur, att, prev, since, env>>

Start(who, s) ==
    /\ att = {}                                   \* AtMostOneInFlight
    /\ att' = att \cup {[who |-> who, s |-> s]}
    /\ calls' = IF who \in DOMAIN calls THEN [calls EXCEPT ![who].started = TRUE] ELSE calls
    /\ UNCHANGED <<cur, prev, since, env>>

End(who, s) ==
    /\ att' = att \ {[who |-> who, s |-> s]}
    /\ UNCHANGED <<cur, calls, prev, since, env>>

\* the player's current server changes: s = "none" when it leaves one
Connected(s) ==
    /\ cur' = s
    /\ att' = IF s = "none" THEN att ELSE {a \in att : a.s # s}
    \* the join belongs to the call whose attempt to s is under way (not to another call that
    \* merely names the same server)
    /\ calls' = [t \in DOMAIN calls |-> IF [who |-> t, s |-> s] \in att
                                          THEN [calls[t] EXCEPT !.joined = TRUE] ELSE calls[t]]
    /\ UNCHANGED <<prev, since, env>>

\* status in {"success", "already", "inprogress", "fail"}; beh = the fault the backend was
\* scripted with ("" if it never got that far)
Ret(t, status, beh) ==
    /\ t \in DOMAIN calls
    /\ LET c == calls[t] IN
         /\ status = "success" => c.joined
         /\ status \in {"already", "inprogress"} => (c.chk = status /\ ~c.started /\ ~c.joined)
         /\ since' = CASE status = "success" -> [since EXCEPT !.succ = @ \cup {c.s}]
                       [] status = "fail" ->
                            [since EXCEPT !.failed = TRUE,
                                          !.healthyFailed = @ \/ beh \in {"accept", "stall"},
                                          !.keep = @ /\ (~CfgPhase \/ beh # "kickmid"),
                                          !.limbo = @ \/ (CfgPhase /\ beh = "kickmid" /\ c.api = "connect")]
                       [] OTHER -> since
    /\ calls' = Drop(calls, t)
    /\ UNCHANGED <<cur, att, prev, env>>

Kick == /\ since' = [since EXCEPT !.kicked = TRUE]
        /\ UNCHANGED <<cur, att, calls, prev, env>>

\* the client leaves the proxy (whatever attempts are under way)
Quit == /\ since' = [since EXCEPT !.quit = TRUE]
        /\ UNCHANGED <<cur, att, calls, prev, env>>

ObsOk(o) ==
    /\ calls = <<>> /\ att = {}                                                  \* quiescence
    /\ o.alive => /\ o.open = Only(o.current)                                    \* S1 OneBackend
                  /\ o.lists = OnlySet(o.current)                                \* S2 ListsConsistent
                  /\ o.current = cur                                             \* S4 API = events
    /\ ~o.alive => (o.open = <<>> /\ o.lists = {})                               \* S3 gone = nowhere
    /\ since.quit => ~o.alive                                                   \* a client that quit is gone
    \* expectations about where the player ends up only make sense for a player that was
    \* connected to the proxy (and, for H2/H3, on a server) at the previous quiescent point
    /\ (prev.alive /\ ~since.quit /\ since.n > 0 /\ since.succ = {} /\ ~since.failed /\ ~since.kicked)   \* H0 NoSideEffects
          => (o.alive /\ o.current = prev.current /\ o.openids = prev.openids)
    /\ (prev.alive /\ ~since.quit /\ since.succ # {} /\ ~since.failed /\ ~since.kicked)                  \* H1 SuccessLands
          => (o.alive /\ o.current \in since.succ)
    /\ (prev.alive /\ ~since.quit /\ prev.current # "none"                                \* H2 FailureSafe
           /\ since.n = 1 /\ since.failed /\ ~since.kicked /\ since.succ = {})
          => /\ o.alive
             /\ \/ (o.current = prev.current /\ (since.keep => o.openids = prev.openids))
                \/ (~since.keep /\ o.current \in Fallbacks)
                \/ (since.limbo /\ o.current = "none")
    \* H4 HealthyLands: the only request since the last quiescent point went to a backend that
    \* accepted it, nothing else happened -- it cannot have failed
    /\ ~(prev.alive /\ ~since.quit /\ ~since.kicked /\ since.n = 1 /\ since.healthyFailed)
    /\ (prev.alive /\ ~since.quit /\ prev.current # "none" /\ since.n = 0 /\ since.kicked)               \* H3 KickFallsBack
          => IF Fallbacks \ {prev.current} = {} THEN ~o.alive
             ELSE o.alive /\ o.current \in Fallbacks \ {prev.current}

Observe(o) == /\ ObsOk(o)
              /\ prev' = o /\ since' = NoSince
              /\ UNCHANGED <<cur, att, calls, env>>

----------------------------------------------------------------------------
(* Generative closure for TLC: every abstract behaviour over small constants. *)
CONSTANTS Servers, Threads, MaxCalls, GenCfg, GenFallbacks
Apis == {"connect", "indication"}

GenObs == [current |-> cur, alive |-> TRUE, open |-> Only(cur), openids |-> Only(cur), lists |-> OnlySet(cur)]

Next ==
    \/ \E t \in Threads, s \in Servers, a \in Apis : since.n < MaxCalls /\ Call(t, s, a)
    \/ \E t \in DOMAIN calls, r \in {"ok", "inprogress", "already"} :
          calls[t].chk = "none" /\ Check(t, calls[t].s, r)
    \/ \E t \in DOMAIN calls : calls[t].chk = "ok" /\ ~calls[t].started /\ Start(t, calls[t].s)
    \/ \E a \in att :           \* the attempt succeeds: join, then it ends
          /\ a.who \in DOMAIN calls
          /\ cur' = a.s /\ att' = att \ {a}
          /\ calls' = [calls EXCEPT ![a.who].joined = TRUE]
          /\ UNCHANGED <<prev, since, env>>
    \/ \E a \in att : a.who \in DOMAIN calls /\ ~calls[a.who].joined /\ End(a.who, a.s)   \* it fails
    \/ \E t \in DOMAIN calls :
          \/ (calls[t].joined /\ Ret(t, "success", ""))
          \/ (calls[t].chk \in {"already", "inprogress"} /\ Ret(t, calls[t].chk, ""))
          \/ (calls[t].started /\ ~calls[t].joined /\ [who |-> t, s |-> calls[t].s] \notin att
                /\ Ret(t, "fail", "kicklogin"))
    \/ (calls = <<>> /\ att = {} /\ since.n > 0 /\ Observe([GenObs EXCEPT !.openids =
            IF cur = prev.current /\ since.succ = {} THEN prev.openids ELSE Only(cur)]))

Spec == SInit(CHOOSE s \in GenFallbacks : TRUE, [cfg |-> GenCfg, fallbacks |-> GenFallbacks]) /\ [][Next]_svars

AtMostOneInFlight == Cardinality(att) <= 1
AtMostOneJoinPerCall == \A t \in DOMAIN calls : calls[t].joined => calls[t].started
=============================================================================
