SPECIFICATION Spec
CONSTANTS
  Payloads <- PayloadsTiny
  MaxWrites = 2
  Thresholds <- ThrTiny
  EmptyCompressed = TRUE
INVARIANTS TypeOK Delivered NoError AllRead
