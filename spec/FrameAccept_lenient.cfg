SPECIFICATION Spec
CONSTANTS
  Thresholds = {0, 256}
  Lenient = TRUE
INVARIANTS Clauses
