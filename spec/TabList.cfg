SPECIFICATION Spec
CONSTANTS
  Versions = {761, 767, 768, 769}
  FullVersions = {761, 767, 768, 769}
  MaxLen = 2
  InPlaceProfile = FALSE
INVARIANTS Match Emit
