SPECIFICATION Spec
CONSTANTS
  Versions = {761, 768, 769}
  MaxLen = 2
  InPlaceProfile = FALSE
INVARIANTS Match Emit
