SPECIFICATION TSpec
CONSTANTS
  Mode = "small"
  Deep = FALSE
  Cyc = FALSE
  Variant = "reference"
  BackPairs = FALSE
  Export = FALSE
INVARIANT Mark
POSTCONDITION Accepted
CHECK_DEADLOCK FALSE
