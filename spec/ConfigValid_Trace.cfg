SPECIFICATION TSpec
CONSTANTS
  MaxDev = 0
  Export = FALSE
INVARIANT Mark
POSTCONDITION AcceptedAll
CHECK_DEADLOCK FALSE
