-------------------------- MODULE PluginQueue_Trace --------------------------
(* Judges what fake clients and backends of the live rig observed.  Lines:
     {"ev":"reset","kind":..}
     {"ev":"csend","k":n,"n":bytes}      {"ev":"release"}
     {"ev":"brecv","k":n,"n":bytes}      {"ev":"disc"}
     {"ev":"end","alive":b} *)
EXTENDS PluginQueueObs, TraceLib

tv == <<avars, l>>
TInit == CursorInit /\ AInit
TReset == /\ IsEv("reset")
          /\ asent' = <<>> /\ abytes' = 0 /\ arecv' = 0 /\ apre' = 0 /\ apreb' = 0
          /\ arel' = FALSE /\ adisc' = FALSE
TSend == IsEv("csend") /\ ASend(Rec.k, Rec.n)
TRel == IsEv("release") /\ ARelease
TRecv == IsEv("brecv") /\ ARecv(Rec.k, Rec.n)
TDisc == IsEv("disc") /\ ADisc
TEnd == IsEv("end") /\ AEnd(Rec.alive)
TNext == TReset \/ TSend \/ TRel \/ TRecv \/ TDisc \/ TEnd
TSpec == TInit /\ [][TNext]_tv
=============================================================================
