-------------------------- MODULE PluginQueue_Trace --------------------------
(* Judges what fake clients and backends of the live rig observed.  Lines:
     {"ev":"reset","kind":..}
     {"ev":"csend","k":n,"n":bytes}      {"ev":"release"}
     {"ev":"brecv","k":n,"n":bytes}      {"ev":"disc"}      {"ev":"lose"}
     {"ev":"end","alive":b}
   Runs are independent: the first line of a run that the acceptor does not allow is
   recorded (rej) and the rest of that run is skipped, so one TLC pass judges every run. *)
EXTENDS PluginQueueObs, TraceLib, Json

VARIABLES rej,    \* line numbers of the first unexplained line of every rejected run
          skip    \* the current run was rejected: swallow its remaining lines
tv == <<avars, rej, skip, l>>
TInit == CursorInit /\ AInit /\ rej = <<>> /\ skip = FALSE

Reject == rej' = Append(rej, l) /\ skip' = TRUE /\ UNCHANGED avars
Keep == UNCHANGED <<rej, skip>>

TReset == /\ IsEv("reset")
          /\ asent' = <<>> /\ abytes' = 0 /\ arecv' = 0 /\ apre' = 0 /\ apreb' = 0
          /\ arel' = FALSE /\ adisc' = FALSE /\ aopt' = 0 /\ arelat' = 0 /\ aheldn' = 0 /\ aheldb' = 0
          /\ skip' = FALSE /\ UNCHANGED rej
TSkip == /\ skip /\ l <= Len(Trace) /\ Trace[l].ev # "reset" /\ l' = l + 1
         /\ UNCHANGED <<avars, rej, skip>>
TSend == ~skip /\ IsEv("csend") /\ IF GSend(Rec.k, Rec.n) THEN ASend(Rec.k, Rec.n) /\ Keep ELSE Reject
TRel == ~skip /\ IsEv("release") /\ ARelease /\ Keep
TLose == ~skip /\ IsEv("lose") /\ ALose /\ Keep
TRecv == ~skip /\ IsEv("brecv") /\ IF GRecv(Rec.k, Rec.n) THEN ARecv(Rec.k, Rec.n) /\ Keep ELSE Reject
TDisc == ~skip /\ IsEv("disc") /\ IF GDisc THEN ADisc /\ Keep ELSE Reject
TEnd == ~skip /\ IsEv("end") /\ IF GEnd(Rec.alive) THEN AEnd(Rec.alive) /\ Keep ELSE Reject
TNext == TReset \/ TSkip \/ TSend \/ TRel \/ TLose \/ TRecv \/ TDisc \/ TEnd
TSpec == TInit /\ [][TNext]_tv
Verdict == (l > Len(Trace)) => PrintT(<<"REJECTED", ToJson([lines |-> rej])>>)
=============================================================================
