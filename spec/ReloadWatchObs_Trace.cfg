SPECIFICATION TSpec
CONSTANT SlackMs = 3000
INVARIANT Mark
POSTCONDITION Accepted
CHECK_DEADLOCK FALSE
