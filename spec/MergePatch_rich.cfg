SPECIFICATION Spec
CONSTANTS
  Keys = {"a", "b"}
  LeafSel = "rich"
  Export = FALSE
INVARIANTS Agree Laws
