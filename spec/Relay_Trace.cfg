SPECIFICATION TSpec
CONSTANTS
  Versions = {0}
  ThrPlus1 = {0}
  Sizes = {"small"}
  Kinds = {"unknown"}
  SmallSize = "small"
  MaxSend = 0
  Faulty = FALSE
INVARIANT Mark
INVARIANT TraceInv
POSTCONDITION Accepted
CHECK_DEADLOCK FALSE
