---------------------------- MODULE MergePatch ----------------------------
(* C36 -- JSON Merge Patch, RFC 7396.

   JSON values are tagged TLA+ records (TLA+ has no null, and records of
   different JSON types must be comparable, so every type has its own payload
   field):
     [t |-> "null"]                     null
     [t |-> "num",  n |-> 3]            number (integers only)
     [t |-> "str",  s |-> "x"]          string
     [t |-> "bool", b |-> TRUE]         boolean
     [t |-> "arr",  a |-> <<v1, ..>>]   array
     [t |-> "obj",  m |-> f]            object, f a function from member names to values

   MergePatch is the declarative reading of section 1/2 of the RFC (the result
   object described member by member).  MergeFold transcribes the RFC's
   pseudocode literally (one member of the patch at a time, updating the
   target).  TLC checks that both agree and satisfy the algebraic laws on
   every enumerated (target, patch) pair, and that MergePatch reproduces the
   15 examples of the RFC's appendix A; MergePatch then judges the recorded
   behaviour of the real applyMergePatch / mergeConfigPatch. *)
EXTENDS Naturals, Sequences, FiniteSets, TLC, Json

Null == [t |-> "null"]
Num(n) == [t |-> "num", n |-> n]
Str(s) == [t |-> "str", s |-> s]
Bool(b) == [t |-> "bool", b |-> b]
Arr(a) == [t |-> "arr", a |-> a]
Obj(m) == [t |-> "obj", m |-> m]
NoMembers == [k \in {} |-> Null]

IsObj(v) == v.t = "obj"
IsNull(v) == v.t = "null"

\* Target[Name] of the pseudocode: undefined members read as null (both are "not an object")
Member(tm, k) == IF k \in DOMAIN tm THEN tm[k] ELSE Null

RECURSIVE MergePatch(_, _)
MergePatch(target, patch) ==
    IF ~IsObj(patch) THEN patch
    ELSE LET tm == IF IsObj(target) THEN target.m ELSE NoMembers
             pm == patch.m
             removed == {k \in DOMAIN pm : IsNull(pm[k])}
             set == DOMAIN pm \ removed
         IN Obj([k \in (DOMAIN tm \ removed) \cup set |->
                   IF k \in set THEN MergePatch(Member(tm, k), pm[k]) ELSE tm[k]])

----------------------------------------------------------------------------
(* The RFC's pseudocode, member by member:
     define MergePatch(Target, Patch):
       if Patch is an Object:
         if Target is not an Object: Target = {}
         for each Name/Value pair in Patch:
           if Value is null: if Name exists in Target: remove the Name/Value pair from Target
           else: Target[Name] = MergePatch(Target[Name], Value)
         return Target
       else: return Patch                                                       *)
RECURSIVE MergeFold(_, _), Fold(_, _, _)
Fold(tm, pm, todo) ==
    IF todo = {} THEN tm
    ELSE LET k == CHOOSE x \in todo : TRUE
             tm2 == IF IsNull(pm[k])
                      THEN [x \in DOMAIN tm \ {k} |-> tm[x]]
                      ELSE [x \in DOMAIN tm \cup {k} |->
                              IF x = k THEN MergeFold(Member(tm, k), pm[k]) ELSE tm[x]]
         IN Fold(tm2, pm, todo \ {k})
MergeFold(target, patch) ==
    IF IsObj(patch)
      THEN Obj(Fold(IF IsObj(target) THEN target.m ELSE NoMembers, patch.m, DOMAIN patch.m))
      ELSE patch

----------------------------------------------------------------------------
(* Enumerated documents: leaves and objects over Keys nested up to depth d. *)
CONSTANTS Keys,      \* member names, e.g. {"a", "b"}
          LeafSel,   \* "small" (3 leaves), "std" (5) or "rich" (6): size of the enumerated domain
          Export     \* BOOLEAN: print every pair as a vector for the harness

Leaves == {Null, Num(0), Arr(<<Null, Obj("a" :> Null)>>)}
            \cup (IF LeafSel \in {"std", "rich"} THEN {Str(""), Arr(<<>>)} ELSE {})
            \cup (IF LeafSel = "rich" THEN {Bool(FALSE)} ELSE {})

Maps(S) == UNION {[D -> S] : D \in SUBSET Keys}
RECURSIVE Docs(_)
Docs(d) == IF d = 0 THEN Leaves ELSE Leaves \cup {Obj(m) : m \in Maps(Docs(d - 1))}

VARIABLES target, patch
vars == <<target, patch>>

\* patches that repeat (sub)documents of the target verbatim, null members included: what a client
\* sends that read the document, edited something else and returns whole sections
Echo(t) == IF IsObj(t) THEN {Obj([k \in S |-> t.m[k]]) : S \in SUBSET DOMAIN t.m} ELSE {t}

Init == \/ target \in Docs(1) /\ patch \in Docs(2)
        \/ target \in Docs(2) /\ patch \in Docs(1)
        \/ target \in Docs(2) /\ patch \in Echo(target)
Next == UNCHANGED vars
Spec == Init /\ [][Next]_vars

Agree == MergePatch(target, patch) = MergeFold(target, patch)

RECURSIVE NoNullMember(_)
NoNullMember(v) == IsObj(v) => \A k \in DOMAIN v.m : ~IsNull(v.m[k]) /\ NoNullMember(v.m[k])

Laws == LET r == MergePatch(target, patch) IN
        \* a non-object patch replaces the target entirely, whatever it contains
        /\ ~IsObj(patch) => r = patch
        /\ IsObj(patch) =>
             /\ IsObj(r)
             \* null removes, anything else is present; untouched members are kept verbatim
             /\ \A k \in DOMAIN patch.m : IsNull(patch.m[k]) <=> k \notin DOMAIN r.m
             /\ IsObj(target) => \A k \in DOMAIN target.m \ DOMAIN patch.m :
                                    k \in DOMAIN r.m /\ r.m[k] = target.m[k]
             /\ ~IsObj(target) => DOMAIN r.m \subseteq DOMAIN patch.m
             \* what a patch sets never contains a null member (nulls in arrays are data)
             /\ \A k \in DOMAIN patch.m : ~IsNull(patch.m[k]) /\ ~IsObj(Member(IF IsObj(target) THEN target.m ELSE NoMembers, k))
                                             => NoNullMember(r.m[k])
        \* applying the same patch twice changes nothing more
        /\ MergePatch(r, patch) = r
        \* the empty patch keeps an object and turns anything else into {}
        /\ MergePatch(target, Obj(NoMembers)) = (IF IsObj(target) THEN target ELSE Obj(NoMembers))

\* non-vacuity of the enumerated domain: a merge that stores null members instead of
\* removing them (and one that replaces objects instead of merging) must be told apart
RECURSIVE MergeKeepNull(_, _)
MergeKeepNull(t, p) ==
    IF ~IsObj(p) THEN p
    ELSE LET tm == IF IsObj(t) THEN t.m ELSE NoMembers IN
         Obj([k \in DOMAIN tm \cup DOMAIN p.m |->
                IF k \in DOMAIN p.m THEN MergeKeepNull(Member(tm, k), p.m[k]) ELSE tm[k]])
MergeShallow(t, p) ==
    IF ~IsObj(p) THEN p
    ELSE LET tm == IF IsObj(t) THEN t.m ELSE NoMembers
             removed == {k \in DOMAIN p.m : IsNull(p.m[k])} IN
         Obj([k \in (DOMAIN tm \cup DOMAIN p.m) \ removed |->
                IF k \in DOMAIN p.m THEN p.m[k] ELSE tm[k]])
MutantKeepNull == MergePatch(target, patch) = MergeKeepNull(target, patch)
MutantShallow == MergePatch(target, patch) = MergeShallow(target, patch)

Emit == Export => PrintT(<<"VEC", ToJson([target |-> target, patch |-> patch])>>)

----------------------------------------------------------------------------
(* RFC 7396, appendix A. *)
O1(k, v) == Obj(k :> v)
O2(k1, v1, k2, v2) == Obj(k1 :> v1 @@ k2 :> v2)
RFCExamples == <<
  <<O1("a", Str("b")), O1("a", Str("c")), O1("a", Str("c"))>>,
  <<O1("a", Str("b")), O1("b", Str("c")), O2("a", Str("b"), "b", Str("c"))>>,
  <<O1("a", Str("b")), O1("a", Null), Obj(NoMembers)>>,
  <<O2("a", Str("b"), "b", Str("c")), O1("a", Null), O1("b", Str("c"))>>,
  <<O1("a", Arr(<<Str("b")>>)), O1("a", Str("c")), O1("a", Str("c"))>>,
  <<O1("a", Str("c")), O1("a", Arr(<<Str("b")>>)), O1("a", Arr(<<Str("b")>>))>>,
  <<O1("a", O1("b", Str("c"))), O1("a", O2("b", Str("d"), "c", Null)), O1("a", O1("b", Str("d")))>>,
  <<O1("a", Arr(<<O1("b", Str("c"))>>)), O1("a", Arr(<<Num(1)>>)), O1("a", Arr(<<Num(1)>>))>>,
  <<Arr(<<Str("a"), Str("b")>>), Arr(<<Str("c"), Str("d")>>), Arr(<<Str("c"), Str("d")>>)>>,
  <<O1("a", Str("b")), Arr(<<Str("c")>>), Arr(<<Str("c")>>)>>,
  <<O1("a", Str("foo")), Null, Null>>,
  <<O1("a", Str("foo")), Str("bar"), Str("bar")>>,
  <<O1("e", Null), O1("a", Num(1)), O2("e", Null, "a", Num(1))>>,
  <<Arr(<<Num(1), Num(2)>>), O2("a", Str("b"), "c", Null), O1("a", Str("b"))>>,
  <<Obj(NoMembers), O1("a", O1("bb", O1("ccc", Null))), O1("a", O1("bb", Obj(NoMembers)))>>
>>
ASSUME \A i \in 1..Len(RFCExamples) :
         /\ MergePatch(RFCExamples[i][1], RFCExamples[i][2]) = RFCExamples[i][3]
         /\ MergeFold(RFCExamples[i][1], RFCExamples[i][2]) = RFCExamples[i][3]
=============================================================================
