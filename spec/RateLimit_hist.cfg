SPECIFICATION Spec
CONSTANTS
  W = 3
  MaxT = 6
  MaxLen = 4
  Counts = {1, 2}
  InitCap = 2
  BrokenResize = FALSE
  Export = TRUE

INVARIANTS TotalIsWindowSum RingIsWindow CleanOutside Emit
