----------------------- MODULE CommandDispatch_Trace -----------------------
(* Judges what the real command handling did, line by line:
     {"ev":"reset","fam","perm","proto","fka"}       new player
     {"ev":"cmd","line","to","deny","fwd","signed",   one typed command line, the scripted
      "execs":[handler names that ran],                event result, and everything observed
      "back":[{"k","txt","signed"}...],"disc":bool}   until the chat queue was idle again
   k = packet type the backend received (legacy | keyed | scmd | ucmd | other). *)
EXTENDS CommandDispatch, TraceLib

tv == <<vars, l>>

TInit == CursorInit /\ fam = "legacy" /\ perm = FALSE /\ h = <<>>

TReset == IsEv("reset") /\ fam' = Rec.fam /\ perm' = Rec.perm /\ h' = <<>>

KindOK(f, k) == CASE f = "legacy" -> k = "legacy"
                  [] f = "keyed" -> k = "keyed"
                  [] f = "session" -> k = "scmd"
                  [] f = "unsigned" -> k = "ucmd"

TCmd == /\ IsEv("cmd")
        /\ LET s == [line |-> Rec.line, to |-> Rec.to, deny |-> Rec.deny, fwd |-> Rec.fwd, signed |-> Rec.signed] IN
             /\ ValidStep(fam, s)
             /\ ~Rec.disc
             /\ Observed(fam, perm, s, Rec.execs, Rec.back)
             /\ \A i \in 1..Len(Rec.back) : KindOK(fam, Rec.back[i].k)
             /\ h' = Append(h, s)
        /\ UNCHANGED <<fam, perm>>

TNext == TReset \/ TCmd
TSpec == TInit /\ [][TNext]_tv
=============================================================================
