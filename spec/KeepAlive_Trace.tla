---------------------------- MODULE KeepAlive_Trace ----------------------------
(* Lines: {"ev":"reset",..} {"ev":"bsend","b":conn,"id":n} {"ev":"creply","id":n}
          {"ev":"brecv","b":conn,"id":n} {"ev":"end"}.
   Ids are 64-bit on the wire; the harness uses small ones (TLC integers are 32-bit). *)
EXTENDS KeepAliveObs, TraceLib
tv == <<ovars, l>>
TInit == CursorInit /\ OInit
TReset == IsEv("reset") /\ sent' = <<>> /\ fwd' = <<>> /\ rep' = <<>> /\ got' = <<>>
TBSend == IsEv("bsend") /\ BSend(Rec.b, Rec.id)
TCReply == IsEv("creply") /\ CReply(Rec.id)
TBRecv == IsEv("brecv") /\ BRecv(Rec.b, Rec.id)
TEnd == IsEv("end") /\ UNCHANGED ovars
TNext == TReset \/ TBSend \/ TCReply \/ TBRecv \/ TEnd
TSpec == TInit /\ [][TNext]_tv
=============================================================================
