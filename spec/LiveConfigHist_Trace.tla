------------------------ MODULE LiveConfigHist_Trace ------------------------
(* {"ev":"reset","init_version":v}
   {"ev":"call","thread":t,"op":"snap"|"apply"|"applyif","cand":name,"exp":version|""}
   {"ev":"lc.commit","thread":t,"code":c,"version":v}     hook, under the reload mutex
   {"ev":"lc.snapshot","thread":t,"version":v}            hook, under the reload mutex
   {"ev":"ret","thread":t,"op":..,"code":c,"applied":b,"version":v,"content":name}
   {"ev":"edit","from":name,"to":name}   the caller edited a candidate object it had applied, in place
   {"ev":"obs"|"end","content":name,"version":v,"routes":r}   quiescent observation:
        ConfigSnapshot() mapped back to a pool name, and the proxy's routing table *)
EXTENDS LiveConfigHist, TraceLib

tvars == <<hvars, l>>

TInit == CursorInit /\ cur = Init0 /\ vers = {} /\ open = <<>> /\ lin = <<>>
TReset == IsEv("reset") /\ HReset(Rec.init_version)
TCall == IsEv("call") /\ Call(Rec.thread, [op |-> Rec.op, cand |-> Rec.cand, exp |-> Rec.exp])
TCommit == IsEv("lc.commit") /\ Commit(Rec.thread, Rec.code, Rec.version)
TSnap == IsEv("lc.snapshot") /\ SnapPoint(Rec.thread, Rec.version)
TRet == IsEv("ret") /\ IF Rec.op = "snap" THEN RetSnap(Rec.thread, Rec.content, Rec.version)
                       ELSE RetApply(Rec.thread, Rec.code, Rec.applied, Rec.version)
TObs == (IsEv("obs") \/ IsEv("end")) /\ Observe(Rec.content, Rec.version, Rec.routes)

TEdit == IsEv("edit") /\ CallerEdit

TNext == TReset \/ TCall \/ TCommit \/ TSnap \/ TRet \/ TObs \/ TEdit
TSpec == TInit /\ [][TNext]_tvars
=============================================================================
