SPECIFICATION ToySpec
CONSTANTS
  MaxLen = 3
  ToyFrom = {4, 47, 764, 776}
  ToyIds = {1, 2}
  ToyLast = {0, 47, 764, 776}
INVARIANTS TwoDefinitionsAgree EmitToy RefSane
