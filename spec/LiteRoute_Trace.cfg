SPECIFICATION TSpec
CONSTANTS
  PatAlpha = {}
  HostAlpha = {}
  MaxPat = 0
  MaxHost = 0
INVARIANT Mark
POSTCONDITION Accepted
CHECK_DEADLOCK FALSE
