SPECIFICATION TSpec
CONSTANTS
  MaxCount = 1024
  MaxBytes = 4194304
INVARIANTS Mark Verdict
POSTCONDITION Accepted
CHECK_DEADLOCK FALSE
