SPECIFICATION TSpec
CONSTANTS
  MaxCount = 1024
  MaxBytes = 4194304
INVARIANT Mark
POSTCONDITION Accepted
CHECK_DEADLOCK FALSE
