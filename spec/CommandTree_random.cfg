SPECIFICATION Spec
CONSTANTS
  Mode = "random"
  Deep = TRUE
  Cyc = TRUE
  Variant = "reference"
  BackPairs = TRUE
  Export = TRUE
INVARIANTS EveryProxyNodePasses EveryUsableProxyNodeShown NamesDistinct ProxyReplacesBackend BackendKept NothingElse Emit
