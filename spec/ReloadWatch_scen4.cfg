SPECIFICATION Spec
CONSTANTS
  Contents = {"A", "B", "C"}
  MaxOps = 4
  Kinds = {"write", "replace"}
  Fates = {"deliver", "drop", "dup"}
  Recheck = FALSE
  Export = TRUE
INVARIANTS Emit
