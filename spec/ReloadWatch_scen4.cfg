SPECIFICATION Spec
CONSTANTS
  Contents = {"A", "B", "C"}
  MaxOps = 4
  Kinds = {"write", "replace"}
  Fates = {"deliver", "drop", "dup"}
  Rejects = {"B"}
  CbOps = "one"
  Recheck = TRUE
  Post = "forget"
  Record = "always"
  Export = TRUE
INVARIANTS Emit
