SPECIFICATION Spec
CONSTANTS
  Contents = {"A", "B", "C"}
  MaxOps = 4
  Kinds = {"write", "replace"}
  Fates = {"deliver", "drop", "dup"}
  Rejects = {"B"}
  CbOps = "one"
  Recheck = TRUE
  Post = "forget"
  Record = "always"
  Breaks = TRUE
  Blind = FALSE
  Export = TRUE
INVARIANTS Emit
