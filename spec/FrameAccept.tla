---------------------------- MODULE FrameAccept ----------------------------
(* C02 -- frame decoding matches the vanilla/Velocity acceptance rules.

   The rules themselves (Frame, Envelope, caps) are in lib/FrameRules.tla.  This module
   is the decision table over boundary classes: TLC checks the rules against the clauses
   of the property statement on every row and exports the rows as scenarios ("SCEN") for
   which the harness builds concrete byte streams.  FrameAccept_Trace.tla then judges
   what the real decoder did on those and on hostile generated streams. *)
EXTENDS FrameRules, TLC, Json

CONSTANT Lenient   \* FALSE.  TRUE = a decoder that takes a negative claimed size for "not compressed"
                   \* (non-vacuity: the Clauses invariant must catch it)

\* the envelope rule under test on the table (the real rule, or the lenient variant)
EnvelopeT(dir, thr, claimed, rest, z) ==
    IF Lenient /\ claimed < 0 THEN Envelope(dir, thr, 0, rest, z) ELSE Envelope(dir, thr, claimed, rest, z)

-----------------------------------------------------------------------------
(* The decision table over boundary classes, checked against the clauses of the
   statement and exported as scenarios for the harness ("SCEN"). *)
CONSTANT Thresholds      \* e.g. {0, 1, 64, 256}

ZKinds == {"ok", "trunc", "badsum", "garbage", "trail"}

VARIABLE r    \* a row of the table

\* claimed sizes: around 0, the threshold, both caps, the extremes
Claims(thr) == {-2147483647 - 1, -1, 0, 1, thr - 1, thr, thr + 1,
                CapSB - 1, CapSB, CapSB + 1, CapCB - 1, CapCB, CapCB + 1, 2147483647}

\* frame lengths for the length-prefix rows
Lens == {-2147483647 - 1, -1, 0, 1, 2, 127, 128, 16383, 16384, MaxFrame - 1, MaxFrame, MaxFrame + 1,
         268435455, 268435456, 2147483647}

\* compressed frames: body inflates to claimed + zd bytes (zd = 0: exactly)
CompRows == UNION {
    {[t |-> "comp", dir |-> dir, thr |-> thr, claimed |-> cl, zd |-> zd, zk |-> zk] :
        dir \in {"sb", "cb"}, cl \in Claims(thr) \ {0}, zd \in {-1, 0, 1}, zk \in ZKinds} : thr \in Thresholds}
\* uncompressed frames under compression: claimed 0, rest bytes follow
PlainRows == UNION {
    {[t |-> "plain", dir |-> dir, thr |-> thr, rest |-> rest] :
        dir \in {"sb", "cb"}, rest \in {0, 1, thr - 1, thr, thr + 1, thr + 2, MaxFrame - 1} \ {-1}} : thr \in Thresholds}
\* length prefixes, compression off; short = 1: fewer bytes available than announced
LenRows ==
    {[t |-> "len", dir |-> dir, len |-> n, short |-> s] : dir \in {"sb", "cb"}, n \in Lens, s \in {0, 1}}

Init == r \in CompRows \/ r \in PlainRows \/ r \in LenRows
Next == UNCHANGED r
Spec == Init /\ [][Next]_r

\* what the scenario's zlib facts will be (the harness builds the body accordingly)
\* bytes the body inflates to: claimed + zd where that is a size one can build, else 16
ZN(row) == IF row.claimed > 0 /\ row.claimed <= CapCB + 1 THEN row.claimed + row.zd ELSE 16
ZOf(row) == IF row.zk = "ok" THEN [ok |-> TRUE, n |-> ZN(row), trail |-> 0]
            ELSE IF row.zk = "trail" THEN [ok |-> TRUE, n |-> ZN(row), trail |-> 3]
            ELSE [ok |-> FALSE, n |-> 0, trail |-> 0]

RowVerdict(row) ==
    CASE row.t = "comp" -> EnvelopeT(row.dir, row.thr, row.claimed, 10, ZOf(row))
      [] row.t = "plain" -> EnvelopeT(row.dir, row.thr, 0, row.rest, [ok |-> FALSE, n |-> 0, trail |-> 0])
      [] row.t = "len" -> Frame(row.dir, -1, EncVarInt(row.len), VarIntLen(row.len) + (IF row.len > 0 /\ row.len <= MaxFrame THEN row.len - row.short ELSE 3),
                                [ok |-> FALSE, n |-> 0, trail |-> 0]).kind

\* the clauses of the statement, on the table
Clauses ==
    LET v == RowVerdict(r) IN
    /\ r.t = "comp" =>
         /\ r.claimed < 0 => v = "reject"                                    \* negative claimed size
         /\ r.claimed < r.thr => v = "reject"                                \* below the threshold
         /\ r.claimed > Cap(r.dir) => v = "reject"                           \* above the direction cap
         /\ (r.zk \in {"trunc", "badsum", "garbage"} \/ r.zd # 0) => v = "reject"   \* not exactly the claimed size
         /\ (r.zk = "ok" /\ r.zd = 0 /\ ClaimOK(r.dir, r.thr, r.claimed)) => v = "inflated"
         /\ v \in {"reject", "inflated"}
    /\ r.t = "plain" =>
         /\ r.rest > r.thr => v = "reject"                                   \* larger than the threshold
         /\ (r.rest <= r.thr /\ r.rest > 0) => v = "raw"                     \* exactly the threshold is tolerated
         /\ r.rest = 0 => v = "skip"
    /\ r.t = "len" =>
         /\ (r.len < 0 \/ r.len > MaxFrame) => v = "reject"                  \* never a frame above 2^21-1
         /\ r.len = 0 => v = "skip"
         /\ (r.len \in 1..MaxFrame /\ r.short = 0) => v = "raw"
         /\ (r.len \in 1..MaxFrame /\ r.short = 1) => v = "incomplete"

\* a client is never allowed more than a server
CapsOrdered == r.t = "comp" =>
    (RowVerdict([r EXCEPT !.dir = "sb"]) = "inflated" => RowVerdict([r EXCEPT !.dir = "cb"]) = "inflated")

Emit == PrintT(<<"SCEN", ToJson([row |-> r, verdict |-> RowVerdict(r), zn |-> IF r.t = "comp" THEN ZN(r) ELSE 0])>>)
=============================================================================
