-------------------------- MODULE LiteForward_Trace --------------------------
(* Judges recorded end-to-end forwards through the real lite.Forward:
   {"ev":"fwd", "pp","mvh","tcps": route options, "bh": backend host, "ip","port": the client's
    address as the client socket reports it, "t0","t1": harness clock window (unix seconds),
    "P": handshake payload the client sent,
    "rhead","rdig": what the client sent after the handshake frame (head bytes + chunk digests),
    "bhead","bdig": what the backend received, "khead","kdig": what the backend sent,
    "chead","cdig": what the client received} *)
EXTENDS LiteForward, TraceLib

TFwd == /\ IsEv("fwd")
        /\ BackendOK(Rec.bhead, Rec.bdig, Rec.P, Rec.rhead, Rec.rdig, Rec.pp, Rec.mvh, Rec.tcps,
                     Rec.bh, Rec.ip, Rec.port, Rec.t0, Rec.t1)
        /\ ClientOK(Rec.chead, Rec.cdig, Rec.khead, Rec.kdig)
        /\ UNCHANGED c
TSpec == c = 0 /\ CursorInit /\ [][TFwd]_<<c, l>>
=============================================================================
