---------------------------- MODULE PingCacheHist ----------------------------
(* C32 -- abstract (black-box) specification of the Lite ping status cache, over what
   can be observed from outside: status requests starting and being answered,
   backend fetches beginning and ending, resets (route reloads) and clock ticks
   beginning and ending.  It knows nothing about mutexes, generations or
   singleflight.  This is the spec traces of the real code are judged against.

   Events are totally ordered by the trace; calls that overlap in real time appear as
   begin/end pairs, and every rule below is the weakest reading compatible with the
   overlap: a rule fires only if it is violated for every possible position of the
   reset / tick inside its begin..end interval.

     NoStale     an answer whose backend fetch began before a reset began (it was asked
                 of the backend under the configuration before the reload) is never
                 given to a request that started after that reset had ended
     SameKey     an answer comes from a completed fetch for the request's own key
     OneInFlight two fetches for the same key overlap only if a reset could separate
                 the requests that lead them
     Fresh       an answer served from the cache (its fetch ended before the request
                 started) is younger than the TTL
     MustHit     after an answered request on a key, with no reset since that request
                 started and its status still within the TTL, a later request on the
                 key is answered from the cache (fetch completed before it started).
                 "Within the TTL" is counted from the start of the request that led
                 the fetch: the cache stamps expiry with the wall clock, so the
                 harness's fake clock (wall clock + offset) can only be made
                 consistent by adding the offset read at request start to the TTL
     Done        at the end of a run every request has been answered *)
EXTENDS Integers, Sequences, FiniteSets

CONSTANT TTLTicks     \* an entry aged >= TTLTicks ticks is expired, one aged < TTLTicks is fresh

VARIABLES rb, re,     \* resets begun / ended
          tb, te,     \* clock ticks begun / ended
          req,        \* request id -> record
          fet,        \* fetch id  -> record
          n           \* events so far (stamp)

hvars == <<rb, re, tb, te, req, fet, n>>

HInit == rb = 0 /\ re = 0 /\ tb = 0 /\ te = 0 /\ req = <<>> /\ fet = <<>> /\ n = 0

Put(f, k, v) == [x \in DOMAIN f \cup {k} |-> IF x = k THEN v ELSE f[x]]

Start(r, k) ==
    /\ r \notin DOMAIN req
    /\ req' = Put(req, r, [key |-> k, open |-> TRUE, sRb |-> rb, sRe |-> re, sTe |-> te, sN |-> n + 1,
                           val |-> 0, eN |-> 0, eTb |-> 0])
    /\ n' = n + 1
    /\ UNCHANGED <<rb, re, tb, te, fet>>

\* could a reset have happened between the generation reads of requests r1 and r2,
\* where r2's fetch begins now and r1's fetch g began earlier?
Separable(g, r) == req[fet[g].leader].sRe < rb \/ req[r].sRe < fet[g].bRb

FBegin(f, k, r) ==
    /\ f \notin DOMAIN fet
    /\ r \in DOMAIN req /\ req[r].open /\ req[r].key = k
    /\ \A g \in DOMAIN fet : (~fet[g].ended /\ fet[g].key = k) => Separable(g, r)    \* OneInFlight
    /\ fet' = Put(fet, f, [key |-> k, leader |-> r, bRb |-> rb, ended |-> FALSE,
                           eRb |-> 0, eN |-> 0, eTe |-> 0])
    /\ n' = n + 1
    /\ UNCHANGED <<rb, re, tb, te, req>>

FEnd(f) ==
    /\ f \in DOMAIN fet /\ ~fet[f].ended
    /\ fet' = [fet EXCEPT ![f] = [@ EXCEPT !.ended = TRUE, !.eRb = rb, !.eN = n + 1, !.eTe = te]]
    /\ n' = n + 1
    /\ UNCHANGED <<rb, re, tb, te, req>>

\* latest clock reading at which value v can have been put into the cache
SetMaxTb(v) == LET l == fet[v].leader IN IF req[l].open THEN tb ELSE req[l].eTb

FromCache(r, v) == fet[v].eN < req[r].sN

MustHit(r) == \E r0 \in DOMAIN req :
                 /\ ~req[r0].open /\ req[r0].key = req[r].key
                 /\ req[r0].eN < req[r].sN
                 /\ req[r0].sRb = req[r0].sRe /\ req[r0].sRb = rb
                 /\ tb - req[fet[req[r0].val].leader].sTe < TTLTicks

End(r, v) ==
    /\ r \in DOMAIN req /\ req[r].open
    /\ v \in DOMAIN fet /\ fet[v].ended
    /\ fet[v].key = req[r].key                                      \* SameKey
    /\ fet[v].bRb >= req[r].sRe                                     \* NoStale
    /\ FromCache(r, v) => req[r].sTe - SetMaxTb(v) < TTLTicks       \* Fresh
    /\ MustHit(r) => FromCache(r, v)                                \* MustHit
    /\ req' = [req EXCEPT ![r] = [@ EXCEPT !.open = FALSE, !.val = v, !.eN = n + 1, !.eTb = tb]]
    /\ n' = n + 1
    /\ UNCHANGED <<rb, re, tb, te, fet>>

RBegin == rb' = rb + 1 /\ n' = n + 1 /\ UNCHANGED <<re, tb, te, req, fet>>
REnd == re < rb /\ re' = re + 1 /\ n' = n + 1 /\ UNCHANGED <<rb, tb, te, req, fet>>
TBegin == tb' = tb + 1 /\ n' = n + 1 /\ UNCHANGED <<rb, re, te, req, fet>>
TEnd == te < tb /\ te' = te + 1 /\ n' = n + 1 /\ UNCHANGED <<rb, re, tb, req, fet>>

Done == /\ \A r \in DOMAIN req : ~req[r].open
        /\ UNCHANGED hvars

----------------------------------------------------------------------------
(* Fallback rule of ResolveStatusResponse: outcome of one status request against a
   route whose backends each either answer or fail. *)
FallbackOK(backendOk, tried, hasFallback, result, which) ==
    /\ result = "fallback" => /\ hasFallback
                              /\ \A i \in 1..Len(backendOk) : ~backendOk[i] /\ tried[i] >= 1
    /\ result = "backend" => which \in 1..Len(backendOk) /\ backendOk[which]
    /\ result \in {"fallback", "backend", "closed"}
    /\ result = "closed" => \A i \in 1..Len(backendOk) : ~backendOk[i]
=============================================================================
