------------------------------ MODULE PingCache ------------------------------
(* C32 -- code-shaped model of lite's pingStatusCache (forward.go): one action per
   stretch of code between the gate points of the instrumented code.

     thread t running load(key):
       "start" --LoadStart-->  hit: answer from cache, done
                               miss: remembers the generation it read, parks at pc.miss
       "miss"  --JoinFlight--> joins the in-flight call for <<generation, key>> or becomes
                               its leader (singleflight); the leader's call runs on its own
                               goroutine, here the flight thread  t \o "f"
       "wait"  --Return-->     receives the flight's result (not a scheduled step)
     flight thread of leader t:
       "enter"   --FlightEnter--> re-checks the cache if the generation is unchanged,
                                  otherwise calls the loader (backend fetch begins)
       "loading" --FlightLoad-->  the loader returns a fresh value
       "loaded"  --FlightStore--> stores it iff the generation is still the one read at
                                  the start (GenCheck), finishes the flight
     thread running reset(): "start" --ResetEnter--> parks at pc.reset.enter (before the mutex)
                             "r1" --ResetMid-->  takes the mutex, generation + 1, parks at
                                                 pc.reset.mid still holding it
                             "r2" --ResetEnd-->  cache emptied, mutex released
     thread "tick": clock + 1.
   With Locked = TRUE the other critical sections wait while a reset holds the mutex (the
   code); with Locked = FALSE the mutex is ignored: that variant only enumerates gate
   interleavings (also ones the current code forbids), its invariants are not checked.

   The model is used (a) to check the property's invariants on the design, (b) with
   GenCheck = FALSE to show they are not vacuous, (c) to enumerate/sample gate-point
   interleavings that the harness forces on the real code.  Traces of the real code
   are judged by the abstract PingCacheHist, not by this module. *)
EXTENDS Naturals, Sequences, FiniteSets, TLC, Json

CONSTANTS Threads,    \* e.g. {"t1","t2","t3"}
          Keys,       \* e.g. {"a"}
          MaxLoads,   \* bound on the number of load threads in a program
          TTL,        \* ticks an entry stays fresh
          GenCheck,   \* BOOLEAN
          Locked,     \* BOOLEAN
          Export      \* BOOLEAN

VARIABLES prog, pc, fpc, tgen, waitOn, fval, fres, gen, now, cache, nextVal, ans,
          startGen, valBeginGen, fbg, lock, h

vars == <<prog, pc, fpc, tgen, waitOn, fval, fres, gen, now, cache, nextVal, ans,
          startGen, valBeginGen, fbg, lock, h>>
View == <<prog, pc, fpc, tgen, waitOn, fval, fres, gen, now, cache, nextVal, ans,
          startGen, valBeginGen, fbg, lock>>

Ops == [op : {"load"}, key : Keys] \cup [op : {"reset"}] \cup [op : {"tick"}]
None == [val |-> 0, exp |-> 0]

\* thread names are interchangeable: only programs whose operations are sorted along a fixed
\* enumeration of the threads are explored
Ord == CHOOSE f \in [Threads -> 1..Cardinality(Threads)] : \A s, t \in Threads : s # t => f[s] # f[t]
KeyRank == CHOOSE f \in [Keys -> 1..Cardinality(Keys)] : \A j, k \in Keys : j # k => f[j] # f[k]
Rank(o) == IF o.op = "load" THEN KeyRank[o.key] ELSE IF o.op = "reset" THEN 100 ELSE 101
Sorted(f) == \A s, t \in Threads : Ord[s] < Ord[t] => Rank(f[s]) <= Rank(f[t])

Init == /\ prog \in {f \in [Threads -> Ops] :
                       /\ Cardinality({t \in Threads : f[t].op = "load"}) \in 1..MaxLoads
                       /\ Sorted(f)}
        /\ pc = [t \in Threads |-> "start"]
        /\ fpc = [t \in Threads |-> "none"]
        /\ tgen = [t \in Threads |-> 0]
        /\ waitOn = [t \in Threads |-> t]
        /\ fval = [t \in Threads |-> 0]
        /\ fres = [t \in Threads |-> 0]
        /\ gen = 0 /\ now = 0
        /\ cache = [k \in Keys |-> None]
        /\ nextVal = 1
        /\ ans = [t \in Threads |-> 0]
        /\ startGen = [t \in Threads |-> 0]
        /\ valBeginGen = <<>>
        /\ fbg = [t \in Threads |-> 0]
        /\ lock = "none"
        /\ h = <<>>

Fresh(k) == cache[k].val # 0 /\ now < cache[k].exp
Key(t) == prog[t].key
Active(l) == fpc[l] \in {"enter", "loading", "loaded"}
Free == ~Locked \/ lock = "none"      \* the mutex can be taken

LoadStart(t) ==
    /\ pc[t] = "start" /\ prog[t].op = "load" /\ Free
    /\ tgen' = [tgen EXCEPT ![t] = gen]
    /\ startGen' = [startGen EXCEPT ![t] = gen]
    /\ IF Fresh(Key(t))
         THEN ans' = [ans EXCEPT ![t] = cache[Key(t)].val] /\ pc' = [pc EXCEPT ![t] = "done"]
         ELSE UNCHANGED ans /\ pc' = [pc EXCEPT ![t] = "miss"]
    /\ h' = Append(h, t)
    /\ UNCHANGED <<prog, fpc, waitOn, fval, fres, gen, now, cache, nextVal, valBeginGen, lock, fbg>>

JoinFlight(t) ==
    /\ pc[t] = "miss"
    /\ LET L == {l \in Threads : Active(l) /\ tgen[l] = tgen[t] /\ Key(l) = Key(t)} IN
         IF L # {}
           THEN /\ waitOn' = [waitOn EXCEPT ![t] = CHOOSE l \in L : TRUE]
                /\ UNCHANGED fpc
           ELSE /\ waitOn' = [waitOn EXCEPT ![t] = t]
                /\ fpc' = [fpc EXCEPT ![t] = "enter"]
    /\ pc' = [pc EXCEPT ![t] = "wait"]
    /\ h' = Append(h, t)
    /\ UNCHANGED <<prog, tgen, fval, fres, gen, now, cache, nextVal, ans, startGen, valBeginGen, fbg, lock>>

FlightEnter(l) ==
    /\ fpc[l] = "enter" /\ Free
    /\ IF tgen[l] = gen /\ Fresh(Key(l))
         THEN /\ fres' = [fres EXCEPT ![l] = cache[Key(l)].val]
              /\ fpc' = [fpc EXCEPT ![l] = "fin"]
         ELSE /\ fpc' = [fpc EXCEPT ![l] = "loading"] /\ UNCHANGED fres
    /\ fbg' = [fbg EXCEPT ![l] = gen]          \* generation when the backend fetch begins
    /\ h' = Append(h, l \o "f")
    /\ UNCHANGED <<prog, pc, tgen, waitOn, fval, gen, now, cache, nextVal, ans, startGen, valBeginGen, lock>>

FlightLoad(l) ==
    /\ fpc[l] = "loading"
    /\ fval' = [fval EXCEPT ![l] = nextVal]
    /\ nextVal' = nextVal + 1
    /\ valBeginGen' = Append(valBeginGen, fbg[l])
    /\ fpc' = [fpc EXCEPT ![l] = "loaded"]
    /\ h' = Append(h, l \o "f")
    /\ UNCHANGED <<prog, pc, tgen, waitOn, fres, gen, now, cache, ans, startGen, lock, fbg>>

FlightStore(l) ==
    /\ fpc[l] = "loaded" /\ Free
    /\ IF ~GenCheck \/ tgen[l] = gen
         THEN cache' = [cache EXCEPT ![Key(l)] = [val |-> fval[l], exp |-> now + TTL]]
         ELSE UNCHANGED cache
    /\ fres' = [fres EXCEPT ![l] = fval[l]]
    /\ fpc' = [fpc EXCEPT ![l] = "fin"]
    /\ h' = Append(h, l \o "f")
    /\ UNCHANGED <<prog, pc, tgen, waitOn, fval, gen, now, nextVal, ans, startGen, valBeginGen, fbg, lock>>

Return(t) ==
    /\ pc[t] = "wait" /\ fpc[waitOn[t]] = "fin"
    /\ ans' = [ans EXCEPT ![t] = fres[waitOn[t]]]
    /\ pc' = [pc EXCEPT ![t] = "done"]
    /\ UNCHANGED <<prog, fpc, tgen, waitOn, fval, fres, gen, now, cache, nextVal, startGen, valBeginGen, h, lock, fbg>>

ResetEnter(t) ==
    /\ pc[t] = "start" /\ prog[t].op = "reset"
    /\ pc' = [pc EXCEPT ![t] = "r1"]
    /\ h' = Append(h, t)
    /\ UNCHANGED <<prog, fpc, tgen, waitOn, fval, fres, gen, now, cache, nextVal, ans, startGen, valBeginGen, fbg, lock>>

ResetMid(t) ==
    /\ pc[t] = "r1" /\ Free
    /\ gen' = gen + 1
    /\ lock' = t
    /\ pc' = [pc EXCEPT ![t] = "r2"]
    /\ h' = Append(h, t)
    /\ UNCHANGED <<prog, fpc, tgen, waitOn, fval, fres, now, cache, nextVal, ans, startGen, valBeginGen, fbg>>

ResetEnd(t) ==
    /\ pc[t] = "r2"
    /\ cache' = [k \in Keys |-> None]
    /\ lock' = "none"
    /\ pc' = [pc EXCEPT ![t] = "done"]
    /\ h' = Append(h, t)
    /\ UNCHANGED <<prog, fpc, tgen, waitOn, fval, fres, gen, now, nextVal, ans, startGen, valBeginGen, fbg>>

Tick(t) ==
    /\ pc[t] = "start" /\ prog[t].op = "tick"
    /\ now' = now + 1
    /\ pc' = [pc EXCEPT ![t] = "done"]
    /\ h' = Append(h, t)
    /\ UNCHANGED <<prog, fpc, tgen, waitOn, fval, fres, gen, cache, nextVal, ans, startGen, valBeginGen, fbg, lock>>

Next == \E t \in Threads : \/ LoadStart(t) \/ JoinFlight(t) \/ Return(t) \/ Tick(t)
                           \/ ResetEnter(t) \/ ResetMid(t) \/ ResetEnd(t)
                           \/ FlightEnter(t) \/ FlightLoad(t) \/ FlightStore(t)
Spec == Init /\ [][Next]_vars

AllDone == \A t \in Threads : pc[t] = "done"

----------------------------------------------------------------------------
\* a request that started after reset n is never answered with a value whose fetch began before reset n
NoStale == \A t \in Threads :
              (prog[t].op = "load" /\ pc[t] = "done") => valBeginGen[ans[t]] >= startGen[t]
\* at most one backend fetch in flight per key and cache generation
OneFlight == \A l1, l2 \in Threads :
               (l1 # l2 /\ fpc[l1] \in {"loading", "loaded"} /\ fpc[l2] \in {"loading", "loaded"}
                /\ Key(l1) = Key(l2)) => tgen[l1] # tgen[l2]
\* an entry is never served at or after its expiry (by construction of Fresh) and every
\* finished request has an answer
Answered == \A t \in Threads : (prog[t].op = "load" /\ pc[t] = "done") => ans[t] # 0
TypeOK == gen \in 0..Cardinality(Threads) /\ now \in 0..Cardinality(Threads)

Emit == (Export /\ AllDone) => PrintT(<<"SCHED", ToJson([prog |-> prog, sched |-> h])>>)
=============================================================================
