SPECIFICATION Spec
CONSTANTS
  Versions = {754}
  PackNames = {"A", "B"}
  Statuses = {"accepted", "declined", "success"}
  MaxLen = 3
  InitPrev = "dec"
INVARIANTS OnePrompt AutoOnlyAfterDecline
PROPERTY Refines
