SPECIFICATION Spec
CONSTANTS
  Modes = {"legacy"}
  PackNames = {"A", "B"}
  Statuses = {"accepted", "declined", "success"}
  MaxLen = 3
  InitPrev = "dec"
INVARIANTS OnePrompt AutoOnlyAfterDecline
PROPERTY Refines
