--------------------------- MODULE TabList_Trace ---------------------------
(* Judges what the real tab list did, operation by operation.  Lines:
     {"ev":"reset","ver":<viewer protocol>}                          a fresh tab list
     {"ev":"op", <the operation's fields>, "how":..,
      "panicked":bool,        the call ended in a panic
      "pkts":[..],            every player-info packet the viewer was sent during the call -- encoded with
                              gate's real codec for the viewer's protocol and decoded again by the harness's
                              own vanilla-layout parser -- or, for backend operations, the backend's packet as
                              forwarded (decoded by the same parser):
                                {"k":"upsert","actions":[names in protocol order],"entries":[{id,name,props,
                                 gm,listed,lat,hasdisp,disp,order,hat}],"ids":[]}
                                {"k":"remove","ids":[..],..}     {"k":"bad","err":..} = not decodable
      "view":[{id,name,props,lat,gm,listed,hasdisp,disp,order,hat}]}   TabList.Entries() after the call
   The client view is advanced with ClientApply over pkts and must equal the reported view.
   Histories are independent; the first offending line of a history is reported as
   <<"BAD", line, kind, differing (id, field) pairs>> and validation goes on. *)
EXTENDS TabList, TraceLib

tv == <<vars, l>>

TInit == CursorInit /\ ver = 761 /\ h = <<>>
         /\ pv = [i \in AllIds |-> Absent] /\ cv = [i \in AllIds |-> Absent]

TReset == /\ IsEv("reset")
          /\ ver' = Rec.ver /\ cv' = [i \in AllIds |-> Absent]
          /\ UNCHANGED <<pv, h>>

Info(r) == [present |-> TRUE, name |-> r.name, props |-> r.props, lat |-> r.lat, gm |-> r.gm, listed |-> r.listed,
            hasdisp |-> r.hasdisp, disp |-> r.disp, order |-> r.order, hat |-> r.hat]
ViewOf(rows) == [i \in AllIds |-> IF \E j \in 1..Len(rows) : rows[j].id = i
                                  THEN Info(rows[CHOOSE j \in 1..Len(rows) : rows[j].id = i]) ELSE Absent]

Decodable(pkts) == \A j \in 1..Len(pkts) : pkts[j].k \in {"upsert", "remove"}

TOp == /\ IsEv("op")
       /\ LET ok == Decodable(Rec.pkts)
              cv2 == IF ok THEN ClientApplyAll(cv, Rec.pkts) ELSE cv
              d == Diff(ViewOf(Rec.view), cv2, ver)
          IN /\ cv' = cv2
             /\ IF Rec.panicked THEN PrintT(<<"BAD", l, "panic", d>>)
                ELSE IF ~ok THEN PrintT(<<"BAD", l, "undecodable", {}>>)
                ELSE IF d # {} THEN PrintT(<<"BAD", l, "view", d>>)
                ELSE TRUE
             \* observation only (the hat flag is not part of the statement): not a verdict
             /\ IF ver >= 769 /\ \E i \in AllIds : cv2[i].present /\ ViewOf(Rec.view)[i].present
                                                   /\ cv2[i].hat # ViewOf(Rec.view)[i].hat
                  THEN PrintT(<<"HAT", l>>) ELSE TRUE
       /\ UNCHANGED <<ver, pv, h>>

TNext == TReset \/ TOp
TSpec == TInit /\ [][TNext]_tv
=============================================================================
