SPECIFICATION Spec
CONSTANTS
  Keys = {"a", "b"}
  LeafSel = "small"
  Export = TRUE
INVARIANTS Emit
