SPECIFICATION Spec
CONSTANTS
  Writers = {"w1", "w2"}
  Two = {"w1"}
  Three = {}
  SOps <- SOpsEL
  Cap = 2
  Split = FALSE
  Prefill = FALSE
  Locked = FALSE
  Export = TRUE
INVARIANTS Emit
