SPECIFICATION Spec
CONSTANTS
  Writers = {"w1", "w2"}
  Two = {"w1"}
  Three = {}
  SOps <- SOpsEL
  Cap = 2
  Locked = FALSE
  Export = TRUE
INVARIANTS Emit
