SPECIFICATION Spec
CONSTANTS
  MaxLen = 2
  MaxQueue = 2
  Offs = {0, 1, 20, 39}
  Outcomes = {"forwarded", "rewritten", "consumed", "denied"}
  Sigs = {FALSE, TRUE}
  Fams = {"pre1205", "1205"}
  Disc = FALSE
  Variant = "velocity"
  Export = TRUE
  Sample = FALSE
INVARIANTS Emit HistOrder HistExceeds HistCatchUp HistUcmd HistKinds
