SPECIFICATION Spec
INVARIANTS RefOK Emit
