SPECIFICATION Spec
CONSTANTS
  Threads = {"a", "b", "c"}
  Burst = 1
  Locked = TRUE
  Export = FALSE
VIEW View
INVARIANTS GroupBound
