------------------------------ MODULE Session ------------------------------
(* The connection lifecycle of one player session as seen at the proxy's two sides:
   the client connection and the backend connections the proxy opens for it.
   This is the composite "system" specification the live-rig traces are checked
   against (section 3 of DESIGN.md); the per-property modules are projections of it.

   Client side   Handshake -> Login{start, [encryption], success} -> [1.20.2+: ack -> Config{finish, ack}] -> Play
   Backend side  Dial/accept -> Handshake -> Login{start, [compression], success}
                   -> [1.20.2+: ack -> Config{finish, ack}] -> Play{join}

   State is kept per session; events are what the endpoints (fake client, fake backend)
   log: a packet is logged by its sender before it is written and by its receiver after it
   was read, so the order of the log respects causality and the guards below may refer to
   the other side's state.

   modern = the client protocol has a configuration phase (1.20.2+). *)
EXTENDS Naturals, Sequences, FiniteSets

CONSTANTS Backends,      \* ids of backend connections per session, e.g. {"b1","b2","b3"}
          MaxJoins,      \* bound on JoinGame packets per session (model checking only)
          AllowEarlyAck  \* BOOLEAN: accept the deviation EarlyAck below (what the pinned code does)

VARIABLES cph,      \* client phase
          modern,   \* BOOLEAN
          name,     \* user name the client sent
          bph,      \* [Backends -> backend connection phase]
          joins,    \* number of JoinGame packets that reached the client
          cnt       \* relay counters: what backends sent / got vs. what the client got / sent
                    \* [finSent, finRecv, ackSent, ackRecv, joinSent]

svars == <<cph, modern, name, bph, joins, cnt>>

CPh == {"init", "hs", "start", "encreq", "encresp", "success", "acked", "cfgfin", "cfgack", "play", "recfg", "closed"}
BPh == {"none", "accepted", "hs", "start", "success", "acked", "cfgfin", "cfgack", "join", "closed"}

\* order of client phases that matter for "has the client already ..."
CRank(p) == CASE p = "init" -> 0 [] p = "hs" -> 1 [] p = "start" -> 2 [] p = "encreq" -> 3 [] p = "encresp" -> 4
              [] p = "success" -> 5 [] p = "acked" -> 6 [] p = "cfgfin" -> 7 [] p = "cfgack" -> 8 [] p = "play" -> 9
              [] p = "recfg" -> 9 [] p = "closed" -> 10
BRank(p) == CASE p = "none" -> 0 [] p = "accepted" -> 1 [] p = "hs" -> 2 [] p = "start" -> 3 [] p = "success" -> 4
              [] p = "acked" -> 5 [] p = "cfgfin" -> 6 [] p = "cfgack" -> 7 [] p = "join" -> 8 [] p = "closed" -> 9

Zero == [finSent |-> 0, finRecv |-> 0, ackSent |-> 0, ackRecv |-> 0, joinSent |-> 0]
SInit(m) == /\ cph = "init" /\ modern = m /\ name = "" /\ joins = 0 /\ cnt = Zero
            /\ bph = [b \in Backends |-> "none"]

Live(b) == bph[b] \notin {"none", "closed"}

---------------------------------------------------------------------------
(* client connection *)
CSendHandshake == cph = "init" /\ cph' = "hs" /\ UNCHANGED <<modern, name, bph, joins, cnt>>
CSendStart(n) == cph = "hs" /\ cph' = "start" /\ name' = n /\ UNCHANGED <<modern, bph, joins, cnt>>
CRecvEncRequest == cph = "start" /\ cph' = "encreq" /\ UNCHANGED <<modern, name, bph, joins, cnt>>
CSendEncResponse == cph = "encreq" /\ cph' = "encresp" /\ UNCHANGED <<modern, name, bph, joins, cnt>>
\* login success only answers a login start (after the encryption exchange, if any)
CRecvSuccess == cph \in {"start", "encresp"} /\ cph' = "success" /\ UNCHANGED <<modern, name, bph, joins, cnt>>
CSendAck == modern /\ cph = "success" /\ cph' = "acked" /\ UNCHANGED <<modern, name, bph, joins, cnt>>
\* the backend's finish-configuration is relayed: some backend connection must have sent it
CRecvCfgFinish == /\ modern /\ cph = "acked"
                  /\ cnt.finRecv < cnt.finSent            \* one relayed finish per finish a backend sent
                  /\ cph' = "cfgfin" /\ cnt' = [cnt EXCEPT !.finRecv = @ + 1]
                  /\ UNCHANGED <<modern, name, bph, joins>>
CSendCfgAck == /\ modern /\ cph = "cfgfin" /\ cph' = "cfgack" /\ cnt' = [cnt EXCEPT !.ackSent = @ + 1]
               /\ UNCHANGED <<modern, name, bph, joins>>
\* a server switch sends a 1.20.2+ client back to the configuration phase
CRecvStartCfg == modern /\ cph = "play" /\ cph' = "recfg" /\ UNCHANGED <<modern, name, bph, joins, cnt>>
CSendCfgEnter == modern /\ cph = "recfg" /\ cph' = "acked" /\ UNCHANGED <<modern, name, bph, joins, cnt>>
\* JoinGame reaches the client only in play and only if some backend sent one
CRecvJoin == /\ joins < MaxJoins
             /\ (IF modern THEN cph \in {"cfgack", "play"} ELSE cph \in {"success", "play"})
             /\ joins < cnt.joinSent                  \* every JoinGame the client sees was sent by a backend
             /\ cph' = "play" /\ joins' = joins + 1 /\ UNCHANGED <<modern, name, bph, cnt>>
CClosed == cph' = "closed" /\ UNCHANGED <<modern, name, bph, joins, cnt>>

(* backend connection b *)
\* the proxy dials a backend only for a client that logged in (1.20.2+: and acknowledged it)
BAccept(b) == /\ bph[b] = "none"
              /\ CRank(cph) >= (IF modern THEN CRank("acked") ELSE CRank("start"))
              /\ bph' = [bph EXCEPT ![b] = "accepted"] /\ UNCHANGED <<cph, modern, name, joins, cnt>>
BRecvHandshake(b) == bph[b] = "accepted" /\ bph' = [bph EXCEPT ![b] = "hs"] /\ UNCHANGED <<cph, modern, name, joins, cnt>>
\* the login start the backend sees names the same user
BRecvStart(b, n) == /\ bph[b] = "hs" /\ n = name
                    /\ bph' = [bph EXCEPT ![b] = "start"] /\ UNCHANGED <<cph, modern, name, joins, cnt>>
BSendSuccess(b) == bph[b] = "start" /\ bph' = [bph EXCEPT ![b] = "success"] /\ UNCHANGED <<cph, modern, name, joins, cnt>>
BRecvAck(b) == modern /\ bph[b] = "success" /\ bph' = [bph EXCEPT ![b] = "acked"] /\ UNCHANGED <<cph, modern, name, joins, cnt>>
BSendCfgFinish(b) == /\ modern /\ bph[b] = "acked" /\ bph' = [bph EXCEPT ![b] = "cfgfin"]
                     /\ cnt' = [cnt EXCEPT !.finSent = @ + 1] /\ UNCHANGED <<cph, modern, name, joins>>
\* the proxy acknowledges the backend's finish only after the client acknowledged it
(* Deviation of the implementation, named rather than hidden: the client's configuration session
   handler is re-used for every re-configuration and its "client finished" future stays completed
   after the first round, so on a SERVER SWITCH the proxy acknowledges the new backend's
   finish-configuration at once, before the client has acknowledged it (the backend then sends
   JoinGame while the client is still in the configuration phase; the play-packet queue of C14 holds
   it back).  Velocity re-arms that future on every activation. *)
EarlyAck == AllowEarlyAck /\ cnt.ackSent >= 1 /\ cnt.ackRecv <= cnt.ackSent

BRecvCfgAck(b) == /\ modern /\ bph[b] = "cfgfin"
                  /\ (cnt.ackRecv < cnt.ackSent \/ EarlyAck)   \* one acknowledgement per acknowledgement of the client
                  /\ bph' = [bph EXCEPT ![b] = "cfgack"] /\ cnt' = [cnt EXCEPT !.ackRecv = @ + 1]
                  /\ UNCHANGED <<cph, modern, name, joins>>
BSendJoin(b) == /\ bph[b] = (IF modern THEN "cfgack" ELSE "success")
                /\ bph' = [bph EXCEPT ![b] = "join"] /\ cnt' = [cnt EXCEPT !.joinSent = @ + 1]
                /\ UNCHANGED <<cph, modern, name, joins>>
BClosed(b) == bph[b] # "none" /\ bph' = [bph EXCEPT ![b] = "closed"] /\ UNCHANGED <<cph, modern, name, joins, cnt>>

SNext == \/ CSendHandshake \/ (\E n \in {"a", "b"} : CSendStart(n)) \/ CRecvEncRequest \/ CSendEncResponse
         \/ CRecvSuccess \/ CSendAck \/ CRecvCfgFinish \/ CSendCfgAck \/ CRecvJoin \/ CClosed
         \/ CRecvStartCfg \/ CSendCfgEnter
         \/ \E b \in Backends : \/ BAccept(b) \/ BRecvHandshake(b) \/ (\E n \in {"a", "b"} : BRecvStart(b, n))
                                \/ BSendSuccess(b) \/ BRecvAck(b) \/ BSendCfgFinish(b) \/ BRecvCfgAck(b)
                                \/ BSendJoin(b) \/ BClosed(b)

SSpec == (\E m \in BOOLEAN : SInit(m)) /\ [][SNext]_svars

(* Properties of the lifecycle (checked by TLC on this module, and at every step of every
   validated rig trace since the trace spec reuses the actions above) *)
\* a client in play got there through login success (and configuration when modern)
PlayImpliesJoined == cph = "play" => joins >= 1
\* no backend is contacted for a client that did not log in
NoBackendBeforeLogin == (\E b \in Backends : bph[b] # "none") => CRank(cph) >= CRank("start")
\* a backend sees the configuration acknowledged only after the client did
CfgAckOrder == /\ cnt.ackRecv <= cnt.ackSent + (IF AllowEarlyAck THEN 1 ELSE 0)
               /\ cnt.finRecv <= cnt.finSent /\ joins <= cnt.joinSent
\* once the client is gone and everything settled, no backend connection is left open (trace END)
AllBackendsClosed == \A b \in Backends : bph[b] \in {"none", "closed"}
TypeOK == cph \in CPh /\ \A b \in Backends : bph[b] \in BPh
=============================================================================
