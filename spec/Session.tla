------------------------------ MODULE Session ------------------------------
(* The connection lifecycle of one player session as seen at the proxy's two sides:
   the client connection and the backend connections the proxy opens for it.
   This is the composite "system" specification the live-rig traces are checked
   against (section 3 of DESIGN.md); the per-property modules are projections of it.

   Client side   Handshake -> Login{start, [encryption], success} -> [1.20.2+: ack -> Config{finish, ack}] -> Play
   Backend side  Dial/accept -> Handshake -> Login{start, [compression], success}
                   -> [1.20.2+: ack -> Config{finish, ack}] -> Play{join}

   State is kept per session; events are what the endpoints (fake client, fake backend)
   log: a packet is logged by its sender before it is written and by its receiver after it
   was read, so the order of the log respects causality and the guards below may refer to
   the other side's state.

   modern = the client protocol has a configuration phase (1.20.2+). *)
EXTENDS Naturals, Sequences, FiniteSets

CONSTANTS Backends,      \* ids of backend connections per session, e.g. {"b1","b2","b3"}
          MaxJoins       \* bound on JoinGame packets per session (model checking only)

VARIABLES cph,      \* client phase
          modern,   \* BOOLEAN
          name,     \* user name the client sent
          bph,      \* [Backends -> backend connection phase]
          joins     \* number of JoinGame packets that reached the client

svars == <<cph, modern, name, bph, joins>>

CPh == {"init", "hs", "start", "encreq", "encresp", "success", "acked", "cfgfin", "cfgack", "play", "closed"}
BPh == {"none", "accepted", "hs", "start", "success", "acked", "cfgfin", "cfgack", "join", "closed"}

\* order of client phases that matter for "has the client already ..."
CRank(p) == CASE p = "init" -> 0 [] p = "hs" -> 1 [] p = "start" -> 2 [] p = "encreq" -> 3 [] p = "encresp" -> 4
              [] p = "success" -> 5 [] p = "acked" -> 6 [] p = "cfgfin" -> 7 [] p = "cfgack" -> 8 [] p = "play" -> 9
              [] p = "closed" -> 10
BRank(p) == CASE p = "none" -> 0 [] p = "accepted" -> 1 [] p = "hs" -> 2 [] p = "start" -> 3 [] p = "success" -> 4
              [] p = "acked" -> 5 [] p = "cfgfin" -> 6 [] p = "cfgack" -> 7 [] p = "join" -> 8 [] p = "closed" -> 9

SInit(m) == /\ cph = "init" /\ modern = m /\ name = "" /\ joins = 0
            /\ bph = [b \in Backends |-> "none"]

Live(b) == bph[b] \notin {"none", "closed"}

---------------------------------------------------------------------------
(* client connection *)
CSendHandshake == cph = "init" /\ cph' = "hs" /\ UNCHANGED <<modern, name, bph, joins>>
CSendStart(n) == cph = "hs" /\ cph' = "start" /\ name' = n /\ UNCHANGED <<modern, bph, joins>>
CRecvEncRequest == cph = "start" /\ cph' = "encreq" /\ UNCHANGED <<modern, name, bph, joins>>
CSendEncResponse == cph = "encreq" /\ cph' = "encresp" /\ UNCHANGED <<modern, name, bph, joins>>
\* login success only answers a login start (after the encryption exchange, if any)
CRecvSuccess == cph \in {"start", "encresp"} /\ cph' = "success" /\ UNCHANGED <<modern, name, bph, joins>>
CSendAck == modern /\ cph = "success" /\ cph' = "acked" /\ UNCHANGED <<modern, name, bph, joins>>
\* the backend's finish-configuration is relayed: some backend connection must have sent it
CRecvCfgFinish == /\ modern /\ cph = "acked"
                  /\ \E b \in Backends : BRank(bph[b]) >= BRank("cfgfin")
                  /\ cph' = "cfgfin" /\ UNCHANGED <<modern, name, bph, joins>>
CSendCfgAck == modern /\ cph = "cfgfin" /\ cph' = "cfgack" /\ UNCHANGED <<modern, name, bph, joins>>
\* JoinGame reaches the client only in play and only if some backend sent one
CRecvJoin == /\ joins < MaxJoins
             /\ (IF modern THEN cph \in {"cfgack", "play"} ELSE cph \in {"success", "play"})
             /\ \E b \in Backends : bph[b] \in {"join", "closed"}
             /\ cph' = "play" /\ joins' = joins + 1 /\ UNCHANGED <<modern, name, bph>>
CClosed == cph' = "closed" /\ UNCHANGED <<modern, name, bph, joins>>

(* backend connection b *)
\* the proxy dials a backend only for a client that logged in (1.20.2+: and acknowledged it)
BAccept(b) == /\ bph[b] = "none"
              /\ CRank(cph) >= (IF modern THEN CRank("acked") ELSE CRank("start"))
              /\ bph' = [bph EXCEPT ![b] = "accepted"] /\ UNCHANGED <<cph, modern, name, joins>>
BRecvHandshake(b) == bph[b] = "accepted" /\ bph' = [bph EXCEPT ![b] = "hs"] /\ UNCHANGED <<cph, modern, name, joins>>
\* the login start the backend sees names the same user
BRecvStart(b, n) == /\ bph[b] = "hs" /\ n = name
                    /\ bph' = [bph EXCEPT ![b] = "start"] /\ UNCHANGED <<cph, modern, name, joins>>
BSendSuccess(b) == bph[b] = "start" /\ bph' = [bph EXCEPT ![b] = "success"] /\ UNCHANGED <<cph, modern, name, joins>>
BRecvAck(b) == modern /\ bph[b] = "success" /\ bph' = [bph EXCEPT ![b] = "acked"] /\ UNCHANGED <<cph, modern, name, joins>>
BSendCfgFinish(b) == modern /\ bph[b] = "acked" /\ bph' = [bph EXCEPT ![b] = "cfgfin"] /\ UNCHANGED <<cph, modern, name, joins>>
\* the proxy acknowledges the backend's finish only after the client acknowledged it
BRecvCfgAck(b) == /\ modern /\ bph[b] = "cfgfin" /\ CRank(cph) >= CRank("cfgack")
                  /\ bph' = [bph EXCEPT ![b] = "cfgack"] /\ UNCHANGED <<cph, modern, name, joins>>
BSendJoin(b) == /\ bph[b] = (IF modern THEN "cfgack" ELSE "success")
                /\ bph' = [bph EXCEPT ![b] = "join"] /\ UNCHANGED <<cph, modern, name, joins>>
BClosed(b) == bph[b] # "none" /\ bph' = [bph EXCEPT ![b] = "closed"] /\ UNCHANGED <<cph, modern, name, joins>>

SNext == \/ CSendHandshake \/ (\E n \in {"a", "b"} : CSendStart(n)) \/ CRecvEncRequest \/ CSendEncResponse
         \/ CRecvSuccess \/ CSendAck \/ CRecvCfgFinish \/ CSendCfgAck \/ CRecvJoin \/ CClosed
         \/ \E b \in Backends : \/ BAccept(b) \/ BRecvHandshake(b) \/ (\E n \in {"a", "b"} : BRecvStart(b, n))
                                \/ BSendSuccess(b) \/ BRecvAck(b) \/ BSendCfgFinish(b) \/ BRecvCfgAck(b)
                                \/ BSendJoin(b) \/ BClosed(b)

SSpec == (\E m \in BOOLEAN : SInit(m)) /\ [][SNext]_svars

(* Properties of the lifecycle (checked by TLC on this module, and at every step of every
   validated rig trace since the trace spec reuses the actions above) *)
\* a client in play got there through login success (and configuration when modern)
PlayImpliesJoined == cph = "play" => joins >= 1
\* no backend is contacted for a client that did not log in
NoBackendBeforeLogin == (\E b \in Backends : bph[b] # "none") => CRank(cph) >= CRank("start")
\* a backend sees the configuration acknowledged only after the client did
CfgAckOrder == modern => \A b \in Backends : BRank(bph[b]) >= BRank("cfgack") /\ bph[b] # "closed" => CRank(cph) >= CRank("cfgack")
TypeOK == cph \in CPh /\ \A b \in Backends : bph[b] \in BPh
=============================================================================
