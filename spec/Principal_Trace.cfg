SPECIFICATION TSpec
CONSTANTS
  NonceLen = 16
  MaxEnv = 16384
  Nums = {}
  MaxFields = 0
  Fanout = 0
  ExportMin = 99
  Broken = FALSE
INVARIANT Mark
POSTCONDITION Accepted2
CHECK_DEADLOCK FALSE
