---------------------------- MODULE Bungee_Trace ----------------------------
(* Judges what the real BungeeCord message responder did for one request.  Lines:
     {"ev":"req","st":<proxy state as in Bungee.tla>,"rq":<request record>,
      "data":[bytes the backend sent after the channel name],
      "panicked":bool,
      "outs":[{"kind","who","where","chan","data"}]}   everything the recording fakes saw:
         resp      plugin message written to the server connection of player `who`
                   (chan = channel name, data = payload bytes)
         forward   payload handed to server `where` (chan = "bungee" when the identifier is one
                   of the two BungeeCord channel ids)
         connect   connection request of player `who` to server `where`
         kick      player `who` disconnected with text `data`
         msg       chat message `data` to player `who`
         broadcast chat message `data` to every player
         srvmsg    chat message `data` to the players of server `where`
   The outs must be exactly Respond(st, rq), each once (order is free).  The requests are
   independent, so a line that fails is reported (<<"BAD", line>>) and validation goes on. *)
(* Live rig (real proxy, real adapter), same requests sent by a fake backend on the requester's
   connection:
     {"ev":"live","st":..,"rq":..,"data":[..],"lost":bool,      lost = the requester's connection stopped answering
      "srv":[{"who","where","chan","data"}],    BungeeCord plugin messages received by the backend connection
                                                 of player `who` on server `where`
      "cli":[{"who","chan","data"}]}            BungeeCord plugin messages received by a player's CLIENT
   A response of Respond must arrive on the named player's backend connection, a forward on exactly
   one connection of the target server (none if nobody is on it), nothing else, and never at a client. *)
EXTENDS Bungee, TraceLib

ToSet(s) == {s[i] : i \in 1..Len(s)}

ReqOK(rec) == /\ rec.data = ReqBytes(rec.rq)          \* the harness sent what the spec enumerated
              /\ ~rec.panicked
              /\ LET r == Respond(rec.st, rec.rq) IN
                 r.free \/ (ToSet(rec.outs) = r.outs /\ Len(rec.outs) = Cardinality(r.outs))

TReq == /\ IsEv("req")
        /\ IF ReqOK(Rec) THEN TRUE ELSE PrintT(<<"BAD", l>>)
        /\ UNCHANGED vars

LiveOK(rec) ==
    /\ rec.data = ReqBytes(rec.rq)
    /\ ~rec.lost
    /\ rec.cli = <<>>
    /\ LET r == Respond(rec.st, rec.rq)
           resps == {o \in r.outs : o.kind = "resp"}
           fwds == {o \in r.outs : o.kind = "forward" /\ OnServer(rec.st, o.where) # <<>>}
           IsResp(x, o) == x.who = o.who /\ x.data = o.data /\ x.chan = o.chan
           IsFwd(x, o) == x.where = o.where /\ x.data = o.data /\ FindP(rec.st, x.who) # 0 /\ x.chan = Chan(rec.st, x.who)
       IN r.free \/
          /\ \A o \in r.outs : o.kind \in {"resp", "forward"}      \* only such requests are driven live
          /\ Len(rec.srv) = Cardinality(resps) + Cardinality(fwds)
          /\ \A o \in resps : \E i \in 1..Len(rec.srv) : IsResp(rec.srv[i], o)
          /\ \A o \in fwds : Cardinality({i \in 1..Len(rec.srv) : IsFwd(rec.srv[i], o)}) = 1
          /\ \A i \in 1..Len(rec.srv) : (\E o \in resps : IsResp(rec.srv[i], o)) \/ (\E o \in fwds : IsFwd(rec.srv[i], o))

TLive == /\ IsEv("live")
         /\ IF LiveOK(Rec) THEN TRUE ELSE PrintT(<<"BAD", l>>)
         /\ UNCHANGED vars

TSpec == CursorInit /\ st = 0 /\ rq = 0 /\ [][TReq \/ TLive]_<<vars, l>>
=============================================================================
