--------------------------- MODULE Floodgate_Trace ---------------------------
(* Judges recorded calls of the real floodgate package.

   {"ev":"read","case":{ks,wrongkey,mut,shape},"fields":[12 strings],"orig":[..],
    "out":"ok"|"err"|"panic","got":{typed fields as strings},"gotorig":[..]}
        ReadHostname of a hostname the harness's reference encoder built for the case
   {"ev":"mut","region":"orig"|"nul"|"header"|"iv"|"split"|"ct"|"port","alias":bool,"out":..}
        one byte of a valid hostname replaced; alias = the changed text still decodes (Base64)
        to the same iv and ciphertext bytes, i.e. the data is not altered
   {"ev":"write","fields":[12 strings the struct stands for],"orig":[..],"nul":bool (a field
    or orig contains NUL),"out":"ok"|"err"|"panic","ref":{"ok":bool,"orig":[..],"fields":[[..]]}}
        WriteHostname output read back by the harness's Floodgate-style reference decoder
        ("kind":"held": an Encrypt result kept while later ones were made, decoded afterwards;
         "kind":"concurrent": written while other goroutines wrote through the same Floodgate)
   Strings are sequences of byte values. *)
EXTENDS Floodgate, TraceLib

TRead == /\ IsEv("read")
         /\ LET r == Rec
                e == Expected(r.case)
            IN /\ r.out # "panic"
               /\ e = "reject" => r.out = "err"
               /\ e = "fields" => /\ r.out = "ok"
                                  /\ r.got = Shown(r.fields)
                                  /\ r.gotorig = r.orig
         /\ UNCHANGED c

TMut == /\ IsEv("mut")
        /\ LET r == Rec IN
           /\ r.out # "panic"
           /\ (r.region \in {"nul", "header", "iv", "split", "ct"} /\ ~r.alias) => r.out = "err"
        /\ UNCHANGED c

TWrite == /\ IsEv("write")
          /\ LET r == Rec IN
             /\ r.out # "panic"
             /\ r.nul => r.out = "err"          \* cannot be represented
             /\ ~r.nul => /\ r.out = "ok"
                          /\ r.ref.ok /\ r.ref.orig = r.orig /\ r.ref.fields = r.fields
          /\ UNCHANGED c

TNext == TRead \/ TMut \/ TWrite
TSpec == c = 0 /\ CursorInit /\ [][TNext]_<<c, l>>
=============================================================================
