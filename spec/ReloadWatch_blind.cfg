SPECIFICATION FairSpec
CONSTANTS
  Contents = {"A", "B"}
  MaxOps = 3
  Kinds = {"write"}
  Fates = {"deliver", "drop"}
  Rejects = {}
  CbOps = "none"
  Recheck = TRUE
  Post = "forget"
  Record = "always"
  Breaks = TRUE
  Blind = TRUE
  Export = FALSE
INVARIANTS NoHazard
