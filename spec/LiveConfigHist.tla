--------------------------- MODULE LiveConfigHist ---------------------------
(* C35 -- abstract (black-box) specification of the live configuration object,
   over what a user observes: calls, their linearization points (reported by the
   instrumented code under the reload mutex: lc.commit / lc.snapshot), returns.
   It knows nothing about mutexes; it is what traces of the real code are judged
   against.

   cur    the current content
   vers   the <<content, version string>> pairs seen so far: must stay a function
          (same content, same version) and injective (different content,
          different version) -- "the version changes exactly when the content changes"
   open   thread -> the call in progress
   lin    thread -> what its linearization point reported *)
EXTENDS LiveConfigBase, Naturals, Sequences, FiniteSets

VARIABLES cur, vers, open, lin
hvars == <<cur, vers, open, lin>>

Put(fn, k, v) == [x \in DOMAIN fn \cup {k} |-> IF x = k THEN v ELSE fn[x]]
Drop(fn, k) == [x \in DOMAIN fn \ {k} |-> fn[x]]

VerOK(c, v) == /\ v # ""
               /\ \A p \in vers : (p[1] = c) <=> (p[2] = v)
VerOf(c) == (CHOOSE p \in vers : p[1] = c)[2]
ContentOfName(n) == IF n \in DOMAIN Pool THEN Pool[n] ELSE [r |-> "?", o |-> "?"]

HReset(v0) == /\ cur' = Init0 /\ vers' = {<<Init0, v0>>} /\ open' = <<>> /\ lin' = <<>>

\* rec: [op, cand, exp]
Call(t, rec) == /\ t \notin DOMAIN open
                /\ open' = Put(open, t, rec)
                /\ UNCHANGED <<cur, vers, lin>>

\* linearization point of ApplyLiveConfig / ApplyLiveConfigIfVersion
Commit(t, code, v) ==
    /\ t \in DOMAIN open /\ t \notin DOMAIN lin
    /\ open[t].op \in {"apply", "applyif"}
    /\ LET c == ContentOfName(open[t].cand)
           \* compare-and-swap: a conditional apply succeeds only on the current version
           condOK == open[t].op = "applyif" => open[t].exp = VerOf(cur)
       IN  IF code = "applied"
             THEN /\ Valid(c) /\ RoutesOnly(cur, c)       \* only valid, routes-only candidates
                  /\ condOK
                  /\ VerOK(c, v)                           \* version identifies the content
                  /\ vers' = vers \cup {<<c, v>>}
                  /\ cur' = c                              \* the whole candidate is published
           ELSE IF code = "unchanged"
             THEN condOK /\ v = VerOf(cur) /\ UNCHANGED <<cur, vers>>
           ELSE UNCHANGED <<cur, vers>>                    \* rejected: nothing changes
    /\ lin' = Put(lin, t, [code |-> code, version |-> v])
    /\ UNCHANGED open

\* linearization point of ConfigSnapshot
SnapPoint(t, v) == /\ t \in DOMAIN open /\ t \notin DOMAIN lin /\ open[t].op = "snap"
                   /\ v = VerOf(cur)
                   /\ lin' = Put(lin, t, [content |-> cur, version |-> v])
                   /\ UNCHANGED <<cur, vers, open>>

RetApply(t, code, applied, v) ==
    /\ t \in DOMAIN open /\ t \in DOMAIN lin /\ open[t].op \in {"apply", "applyif"}
    /\ code = lin[t].code /\ v = lin[t].version /\ applied = (code = "applied")
    /\ open' = Drop(open, t) /\ lin' = Drop(lin, t) /\ UNCHANGED <<cur, vers>>

\* the snapshot handed out is the complete content that was current, with its version
RetSnap(t, name, v) ==
    /\ t \in DOMAIN open /\ t \in DOMAIN lin /\ open[t].op = "snap"
    /\ ContentOfName(name) = lin[t].content /\ v = lin[t].version
    /\ open' = Drop(open, t) /\ lin' = Drop(lin, t) /\ UNCHANGED <<cur, vers>>

\* the caller edits, in place, a candidate object it passed to an earlier apply: that is the
\* caller's own data; the published configuration is a complete accepted candidate and is
\* not touched by it (the observations that follow must still see cur)
CallerEdit == UNCHANGED hvars

\* with no call in progress: configuration, version and routing are those of cur
Observe(name, v, routes) == /\ open = <<>>
                            /\ ContentOfName(name) = cur /\ v = VerOf(cur) /\ routes = cur.r
                            /\ UNCHANGED hvars
=============================================================================
