-------------------------- MODULE ProxyProto_Trace --------------------------
(* Judges recorded behaviour of netutil.ParseTrustedNetworks / Contains / ContainsStr and
   of the proxy's PROXY-protocol connection wrapper.  All addresses are logged as text
   (character codes) and read by the grammar of ProxyProto.tla.

   {"ev":"parse",    "text":[..], "ok":bool}                ParseTrustedNetworks({text}) succeeded
   {"ev":"cfglist",  "list":[[..]], "new_ok":bool, "validate_ok":bool}
                     proxy.New with ProxyProtocol on and this proxyProtocolTrustedProxies succeeded /
                     Config.Validate reported no error about the list
   {"ev":"contains", "nets":[[..]], "peer":[..], "via":"addr"|"str", "res":bool}
   {"ev":"wrap",     "nets":[[..]], "peer":[..], "first":kind, "hdr":[..] source address in the header
                     as RemoteAddr text, "err":bool first read failed, "remote":[..] RemoteAddr()
                     after wrapping, "sent":[..] payload behind the header, "got":[..] bytes read}
   Lists the spec itself cannot read as valid (a harness problem) are reported through TLC
   register 2, not as a rejection. *)
EXTENDS ProxyProto, TraceLib

NetsOf(texts) == [k \in 1..Len(texts) |-> ParseNet(texts[k])]
NetsOK(N) == \A k \in 1..Len(N) : N[k].st = "ok"

TParse == /\ IsEv("parse")
          /\ LET r == Rec
                 q == ParseNet(r.text)
             IN q.st = "amb" \/ r.ok = (q.st = "ok")
          /\ UNCHANGED <<p, peer>>

TCfgList == /\ IsEv("cfglist")
            /\ LET r == Rec
                   v == ListVerdict(r.list)
               IN v = "amb" \/ (r.new_ok = (v = "ok") /\ r.validate_ok = (v = "ok"))
            /\ UNCHANGED <<p, peer>>

TContains == /\ IsEv("contains")
             /\ LET r == Rec
                    N == NetsOf(r.nets)
                    a == IF r.via = "str" THEN AddrOf(ParseIP(r.peer)) ELSE PeerOf(r.peer)
                IN IF ~NetsOK(N) THEN TLCSet(2, l)
                   ELSE Ambiguous(N, a) \/ r.res = Trusted(N, a)
             /\ UNCHANGED <<p, peer>>

Fits(r, o) == CASE o = "own" -> ~r.err /\ r.remote = r.peer /\ r.got = r.sent
                [] o = "hdr" -> ~r.err /\ r.remote = r.hdr /\ r.got = r.sent
                [] o = "fail" -> r.err
                [] OTHER -> TRUE

TWrap == /\ IsEv("wrap")
         /\ LET r == Rec
                N == NetsOf(r.nets)
                a == PeerOf(r.peer)
            IN IF ~NetsOK(N) THEN TLCSet(2, l)
               ELSE IF Ambiguous(N, a) THEN Fits(r, Outcome(TRUE, r.first)) \/ Fits(r, Outcome(FALSE, r.first))
               ELSE Fits(r, Outcome(Trusted(N, a), r.first))
         /\ UNCHANGED <<p, peer>>

TNext == TParse \/ TCfgList \/ TContains \/ TWrap
TSpec == p = 0 /\ peer = 0 /\ CursorInit /\ TLCSet(2, 0) /\ [][TNext]_<<p, peer, l>>
Accepted2 == PrintT(<<"NETSBAD", TLCGet(2)>>) /\ Accepted
=============================================================================
