SPECIFICATION FairSpec
CONSTANTS
  Contents = {"A", "B"}
  MaxOps = 3
  Kinds = {"write", "replace"}
  Fates = {"deliver", "drop", "dup"}
  Rejects = {}
  CbOps = "none"
  Recheck = FALSE
  Post = "none"
  Record = "always"
  Breaks = FALSE
  Blind = FALSE
  Export = FALSE
INVARIANTS NoHazard
