SPECIFICATION Spec
CONSTANTS
  W = 3
  MaxT = 6
  MaxLen = 5
  Counts = {1, 2}
  InitCap = 2
  BrokenResize = FALSE
  Export = FALSE
VIEW View
INVARIANTS TotalIsWindowSum RingIsWindow CleanOutside 
