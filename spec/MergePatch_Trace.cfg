SPECIFICATION TSpec
CONSTANTS
  Keys = {"a", "b"}
  LeafSel = "std"
  Export = FALSE
INVARIANT Mark
POSTCONDITION Accepted
CHECK_DEADLOCK FALSE
