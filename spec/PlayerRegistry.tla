--------------------------- MODULE PlayerRegistry ---------------------------
(* C11 -- abstract (black-box) specification of the proxy's player registry,
   phrased over what a user of the proxy can observe:

     login.call / login.ret   a connection completes its login (Activated()); at the
                              return the connection is either still open (the login
                              succeeded) or has been disconnected by the proxy
     disc.call / disc.ret     the client closes its own connection
     disc.event               DisconnectEvent fired for a connection
     look                     Player(id), PlayerByName(name), PlayerCount(), Players()
                              read while no registry call is running

   Registration and removal take effect atomically at some instant inside the
   calls (silent steps Insert / Remove).  The spec knows nothing about mutexes or
   maps-by-key deletion; it is the weakest machine that entails the property:

     * at most one registered player per UUID; PlayerCount = number of registered UUIDs
     * kick mode off: at most one per lower-cased name, and the name index and the
       UUID index describe the same set
     * a registered player stays findable (by name too, unless kick mode let a newer
       player replace the name entry) until its own disconnect begins: only
       Remove(c) -- enabled by c's own disconnect or by a kick through a login with
       the same UUID -- removes c, and it removes nothing else
     * kick mode: the newer session is inserted only after the older one was removed

   Rejections need no justification here (the property does not ask for one). *)
EXTENDS Naturals, Sequences, FiniteSets

VARIABLES kick,      \* BOOLEAN  OnlineModeKickExistingPlayers
          cn,        \* [conn -> [id, name]]   name = lower-cased user name
          phase,     \* [conn -> "idle" | "login" | "done"]
          reg,       \* [conn -> "no" | "yes" | "was"]
          disc,      \* [conn -> BOOLEAN]  the connection's disconnect has begun
          replaced,  \* [conn -> BOOLEAN]  kick mode: a newer player took the name entry
          byId, byName

rvars == <<kick, cn, phase, reg, disc, replaced, byId, byName>>

Conns == DOMAIN cn

Put(fn, k, v) == [x \in DOMAIN fn \cup {k} |-> IF x = k THEN v ELSE fn[x]]
Drop(fn, k) == [x \in DOMAIN fn \ {k} |-> fn[x]]
Range(fn) == {fn[x] : x \in DOMAIN fn}
Has(fn, k) == k \in DOMAIN fn

RInit(k, conns) == /\ kick = k
                   /\ cn = conns
                   /\ phase = [c \in DOMAIN conns |-> "idle"]
                   /\ reg = [c \in DOMAIN conns |-> "no"]
                   /\ disc = [c \in DOMAIN conns |-> FALSE]
                   /\ replaced = [c \in DOMAIN conns |-> FALSE]
                   /\ byId = <<>> /\ byName = <<>>

LoginCall(c) == /\ c \in Conns /\ phase[c] = "idle"
                /\ phase' = [phase EXCEPT ![c] = "login"]
                /\ UNCHANGED <<kick, cn, reg, disc, replaced, byId, byName>>

\* silent: the login of c registers it
Insert(c) == /\ c \in Conns /\ phase[c] = "login" /\ reg[c] = "no"
             /\ ~Has(byId, cn[c].id)
             /\ ~kick => ~Has(byName, cn[c].name)
             /\ byId' = Put(byId, cn[c].id, c)
             /\ byName' = Put(byName, cn[c].name, c)
             /\ replaced' = IF Has(byName, cn[c].name)
                              THEN [replaced EXCEPT ![byName[cn[c].name]] = TRUE] ELSE replaced
             /\ reg' = [reg EXCEPT ![c] = "yes"]
             /\ UNCHANGED <<kick, cn, phase, disc>>

\* a login with the same UUID is in progress in kick mode
Kicked(e) == kick /\ \E c \in Conns : c # e /\ phase[c] = "login" /\ reg[c] = "no" /\ cn[c].id = cn[e].id

\* silent: e is unregistered -- only because of its own disconnect or a kick, and
\* only the entries that map to e go away
Remove(e) == /\ e \in Conns /\ reg[e] = "yes"
             /\ disc[e] \/ Kicked(e)
             /\ byId' = IF Has(byId, cn[e].id) /\ byId[cn[e].id] = e THEN Drop(byId, cn[e].id) ELSE byId
             /\ byName' = IF Has(byName, cn[e].name) /\ byName[cn[e].name] = e
                            THEN Drop(byName, cn[e].name) ELSE byName
             /\ reg' = [reg EXCEPT ![e] = "was"]
             /\ disc' = [disc EXCEPT ![e] = TRUE]
             /\ UNCHANGED <<kick, cn, phase, replaced>>

\* open: the connection was still open when Activated() returned = the login succeeded,
\* i.e. c was registered inside the call (a kick may already have removed it again: the
\* harness reads the flag and writes the record in two steps)
LoginRet(c, open) == /\ c \in Conns /\ phase[c] = "login"
                     /\ open => reg[c] \in {"yes", "was"}
                     /\ phase' = [phase EXCEPT ![c] = "done"]
                     /\ disc' = IF open THEN disc ELSE [disc EXCEPT ![c] = TRUE]
                     /\ UNCHANGED <<kick, cn, reg, replaced, byId, byName>>

DiscCall(c) == /\ c \in Conns
               /\ disc' = [disc EXCEPT ![c] = TRUE]
               /\ UNCHANGED <<kick, cn, phase, reg, replaced, byId, byName>>

\* the connection's teardown is over (Close() returned / DisconnectEvent fired):
\* it is not registered any more
DiscOver(c) == /\ c \in Conns /\ reg[c] # "yes"
               /\ UNCHANGED rvars

\* lookups: ids / names are sequences of <<key, connection or "">>
Look(ids, names, count, list) ==
    /\ \A i \in 1..Len(ids) :
         ids[i][2] = (IF Has(byId, ids[i][1]) THEN byId[ids[i][1]] ELSE "")
    /\ \A i \in 1..Len(names) :
         names[i][2] = (IF Has(byName, names[i][1]) THEN byName[names[i][1]] ELSE "")
    /\ count = Cardinality(DOMAIN byId)
    /\ Len(list) = Cardinality(DOMAIN byId)
    /\ {list[i] : i \in 1..Len(list)} = Range(byId)
    /\ UNCHANGED rvars

----------------------------------------------------------------------------
(* The property as invariants of this machine (checked by TLC on the stand-alone
   configuration PlayerRegistry.cfg: every behaviour of the acceptor satisfies it). *)

Registered(c) == reg[c] = "yes"

OnePerId == \A c, d \in Conns : c # d /\ Registered(c) /\ Registered(d) => cn[c].id # cn[d].id
CountIsIds == Cardinality(DOMAIN byId) = Cardinality({c \in Conns : Registered(c)})
OnePerName == ~kick => \A c, d \in Conns : c # d /\ Registered(c) /\ Registered(d) => cn[c].name # cn[d].name
SameSet == ~kick => Range(byId) = Range(byName)
FindableById == \A c \in Conns : Registered(c) => Has(byId, cn[c].id) /\ byId[cn[c].id] = c
FindableByName == \A c \in Conns : Registered(c) /\ ~replaced[c] =>
                     Has(byName, cn[c].name) /\ byName[cn[c].name] = c
NoReplaceWithoutKick == ~kick => \A c \in Conns : ~replaced[c]
OnlyRegistered == Range(byId) \cup Range(byName) \subseteq {c \in Conns : Registered(c)}

\* nobody but c's own disconnect or a kick unregisters c
OthersUntouched == [][\A c \in Conns : reg[c] = "yes" /\ reg'[c] # "yes" => disc'[c]]_rvars

----------------------------------------------------------------------------
(* Stand-alone behaviour space for the configuration PlayerRegistry.cfg. *)
CONSTANTS MConns, MIds, MNames

MInit == \E k \in BOOLEAN : \E conns \in [MConns -> [id : MIds, name : MNames]] : RInit(k, conns)
MNext == \E c \in Conns : \/ LoginCall(c) \/ Insert(c) \/ Remove(c)
                          \/ \E o \in BOOLEAN : LoginRet(c, o)
                          \/ (phase[c] = "done" /\ DiscCall(c))
MSpec == MInit /\ [][MNext]_rvars
=============================================================================
