SPECIFICATION Spec
CONSTANTS
  Thresholds = {0, 1, 64, 256, 1048576}
  Lenient = FALSE
INVARIANTS Clauses CapsOrdered
