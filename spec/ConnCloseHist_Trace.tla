------------------------- MODULE ConnCloseHist_Trace -------------------------
EXTENDS ConnCloseHist, TraceLib

tvars == <<hvars, l>>

TInit == CursorInit /\ HInit(TRUE)

TReset == IsEv("reset")
          /\ open' = <<>> /\ reason' = FALSE /\ returned' = FALSE /\ teardowns' = 0
          /\ handler' = Rec.handler /\ injected' = 0 /\ handled' = 0

TCall == IsEv("call") /\ Call(Rec.thread, Rec.op)
TRet == IsEv("ret") /\ Ret(Rec.thread, Rec.res)
TPeerGone == IsEv("peergone") /\ PeerGone
\* from here on the connection has to be torn down by whatever ends it: like the peer going away
TCtxCancel == IsEv("ctxcancel") /\ PeerGone
TTeardown == IsEv("teardown") /\ Teardown
TInject == IsEv("inject") /\ Inject(Rec.n)
THandled == IsEv("handled") /\ Handled(Rec.n)
TQuiet == IsEv("quiet") /\ Quiet
TSettled == IsEv("settled") /\ Settled
TEnd == IsEv("end") /\ End
\* the child process that ran the preceding runs exited normally
TChildExit == IsEv("childexit") /\ Rec.code = 0 /\ UNCHANGED hvars
\* "died", "stalled", "hung" are never accepted

TNext == TReset \/ TCall \/ TRet \/ TPeerGone \/ TCtxCancel \/ TTeardown \/ TInject \/ THandled
         \/ TQuiet \/ TSettled \/ TEnd \/ TChildExit
TSpec == TInit /\ [][TNext]_tvars
=============================================================================
