SPECIFICATION FairSpec
CONSTANTS
  Contents = {"A", "B"}
  MaxOps = 3
  Kinds = {"write"}
  Fates = {"drop"}
  Rejects = {}
  CbOps = "both"
  Recheck = TRUE
  Post = "forget"
  Record = "always"
  Export = FALSE
INVARIANTS NoHazard
