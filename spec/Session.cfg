SPECIFICATION SSpec
CONSTANTS
  Backends = {"b1", "b2"}
  MaxJoins = 2
  AllowEarlyAck = FALSE
INVARIANTS TypeOK PlayImpliesJoined NoBackendBeforeLogin CfgAckOrder
