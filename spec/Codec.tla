------------------------------- MODULE Codec -------------------------------
(* C03 -- primitive field codecs are exact inverses and reject truncated input.

   The required behaviour of every primitive is the pair (EncX, DecX) of
   lib/Wire.tla.  This module
     * names the primitives (kind k) and dispatches Enc(k, v) / Dec(k, b, max),
     * states the property on them:
         RoundTrip      Dec(Enc(v) \o junk) = (v, Len(Enc(v)))     exact inverse, exact consumption
         PrefixRejected every strict prefix of Enc(v) fails        no zero padding
         HostileRejected negative / oversized length prefixes fail on the prefix alone
     * lets TLC check that the reference operators themselves satisfy it over an
       enumerated domain (all 8/16-bit values, VarInts -70000..70000 and around every
       7-bit group boundary, limb boundaries for 32/64-bit, all short strings over a
       3-letter alphabet and the length-prefix boundaries 127/128, 255/256,
       16383/16384, 32767/32768, 65535), so that a wrong oracle is caught before it
       accuses the code,
     * exports the boundary cases as vectors (PrintT "VEC"/"HVEC") that the harness
       runs through the real util.Write* / util.Read*.
   Codec_Trace.tla re-evaluates Enc / Dec on what the real code did.

   Value shapes per kind (JSON <-> TLA+):
     varint i32 u8 i8 u16 i16          integer
     bool                              BOOLEAN
     u32 (also float32 bits)           <<hi, lo>> 16-bit limbs
     u64 (also int64, float64, time)   <<l3, l2, l1, l0>>
     uuid uuidints                     16 bytes
     string bytes bytes17 bytes17x utf byte string (bytes17x = Forge-extended writer)
     strarr                            sequence of byte strings
     viarr                             sequence of integers
     props                             sequence of [name, value, sig]
     key minkey                        [ns, val];   keyarr  sequence of those *)
EXTENDS Wire, TLC, Json, FiniteSets

CONSTANTS Mode,   \* "check": the whole domain; "quick": a thinned domain (quick tier);
                  \* "export": boundary cases only, printed as vectors
          Bug     \* "none" | "zeropad": a decoder that pads missing bytes with zeros
                  \*   (non-vacuity: PrefixRejected must catch it)

DefaultMaxString == 65536      \* bufio.MaxScanTokenSize, code points

Enc(k, v) ==
    CASE k = "varint" -> EncVarInt(v)
      [] k = "u8" -> EncU8(v)
      [] k = "i8" -> EncI8(v)
      [] k = "bool" -> EncBool(v)
      [] k = "u16" -> EncU16(v)
      [] k = "i16" -> EncI16(v)
      [] k = "i32" -> EncI32(v)
      [] k \in {"u32", "u64"} -> EncLimbs(v)
      [] k \in {"uuid", "uuidints"} -> EncUUID(v)
      [] k = "string" -> EncString(v)
      [] k = "bytes" -> EncBytes(v)
      [] k \in {"bytes17", "bytes17x"} -> EncBytes17(v)
      [] k = "utf" -> EncUTF(v)
      [] k = "strarr" -> EncArray(EncString, v)
      [] k = "viarr" -> EncArray(EncVarInt, v)
      [] k = "props" -> EncProps(v)
      [] k = "key" -> EncKey(v)
      [] k = "minkey" -> EncMinimalKey(v)
      [] k = "keyarr" -> EncArray(EncKey, v)

\* max: the caller's limit (string: code points, bytes: bytes); ignored by the other kinds
Dec(k, b, max) ==
    CASE k = "varint" -> DecVarInt(b)
      [] k = "u8" -> DecU8(b)
      [] k = "i8" -> DecI8(b)
      [] k = "bool" -> DecBool(b)
      [] k = "u16" -> DecU16(b)
      [] k = "i16" -> DecI16(b)
      [] k = "i32" -> DecI32(b)
      [] k = "u32" -> DecLimbs(b, 2)
      [] k = "u64" -> DecLimbs(b, 4)
      [] k \in {"uuid", "uuidints"} -> DecUUID(b)
      [] k = "string" -> DecString(b, max)
      [] k = "bytes" -> DecBytes(b, max)
      [] k \in {"bytes17", "bytes17x"} -> DecBytes17(b)
      [] k = "utf" -> DecUTF(b)
      [] k = "strarr" -> LET D(x) == DecString(x, DefaultMaxString) IN DecArray(D, b)
      [] k = "viarr" -> DecArray(DecVarInt, b)
      [] k = "props" -> DecProps(b, DefaultMaxString)
      [] k = "key" -> DecKey(b, DefaultMaxString)
      [] k = "minkey" -> DecMinimalKey(b, DefaultMaxString)
      [] k = "keyarr" -> LET D(x) == DecKey(x, DefaultMaxString) IN DecArray(D, b)

(* The length prefix at the front of b is negative or above the limit: the decoder
   must fail without needing (or allocating for) a body. *)
HostilePrefix(k, b, max) ==
    CASE k = "string" -> BadLenPrefix(b, StrMaxBytes(max))
      [] k = "bytes" -> BadLenPrefix(b, max)
      [] k \in {"bytes17", "bytes17x"} ->
            LET h == DecExtShort(b) IN h.ok /\ h.v > ForgeMaxArrayLength
      [] k \in {"strarr", "viarr", "props", "keyarr"} -> NegativeCount(b)
      [] OTHER -> FALSE

\* the (possibly deliberately broken) decoder the model's invariants look at
Zeros8 == <<0, 0, 0, 0, 0, 0, 0, 0>>
DecT(k, b, max) == IF Bug = "zeropad" THEN Dec(k, b \o Zeros8, max) ELSE Dec(k, b, max)

-----------------------------------------------------------------------------
(* The enumerated domain. *)
Fill(n, x) == [i \in 1..n |-> x]
SeqsUpTo(S, n) == UNION {[1..m -> S] : m \in 0..n}
Abs(x) == IF x < 0 THEN -x ELSE x

Pow2 == {128, 16384, 2097152, 268435456}
MinInt == -2147483647 - 1
\* values at the edges of every VarInt group, byte and short (built directly, not filtered)
BoundaryVals == (-2..2)
                \cup {s * p + d : s \in {-1, 1}, p \in Pow2 \cup {256, 32768, 65536, 1073741824}, d \in -2..2}
                \cup {2147483647, 2147483646, -2147483647, MinInt}

VarInts == (-70000..70000) \cup BoundaryVals
LimbB == {0, 1, 255, 256, 32767, 32768, 65535}
I32s == {hi * 65536 + lo : hi \in {-32768, -32767, -1, 0, 1, 32767}, lo \in LimbB}
Alpha == {0, 97, 255}
ShortStrs == SeqsUpTo(Alpha, 3)
LongLens == {127, 128, 129, 255, 256, 16383, 16384, 16385}
Strs == ShortStrs \cup {Fill(n, 97) : n \in LongLens}
Lens17 == {127, 128, 255, 256, 257, 32767, 32768, 32769, 65535, 65536, 98304}
Arrs17 == ShortStrs \cup {Fill(n, 7) : n \in Lens17}
UTFs == ShortStrs \cup {Fill(n, 200) : n \in {255, 256, 32768, 65535}}
UUIDs == {Fill(16, 0), Fill(16, 255), [i \in 1..16 |-> i], [i \in 1..16 |-> 16 * i - 1]}
SmallStrs == {<<>>, <<97>>, <<98, 0>>, Fill(128, 99)}
Ints5 == {0, -1, 127, 128, 2147483647, -2147483647 - 1}
Props == [name : {<<>>, <<110>>}, value : {<<118, 118>>, Fill(130, 86)}, sig : {<<>>, <<115>>}]
NsSet == {MinecraftNS, <<97>>, <<98, 45, 99, 46, 95, 48>>}
ValSet == {<<>>, <<120>>, <<112, 47, 113>>}
Keys == [ns : NsSet, val : ValSet]

IsExport == Mode = "export"
\* integer ranges: export only the boundary values; quick tier: those and every 23rd value
Ints(S) == IF IsExport THEN BoundaryVals \cap S
           ELSE IF Mode = "quick" THEN {x \in S : x % 23 = 0} \cup (BoundaryVals \cap S)
           ELSE S
Pick(S, P(_)) == IF IsExport THEN {x \in S : P(x)} ELSE S
U64Pick(l) == l[2] = l[3] /\ (l[3] = l[4] \/ l[1] = l[2])

\* strings against a caller-given limit of max code points (ASCII: 1 byte each)
StrMaxCases == {x \in {[t |-> "rt", k |-> "string", v |-> Fill(n, 97), max |-> m] :
                          n \in {0, 1, 3, 4, 16}, m \in {1, 4, 16}} : Len(x.v) <= x.max}

VARIABLE c    \* the case under examination: [t |-> "rt", k, v, max] or [t |-> "hostile", k, b, max]

RT(k, V, max) == {[t |-> "rt", k |-> k, v |-> v, max |-> max] : v \in V}

(* The state graph: start -> G group states -> the cases of that group.  (All cases as
   initial states would be examined by a single TLC thread; this way the groups are
   spread over the workers.)  Integer-valued cases are grouped by value mod G, the
   others are attached to one fixed group each. *)
G == 16
InGroup(S) == {x \in S : x % G = c.g}

Init == c = [t |-> "start"]

Case ==
    \/ c' \in RT("varint", InGroup(Ints(VarInts)), -1)
    \/ c' \in RT("u8", InGroup(Ints(0..255)), -1)
    \/ c' \in RT("i8", InGroup(Ints(-128..127)), -1)
    \/ c.g = 9 /\ c' \in RT("bool", BOOLEAN, -1)
    \/ c' \in RT("u16", InGroup(Ints(0..65535)), -1)
    \/ c' \in RT("i16", InGroup(Ints(-32768..32767)), -1)
    \/ c' \in RT("i32", InGroup(I32s), -1)
    \/ c.g = 9 /\ c' \in RT("u32", [1..2 -> LimbB], -1)
    \/ c.g = 0 /\ c' \in RT("u64", Pick([1..4 -> LimbB], U64Pick), -1)
    \/ c.g = 9 /\ c' \in RT("uuid", UUIDs, -1) \cup RT("uuidints", UUIDs, -1)
    \/ c.g = 3 /\ c' \in RT("string", Strs, DefaultMaxString)
    \/ c.g = 3 /\ c' \in StrMaxCases
    \/ c.g = 4 /\ c' \in RT("bytes", Strs, 65536)
    \/ c.g = 4 /\ c' \in {[t |-> "rt", k |-> "bytes", v |-> Fill(n, 9), max |-> n + d] : n \in {0, 1, 128}, d \in {0, 1}}
    \/ c.g = 2 /\ c' \in RT("bytes17", {a \in Arrs17 : Len(a) <= 32767}, -1)
    \/ c.g = 1 /\ c' \in RT("bytes17x", Arrs17, -1)
    \/ c.g = 5 /\ c' \in RT("utf", UTFs, -1)
    \/ c.g = 7 /\ c' \in RT("strarr", SeqsUpTo(SmallStrs, 2), -1)
    \/ c.g = 8 /\ c' \in RT("viarr", SeqsUpTo(Ints5, 2) \cup {Fill(130, -1)}, -1)
    \/ c.g = 6 /\ c' \in RT("props", SeqsUpTo(Props, 2), -1)
    \/ c.g = 8 /\ c' \in RT("key", Keys, -1)
    \/ c.g = 8 /\ c' \in RT("minkey", Keys, -1)
    \/ c.g = 7 /\ c' \in RT("keyarr", SeqsUpTo({[ns |-> MinecraftNS, val |-> <<120>>], [ns |-> <<97>>, val |-> <<112, 47, 113>>]}, 2), -1)
    \* hostile length prefixes: input bytes b, nothing (or too little) behind the prefix
    \/ c.g = 10 /\ c' \in {[t |-> "hostile", k |-> k, b |-> EncVarInt(n) \o tail, max |-> 16] :
                k \in {"string", "bytes"},
                n \in {-1, -2147483647 - 1, 65, 2147483647, 268435456},
                tail \in {<<>>, <<1, 2, 3>>}}
    \/ c.g = 10 /\ c' \in {[t |-> "hostile", k |-> "string", b |-> EncVarInt(n), max |-> DefaultMaxString] :
                n \in {-1, 262145, 2147483647}}
    \/ c.g = 10 /\ c' \in {[t |-> "hostile", k |-> "bytes", b |-> EncVarInt(n), max |-> 65536] :
                n \in {-1, 65537, 2147483647}}
    \/ c.g = 10 /\ c' \in {[t |-> "hostile", k |-> "bytes17", b |-> b, max |-> -1] :
                b \in {<<255, 255, 255>>, <<255, 255, 64>>, EncExtShort(ForgeMaxArrayLength + 1),
                       EncExtShort(ForgeMaxArrayLength + 1) \o <<1, 2>>}}
    \/ c.g = 10 /\ c' \in {[t |-> "hostile", k |-> k, b |-> EncVarInt(n) \o tail, max |-> -1] :
                k \in {"strarr", "viarr", "props", "keyarr"},
                n \in {-1, -128, -2147483647 - 1},
                tail \in {<<>>, <<0, 0, 0>>}}

Next == \/ c.t = "start" /\ c' \in {[t |-> "grp", g |-> g] : g \in 0..(G - 1)}
        \/ c.t = "grp" /\ Case
Spec == Init /\ [][Next]_c

-----------------------------------------------------------------------------
(* The property, on the reference operators (and on the broken variant). *)
Junk == <<255, 0, 128>>

\* which strict prefixes are examined: all of them for short encodings, for long ones the
\* header region, the middle and everything but the last byte
PrefixLens(n) == IF n <= 64 THEN 0..(n - 1) ELSE (0..8) \cup {n \div 2, n - 2, n - 1}

RoundTripE(e) ==
    LET d0 == DecT(c.k, e, c.max)
        d1 == DecT(c.k, e \o Junk, c.max)
    IN /\ d0.ok /\ d0.v = c.v /\ d0.n = Len(e)
       /\ d1.ok /\ d1.v = c.v /\ d1.n = Len(e)

PrefixRejectedE(e) == \A n \in PrefixLens(Len(e)) : ~DecT(c.k, SubSeq(e, 1, n), c.max).ok

\* encoder output is well-formed bytes and VarInts are minimal and at most 5 bytes
WellFormedE(e) == /\ IsBytes(e)
                  /\ c.k = "varint" => (Len(e) <= 5 /\ MinimalVarInt(e))

RoundTrip == c.t = "rt" => RoundTripE(Enc(c.k, c.v))
PrefixRejected == c.t = "rt" => PrefixRejectedE(Enc(c.k, c.v))
WellFormed == c.t = "rt" => WellFormedE(Enc(c.k, c.v))
HostileRejected ==
    c.t = "hostile" => HostilePrefix(c.k, c.b, c.max) /\ ~DecT(c.k, c.b, c.max).ok

\* all of the above with the encoding computed once (what the configs check)
Holds == /\ c.t = "rt" => LET e == Enc(c.k, c.v) IN RoundTripE(e) /\ PrefixRejectedE(e) /\ WellFormedE(e)
         /\ HostileRejected

-----------------------------------------------------------------------------
(* Vector export (Mode = "export", or along with the quick check).  The boundary cases are
   printed; long byte strings as (fill byte, length), rebuilt by the harness. *)
Exported(x) == \/ x.t = "hostile"
               \/ /\ x.t = "rt"
                  /\ x.k \in {"varint", "u8", "i8", "u16", "i16"} => x.v \in BoundaryVals
                  /\ x.k = "u64" => U64Pick(x.v)
IsByteStringKind(k) == k \in {"string", "bytes", "bytes17", "bytes17x", "utf"}
Emit ==
    (Mode \in {"export", "quick"} /\ c.t \in {"rt", "hostile"} /\ Exported(c)) =>
      IF c.t = "hostile"
        THEN PrintT(<<"HVEC", ToJson([k |-> c.k, b |-> c.b, max |-> c.max])>>)
      ELSE IF IsByteStringKind(c.k) /\ Len(c.v) > 64
        THEN PrintT(<<"LVEC", ToJson([k |-> c.k, fill |-> c.v[1], len |-> Len(c.v), max |-> c.max])>>)
      ELSE PrintT(<<"VEC", ToJson([k |-> c.k, v |-> c.v, max |-> c.max, enc |-> Enc(c.k, c.v)])>>)
=============================================================================
