--------------------------- MODULE ConnCloseHist ---------------------------
(* C44 -- abstract (black-box) specification of a connection's shutdown, phrased
   over what its users can observe.  It knows nothing about sync.Once or contexts.

     call / ret   Close, CloseUnknown, CloseWith, WritePacket, a session handler switch
                  (SetActiveSessionHandler / SwitchSessionHandler) or the read loop
                  starts / returns (ret carries "ok" | "closed" | "err", "closed"
                  meaning errors.Is(err, ErrClosedConn))
     peergone     the peer closes its end (read loop EOF, write errors follow)
     ctxcancel    the context the connection was created with is cancelled (the connection then
                  reports closed, but nothing has torn it down yet)
     teardown     SessionHandler.Disconnected() is invoked (on whichever handler of the
                  connection: teardowns are counted per connection)
     inject       the peer sends packet n; the handler will panic with `kind` on it
     handled      SessionHandler.HandlePacket is invoked with packet n
     quiet        the peer stopped sending and waited for the loop to settle
     settled      no call is running any more (and, if the connection reports closed, the
                  read loop has exited)
     end          every call returned, the read loop has exited

   Required (and nothing more):
     * teardown happens at most once, only when something closes the connection,
       and exactly once by the time everything is quiescent;
     * a write that begins after any closing call (or failed write, or the read
       loop) has returned reports the connection as closed;
     * packets are handed to the handler at most once and in order; after a handler
       panic the loop goes on with the next packet or the connection is closed
       (quiet: everything injected was handled, or a close is under way);
     * the process stays alive (the runner appends `died` when it does not, which
       is never accepted; `childexit` must carry exit code 0). *)
EXTENDS Naturals, Sequences, FiniteSets

VARIABLES open,          \* calls in progress: thread -> [op, late]
          reason,        \* BOOLEAN: something that closes the connection has begun
          returned,      \* BOOLEAN: a closing call has returned
          teardowns,     \* Nat
          handler,       \* BOOLEAN: a session handler is installed
          injected,      \* number of packets the peer has sent (1..injected)
          handled        \* number of the last packet handed to the handler

hvars == <<open, reason, returned, teardowns, handler, injected, handled>>

HInit(hasHandler) ==
    /\ open = <<>> /\ reason = FALSE /\ returned = FALSE /\ teardowns = 0
    /\ handler = hasHandler /\ injected = 0 /\ handled = 0

Put(fn, k, v) == [x \in DOMAIN fn \cup {k} |-> IF x = k THEN v ELSE fn[x]]
Drop(fn, k) == [x \in DOMAIN fn \ {k} |-> fn[x]]

Closers == {"close", "unknown", "closewith"}

Call(t, op) ==
    /\ t \notin DOMAIN open
    /\ op \in Closers \cup {"write", "loop", "switch"}
    /\ open' = Put(open, t, [op |-> op, late |-> returned])
    /\ reason' = (reason \/ op \in Closers)
    /\ UNCHANGED <<returned, teardowns, handler, injected, handled>>

PeerGone == reason' = TRUE /\ UNCHANGED <<open, returned, teardowns, handler, injected, handled>>

\* Disconnected() runs: at most once, and only while something can be closing the
\* connection (a closing call, the peer gone, or a call in progress that may be failing)
Teardown ==
    /\ handler /\ teardowns = 0
    /\ reason \/ DOMAIN open # {}
    /\ teardowns' = 1 /\ reason' = TRUE
    /\ UNCHANGED <<open, returned, handler, injected, handled>>

Ret(t, r) ==
    /\ t \in DOMAIN open
    /\ LET o == open[t] IN
         /\ (o.op = "write" /\ o.late) => r = "closed"       \* later writes report closed
         \* a failed write closes the connection; so does every closing call and the loop's exit
         \* (a closing call answering ErrClosedConn may merely have seen the cancelled context)
         /\ returned' = (returned \/ o.op = "loop" \/ (o.op \in Closers /\ r # "closed")
                                  \/ (o.op = "write" /\ r = "err"))
         /\ reason' = (reason \/ o.op = "loop" \/ (o.op = "write" /\ r = "err"))
    /\ open' = Drop(open, t)
    /\ UNCHANGED <<teardowns, handler, injected, handled>>

Inject(n) == /\ n = injected + 1 /\ injected' = n
             /\ UNCHANGED <<open, reason, returned, teardowns, handler, handled>>

Handled(n) == /\ n > handled /\ n <= injected /\ handled' = n
              /\ UNCHANGED <<open, reason, returned, teardowns, handler, injected>>

\* the loop went on after every panic (all packets handled) or the connection is closing
\* (a write or a handler switch in progress may be failing and closing it at this very moment)
Quiet == /\ \/ handled = injected
            \/ reason
            \/ \E t \in DOMAIN open : open[t].op \in {"write", "switch"}
         /\ UNCHANGED hvars

\* once a closing call, a failed write or the read loop has returned, and everything came to
\* rest, the teardown has happened (a write error closes the connection)
Settled == ((returned /\ handler) => teardowns = 1) /\ UNCHANGED hvars

End == /\ open = <<>>
       /\ teardowns = (IF reason /\ handler THEN 1 ELSE 0)
       /\ UNCHANGED hvars
=============================================================================
