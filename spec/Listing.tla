------------------------------ MODULE Listing ------------------------------
(* C12 -- code-shaped model of the listing APIs of gate's proxy
   (proxy.go Players / PlayerCount / DisconnectAll / Servers, server.go
   players.Range) against writers of the same map (registerConnection /
   unregisterConnection, players.add / remove, Register / Unregister).

   One map M (a set of keys) protected by a sync.RWMutex.  A reader lists it, a
   writer adds or deletes one key, or tries to add a present one and is refused.  One action per segment between two gate points:

     reader  start        REnter   call; whatever the API does before it asks for the read
                                   lock (PlayersToSlice reads Len() here); parks at list.*.enter
             list.*.enter RBegin   RLock; [copy the map header; RUnlock]
             list.*.iter  RVisit   produce the next element (parks at list.*.step)
             list.*.step  RVisit   ... or finish: [RUnlock]; return the list
             (returned)   RCount   a second call by the same caller: the count
                                   (PlayerCount / Len), one atomic read under the read lock
     writer  start        WBegin   parks at w.enter
             w.enter      WPrep    the part of the operation before the lock is asked for:
                                   a leaving player's connection is closed here (it is
                                   unregistered only later in its teardown), a joining one
                                   passes canRegisterConnection / LoginEvent
                                   (parks at reg.register.enter / reg.unregister.enter / w.mid)
             *.enter      WLock    Lock  (parks at the gate inside the critical section)
             *.insert ..  WWrite   mutate; Unlock

   IterUnderLock = TRUE : the reader holds the read lock while it iterates (what the
                          code does now);  FALSE: it copies only the map header under
                          the lock and iterates the live map afterwards (what
                          Players / DisconnectAll / players.Range did before the fix).
   Locked = FALSE ignores the mutex altogether (non-vacuity, schedule enumeration).

   Go's map iteration: every element present during the whole iteration is produced
   once; an element deleted before it is reached is not produced; an element added
   during the iteration may or may not be produced. *)
EXTENDS Naturals, Sequences, FiniteSets, TLC, Json

CONSTANTS Readers, Writers, Keys, Locked, IterUnderLock, Export, MaxInit

VARIABLES M,        \* the map's key set
          m0,       \* its initial value
          wprog,    \* [Writers -> [op, k]]
          pc,       \* per thread
          wl, rl,   \* writer holding the lock / set of readers holding the read lock
          visited,  \* [Readers -> keys already produced]
          hist,     \* [Readers -> set of values of M since the call]  (for SnapshotAtomic)
          h

Threads == Readers \cup Writers
vars == <<M, m0, wprog, pc, wl, rl, visited, hist, h>>
View == <<M, m0, wprog, pc, wl, rl, visited, hist>>

\* "dup": an attempt to add an element that is already there and is refused (a duplicate
\* login that is rejected and torn down, Register of an existing server name, add of a
\* player already on the list): takes the same locks, leaves the collection as it is
Ops == [op : {"add", "del", "dup"}, k : Keys]

Init == /\ M \in {s \in SUBSET Keys : Cardinality(s) <= MaxInit}
        /\ m0 = M
        /\ wprog \in [Writers -> Ops]
        \* a writer adds an absent element or removes a present one; writers use different elements
        /\ \A w \in Writers : (wprog[w].op = "add") = (wprog[w].k \notin M)
        /\ \A w, v \in Writers : w # v => wprog[w].k # wprog[v].k
        /\ pc = [t \in Threads |-> "start"]
        /\ wl = "none" /\ rl = {}
        /\ visited = [r \in Readers |-> {}]
        /\ hist = [r \in Readers |-> {}]
        /\ h = <<>>

Go(t, to) == pc' = [pc EXCEPT ![t] = to] /\ h' = Append(h, t)

\* every reader that has been called and has not returned yet sees the new value
Note(m) == hist' = [r \in Readers |-> IF pc[r] = "iter" THEN hist[r] \cup {m} ELSE hist[r]]

REnter(r) == /\ pc[r] = "start"
             /\ Go(r, "pre")
             /\ UNCHANGED <<M, m0, wprog, wl, rl, visited, hist>>

RBegin(r) == /\ pc[r] = "pre"
             /\ ~Locked \/ wl = "none"
             /\ rl' = IF Locked /\ IterUnderLock THEN rl \cup {r} ELSE rl
             /\ hist' = [hist EXCEPT ![r] = {M}]
             /\ Go(r, "iter")
             /\ UNCHANGED <<M, m0, wprog, wl, visited>>

\* produce one more element, or finish
RVisit(r) == /\ pc[r] = "iter"
             /\ \/ \E k \in M \ visited[r] :
                     /\ visited' = [visited EXCEPT ![r] = @ \cup {k}]
                     /\ Go(r, "iter")
                     /\ UNCHANGED rl
                \/ /\ \A k \in M \ visited[r] : \E s \in hist[r] : k \notin s  \* only late additions may be skipped
                   /\ rl' = rl \ {r}
                   /\ Go(r, "count")
                   /\ UNCHANGED visited
             /\ UNCHANGED <<M, m0, wprog, wl, hist>>

RCount(r) == /\ pc[r] = "count"
             /\ ~Locked \/ wl = "none"
             /\ Go(r, "done")
             /\ UNCHANGED <<M, m0, wprog, wl, rl, visited, hist>>

WBegin(w) == /\ pc[w] = "start"
             /\ Go(w, "enter")
             /\ UNCHANGED <<M, m0, wprog, wl, rl, visited, hist>>

WPrep(w) == /\ pc[w] = "enter"
            /\ Go(w, "mid")
            /\ UNCHANGED <<M, m0, wprog, wl, rl, visited, hist>>

WLock(w) == /\ pc[w] = "mid"
            /\ ~Locked \/ (wl = "none" /\ rl = {})
            /\ wl' = IF Locked THEN w ELSE wl
            /\ Go(w, "locked")
            /\ UNCHANGED <<M, m0, wprog, rl, visited, hist>>

WWrite(w) == /\ pc[w] = "locked"
             /\ LET m == IF wprog[w].op = "add" THEN M \cup {wprog[w].k}
                         ELSE IF wprog[w].op = "del" THEN M \ {wprog[w].k} ELSE M IN
                  M' = m /\ Note(m)
             /\ wl' = IF Locked THEN "none" ELSE wl
             /\ Go(w, "done")
             /\ UNCHANGED <<m0, wprog, rl, visited>>

Quiescent == \A t \in Threads : pc[t] = "done"

Next == \/ \E r \in Readers : REnter(r) \/ RBegin(r) \/ RVisit(r) \/ RCount(r)
        \/ \E w \in Writers : WBegin(w) \/ WPrep(w) \/ WLock(w) \/ WWrite(w)
        \/ (Quiescent /\ UNCHANGED vars)

Spec == Init /\ [][Next]_vars

----------------------------------------------------------------------------
\* a writer is inside its critical section while a reader iterates the same map:
\* the condition under which the Go runtime aborts with "concurrent map iteration
\* and map write" and the race detector reports
NoIterWriteOverlap == \A r \in Readers, w \in Writers : ~(pc[r] = "iter" /\ pc[w] = "locked")

\* the returned list is the map's value at one instant between call and return
SnapshotAtomic == \A r \in Readers : pc[r] \in {"count", "done"} => visited[r] \in hist[r]

NoHang == Quiescent \/ ENABLED Next

Emit == (Export /\ Quiescent) =>
          PrintT(<<"SCHED", ToJson([init |-> m0, wprog |-> wprog, sched |-> h])>>)
=============================================================================
