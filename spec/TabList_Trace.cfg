SPECIFICATION TSpec
CONSTANTS
  Versions = {761}
  FullVersions = {761}
  MaxLen = 0
  InPlaceProfile = FALSE
INVARIANT Mark
POSTCONDITION Accepted
CHECK_DEADLOCK FALSE
