------------------------------ MODULE RateLimit ------------------------------
(* C34 -- rate limiters enforce exactly their windows and buckets.

   Abstract sliding window (the statement): the events [t, n] seen so far; at time now
   the trailing window of length W holds those with t >= now - W; a limiter with
   per-second rate r is exceeded when  sum * ups > r * W  (ups time units per second).

   Code-shaped model of packetlimiter.counter: a ring buffer (times, counts, head,
   tail, total, minTime) with expire / add / resize (initial capacity scaled down so
   that TLC wraps around and resizes twice within short histories).  TLC proves
   total = abstract window sum after every updateAndAdd on every nondecreasing
   timestamp / count sequence within the bounds; with BrokenResize (a resize that
   copies the wrapped ring without unwrapping it) the invariant fails.
   Histories are exported and replayed on the real counter / limiter. *)
EXTENDS Integers, Sequences, FiniteSets, TLC, Json

CONSTANTS W,            \* window length
          MaxT,         \* times 0..MaxT
          MaxLen,       \* history length
          Counts,       \* set of counts
          InitCap,      \* initial ring capacity (8 in the code)
          BrokenResize,
          Export        \* print each complete history

----------------------------------------------------------------------------
(* abstract window *)
RECURSIVE SumFrom(_, _)
\* sum of n over the events with t >= lo
SumFrom(evs, lo) == IF evs = <<>> THEN 0
                    ELSE (IF Head(evs).t >= lo THEN Head(evs).n ELSE 0) + SumFrom(Tail(evs), lo)
SumIncl(evs, now, w) == SumFrom(evs, now - w)          \* window [now - w, now]
SumExcl(evs, now, w) == SumFrom(evs, now - w + 1)      \* window (now - w, now]
Keep(evs0, now, w) == LET evs == evs0 IN SelectSeq(evs, LAMBDA e : e.t >= now - w)
\* rate r per second; window w and times in units of which ups make a second (1000: ms, 1000000: us)
Exceeded(sum, r, w, ups) == sum * ups > r * w

----------------------------------------------------------------------------
(* ring buffer; indices are 0-based as in the code, sequences 1-based *)
VARIABLES times, counts, head, tail, total, minTime,
          win,      \* abstract: events still inside the window
          now, h

ring == <<times, counts, head, tail, total, minTime>>
vars == <<times, counts, head, tail, total, minTime, win, now, h>>
View == <<times, counts, head, tail, total, minTime, win, now, Len(h)>>

Cap == Len(times)
Zeros(k) == [i \in 1..k |-> 0]

Init == /\ times = Zeros(InitCap) /\ counts = Zeros(InitCap)
        /\ head = 0 /\ tail = 0 /\ total = 0 /\ minTime = 0
        /\ win = <<>> /\ now = 0 /\ h = <<>>

\* expire: drop head entries older than mt
RECURSIVE Expire(_, _)
Expire(s, mt) == IF s.head # s.tail /\ s.times[s.head + 1] < mt
                   THEN Expire([s EXCEPT !.total = @ - s.counts[s.head + 1],
                                         !.counts[s.head + 1] = 0,
                                         !.head = IF s.head + 1 >= Len(s.times) THEN 0 ELSE s.head + 1], mt)
                   ELSE s

\* elements head..tail-1 in ring order
RECURSIVE Unwrap(_, _, _, _)
Unwrap(a, from, to, cap) == IF from = to THEN <<>> ELSE <<a[from + 1]>> \o Unwrap(a, (from + 1) % cap, to, cap)

Resize(s) == LET cap == Len(s.times)
                 size == IF s.tail - s.head < 0 THEN s.tail - s.head + cap ELSE s.tail - s.head
                 ts == IF BrokenResize /\ s.tail < s.head
                         THEN SubSeq(s.times, 1, s.tail) \o SubSeq(s.times, s.head + 1, cap)
                         ELSE Unwrap(s.times, s.head, s.tail, cap)
                 cs == IF BrokenResize /\ s.tail < s.head
                         THEN SubSeq(s.counts, 1, s.tail) \o SubSeq(s.counts, s.head + 1, cap)
                         ELSE Unwrap(s.counts, s.head, s.tail, cap)
             IN [s EXCEPT !.times = ts \o Zeros(2 * cap - size), !.counts = cs \o Zeros(2 * cap - size),
                          !.head = 0, !.tail = size]

AddTo(s0, t, n) == LET s == IF (s0.tail + 1) % Len(s0.times) = s0.head THEN Resize(s0) ELSE s0 IN
                   [s EXCEPT !.times[s.tail + 1] = t, !.counts[s.tail + 1] = @ + n,
                             !.total = @ + n, !.tail = (s.tail + 1) % Len(s.times)]

UpdateAndAdd(t, n) ==
    LET s0 == [times |-> times, counts |-> counts, head |-> head, tail |-> tail, total |-> total]
        s1 == Expire(s0, t - W)
        s2 == AddTo(s1, t, n)          \* t >= minTime' always holds for nondecreasing t
    IN /\ times' = s2.times /\ counts' = s2.counts /\ head' = s2.head /\ tail' = s2.tail
       /\ total' = s2.total /\ minTime' = t - W

Next == /\ Len(h) < MaxLen
        /\ \E t \in now..MaxT, n \in Counts :
              /\ UpdateAndAdd(t, n)
              /\ now' = t
              /\ win' = Keep(Append(win, [t |-> t, n |-> n]), t, W)
              /\ h' = Append(h, [t |-> t, n |-> n])
Spec == Init /\ [][Next]_vars

\* refinement: the running total is the abstract window sum
TotalIsWindowSum == total = SumIncl(win, now, W)
\* the ring holds exactly the window's events, in order
RingIsWindow == LET k == IF tail - head < 0 THEN tail - head + Cap ELSE tail - head IN
                /\ k = Len(win)
                /\ \A i \in 1..k : /\ times[((head + i - 1) % Cap) + 1] = win[i].t
                                   /\ counts[((head + i - 1) % Cap) + 1] = win[i].n
\* slots outside the ring are clean (add uses +=)
CleanOutside == \A i \in 0..(Cap - 1) :
                   (IF head <= tail THEN i < head \/ i >= tail ELSE i >= tail /\ i < head) => counts[i + 1] = 0
Resized == Cap > InitCap

Emit == (Export /\ Len(h) = MaxLen) => PrintT(<<"HIST", ToJson(h)>>)
=============================================================================
