SPECIFICATION Spec
CONSTANTS
  Threads = {"t1", "t2", "t3"}
  Keys = {"a"}
  MaxLoads = 2
  TTL = 1
  GenCheck = FALSE
  Locked = TRUE
  Export = FALSE
VIEW View
INVARIANTS TypeOK NoStale OneFlight Answered
