SPECIFICATION Spec
CONSTANTS
  Threads = {"t1", "t2", "t3"}
  Keys = {"a"}
  MaxLoads = 2
  TTL = 1
  GenCheck = FALSE
  Export = FALSE
VIEW View
INVARIANTS TypeOK NoStale OneFlight Answered
