--------------------------- MODULE Principal_Trace ---------------------------
(* Judges recorded calls of the real connectutil.ExtractSessionPrincipalWire:

   {"ev":"x", "mode":"unknown"|"unmarshal",
    "raw":[bytes]          the encoded proposal (left out when longer than 600 bytes)
    "fields":[{num,wt,v}]  the abstract fields the harness encoded (left out for mutated bytes)
    "out":"nil"|"err"|"ok",
    "res":{proto:[4], ep:B, org:B, nonce:[16], spv:[4], rev:[8], env:B}}   (when out = "ok")
   with B = {n, f, b} as in Principal.tla, integers as big-endian two's complement bytes.

   When raw is present the verdict is computed from the bytes alone (Parse); fields is
   then only used to cross-check the harness encoder against Parse (a mismatch is a
   tool problem and is reported through TLC register 2, not as a rejection).
   Field numbers 2^29 .. 2^31-1 are legal for Go's protowire and illegal for the
   protobuf specification: either reading is accepted.
   The nonce is compared only when an envelope is present (the statement requires
   nothing about it otherwise). *)
EXTENDS Principal, TraceLib

Match(r, e0) ==
    LET e == e0 IN
    /\ r.out = e.out
    /\ e.out = "ok" =>
         LET res == r.res IN
         /\ res.proto = e.proto
         /\ res.ep = e.ep
         /\ res.org = e.org
         /\ res.spv = e.spv
         /\ res.rev = e.rev
         /\ res.env = e.env
         /\ e.env.n > 0 => res.nonce = e.nonce.b

SameField(a, c) == /\ a.num = c.num /\ a.wt = c.wt
                   /\ a.wt \in {0, 2} => a.v = c.v

\* p = the strict reading of the raw bytes; the vectors only use small field numbers
EncOK(r, p) == Has(r, "fields") =>
            LET gf == r.fields IN
            IF \E k \in 1..Len(gf) : gf[k].wt \in {4, 9} THEN ~p.ok
            ELSE /\ p.ok /\ Len(p.fs) = Len(gf)
                 /\ \A k \in 1..Len(gf) : SameField(p.fs[k], gf[k])

\* (Rec and its fields are LET-bound once: TLC re-evaluates Trace[l] at every mention)
TX == /\ IsEv("x")
      /\ LET r == Rec IN
         IF Has(r, "raw")
           THEN LET raw == r.raw
                    p == Parse(raw, FALSE) IN
                /\ IF p.ok THEN Match(r, ExtractD(p.fs))
                   ELSE IF Match(r, Rejected) THEN TRUE ELSE Match(r, ExtractRaw(raw, TRUE))
                /\ IF EncOK(r, p) THEN TRUE ELSE TLCSet(2, l)
           ELSE Match(r, ExtractD(r.fields))
      /\ UNCHANGED fs

TSpec == fs = <<>> /\ CursorInit /\ TLCSet(2, 0) /\ [][TX]_<<fs, l>>
Accepted2 == PrintT(<<"ENCBAD", TLCGet(2)>>) /\ Accepted
=============================================================================
