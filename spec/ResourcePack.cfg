SPECIFICATION Spec
CONSTANTS
  Versions = {754, 755, 756, 764, 765}
  PackNames = {"A", "C"}
  Statuses = {"accepted", "declined", "success", "discarded"}
  MaxLen = 4
  InitPrev = "none"
INVARIANTS OnePrompt AutoOnlyAfterDecline Emit
PROPERTY Refines
