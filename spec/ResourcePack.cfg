SPECIFICATION Spec
CONSTANTS
  Modes = {"legacy", "legacy117", "modern"}
  PackNames = {"A", "C"}
  Statuses = {"accepted", "declined", "success", "discarded"}
  MaxLen = 4
  InitPrev = "none"
INVARIANTS OnePrompt AutoOnlyAfterDecline Emit
PROPERTY Refines
