SPECIFICATION Spec
CONSTANTS
  Writers = {"w1", "w2"}
  Two = {"w1", "w2"}
  Three = {}
  SOps <- SOpsELE
  Cap = 2
  Locked = FALSE
  Export = TRUE
INVARIANTS Emit
