------------------------- MODULE ServerChoice_Trace -------------------------
(* Judges what the live proxy did for one player per run.  A history may have two runs on the same
   proxy: an earlier player that joined while some listed servers were unregistered ("role":"prelude",
   its reg is the registration in force then), and, after those servers were registered again, the
   history's own player ("role":"main", "away_before" = those servers).  Lines:
     {"ev":"reset","forced":{"has":bool,"key":[code points],"list":[names]},"try":[names],
      "vh":[code points of the client's handshake address],"reg":[registered names],"port":n,
      "renamed":[names]}   servers of reg that were re-registered through the API under an upper-case
                           name; names are case-insensitive, servers are identified by their backend
     {"ev":"attempt","server":s,"fail":"kl"|"kp"|"kpi"|"","inflight":x}
          the player's next connection arrived at fake backend s, which then failed it in manner
          fail ("" = accepted for good); inflight = the server whose (stalled) connection request
          the harness had put in flight when the kick of a "kpi" was sent ("" = none)
     {"ev":"end","state":"connected"|"disconnected","server":s,"kicks":[k,..]}
          how the player ended: connected = the proxy reports server s as its current server;
          disconnected = the client connection was closed, kicks = the numbers k of all "kick-k"
          reasons (the k-th attempt was failed with reason text "kick-k") found in the final
          disconnect packet *)
EXTENDS ServerChoice, TraceLib

CONSTANT Collect

VARIABLES tc,      \* candidate list of the run
          treg,    \* registered servers
          tcur,    \* cursor: index of the last attempt's server in tc
          ttarget, \* last attempted server
          tfail,   \* "start" | "" | "kl" | "kp" | "kpi": what happened to the last attempt
          tinfl,   \* servers in flight at the last failure
          tk,      \* failures so far
          live, bad
tv == <<tc, treg, tcur, ttarget, tfail, tinfl, tk, live, bad>>

AsSet(s) == {s[i] : i \in 1..Len(s)}

\* Indices the next choice may have: after a kick from a joined server both "continue at the
\* cursor" and "start over at the head of the list" are accepted (see ServerChoice: Cursor).
Choices == IF tfail = "start" THEN {NextIdx(tc, 1, treg, {})}
           ELSE {NextIdx(tc, c, treg, {ttarget} \cup tinfl) : c \in {tcur} \cup (IF Joined(tfail) THEN {1} ELSE {})}

Hit == {i \in Choices : i # 0 /\ tc[i] = Rec.server}
AttemptOK == /\ live /\ tfail \in {"start", "kl", "kp", "kpi"} /\ Hit # {}
Choice == CHOOSE i \in Hit : TRUE

EndOK == /\ live
         /\ CASE tfail = "start" -> 0 \in Choices /\ Rec.state = "disconnected"
              [] tfail = "" -> Rec.state = "connected" /\ Rec.server = ttarget
              [] OTHER -> 0 \in Choices /\ Rec.state = "disconnected" /\ tk \in AsSet(Rec.kicks)

\* a forbidden line spoils the rest of its run (bad): later lines of the run are not judged
Verdict(ok) == IF ok \/ bad THEN TRUE ELSE (Collect /\ PrintT(<<"REJECT", l>>))

TReset == /\ IsEv("reset")
          /\ tc' = Candidates(Rec.forced, Rec.try, Rec.vh) /\ treg' = AsSet(Rec.reg)
          /\ tcur' = 1 /\ ttarget' = "" /\ tfail' = "start" /\ tinfl' = {} /\ tk' = 0 /\ live' = TRUE /\ bad' = FALSE

TAttempt == /\ IsEv("attempt")
            /\ Verdict(AttemptOK)
            /\ bad' = (bad \/ ~AttemptOK)
            /\ tcur' = (IF AttemptOK THEN Choice ELSE tcur)
            /\ ttarget' = Rec.server /\ tfail' = Rec.fail
            /\ tinfl' = (IF Rec.inflight = "" THEN {} ELSE {Rec.inflight})
            /\ tk' = (IF Rec.fail = "" THEN tk ELSE tk + 1)
            /\ UNCHANGED <<tc, treg, live>>

TEnd == /\ IsEv("end")
        /\ Verdict(EndOK)
        /\ live' = FALSE /\ bad' = (bad \/ ~EndOK)
        /\ UNCHANGED <<tc, treg, tcur, ttarget, tfail, tinfl, tk>>

TNext == (TReset \/ TAttempt \/ TEnd) /\ UNCHANGED vars
TSpec == /\ Init /\ CursorInit
         /\ tc = <<>> /\ treg = {} /\ tcur = 1 /\ ttarget = "" /\ tfail = "start" /\ tinfl = {} /\ tk = 0
         /\ live = FALSE /\ bad = FALSE
         /\ [][TNext]_<<vars, tv, l>>
=============================================================================
