SPECIFICATION TSpec
CONSTANTS NoAuth = FALSE
INVARIANT Mark
POSTCONDITION Accepted
CHECK_DEADLOCK FALSE
