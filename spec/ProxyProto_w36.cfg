SPECIFICATION Spec
CONSTANTS
  DB = 2
  W4 = 1
  W6 = 3
  TagOnes = 1
  Mode = "scaled"
  NoUnmap = FALSE
INVARIANTS BitsEqArith MappedAsV4 ZoneIrrelevant NonIPUntrusted OnlyTrustedChangesAddress UntrustedHeaderFails NoHeaderKeepsOwn Extremes 
