------------------------------- MODULE TabList -------------------------------
(* C28 -- the tab-list model matches what the client was told (1.19.3+ clients).

   Two views of one player's tab list:
     pv  what the proxy reports (TabList.Entries())
     cv  what a vanilla client holds after applying, in order, the player-info packets
         the proxy sent or forwarded to it
   The property: after every operation pv = cv on profile, latency, game mode, listed,
   display name and (1.21.2+) list order.

   ClientApply is the vanilla client (ClientPacketListener.handlePlayerInfoUpdate /
   handlePlayerInfoRemove): an update packet first creates an entry with vanilla's defaults
   for every entry of the packet whose id is unknown -- only if the packet carries ADD_PLAYER
   -- and then applies the packet's actions to every entry whose id is known; updates for
   unknown ids are ignored; ADD_PLAYER for a known id does not replace the profile.
   It works on DECODED packets: [k, actions (sequence of action names), entries, ids].
   The same operator judges the recorded behaviour of the real tab list (TabList_Trace)
   and runs inside the reference machine below.

   The reference machine is a proxy that does it right (it mirrors ClientApply for backend
   packets and sends exact diffs for API changes); TLC checks Match on it and exports its
   operation histories for replay on the real tab list. *)
EXTENDS Integers, Sequences, FiniteSets, TLC, Json

CONSTANTS Versions,   \* viewer protocol numbers: 761 (1.19.3), 767 (1.21), 768 (1.21.2), 769 (1.21.4) = both sides
                      \* of every version switch of the tab list (NBT display names 765, list order 768, hat 769)
          FullVersions, \* versions explored with the whole alphabet; the others with the API operations only
          MaxLen,
          InPlaceProfile   \* FALSE: as required; TRUE: broken variant (re-adding an id with another
                           \* profile only sends the changed attributes) -- must violate Match

Ids == {1, 2}
AllIds == {0} \cup Ids       \* 0: a uuid the harness does not know (never expected)

Has(acts, a) == \E i \in 1..Len(acts) : acts[i] = a

\* one tab-list entry as either side holds it
Absent == [present |-> FALSE, name |-> "", props |-> <<>>, lat |-> 0, gm |-> 0, listed |-> FALSE,
           hasdisp |-> FALSE, disp |-> "", order |-> 0, hat |-> TRUE]
Fields == {"present", "name", "props", "lat", "gm", "listed", "hasdisp", "disp", "order", "hat"}

-----------------------------------------------------------------------------
(* The vanilla client. *)

\* new PlayerInfo(profile): survival, not listed, latency 0, no display name, order 0, hat shown
NewInfo(e) == [Absent EXCEPT !.present = TRUE, !.name = e.name, !.props = e.props]

ApplyActions(info, acts, e) ==
    [info EXCEPT !.gm = IF Has(acts, "gm") THEN e.gm ELSE @,
                 !.listed = IF Has(acts, "listed") THEN e.listed ELSE @,
                 !.lat = IF Has(acts, "lat") THEN e.lat ELSE @,
                 !.hasdisp = IF Has(acts, "disp") THEN e.hasdisp ELSE @,
                 !.disp = IF Has(acts, "disp") THEN (IF e.hasdisp THEN e.disp ELSE "") ELSE @,
                 !.order = IF Has(acts, "order") THEN e.order ELSE @,
                 !.hat = IF Has(acts, "hat") THEN e.hat ELSE @]

RECURSIVE AddAll(_, _)
AddAll(view, es) ==
    IF es = <<>> THEN view
    ELSE LET e == Head(es) IN
         AddAll(IF view[e.id].present THEN view ELSE [view EXCEPT ![e.id] = NewInfo(e)], Tail(es))

RECURSIVE UpdAll(_, _, _)
UpdAll(view, acts, es) ==
    IF es = <<>> THEN view
    ELSE LET e == Head(es) IN
         UpdAll(IF view[e.id].present THEN [view EXCEPT ![e.id] = ApplyActions(@, acts, e)] ELSE view,
                acts, Tail(es))

ClientApply(view, pkt) ==
    IF pkt.k = "upsert"
      THEN UpdAll(IF Has(pkt.actions, "add") THEN AddAll(view, pkt.entries) ELSE view, pkt.actions, pkt.entries)
    ELSE IF pkt.k = "remove"
      THEN [i \in AllIds |-> IF \E j \in 1..Len(pkt.ids) : pkt.ids[j] = i THEN Absent ELSE view[i]]
    ELSE view

RECURSIVE ClientApplyAll(_, _)
ClientApplyAll(view, pkts) == IF pkts = <<>> THEN view ELSE ClientApplyAll(ClientApply(view, Head(pkts)), Tail(pkts))

(* Comparison.  A proxy-side game mode of -1 means "not specified" and stands for the
   client's default; the list order exists on the wire since 1.21.2 only; the hat flag is
   not part of the statement. *)
Norm(e, v) == IF ~e.present THEN Absent
              ELSE [e EXCEPT !.gm = IF @ < 0 THEN 0 ELSE @,
                             !.order = IF v >= 768 THEN @ ELSE 0,
                             !.hat = TRUE,
                             !.disp = IF e.hasdisp THEN @ ELSE ""]
Diff(a, b, v) == {<<i, f>> \in AllIds \X Fields : Norm(a[i], v)[f] # Norm(b[i], v)[f]}
SameView(a, b, v) == Diff(a, b, v) = {}

-----------------------------------------------------------------------------
(* The operations and the reference proxy. *)

NameOf(u, p) == IF u = 1 THEN (IF p = 1 THEN "Ann" ELSE "Annabel") ELSE (IF p = 1 THEN "Ben" ELSE "Benedict_16chars")
PropsOf(p) == IF p = 1 THEN <<>> ELSE << <<"textures", "dGV4dHVyZQ", "c2lnbmF0dXJl">>, <<"plain", "v", "">> >>
Mk(u, p, lat, gm, listed, hasdisp, disp, order, hat) ==
    [id |-> u, name |-> NameOf(u, p), props |-> PropsOf(p), lat |-> lat, gm |-> gm, listed |-> listed,
     hasdisp |-> hasdisp, disp |-> disp, order |-> order, hat |-> hat]
Tpl(u, t) == CASE t = 0 -> Mk(u, 1, 0, 0, FALSE, FALSE, "", 0, TRUE)        \* exactly the client's defaults
               [] t = 1 -> Mk(u, 1, 300, 1, TRUE, TRUE, "x", 5, FALSE)
               [] t = 2 -> Mk(u, 1, 300, 0, TRUE, FALSE, "", 0, TRUE)
               [] t = 3 -> Mk(u, 2, 0, 1, TRUE, TRUE, "y", 5, TRUE)         \* the other profile
               [] t = 4 -> Mk(u, 1, 50, 3, FALSE, TRUE, "x", 0, TRUE)
NoEntry == Mk(0, 1, 0, 0, FALSE, FALSE, "", 0, TRUE)

AsInfo(e) == [present |-> TRUE, name |-> e.name, props |-> e.props, lat |-> e.lat, gm |-> e.gm,
              listed |-> e.listed, hasdisp |-> e.hasdisp, disp |-> e.disp, order |-> e.order, hat |-> e.hat]

\* an operation; every field is always there (uniform records)
OpRec(op, id, e, attr, ival, sval, bval, ids, actions, entries) ==
    [op |-> op, id |-> id, e |-> e, attr |-> attr, ival |-> ival, sval |-> sval, bval |-> bval,
     ids |-> ids, actions |-> actions, entries |-> entries]

AddOps == {OpRec("add", u, Tpl(u, t), "", 0, "", FALSE, <<>>, <<>>, <<>>) : u \in Ids, t \in 0..4}
SetOps == {OpRec("set", u, NoEntry, "gm", g, "", FALSE, <<>>, <<>>, <<>>) : u \in Ids, g \in {0, 2}}
          \cup {OpRec("set", u, NoEntry, "lat", x, "", FALSE, <<>>, <<>>, <<>>) : u \in Ids, x \in {0, 120}}
          \cup {OpRec("set", u, NoEntry, "order", x, "", FALSE, <<>>, <<>>, <<>>) : u \in Ids, x \in {0, 9}}
          \cup {OpRec("set", u, NoEntry, "disp", 0, s, FALSE, <<>>, <<>>, <<>>) : u \in Ids, s \in {"", "z"}}
          \cup {OpRec("set", u, NoEntry, "listed", 0, "", b, <<>>, <<>>, <<>>) : u \in Ids, b \in BOOLEAN}
\* one Add call with several entries, also the same id twice (with and without a change of profile)
AddManyLists == {<<Tpl(1, 1), Tpl(2, 3)>>, <<Tpl(1, 0), Tpl(1, 3)>>, <<Tpl(1, 3), Tpl(1, 1)>>,
                 <<Tpl(2, 1), Tpl(2, 4)>>, <<Tpl(1, 3), Tpl(2, 0), Tpl(1, 4)>>}
AddManyOps == {OpRec("addmany", 0, NoEntry, "", 0, "", FALSE, <<>>, <<>>, es) : es \in AddManyLists}
IdLists == {<<>>, <<1>>, <<2>>, <<1, 2>>}
RemoveOps == {OpRec("removeAll", 0, NoEntry, "", 0, "", FALSE, l, <<>>, <<>>) : l \in IdLists}
\* a backend remove packet may list no player at all: it removes nothing
BRemoveOps == {OpRec("bremove", 0, NoEntry, "", 0, "", FALSE, l, <<>>, <<>>) : l \in IdLists}

VerActs(v, acts) == SelectSeq(acts, LAMBDA a : (a # "order" \/ v >= 768) /\ (a # "hat" \/ v >= 769))
ActionSets == {<<"add", "chat", "gm", "listed", "lat", "disp", "order", "hat">>, <<"add">>,
               <<"add", "listed", "lat">>, <<"gm">>, <<"lat", "disp">>, <<"listed", "order">>,
               <<"disp">>, <<"chat", "gm", "hat">>}
EntryLists == {<<Tpl(1, 1)>>, <<Tpl(1, 3)>>, <<Tpl(1, 4)>>, <<Tpl(2, 0)>>, <<Tpl(2, 1)>>,
               <<Tpl(1, 1), Tpl(2, 3)>>, <<Tpl(2, 4), Tpl(1, 2)>>, <<Tpl(1, 1), Tpl(1, 4)>>}
BUpsertOps(v) == {OpRec("bupsert", 0, NoEntry, "", 0, "", FALSE, <<>>, VerActs(v, a), es) :
                    a \in ActionSets, es \in EntryLists}
Ops(v) == AddOps \cup AddManyOps \cup SetOps \cup RemoveOps
          \cup (IF v \in FullVersions THEN BRemoveOps \cup BUpsertOps(v) ELSE {})

Upsert(acts, es) == [k |-> "upsert", actions |-> acts, entries |-> es, ids |-> <<>>]
Remove(ids) == [k |-> "remove", actions |-> <<>>, entries |-> <<>>, ids |-> ids]

\* what a correct proxy sends for Add(e) when it held `old` for that id
AddPkts(v, old, e) ==
    LET full == VerActs(v, <<"add", "gm", "listed", "lat", "disp", "order", "hat">>)
        ch(f) == old[f] # AsInfo(e)[f]
        diff == SelectSeq(VerActs(v, <<"gm", "listed", "lat", "disp", "order", "hat">>),
                          LAMBDA a : CASE a = "gm" -> ch("gm") [] a = "listed" -> ch("listed") [] a = "lat" -> ch("lat")
                                       [] a = "disp" -> ch("hasdisp") \/ ch("disp") [] a = "order" -> ch("order")
                                       [] a = "hat" -> ch("hat"))
    IN IF ~old.present THEN <<Upsert(full, <<e>>)>>
       ELSE IF ~InPlaceProfile /\ (old.name # e.name \/ old.props # e.props)
         THEN <<Remove(<<e.id>>), Upsert(full, <<e>>)>>
       ELSE IF diff = <<>> THEN <<>> ELSE <<Upsert(diff, <<e>>)>>

VARIABLES ver, pv, cv, h
vars == <<ver, pv, cv, h>>

Init == /\ ver \in Versions /\ h = <<>>
        /\ pv = [i \in AllIds |-> Absent] /\ cv = [i \in AllIds |-> Absent]

Apply(op) ==
    CASE op.op = "add" ->
            /\ pv' = [pv EXCEPT ![op.id] = AsInfo(op.e)]
            /\ cv' = ClientApplyAll(cv, AddPkts(ver, pv[op.id], op.e))
      [] op.op = "addmany" ->          \* Add(e1, e2, ..) = the entries added one after the other
            LET RECURSIVE F(_, _, _)
                F(p, c, es) == IF es = <<>> THEN <<p, c>>
                               ELSE LET e == Head(es) IN
                                    F([p EXCEPT ![e.id] = AsInfo(e)],
                                      ClientApplyAll(c, AddPkts(ver, p[e.id], e)), Tail(es))
                r == F(pv, cv, op.entries)
            IN pv' = r[1] /\ cv' = r[2]
      [] op.op = "set" ->
            /\ pv[op.id].present          \* the API object comes from Entries()
            /\ LET e == [NoEntry EXCEPT !.id = op.id, !.gm = op.ival, !.lat = op.ival, !.order = op.ival,
                                        !.hasdisp = op.sval # "", !.disp = op.sval, !.listed = op.bval]
                   pkts == IF op.attr = "order" /\ ver < 768 THEN <<>> ELSE <<Upsert(<<op.attr>>, <<e>>)>>
               IN /\ pv' = [pv EXCEPT ![op.id] = ApplyActions(@, <<op.attr>>, e)]
                  /\ cv' = ClientApplyAll(cv, pkts)
      [] op.op = "removeAll" ->
            LET ids == IF op.ids = <<>> THEN <<1, 2>> ELSE op.ids IN
            /\ pv' = ClientApply(pv, Remove(ids)) /\ cv' = ClientApply(cv, Remove(ids))
      [] op.op = "bremove" ->
            /\ pv' = ClientApply(pv, Remove(op.ids)) /\ cv' = ClientApply(cv, Remove(op.ids))
      [] op.op = "bupsert" ->
            /\ pv' = ClientApply(pv, Upsert(op.actions, op.entries))
            /\ cv' = ClientApply(cv, Upsert(op.actions, op.entries))

Next == /\ Len(h) < MaxLen
        /\ \E op \in Ops(ver) : Apply(op) /\ h' = Append(h, op)
        /\ ver' = ver

Spec == Init /\ [][Next]_vars

\* the property
Match == SameView(pv, cv, ver)

Emit == Len(h) = MaxLen => PrintT(<<"HIST", ToJson([ver |-> ver, h |-> h])>>)
=============================================================================
