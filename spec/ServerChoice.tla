---------------------------- MODULE ServerChoice ----------------------------
(* C17 -- initial and fallback server choice: forced hosts, then the try list.

   Configuration: forced = [has, key, list] (one forced-host entry: host key as spelled in the
   configuration file, and its server list; has = FALSE: no entry), try = the try list,
   reg = the registered servers (configured servers can be unregistered at run time), ren = those of
   them that were re-registered through the API under an upper-case spelling of their name.
   The player joins with handshake address vh (code points; may carry Forge markers after a NUL
   and TCPShield real-ip data after "///") and is, in order, failed by the servers it is sent to:
   fails is the sequence of failure kinds, the k-th connection attempt (whatever server it goes to)
   fails in manner fails[k]; the attempt after the last failure succeeds and the player stays.
       "kl"   the server disconnects the player during login
       "kp"   the server accepts, the player joins, then the server kicks it
       "kpi"  as kp, but while the player is on the server a switch to another registered
              server (the first one in Order that is not the current one) is in flight (that
              server stalls its login) when the kick arrives

   Clean(vh)      the host a virtual host denotes: cut at the first NUL (Forge), at the first
                  "///" (TCPShield), compared case-insensitively (lower-cased).
   Candidates     the forced list when the entry's key equals Clean(vh) (both lower-cased) and
                  the list is not empty, else the try list.
   NextIdx        first index >= cursor whose server is registered and not excluded.
   Cursor         the index of the last chosen server; reset to the head of the list by a successful
                  connection (Velocity's tryIndex).  The statement does not say whether the cursor
                  survives a successful connection, so the trace spec accepts both readings there.

   The machine records the sequence of servers attempted (log) and how it ends. *)
EXTENDS Integers, Sequences, FiniteSets, TLC, Json

Order == <<"s1", "s2", "s3">>      \* server names in a fixed order (used to pick the in-flight target)
Servers == {Order[i] : i \in 1..Len(Order)}

CONSTANTS MaxForced, MaxTry, MaxFail,
          FailKinds,
          MinReg,       \* least number of registered servers
          Renames,      \* BOOLEAN: also choose registration histories: a subset of servers registered under an
                        \* upper-case name, and a subset that was away while an earlier player joined
          NVH           \* use the first NVH spellings of VHostTable (0 = all)

Lower(c) == IF c \in 65..90 THEN c + 32 ELSE c
LowerSeq(s) == [i \in 1..Len(s) |-> Lower(s[i])]

\* prefix of s before the first position where P(i) holds
Before(s, P(_)) == LET hits == {i \in 1..Len(s) : P(i)} IN
                   IF hits = {} THEN s ELSE SubSeq(s, 1, (CHOOSE i \in hits : \A j \in hits : i <= j) - 1)
CutNUL(s) == Before(s, LAMBDA i : s[i] = 0)
CutShield(s) == Before(s, LAMBDA i : i + 2 <= Len(s) /\ s[i] = 47 /\ s[i + 1] = 47 /\ s[i + 2] = 47)
Clean(s) == LowerSeq(CutShield(CutNUL(s)))

Candidates(forced, try, vh) ==
    IF forced.has /\ forced.list # <<>> /\ Clean(vh) = LowerSeq(forced.key) THEN forced.list ELSE try

\* 0 = none
NextIdx(cands, cursor, reg, excl) ==
    LET ok == {i \in cursor..Len(cands) : cands[i] \in reg /\ cands[i] \notin excl} IN
    IF ok = {} THEN 0 ELSE CHOOSE i \in ok : \A j \in ok : i <= j

\* the server a "kpi" failure has in flight while the player sits on cur
InFlight(cur, reg) ==
    LET ok == {i \in 1..Len(Order) : Order[i] \in reg /\ Order[i] # cur} IN
    IF ok = {} THEN {} ELSE {Order[CHOOSE i \in ok : \A j \in ok : i <= j]}

\* A successful connection resets the cursor (as Velocity does): after a kick from a server the
\* player had joined the search starts at the head of the list again; a server that failed the
\* player during login is passed for good (until the next successful connection).
Joined(kind) == kind \in {"kp", "kpi"}
From(cursor, kind) == IF Joined(kind) THEN 1 ELSE cursor

Excluded(failed, kind, reg) == {failed} \cup (IF kind = "kpi" THEN InFlight(failed, reg) ELSE {})

----------------------------------------------------------------------------
(* Spellings (code points).  The forced host is "play.example.com". *)
UpperC(c) == IF c \in 97..122 THEN c - 32 ELSE c
UpperSeq(s) == [i \in 1..Len(s) |-> UpperC(s[i])]
MixedSeq(s) == [i \in 1..Len(s) |-> IF i % 3 = 1 THEN UpperC(s[i]) ELSE s[i]]
HostCps == <<112, 108, 97, 121, 46, 101, 120, 97, 109, 112, 108, 101, 46, 99, 111, 109>>   \* play.example.com
OtherCps == <<111, 116, 104, 101, 114, 46, 101, 120, 97, 109, 112, 108, 101, 46, 99, 111, 109>>   \* other.example.com
EvilTail == <<46, 101, 118, 105, 108, 46, 110, 101, 116>>   \* .evil.net
FML == <<0, 70, 77, 76, 0>>                \* \0FML\0
FORGE == <<0, 70, 79, 82, 71, 69>>          \* \0FORGE
Shield == <<47, 47, 47, 49, 46, 50, 46, 51, 46, 52, 58, 53, 53, 53, 53, 47, 47, 47, 49, 55, 48, 48, 48, 48, 48, 48, 48, 48>>   \* ///1.2.3.4:5555///1700000000
Keys == {HostCps, MixedSeq(HostCps)}
\* every spelling with the host it must denote (second component, lower case)
EvilCps == HostCps \o EvilTail
XHostCps == <<120>> \o HostCps
VHostTable == << <<HostCps, HostCps>>,
                 <<OtherCps, OtherCps>>,
                 <<MixedSeq(HostCps) \o Shield \o FML, HostCps>>,
                 <<UpperSeq(HostCps) \o FML, HostCps>>,
                 <<EvilCps, EvilCps>>,
                 <<UpperSeq(HostCps), HostCps>>,
                 <<MixedSeq(HostCps), HostCps>>,
                 <<HostCps \o FML, HostCps>>,
                 <<HostCps \o FORGE, HostCps>>,
                 <<HostCps \o Shield, HostCps>>,
                 <<XHostCps, XHostCps>>,
                 <<OtherCps \o FML, OtherCps>>,
                 <<UpperSeq(OtherCps) \o Shield, OtherCps>>,
                 <<<<>>, <<>>>> >>
VHosts == {VHostTable[i][1] : i \in 1..(IF NVH = 0 THEN Len(VHostTable) ELSE NVH)}
\* Clean on every spelling (constant-level, evaluated once)
CleanOK == \A i \in 1..Len(VHostTable) : Clean(VHostTable[i][1]) = VHostTable[i][2]

SeqsUpTo(S, n) == UNION {[1..k -> S] : k \in 0..n}

VARIABLES forced, try, vh, reg, ren, away, fails,  \* the history's inputs (chosen one by one in the "c*" phases)
          st,        \* "c1".."c6" | "new" | "connecting" | "connected" | "disconnected"
          cands, cursor, target, log, kicks
vars == <<forced, try, vh, reg, ren, away, fails, st, cands, cursor, target, log, kicks>>

NoForced == [has |-> FALSE, key |-> <<>>, list |-> <<>>]

Init == /\ forced = NoForced /\ try = <<>> /\ vh = <<>> /\ reg = {} /\ ren = {} /\ away = {} /\ fails = <<>>
        /\ st = "c1" /\ cands = <<>> /\ cursor = 1 /\ target = "" /\ log = <<>> /\ kicks = 0

Rest == UNCHANGED <<cands, cursor, target, log, kicks>>
C1 == st = "c1" /\ st' = "c2" /\ Rest /\ UNCHANGED <<try, vh, reg, ren, away, fails>>
      /\ forced' \in [has : {TRUE}, key : Keys, list : SeqsUpTo(Servers, MaxForced)] \cup {NoForced}
C2 == st = "c2" /\ st' = "c3" /\ Rest /\ UNCHANGED <<forced, vh, reg, ren, away, fails>> /\ try' \in SeqsUpTo(Servers, MaxTry)
C3 == st = "c3" /\ st' = "c4" /\ Rest /\ UNCHANGED <<forced, try, reg, ren, away, fails>> /\ vh' \in VHosts
C4 == st = "c4" /\ st' = "c5" /\ Rest /\ UNCHANGED <<forced, try, vh, fails>>
      /\ reg' \in {S \in SUBSET Servers : Cardinality(S) >= MinReg}
      \* registered servers that were re-registered through the API under an upper-case name
      \* ("S2" for "s2"); server names are case-insensitive, so this changes nothing in the model
      /\ ren' \in (IF Renames THEN SUBSET reg' ELSE {{}})
      \* registered servers that were unregistered while an EARLIER player (same host, same proxy)
      \* joined and were registered again before this player joins; the choice for this player
      \* depends on the registration in force for it only, so nothing changes in the model either
      /\ away' \in (IF Renames THEN SUBSET reg' ELSE {{}})
\* the number of failures first, then their kinds (so that random walks see every length equally often)
C5 == st = "c5" /\ Rest /\ UNCHANGED <<forced, try, vh, reg, ren, away>>
      /\ \E n \in 0..MaxFail : fails' = [i \in 1..n |-> "?"] /\ st' = (IF n = 0 THEN "new" ELSE "c6")
C6 == st = "c6" /\ st' = "new" /\ Rest /\ UNCHANGED <<forced, try, vh, reg, ren, away>> /\ fails' \in [1..Len(fails) -> FailKinds]

Go(cs, i) == IF i = 0 THEN /\ st' = "disconnected" /\ UNCHANGED <<cursor, target, log>>
             ELSE /\ st' = "connecting" /\ cursor' = i /\ target' = cs[i] /\ log' = Append(log, cs[i])

Join == /\ st = "new"
        /\ cands' = Candidates(forced, try, vh)
        /\ Go(cands', NextIdx(cands', 1, reg, {}))
        /\ UNCHANGED <<forced, try, vh, reg, ren, away, fails, kicks>>

Outcome == /\ st = "connecting"
           /\ IF Len(log) > Len(fails)
              THEN st' = "connected" /\ UNCHANGED <<cursor, target, log, kicks>>
              ELSE /\ kicks' = kicks + 1
                   /\ Go(cands, NextIdx(cands, From(cursor, fails[Len(log)]), reg, Excluded(target, fails[Len(log)], reg)))
           /\ UNCHANGED <<forced, try, vh, reg, ren, away, fails, cands>>

Next == C1 \/ C2 \/ C3 \/ C4 \/ C5 \/ C6 \/ Join \/ Outcome
Spec == Init /\ [][Next]_vars

Cands == cands

(* Consequences of the definition that the statement spells out *)
OnlyRegisteredListed == \A i \in 1..Len(log) : log[i] \in reg /\ \E j \in 1..Len(Cands) : Cands[j] = log[i]
NeverTheFailedOne == \A i \in 1..(Len(log) - 1) : log[i + 1] # log[i]
ForcedFirst == (st = "connecting" /\ Len(log) = 1 /\ forced.has /\ forced.list # <<>> /\ Clean(vh) = LowerSeq(forced.key))
                   => \E j \in 1..Len(forced.list) : forced.list[j] = log[1]
DisconnectMeansNoneLeft ==
    st = "disconnected" =>
        IF log = <<>> THEN \A j \in 1..Len(Cands) : Cands[j] \notin reg
        ELSE \A j \in From(cursor, fails[Len(log)])..Len(Cands) : Cands[j] \notin reg \/ Cands[j] = target
                                           \/ Cands[j] \in Excluded(target, fails[Len(log)], reg)

Terminal == st \in {"connected", "disconnected"}
\* a history is exported when it used all its failures (or ended before it could)
Emit == (Terminal /\ (st = "disconnected" \/ Len(log) = Len(fails) + 1)) =>
            PrintT(<<"HIST", ToJson([forced |-> forced, try |-> try, vh |-> vh, reg |-> reg, ren |-> ren, away |-> away, fails |-> fails,
                                     log |-> log, st |-> st])>>)
=============================================================================
