SPECIFICATION TSpec
CONSTANT TTLTicks = 1
INVARIANT Mark
POSTCONDITION Accepted
CHECK_DEADLOCK FALSE
