SPECIFICATION TSpec
INVARIANTS Mark Verdict
POSTCONDITION Accepted
CHECK_DEADLOCK FALSE
