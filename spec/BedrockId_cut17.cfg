SPECIFICATION Spec
CONSTANTS
  MaxShort = 3
  Cut = 17
INVARIANTS AlwaysValid Idempotent KeepsValid 
