SPECIFICATION Spec
CONSTANTS
  MaxLen = 1
  Sample = FALSE
INVARIANTS ExactlyOnePlace DeniedNowhere ForwardedNeverRuns NoPermNeverRuns Emit
