------------------------- MODULE ReloadWatchObs_Trace -------------------------
(* {"ev":"reset","init":c,"interval":ms,"debounce":ms}
   {"ev":"op.begin","kind":"write"|"replace"|"delete","c":content|"missing"}  {"ev":"op.end","t":ms}
   {"ev":"rw.reconcile","fp":label,"changed":b}   hook: the loop fingerprinted the file
   {"ev":"rw.fire"}                                 hook: the debounce timer expired
   {"ev":"rw.callback","fp":label}                  hook: the callback is about to run for fp
   {"ev":"cb","read":label,"t":ms}                  the callback read the file
   {"ev":"break"}                                   the harness made the watcher fail for good
   {"ev":"settled"}                                 the loop is at rest (two reconciliations after
                                                    the last operation, nothing armed)
   labels: the contents "A","B","C", "missing", "empty"/"other" (a torn read) *)
EXTENDS ReloadWatchObs, TraceLib

CONSTANT SlackMs   \* generous one-sided slack on the real-time bound

tvars == <<ovars, l>>

TInit == /\ CursorInit
         /\ file = "missing" /\ since = {} /\ torn = FALSE /\ inop = FALSE /\ evaluated = "missing"
         /\ loaded = "missing" /\ cbp = FALSE /\ win = FALSE /\ shaky = FALSE
         /\ tStable = 0 /\ tCb = 0 /\ bound = 0
TReset == IsEv("reset") /\ OReset(Rec.init, Rec.interval + Rec.debounce + SlackMs)
TOpB == IsEv("op.begin") /\ OpBegin(Rec.kind, Rec.c)
TOpE == IsEv("op.end") /\ OpEnd(Rec.t)
TRec == IsEv("rw.reconcile") /\ Reconcile(Rec.fp)
TFire == IsEv("rw.fire") /\ win' = (win /\ cbp)
         /\ UNCHANGED <<file, since, torn, inop, evaluated, loaded, cbp, shaky, tStable, tCb, bound>>
TCall == IsEv("rw.callback") /\ Callback(Rec.fp)
TCb == IsEv("cb") /\ CbRead(Rec.read, Rec.t)
\* the event watcher broke for good: every later notification is lost; nothing else changes
TBreak == IsEv("break") /\ UNCHANGED ovars
TSet == IsEv("settled") /\ Settled

TNext == TReset \/ TOpB \/ TOpE \/ TRec \/ TFire \/ TCall \/ TCb \/ TSet \/ TBreak
TSpec == TInit /\ [][TNext]_tvars
=============================================================================
