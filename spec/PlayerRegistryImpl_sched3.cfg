SPECIFICATION Spec
CONSTANTS
  Threads = {"a", "b", "c"}
  Ids = {"u1", "u2"}
  Names = {"bob", "al"}
  Kicks = {TRUE, FALSE}
  Onlines = {TRUE, FALSE}
  Leaves = {TRUE, FALSE}
  Denies = {TRUE, FALSE}
  Locked = TRUE
  PtrCheck = TRUE
  UnlockOnReject = TRUE
  Export = TRUE
  MaxSteps = 27
INVARIANTS Emit
