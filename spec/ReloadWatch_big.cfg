SPECIFICATION FairSpec
CONSTANTS
  Contents = {"A", "B", "C"}
  MaxOps = 4
  Kinds = {"write", "replace"}
  Fates = {"deliver", "drop", "dup"}
  Recheck = TRUE
  Export = FALSE
INVARIANTS TypeOK NoRepeat NoHazard
PROPERTIES NeverForEvaluated Converges LoadsFinal
