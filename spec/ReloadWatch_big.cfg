SPECIFICATION FairSpec
CONSTANTS
  Contents = {"A", "B", "C"}
  MaxOps = 4
  Kinds = {"write", "replace"}
  Fates = {"deliver", "drop"}
  Rejects = {"B"}
  CbOps = "one"
  Recheck = TRUE
  Post = "forget"
  Record = "always"
  Breaks = TRUE
  Blind = FALSE
  Export = FALSE
INVARIANTS TypeOK NoHazard
PROPERTIES NeverForEvaluated Converges LoadsFinal
