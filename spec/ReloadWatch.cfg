SPECIFICATION FairSpec
CONSTANTS
  Contents = {"A", "B"}
  MaxOps = 3
  Kinds = {"write", "replace"}
  Fates = {"deliver", "drop", "dup"}
  Recheck = TRUE
  Export = FALSE
INVARIANTS TypeOK NoRepeat NoHazard
PROPERTIES NeverForEvaluated Converges LoadsFinal
