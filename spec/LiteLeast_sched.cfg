SPECIFICATION Spec
CONSTANTS
  Workers = {"w1", "w2"}
  Observer = "o"
  Picks = 1
  Locked = FALSE
  Export = TRUE
INVARIANT Emit
