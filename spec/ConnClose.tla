----------------------------- MODULE ConnClose -----------------------------
(* C44 -- connections tear down exactly once and survive handler panics.

   Code-shaped model of netmc.minecraftConn.closeKnown (sync.Once + context
   cancel + SessionHandler.Disconnected) with every way a close is reached,
   and of the read loop's recover().  One action per segment between the gate
   points of the instrumented code:

     any closer:  Start  : run up to closeKnown            -- gate cc.close.enter --
                  Once   : c.closeOnce.Do(...): enter the body (-- gate cc.once --),
                           or return ErrClosedConn if the Once is done,
                           or (Locked) wait while another thread is inside
                  Body   : cancelCtx; c.c.Close(); Disconnected(); Once done; return

   Each thread t performs one call Kind[t]:
     "close"      conn.Close()
     "unknown"    netmc.CloseUnknown(conn)
     "closewith"  netmc.CloseWith(conn, pkt): ErrClosedConn at once if already closed,
                  else WritePacket then Close
     "write"      conn.WritePacket(pkt): ErrClosedConn if closed; ok; or, when the peer
                  is gone, a write error and therefore closeOnWriteErr -> Close
     "eof"        the read loop: handles the packets Faults[t] (the handler panics on
                  some), then reads EOF because the peer closed, and closes
     "wreset"     conn.WritePacket(pkt) whose socket write fails with *net.OpError{ECONNRESET},
     "wclosed"    ... with *net.OpError{net.ErrClosed}; the read loop is parked (auto reading
                  off), so only closeOnWriteErr can close the connection
     "ctxcancel"  the context given to NewMinecraftConn is cancelled: Closed(c) turns true (the
                  connection context is its child) although nothing has closed the connection;
                  whatever ends it afterwards (read loop, Close) must still tear it down
     "switch"     conn.SetActiveSessionHandler(reg, h_t): installs a second counting handler
                  (-- gate sh.switch.installed --), then calls its Activated()
     "switchw"    the same with a handler whose Activated() writes a packet (like "write":
                  a failed write closes the connection from inside the switch)

   closeFails: the underlying net.Conn.Close() returns an error during the one effective
   close (the connection is closed all the same); teardown must still happen.
   Teardowns are counted per connection, over all handlers.

   Locked = TRUE: sync.Once respected (the code).  Locked = FALSE: the Once is a plain
   unsynchronised "if !done" -- shows the invariants are not vacuous and enumerates
   every interleaving of gate points.  Recover = FALSE removes the read loop's
   recover(): Alive must then be violated. *)
EXTENDS Naturals, Sequences, FiniteSets, TLC, Json

CONSTANTS Threads,      \* e.g. {"t1", "t2"}
          Kinds,        \* subset of {"close","unknown","closewith","write","eof"}
          FaultSeqs,    \* set of fault sequences an eof thread may see, e.g. {<<>>, <<"perr">>}
          Locked, Recover,
          Export

VARIABLES kind,         \* [Threads -> Kinds]
          faults,       \* [Threads -> FaultSeqs] (<<>> unless eof)
          pc,           \* [Threads -> {"start","inst","enter","once","done"}]
          closeFails,   \* BOOLEAN: the underlying Close() reports an error
          active,       \* the installed session handler: "h0" or the thread that installed its own
          torn,         \* [handler -> times its Disconnected() ran]
          res,          \* [Threads -> {"", "ok", "closed", "err"}]
          inside,       \* set of threads inside the Once body
          onceDone,     \* BOOLEAN
          cancelled,    \* ctx cancelled: Closed(c)
          peerGone,     \* the peer closed its end
          teardowns,    \* times Disconnected() ran
          alive,        \* the process is running
          lateOk,       \* a write that began after a closer returned did not report "closed"
          h

vars == <<kind, faults, closeFails, active, torn, pc, res, inside, onceDone, cancelled, peerGone, teardowns, alive, lateOk, h>>
View == <<kind, faults, closeFails, active, torn, pc, res, inside, onceDone, cancelled, peerGone, teardowns, alive, lateOk>>

\* values for FaultSeqs (a cfg file cannot write tuples)
FaultsNone == {<<>>}
FaultsSome == {<<>>, <<"perr">>, <<"pstr", "none">>}
PanicKinds == {"perr", "pstr", "prt", "pnil"}
RECURSIVE SeqsUpTo(_, _)
SeqsUpTo(n, set) == IF n = 0 THEN {<<>>}
                    ELSE SeqsUpTo(n - 1, set) \cup
                         {Append(s, k) : s \in {x \in SeqsUpTo(n - 1, set) : Len(x) = n - 1}, k \in set}
FaultsAll3 == SeqsUpTo(3, PanicKinds \cup {"none"})
KindsAll == {"close", "unknown", "closewith", "write", "eof", "switch", "switchw", "wreset", "wclosed",
             "ctxcancel"}
Handlers == Threads \cup {"h0"}
WriteLike(k) == k \in {"write", "switchw", "wreset", "wclosed"}
NotCloser(k) == k \in {"write", "switch", "switchw", "wreset", "wclosed", "ctxcancel"}
KindsEof == {"eof"}

Init == /\ kind \in {f \in [Threads -> Kinds] : Cardinality({t \in Threads : f[t] = "eof"}) <= 1}
        /\ faults \in {f \in [Threads -> FaultSeqs] : \A t \in Threads : kind[t] # "eof" => f[t] = <<>>}
        /\ closeFails \in BOOLEAN
        /\ active = "h0" /\ torn = [x \in Handlers |-> 0]
        /\ pc = [t \in Threads |-> "start"]
        /\ res = [t \in Threads |-> ""]
        /\ inside = {} /\ onceDone = FALSE /\ cancelled = FALSE /\ peerGone = FALSE
        /\ teardowns = 0 /\ alive = TRUE /\ lateOk = FALSE
        /\ h = <<>>

Go(t, to) == pc' = [pc EXCEPT ![t] = to] /\ h' = Append(h, t)
Ret(t, r) == res' = [res EXCEPT ![t] = r]

\* some close call has already returned
CloserReturned == \E t \in Threads :
                     /\ pc[t] = "done"
                     /\ IF WriteLike(kind[t]) THEN res[t] = "err"
                        ELSE kind[t] \notin {"switch", "ctxcancel"} /\ res[t] # ""

HasPanic(s) == \E i \in 1..Len(s) : s[i] \in PanicKinds

\* from the call up to the first gate (closeKnown entry), or straight to the return
Start(t) ==
    /\ pc[t] = "start" /\ alive /\ kind[t] # "ctxcancel"
    /\ CASE kind[t] \in {"close", "unknown"} ->
              Go(t, "enter") /\ UNCHANGED <<res, peerGone, alive, lateOk>>
         [] kind[t] = "closewith" ->
              IF cancelled
                THEN Go(t, "done") /\ Ret(t, "closed") /\ UNCHANGED <<peerGone, alive, lateOk>>
                ELSE Go(t, "enter") /\ UNCHANGED <<res, peerGone, alive, lateOk>>
         [] kind[t] = "write" ->
              IF cancelled
                THEN Go(t, "done") /\ Ret(t, "closed") /\ UNCHANGED <<peerGone, alive, lateOk>>
                ELSE IF peerGone
                       THEN Go(t, "enter") /\ lateOk' = (lateOk \/ CloserReturned)
                            /\ UNCHANGED <<res, peerGone, alive>>
                       ELSE Go(t, "done") /\ Ret(t, "ok") /\ lateOk' = (lateOk \/ CloserReturned)
                            /\ UNCHANGED <<peerGone, alive>>
         [] kind[t] \in {"wreset", "wclosed"} ->
              \* the socket write fails with a *net.OpError (ECONNRESET / net.ErrClosed) while the
              \* read loop is parked (auto reading off): closeOnWriteErr must close all the same
              IF cancelled
                THEN Go(t, "done") /\ Ret(t, "closed") /\ UNCHANGED <<peerGone, alive, lateOk>>
                ELSE Go(t, "enter") /\ lateOk' = (lateOk \/ CloserReturned)
                     /\ UNCHANGED <<res, peerGone, alive>>
         [] kind[t] \in {"switch", "switchw"} ->
              \* Deactivated(old); install the new handler; SetState; unlock
              Go(t, "inst") /\ UNCHANGED <<res, peerGone, alive, lateOk>>
         [] kind[t] = "eof" ->
              \* the loop handles the injected packets; a panic in the handler is recovered
              /\ alive' = (Recover \/ ~HasPanic(faults[t]))
              /\ peerGone' = TRUE
              /\ Go(t, "enter") /\ UNCHANGED <<res, lateOk>>
    /\ active' = (IF kind[t] \in {"switch", "switchw"} THEN t ELSE active)
    /\ UNCHANGED <<kind, faults, closeFails, torn, inside, onceDone, cancelled, teardowns>>

\* the parent context is cancelled: only Closed(c) changes
CtxCancel(t) ==
    /\ pc[t] = "start" /\ alive /\ kind[t] = "ctxcancel"
    /\ cancelled' = TRUE
    /\ Go(t, "done") /\ Ret(t, "ok")
    /\ UNCHANGED <<kind, faults, closeFails, active, torn, inside, onceDone, peerGone, teardowns, alive, lateOk>>

\* handler.Activated() of the freshly installed handler
Activate(t) ==
    /\ pc[t] = "inst" /\ alive
    /\ IF kind[t] = "switchw" /\ ~cancelled /\ peerGone
         THEN Go(t, "enter") /\ UNCHANGED res              \* its write fails: closeOnWriteErr
         ELSE Go(t, "done") /\ Ret(t, "ok")
    /\ UNCHANGED <<kind, faults, closeFails, active, torn, inside, onceDone, cancelled, peerGone,
                   teardowns, alive, lateOk>>

\* c.closeOnce.Do(func() { ...
Once(t) ==
    /\ pc[t] = "enter" /\ alive
    /\ IF onceDone
         THEN /\ Go(t, "done")
              /\ Ret(t, IF WriteLike(kind[t]) THEN "err" ELSE "closed")   \* alreadyClosed
              /\ UNCHANGED inside
         ELSE /\ Locked => inside = {}              \* sync.Once: wait for the thread inside
              /\ inside' = inside \cup {t}
              /\ Go(t, "once") /\ UNCHANGED res
    /\ UNCHANGED <<kind, faults, closeFails, active, torn, onceDone, cancelled, peerGone, teardowns,
                   alive, lateOk>>

\* ... c.cancelCtx(); c.c.Close(); sh.Disconnected() })
Body(t) ==
    /\ pc[t] = "once" /\ alive
    /\ cancelled' = TRUE
    /\ teardowns' = teardowns + 1                 \* the active handler's Disconnected(),
    /\ torn' = [torn EXCEPT ![active] = @ + 1]    \* whether or not c.c.Close() failed
    /\ onceDone' = TRUE
    /\ inside' = inside \ {t}
    /\ Go(t, "done") /\ Ret(t, IF WriteLike(kind[t]) \/ closeFails THEN "err" ELSE "ok")
    /\ UNCHANGED <<kind, faults, closeFails, active, peerGone, alive, lateOk>>

Next == \E t \in Threads : Start(t) \/ CtxCancel(t) \/ Activate(t) \/ Once(t) \/ Body(t)

Spec == Init /\ [][Next]_vars

Quiescent == \A t \in Threads : pc[t] = "done"

----------------------------------------------------------------------------
(* The property, on the model's state. *)

AtMostOnce == teardowns <= 1

\* a closer that returned leaves a connection that reports closed ...
ClosedWhenReturned == CloserReturned => cancelled
\* ... so later writes report it
LaterWritesClosed == ~lateOk

\* at quiescence: torn down exactly once if anything closed it
ExactlyOnce ==
    Quiescent => teardowns = (IF \E t \in Threads :
                                     \/ kind[t] \in {"close", "unknown", "eof"}
                                     \/ kind[t] = "closewith" /\ res[t] # "closed"   \* else it only saw Closed(c)
                                     \/ WriteLike(kind[t]) /\ res[t] = "err"
                                THEN 1 ELSE 0)

\* per connection = summed over every handler that was ever installed
PerConnection == teardowns = torn["h0"] + torn["t1"] + (IF "t2" \in Threads THEN torn["t2"] ELSE 0)
                                        + (IF "t3" \in Threads THEN torn["t3"] ELSE 0)

Alive == alive

TypeOK == /\ teardowns \in 0..Cardinality(Threads) /\ onceDone \in BOOLEAN /\ cancelled \in BOOLEAN

----------------------------------------------------------------------------
Emit == (Export /\ Quiescent) =>
           PrintT(<<"SCHED", ToJson([kind |-> kind, faults |-> faults, closefail |-> closeFails, sched |-> h])>>)

\* fault sequences for the panic-containment runs: one per initial state
EmitFaults == (Export /\ h = <<>> /\ ~closeFails) =>
           PrintT(<<"FAULTS", ToJson([t \in {x \in Threads : kind[x] = "eof"} |-> faults[t]])>>)
=============================================================================
