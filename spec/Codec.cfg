SPECIFICATION Spec
CONSTANTS
  Mode = "check"
  Bug = "none"
INVARIANTS Holds
