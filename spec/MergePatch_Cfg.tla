--------------------------- MODULE MergePatch_Cfg ---------------------------
(* spec -> code for the end-to-end part of C36: the harness dumps the canonical
   documents of real configurations and generated patches; TLC computes what
   RFC 7396 makes of each and exports it (EXP) for the second harness phase. *)
EXTENDS MergePatch

Cases == ndJsonDeserialize("cfgvec.ndjson")
Env == JsonDeserialize("cfgbases.json")

CInit == target = Null /\ patch = Null
CSpec == CInit /\ [][Next]_vars

EmitAll == \A i \in 1..Len(Cases) :
             PrintT(<<"EXP", ToJson([id |-> Cases[i].id,
                                     merged |-> MergePatch(Env.bases[Cases[i].base + 1], Cases[i].patch)])>>)
=============================================================================
