------------------------- MODULE PingCacheHist_Trace -------------------------
(* Trace events (harness-emitted, around the real calls):
     reset                       new independent run
     start  r key                request r is about to call the cache / send its status request
     fbegin f key r              the loader of request r was invoked (backend fetch begins)
     fend   f                    the loader has its value (value id = f) and is about to return
     end    r v                  request r was answered with value v
     rbegin / rend               cache reset (route reload) call begins / returned
     tbegin / tend               fake clock advance begins / done
     done                        all threads finished
     resolve ...                 one end-to-end status request for the fallback rule *)
EXTENDS PingCacheHist, TraceLib

tvars == <<hvars, l>>

TInit == CursorInit /\ HInit

TReset == IsEv("reset") /\ rb' = 0 /\ re' = 0 /\ tb' = 0 /\ te' = 0 /\ req' = <<>> /\ fet' = <<>> /\ n' = 0
TStart == IsEv("start") /\ Start(Rec.r, Rec.key)
TFBegin == IsEv("fbegin") /\ FBegin(Rec.f, Rec.key, Rec.r)
TFEnd == IsEv("fend") /\ FEnd(Rec.f)
TEndR == IsEv("end") /\ End(Rec.r, Rec.v)
TRBegin == IsEv("rbegin") /\ RBegin
TREnd == IsEv("rend") /\ REnd
TTBegin == IsEv("tbegin") /\ TBegin
TTEnd == IsEv("tend") /\ TEnd
TDone == IsEv("done") /\ Done
TResolve == IsEv("resolve") /\ FallbackOK(Rec.ok, Rec.tried, Rec.fallback, Rec.result, Rec.which)
                            /\ UNCHANGED hvars

TNext == TReset \/ TStart \/ TFBegin \/ TFEnd \/ TEndR \/ TRBegin \/ TREnd \/ TTBegin \/ TTEnd
         \/ TDone \/ TResolve
TSpec == TInit /\ [][TNext]_tvars
=============================================================================
