SPECIFICATION Spec
CONSTANTS
  W = 4
  MaxT = 30
  MaxLen = 14
  Counts = {1, 2}
  InitCap = 2
  BrokenResize = FALSE
  Export = TRUE

INVARIANTS TotalIsWindowSum RingIsWindow CleanOutside Emit
