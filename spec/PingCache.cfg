SPECIFICATION Spec
CONSTANTS
  Threads = {"t1", "t2", "t3", "t4"}
  Keys = {"a", "b"}
  MaxLoads = 3
  TTL = 1
  GenCheck = TRUE
  Locked = TRUE
  Export = FALSE
VIEW View
INVARIANTS TypeOK NoStale OneFlight Answered
