------------------------------ MODULE LiteRoute ------------------------------
(* C29 -- Lite routes a connection to the first route (configuration order) having
   a host pattern that matches the cleaned virtual host, case-insensitively, where
   '*' matches any sequence of characters and '?' exactly one; the text each
   wildcard matched replaces $1, $2, ... in the route's backend addresses.

   Strings are sequences of Unicode code points (TLC strings cannot carry control
   or non-ASCII characters).  Three definitions of glob matching are given and TLC
   proves them equal on an exhaustive small domain (LiteRoute.cfg):
     Match      recursive, character by character (backtracking)
     MatchDP    position-set simulation (polynomial; used to judge long recorded inputs)
     GroupsDecl declarative: the set of wildcard assignments g with Fill(p, g) = s
   The trace spec (LiteRoute_Trace) judges recorded I/O of the real code with them.
   Any valid wildcard assignment is accepted for $1.. (lazy vs greedy is not pinned
   by the property). *)
EXTENDS Integers, Sequences, FiniteSets, TLC, Json

STAR == 42      \* '*'
QM == 63        \* '?'
DOT == 46
NUL == 0        \* Forge separator
SLASH == 47     \* TCPShield separator is "///"
DOLLAR == 36

SetMin(S) == CHOOSE x \in S : \A y \in S : x <= y
SetMax(S) == CHOOSE x \in S : \A y \in S : x >= y

(* Case-insensitive comparison: ASCII and Latin-1 letters are folded; other code
   points used by the generators have no case. *)
LowerCp(c) == IF (c >= 65 /\ c <= 90) \/ (c >= 192 /\ c <= 222 /\ c # 215) THEN c + 32 ELSE c
Lower(s) == [i \in 1..Len(s) |-> LowerCp(s[i])]

----------------------------------------------------------------------------
(* Cleaning: the Forge suffix starts at the first NUL, the TCPShield suffix at the
   first "///"; whatever comes first cuts the host; then surrounding dots go. *)
IsSepAt(h, i) == \/ h[i] = NUL
                 \/ (i + 2 <= Len(h) /\ h[i] = SLASH /\ h[i+1] = SLASH /\ h[i+2] = SLASH)
CutAt(h) == LET S == {i \in 1..Len(h) : IsSepAt(h, i)} IN
            IF S = {} THEN Len(h) + 1 ELSE SetMin(S)
Cut(h) == SubSeq(h, 1, CutAt(h) - 1)
TrimDots(s) == LET K == {i \in 1..Len(s) : s[i] # DOT} IN
               IF K = {} THEN <<>> ELSE SubSeq(s, SetMin(K), SetMax(K))
Clean(h) == TrimDots(Cut(h))

----------------------------------------------------------------------------
(* Glob matching (p and s already case-folded). *)
IsWild(c) == c = STAR \/ c = QM

RECURSIVE Match(_, _)
Match(p, s) ==
    IF p = <<>> THEN s = <<>>
    ELSE IF Head(p) = STAR THEN Match(Tail(p), s) \/ (s # <<>> /\ Match(p, Tail(s)))
    ELSE s # <<>> /\ (Head(p) = QM \/ Head(p) = Head(s)) /\ Match(Tail(p), Tail(s))

\* P = set of host positions (0..Len(s)) reachable after consuming a pattern prefix
RECURSIVE Reach(_, _, _)
Reach(p, s, P) ==
    IF p = <<>> \/ P = {} THEN P
    ELSE LET c == Head(p)
             Q == IF c = STAR THEN SetMin(P)..Len(s)
                  ELSE {j + 1 : j \in {k \in P : k < Len(s) /\ (c = QM \/ s[k+1] = c)}}
         IN Reach(Tail(p), s, Q)
MatchDP(p, s) == Len(s) \in Reach(p, s, {0})

Wilds(p) == SelectSeq(p, IsWild)       \* the wildcards of p in order
NWild(p) == Len(Wilds(p))

RECURSIVE Fill(_, _)
Fill(p, g) == IF p = <<>> THEN <<>>
              ELSE IF IsWild(Head(p)) THEN Head(g) \o Fill(Tail(p), Tail(g))
              ELSE <<Head(p)>> \o Fill(Tail(p), g)

\* g is a valid wildcard assignment for p against s
ValidGroups(p, s, g) == /\ Len(g) = NWild(p)
                        /\ \A k \in 1..Len(g) : Wilds(p)[k] = QM => Len(g[k]) = 1
                        /\ Fill(p, g) = s

Substrings(s) == {SubSeq(s, i, j) : i \in 1..Len(s) + 1, j \in 0..Len(s)}
GroupsDecl(p, s) == {g \in [1..NWild(p) -> Substrings(s)] : ValidGroups(p, s, g)}

\* constructive enumeration of the same set
RECURSIVE Groups(_, _)
Groups(p, s) ==
    IF p = <<>> THEN IF s = <<>> THEN {<<>>} ELSE {}
    ELSE IF Head(p) = STAR
      THEN UNION {{<<SubSeq(s, 1, k)>> \o g : g \in Groups(Tail(p), SubSeq(s, k + 1, Len(s)))} :
                     k \in 0..Len(s)}
    ELSE IF s = <<>> THEN {}
    ELSE IF Head(p) = QM THEN {<<<<Head(s)>>>> \o g : g \in Groups(Tail(p), Tail(s))}
    ELSE IF Head(p) = Head(s) THEN Groups(Tail(p), Tail(s)) ELSE {}

----------------------------------------------------------------------------
(* Routes: a route is a sequence of host patterns (plus backend templates).  *)
PatMatches(pat, h) == MatchDP(Lower(pat), Lower(h))
RouteMatches(pats, h) == \E j \in 1..Len(pats) : PatMatches(pats[j], h)
FirstRoute(routes, h) == LET S == {i \in 1..Len(routes) : RouteMatches(routes[i], h)} IN
                         IF S = {} THEN 0 ELSE SetMin(S)

(* Parameter substitution: "$" followed by a maximal run of digits forming k in
   1..Len(g) (no leading zero) is replaced by g[k] -- once, simultaneously for all
   parameters (substituted text is not scanned again).  Other "$" stay.  The
   generators never produce a digit directly after an in-range parameter, nor
   out-of-range parameters, because the property does not say how to read "$10"
   with three groups or "$9" with two. *)
IsDigit(c) == c >= 48 /\ c <= 57
RECURSIVE DigitRun(_, _)
DigitRun(t, i) == IF i <= Len(t) /\ IsDigit(t[i]) THEN 1 + DigitRun(t, i + 1) ELSE 0
RECURSIVE Num(_)
Num(ds) == IF ds = <<>> THEN 0 ELSE Num(SubSeq(ds, 1, Len(ds) - 1)) * 10 + (ds[Len(ds)] - 48)
RECURSIVE SubstFrom(_, _, _)
SubstFrom(t, g, i) ==
    IF i > Len(t) THEN <<>>
    ELSE IF t[i] = DOLLAR /\ DigitRun(t, i + 1) > 0
      THEN LET m == DigitRun(t, i + 1)
               k == Num(SubSeq(t, i + 1, i + m))
           IN IF k >= 1 /\ k <= Len(g) /\ t[i+1] # 48
                THEN g[k] \o SubstFrom(t, g, i + m + 1)
                ELSE SubSeq(t, i, i + m) \o SubstFrom(t, g, i + m + 1)
    ELSE <<t[i]>> \o SubstFrom(t, g, i + 1)
Subst(t, g) == SubstFrom(t, g, 1)

----------------------------------------------------------------------------
(* Self-check model: every (pattern, host) over the alphabets up to the bounds. *)
CONSTANTS PatAlpha, HostAlpha, MaxPat, MaxHost

RECURSIVE SeqsUpTo(_, _)
SeqsUpTo(A, n) == IF n = 0 THEN {<<>>}
                  ELSE LET S == SeqsUpTo(A, n - 1) IN S \cup {Append(s, a) : s \in S, a \in A}

VARIABLES p, s
Init == p \in SeqsUpTo(PatAlpha, MaxPat) /\ s \in SeqsUpTo(HostAlpha, MaxHost)
Next == UNCHANGED <<p, s>>
Spec == Init /\ [][Next]_<<p, s>>

ThreeDefinitionsAgree == /\ Match(p, s) = MatchDP(p, s)
                         /\ Groups(p, s) = GroupsDecl(p, s)
                         /\ Match(p, s) = (Groups(p, s) # {})
\* cleaning laws: idempotent, no separators or surrounding dots left
CleanLaws == LET c == Clean(s) IN
             /\ Clean(c) = c
             /\ \A i \in 1..Len(c) : ~IsSepAt(c, i)
             /\ c # <<>> => (c[1] # DOT /\ c[Len(c)] # DOT)
             /\ \E i \in 0..Len(s), j \in 0..Len(s) : c = SubSeq(s, i + 1, j)
\* substituting a pattern's own assignment into "$1$2.." style templates gives the text back
SubstLaw == \A g \in Groups(p, s) :
              /\ Subst(<<DOLLAR, 49>>, g) = (IF Len(g) >= 1 THEN g[1] ELSE <<DOLLAR, 49>>)
              /\ Subst(<<DOLLAR, 50, 45, DOLLAR, 49, DOLLAR>>, g) =
                   (IF Len(g) >= 2 THEN g[2] \o <<45>> \o g[1] \o <<DOLLAR>>
                    ELSE IF Len(g) = 1 THEN <<DOLLAR, 50, 45>> \o g[1] \o <<DOLLAR>>
                    ELSE <<DOLLAR, 50, 45, DOLLAR, 49, DOLLAR>>)

----------------------------------------------------------------------------
(* Non-vacuity: a matcher whose wildcards stop at a line feed (what an RE2 "." does
   without the s flag).  LiteRoute_nonl.cfg must find that it differs from Match,
   which shows the enumerated domain tells the two apart. *)
LF == 10
RECURSIVE MatchLine(_, _)
MatchLine(pp, ss) ==
    IF pp = <<>> THEN ss = <<>>
    ELSE IF Head(pp) = STAR
      THEN MatchLine(Tail(pp), ss) \/ (ss # <<>> /\ Head(ss) # LF /\ MatchLine(pp, Tail(ss)))
    ELSE ss # <<>> /\ ((Head(pp) = QM /\ Head(ss) # LF) \/ Head(pp) = Head(ss))
         /\ MatchLine(Tail(pp), Tail(ss))
LineModeAgrees == Match(p, s) = MatchLine(p, s)

(* Vector export: the pattern and host sets the harness crosses on the real code. *)
VecOut == PrintT(<<"VEC", ToJson([pats |-> SeqsUpTo(PatAlpha, MaxPat),
                                  hosts |-> SeqsUpTo(HostAlpha, MaxHost)])>>)
VInit == p = <<>> /\ s = <<>>
VSpec == VInit /\ [][Next]_<<p, s>>
=============================================================================
