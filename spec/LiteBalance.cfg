SPECIFICATION Spec
CONSTANTS
  Raw <- RawDef
  Dead <- DeadDef
  MaxList = 3
  Strategies <- AllStrategies
  DropAll = TRUE
  Export = FALSE
INVARIANTS LoopOK TriesOnce
