SPECIFICATION TSpec
CONSTANTS
  Mode = "check"
  Bug = "none"
INVARIANT Mark
POSTCONDITION Accepted
CHECK_DEADLOCK FALSE
