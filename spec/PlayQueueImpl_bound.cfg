SPECIFICATION Spec
CONSTANTS
  Writers = {"w1", "w2"}
  Two = {}
  Three = {}
  SOps <- SOpsNone
  Cap = 2
  Split = TRUE
  Prefill = TRUE
  Locked = FALSE
  Export = TRUE
INVARIANTS Emit
