------------------------------- MODULE Status -------------------------------
(* C43 -- server list ping: one well-formed response, exact echo.

   History machine of one status-phase connection (classic mode, no ping handlers).
   The client sends packets from {req, ping(p), other}; after each the proxy reacts.
     awaiting  --req-->   exactly one response (advertised protocol, online count), stays open
     responded --ping p--> echo of exactly p, then the connection is closed
     responded --req-->   no response, connection closed          (repeated request)
     any       --other--> no output, connection closed
     awaiting  --ping p--> connection closed; an echo is permitted but, if present, must be
                           exactly p (the statement only speaks of "the ping that follows")
   Advertised protocol: the client's if the proxy supports it, else the newest supported. *)
EXTENDS Integers, Sequences, TLC, Json

CONSTANTS Supported,      \* set of supported protocol numbers
          MaxProto,       \* the newest supported protocol
          ClientProtos,   \* protocol numbers the model client may claim
          NegProtos,      \* n here means the client claims -n (cfg files cannot hold negative numbers)
          Payloads,       \* ping payloads (as small ints standing for 8-byte values)
          MaxLen          \* history length bound

VARIABLES st,     \* "awaiting" | "responded" | "closed"
          cp,     \* protocol the client claimed in the handshake
          last,   \* reaction to the last client packet: [got, protocol, echo, closed]
          h       \* history of client packets

vars == <<st, cp, last, h>>

Advertised(p) == IF p \in Supported THEN p ELSE MaxProto

None == [got |-> "none", protocol |-> 0, echo |-> 0, closed |-> FALSE]

AllClientProtos == ClientProtos \cup {0 - n : n \in NegProtos}

Init == /\ st = "awaiting" /\ cp \in AllClientProtos /\ last = None /\ h = <<>>

Req == /\ st \in {"awaiting", "responded"} /\ Len(h) < MaxLen
       /\ h' = Append(h, [k |-> "req", p |-> 0])
       /\ IF st = "awaiting"
            THEN /\ st' = "responded"
                 /\ last' = [got |-> "response", protocol |-> Advertised(cp), echo |-> 0, closed |-> FALSE]
            ELSE /\ st' = "closed"
                 /\ last' = [None EXCEPT !.closed = TRUE]
       /\ UNCHANGED cp

Ping(p) == /\ st \in {"awaiting", "responded"} /\ Len(h) < MaxLen
           /\ h' = Append(h, [k |-> "ping", p |-> p])
           /\ st' = "closed"
           /\ last' = [got |-> "pong", protocol |-> 0, echo |-> p, closed |-> TRUE]
           /\ UNCHANGED cp

Other == /\ st \in {"awaiting", "responded"} /\ Len(h) < MaxLen
         /\ h' = Append(h, [k |-> "other", p |-> 0])
         /\ st' = "closed"
         /\ last' = [None EXCEPT !.closed = TRUE]
         /\ UNCHANGED cp

Next == Req \/ Other \/ \E p \in Payloads : Ping(p)
Spec == Init /\ [][Next]_vars

\* The property on the model
OneResponse == \A i, j \in 1..Len(h) : (h[i].k = "req" /\ h[j].k = "req" /\ i < j) => st = "closed"
ClosedIsFinal == [][st = "closed" => st' = "closed"]_vars
ResponseProto == last.got = "response" => (last.protocol \in Supported /\ (cp \in Supported => last.protocol = cp))
EchoExact == last.got = "pong" => last.echo = h[Len(h)].p

Terminal == st = "closed" \/ Len(h) = MaxLen
Emit == Terminal => PrintT(<<"HIST", ToJson([cp |-> cp, h |-> h])>>)
=============================================================================
