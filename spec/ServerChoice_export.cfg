SPECIFICATION Spec
CONSTANTS
  MaxForced = 3
  MaxTry = 3
  MaxFail = 3
  FailKinds = {"kl", "kp", "kpi"}
  NVH = 0
  MinReg = 1
  Renames = TRUE
INVARIANTS OnlyRegisteredListed NeverTheFailedOne ForcedFirst DisconnectMeansNoneLeft Emit
