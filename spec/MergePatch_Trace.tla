-------------------------- MODULE MergePatch_Trace --------------------------
(* Judges recorded I/O of the real code (tagged JSON values, see MergePatch.tla):

   {"ev":"merge","target":T,"patch":P,"out":O}
        O = applyMergePatch(T, P), through the same encoding/json round trip that
        mergeConfigPatch uses.
   {"ev":"bases","bases":[D0,D1,..],"schema":S}
        canonical JSON documents of the effective configurations used below and
        the member names each section of the configuration type knows
        (k = obj/map/list/scalar/any; "any" = custom decoding, nothing claimed).
   {"ev":"cfgpatch","base":i,"patch":P,"merged":M,"accepted":b,"cand":C,
    "norm_ok":b2,"norm":N,"base_untouched":b3}
        mergeConfigPatch(config_i, P) accepted/rejected, C = canonical document of
        the candidate it returned; M = the RFC result TLC computed beforehand and
        N = M decoded strictly as a configuration and re-encoded (norm_ok: it decodes). *)
EXTENDS MergePatch, TraceLib

VARIABLE env
tvars == <<target, patch, env, l>>

\* does document v only use members the configuration type knows, with the right shapes
RECURSIVE Strict(_, _)
Strict(v, s) ==
    IF v.t = "null" \/ s.k = "any" THEN TRUE
    ELSE IF s.k = "obj" THEN /\ v.t = "obj"
                             /\ \A k \in DOMAIN v.m : k \in DOMAIN s.f /\ Strict(v.m[k], s.f[k])
    ELSE IF s.k = "map" THEN v.t = "obj" /\ \A k \in DOMAIN v.m : Strict(v.m[k], s.e)
    ELSE IF s.k = "list" THEN v.t = "arr" /\ \A i \in 1..Len(v.a) : Strict(v.a[i], s.e)
    ELSE v.t \in {"num", "real", "str", "bool"}

TBases == /\ IsEv("bases")
          /\ env' = [bases |-> Rec.bases, schema |-> Rec.schema]
          /\ UNCHANGED vars

TMerge == /\ IsEv("merge")
          /\ Rec.out = MergePatch(Rec.target, Rec.patch)
          /\ UNCHANGED <<vars, env>>

TCfg == /\ IsEv("cfgpatch")
        /\ LET m == MergePatch(env.bases[Rec.base + 1], Rec.patch) IN
             /\ Rec.merged = m                      \* the expectation really is the RFC result
             /\ Rec.base_untouched
             /\ Rec.accepted <=> Rec.norm_ok        \* accepted iff the RFC result decodes strictly
             /\ Rec.accepted => /\ Rec.cand = Rec.norm   \* and it is that configuration
                                /\ Strict(m, env.schema)
        /\ UNCHANGED <<vars, env>>

TNext == TBases \/ TMerge \/ TCfg
TSpec == target = Null /\ patch = Null /\ env = <<>> /\ CursorInit /\ [][TNext]_tvars
=============================================================================
