-------------------------- MODULE ConfigValid_Trace --------------------------
(* Judges what the real code did with the configurations enumerated by TLC:

   {"ev":"validate","atoms":{..},"lite":b,"invalid":b2,"nerrs":n,"messages":[..],"validate_pure":b3}
        the abstract configuration, concretised by the harness on config.DefaultConfig,
        was given to the real Validate(): invalid = it reported at least one error.
   {"ev":"roundtrip","mode":m,"load_ok":b,"fp_yaml_before":..,"fp_yaml_after":..,
    "fp_json_before":..,"fp_json_after":..,"still_valid":b2}
        an accepted configuration was serialized (YAML / JSON, by pointer / by value) and
        re-read with the real strict decoder (api) or the real file loader (file);
        fp_* are SHA-256 fingerprints (crypto/sha256 in the harness) of the YAML and JSON
        encodings of the configuration before and after. *)
EXTENDS ConfigValid, TraceLib

tvars == <<cfg, lite, l>>

RoundOK == /\ Rec.load_ok
           \* "unchanged" is gate's own notion of configuration equality (configsEqual, the version
           \* hash): the JSON encoding.  The YAML text may legitimately be re-spelled (a legacy-coded
           \* motd is re-joined), so its fingerprint is recorded but not required.
           /\ Rec.fp_json_after = Rec.fp_json_before
           /\ Rec.still_valid

(* The lines are independent judgements, so a line the spec rejects is reported
   (<<"BAD", line>>, counted in TLC register 2) and the cursor moves on: one pass
   names every rejected line.  The trace is accepted only if none was rejected. *)
Judge(ok) == IF ok THEN TRUE ELSE PrintT(<<"BAD", l>>) /\ TLCSet(2, TLCGet(2) + 1)

TValidate == /\ IsEv("validate")
             /\ Judge(/\ Rec.invalid = ~Valid(Rec.atoms, Rec.lite)
                      /\ Rec.validate_pure)
             /\ UNCHANGED vars

TRound == /\ IsEv("roundtrip")
          /\ Judge(RoundOK)
          /\ UNCHANGED vars

TNext == TValidate \/ TRound
TSpec == cfg = Base /\ lite = FALSE /\ CursorInit /\ TLCSet(2, 0) /\ [][TNext]_tvars
AcceptedAll == Accepted /\ TLCGet(2) = 0
=============================================================================
