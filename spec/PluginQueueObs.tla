--------------------------- MODULE PluginQueueObs ---------------------------
(* C24 -- black-box acceptor: speaks only about what the client sent, what its backend
   received, and whether the player was disconnected.

     ASend(k, sz)    the client sent its k-th custom payload (sz bytes of data)
     ARelease        the harness let the backend proceed (it cannot be ready before)
     ARecv(k, sz)    the backend received a custom payload carrying index k, sz bytes
     ADisc           the player was disconnected
     AEnd(alive)     quiescence after a generous wait *)
EXTENDS Naturals, Sequences

CONSTANTS MaxCount, MaxBytes

VARIABLES asent,     \* sizes of the messages the client sent, in order
          abytes,    \* their total
          arecv,     \* how many of them the backend has received (in order)
          apre,      \* messages / bytes the client sent before the backend was released
          apreb,
          arel,      \* the backend has been released
          adisc      \* the player was disconnected

avars == <<asent, abytes, arecv, apre, apreb, arel, adisc>>

AInit == /\ asent = <<>> /\ abytes = 0 /\ arecv = 0 /\ apre = 0 /\ apreb = 0
         /\ arel = FALSE /\ adisc = FALSE

\* the guards (what the property demands of an event), separately: the trace spec uses them
\* to record a rejected run and go on with the next one
GSend(k, sz) == k = Len(asent) + 1
GRecv(k, sz) == k = arecv + 1 /\ k <= Len(asent) /\ sz = asent[k]
GDisc == Len(asent) > MaxCount \/ abytes > MaxBytes
GEnd(alive) == /\ alive => arecv = Len(asent)
               /\ ~alive => adisc
               /\ (apre > MaxCount \/ apreb > MaxBytes) => adisc

ASend(k, sz) == /\ GSend(k, sz)
                /\ asent' = Append(asent, sz)
                /\ abytes' = abytes + sz
                /\ IF arel THEN UNCHANGED <<apre, apreb>>
                   ELSE apre' = apre + 1 /\ apreb' = apreb + sz
                /\ UNCHANGED <<arecv, arel, adisc>>

ARelease == arel' = TRUE /\ UNCHANGED <<asent, abytes, arecv, apre, apreb, adisc>>

\* exactly once, in order: the backend receives the next message of the client's sequence
ARecv(k, sz) == /\ GRecv(k, sz)
                /\ arecv' = k
                /\ UNCHANGED <<asent, abytes, apre, apreb, arel, adisc>>

\* a disconnect is legitimate only when a cap can have been exceeded
ADisc == /\ GDisc
         /\ adisc' = TRUE
         /\ UNCHANGED <<asent, abytes, arecv, apre, apreb, arel>>

\* quiescence after a generous wait: a live connection got everything through; a cap
\* exceeded while the backend was held back must have disconnected the player
AEnd(alive) == GEnd(alive) /\ UNCHANGED avars
=============================================================================
