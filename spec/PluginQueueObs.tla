--------------------------- MODULE PluginQueueObs ---------------------------
(* C24 -- black-box acceptor: speaks only about what the client sent, what its backend
   received, and whether the player was disconnected.

     ASend(k, sz)    the client sent its k-th custom payload (sz bytes of data)
     ARelease        the harness let the (current) backend proceed (it cannot be ready before)
     ALose           the backend the client was being connected to is gone (fault); what the
                     client sent so far was meant for it and need not reach the next backend
     ARecv(k, sz)    the backend received a custom payload carrying index k, sz bytes
     ADisc           the player was disconnected
     AEnd(alive)     quiescence after a generous wait *)
EXTENDS Naturals, Sequences

CONSTANTS MaxCount, MaxBytes

VARIABLES asent,     \* sizes of the messages the client sent, in order
          abytes,    \* their total
          arecv,     \* how many of them the backend has received (in order)
          apre,      \* messages / bytes the client sent before the backend was released
          apreb,
          arel,      \* the backend has been released
          adisc,     \* the player was disconnected
          aopt,      \* messages 1..aopt were meant for a backend that is gone (optional)
          arelat,    \* how many messages the client had sent when the backend was released
          aheldn,    \* of those, how many / how many bytes the backend has received: they were
          aheldb     \* all held by the proxy at the moment of the release

avars == <<asent, abytes, arecv, apre, apreb, arel, adisc, aopt, arelat, aheldn, aheldb>>

AInit == /\ asent = <<>> /\ abytes = 0 /\ arecv = 0 /\ apre = 0 /\ apreb = 0
         /\ arel = FALSE /\ adisc = FALSE /\ aopt = 0 /\ arelat = 0 /\ aheldn = 0 /\ aheldb = 0

\* the guards (what the property demands of an event), separately: the trace spec uses them
\* to record a rejected run and go on with the next one
GSend(k, sz) == k = Len(asent) + 1
\* in order, once, unaltered; only messages meant for a lost backend may be skipped; and what
\* the proxy held when the backend was released never exceeded the caps
GRecv(k, sz) == /\ k > arecv /\ k <= Len(asent) /\ sz = asent[k]
                /\ k - 1 <= (IF aopt > arecv THEN aopt ELSE arecv)
                /\ (k <= arelat) => (aheldn + 1 <= MaxCount /\ aheldb + sz <= MaxBytes)
GDisc == Len(asent) > MaxCount \/ abytes > MaxBytes
GEnd(alive) == /\ alive => (arecv = Len(asent) \/ Len(asent) <= aopt)
               /\ ~alive => adisc
               /\ (apre > MaxCount \/ apreb > MaxBytes) => adisc

ASend(k, sz) == /\ GSend(k, sz)
                /\ asent' = Append(asent, sz)
                /\ abytes' = abytes + sz
                /\ IF arel THEN UNCHANGED <<apre, apreb>>
                   ELSE apre' = apre + 1 /\ apreb' = apreb + sz
                /\ UNCHANGED <<arecv, arel, adisc, aopt, arelat, aheldn, aheldb>>

ARelease == /\ arel' = TRUE /\ arelat' = Len(asent) /\ aheldn' = 0 /\ aheldb' = 0
            /\ UNCHANGED <<asent, abytes, arecv, apre, apreb, adisc, aopt>>

\* what was queued for the lost backend need not be kept: it no longer counts as held back
ALose == /\ aopt' = Len(asent) /\ apre' = 0 /\ apreb' = 0
         /\ UNCHANGED <<asent, abytes, arecv, arel, adisc, arelat, aheldn, aheldb>>

\* exactly once, in order: the backend receives the next message of the client's sequence
ARecv(k, sz) == /\ GRecv(k, sz)
                /\ arecv' = k
                /\ IF k <= arelat THEN aheldn' = aheldn + 1 /\ aheldb' = aheldb + sz
                   ELSE UNCHANGED <<aheldn, aheldb>>
                /\ UNCHANGED <<asent, abytes, apre, apreb, arel, adisc, aopt, arelat>>

\* a disconnect is legitimate only when a cap can have been exceeded
ADisc == /\ GDisc
         /\ adisc' = TRUE
         /\ UNCHANGED <<asent, abytes, arecv, apre, apreb, arel, aopt, arelat, aheldn, aheldb>>

\* quiescence after a generous wait: a live connection got everything through; a cap
\* exceeded while the backend was held back must have disconnected the player
AEnd(alive) == GEnd(alive) /\ UNCHANGED avars
=============================================================================
