SPECIFICATION Spec
CONSTANTS
  MaxLen = 3
  CfgOnline = TRUE
INVARIANTS AdmitOnlyIfVerified NoAdmissionAfterDisorder DenyNeverAdmits Emit
