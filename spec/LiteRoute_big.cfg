SPECIFICATION Spec
CONSTANTS
  PatAlpha = {42, 63, 97, 46}
  HostAlpha = {97, 46, 47, 0, 42}
  MaxPat = 4
  MaxHost = 3
INVARIANTS ThreeDefinitionsAgree CleanLaws SubstLaw
