------------------------------ MODULE KeepAlive ------------------------------
(* C18 -- keep-alive replies reach only the backend that asked, once.

   The abstract design as a machine: every backend connection has a bounded set of
   pending keep-alive ids (an LRU of capacity Cap: the oldest is evicted); a client reply
   is matched against the current backend first, then the one in flight; a match is
   consumed and forwarded if that backend is in configuration or play; anything else is
   dropped.  TLC checks the property invariants and exports histories (Emit) that the live
   rig replays; the real proxy is judged by the black-box acceptor KeepAliveObs.tla. *)
EXTENDS Naturals, Sequences, FiniteSets, TLC, Json

CONSTANTS Kinds,      \* "cfg765": one backend, in flight, configuration phase (initial join)
                      \* "sw763" : current backend "a" + backend "b" in flight (server switch)
          Ids,        \* ids backends use
          Unknown,    \* an id no backend uses
          Cap, MaxLen

Backends(k) == IF k = "sw763" THEN {"a", "b"} ELSE {"a"}
Order(k) == IF k = "sw763" THEN <<"a", "b">> ELSE <<"a">>     \* current first, then in flight

VARIABLES kind, pending,   \* backend -> sequence of pending ids, oldest first
          sentN, fwdN,     \* backend -> id -> how often sent / forwarded
          repN,            \* id -> client replies
          h
vars == <<kind, pending, sentN, fwdN, repN, h>>

AllIds == Ids \cup {Unknown}
Zero == [b \in {"a", "b"} |-> [i \in AllIds |-> 0]]

Init == /\ kind \in Kinds
        /\ pending = [b \in {"a", "b"} |-> <<>>]
        /\ sentN = Zero /\ fwdN = Zero /\ repN = [i \in AllIds |-> 0] /\ h = <<>>

Without(s, id) == SelectSeq(s, LAMBDA x : x # id)
Has(s, id) == \E i \in 1..Len(s) : s[i] = id

BackendKA(b, id) ==
    /\ b \in Backends(kind) /\ Len(h) < MaxLen
    /\ LET s == Append(Without(pending[b], id), id) IN
       pending' = [pending EXCEPT ![b] = IF Len(s) > Cap THEN Tail(s) ELSE s]
    /\ sentN' = [sentN EXCEPT ![b][id] = @ + 1]
    /\ h' = Append(h, [k |-> "ka", b |-> b, id |-> id])
    /\ UNCHANGED <<kind, fwdN, repN>>

ClientReply(id) ==
    /\ Len(h) < MaxLen
    /\ repN' = [repN EXCEPT ![id] = @ + 1]
    /\ h' = Append(h, [k |-> "reply", id |-> id])
    /\ LET ord == Order(kind)
           hit == {i \in 1..Len(ord) : Has(pending[ord[i]], id)}
       IN IF hit = {} THEN UNCHANGED <<pending, fwdN>>
          ELSE LET b == ord[CHOOSE i \in hit : \A j \in hit : i <= j] IN
               /\ pending' = [pending EXCEPT ![b] = Without(@, id)]
               /\ fwdN' = [fwdN EXCEPT ![b][id] = @ + 1]
    /\ UNCHANGED <<kind, sentN>>

Next == (\E b \in {"a", "b"}, id \in Ids : BackendKA(b, id)) \/ (\E id \in AllIds : ClientReply(id))
Spec == Init /\ [][Next]_vars

\* forwarded only to a backend that asked, at most once per keep-alive it sent
OnlyIfAsked == \A b \in {"a", "b"}, i \in AllIds : fwdN[b][i] <= sentN[b][i]
\* one reply is forwarded at most once, to one backend
OncePerReply == \A i \in AllIds : fwdN["a"][i] + fwdN["b"][i] <= repN[i]
UnknownDropped == fwdN["a"][Unknown] = 0 /\ fwdN["b"][Unknown] = 0
Bounded == \A b \in {"a", "b"} : Len(pending[b]) <= Cap

Emit == (Len(h) > 0) => PrintT(<<"HIST", ToJson([kind |-> kind, h |-> h])>>)
=============================================================================
