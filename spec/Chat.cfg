SPECIFICATION Spec
CONSTANTS
  MaxLen = 4
  MaxQueue = 1
  Offs = {0, 1, 19, 20, 21, 39}
  Outcomes = {"forwarded", "rewritten", "consumed", "denied"}
  Sigs = {FALSE, TRUE}
  Fams = {"pre1205", "1205"}
  Disc = TRUE
  Variant = "velocity"
  Export = FALSE
  Sample = FALSE
VIEW View
INVARIANTS TypeOK NeverExceeds LagBelowTwoWindows CatchesUp Conserved
