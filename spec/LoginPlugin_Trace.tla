------------------------- MODULE LoginPlugin_Trace -------------------------
(* Judges histories of the real login plugin message bookkeeping (in-package forced
   schedules, live-rig handler/client scripts, live-rig Forge relay).  Lines:
     {"ev":"reset", ...}
     {"ev":"send","tag":t}  {"ev":"sendret","tag":t}
     {"ev":"fired"}                         the pre-login event returned
     {"ev":"wrote","id":n,"tag":t}          the client read message n carrying t
     {"ev":"resp","id":n,"ok":b,"body":[..]} the client sent a response
     {"ev":"deliver","tag":t,"ok":b,"body":[..]}  consumer invoked (relay: backend got the answer)
     {"ev":"deliverret","tag":t}
     {"ev":"complete"}                      the login-completion step ran
     {"ev":"end","settled":b} *)
EXTENDS LoginPlugin, TraceLib

tvars == <<hvars, l>>

TInit == CursorInit /\ HInit

TReset == /\ IsEv("reset")
          /\ sent' = {} /\ retd' = {} /\ snap' = {} /\ fired' = FALSE
          /\ bind' = <<>> /\ resps' = <<>> /\ used' = {} /\ delivered' = {}
          /\ owed' = {} /\ completed' = 0

TSend == IsEv("send") /\ Send(Rec.tag)
TSendRet == IsEv("sendret") /\ SendRet(Rec.tag)
TFired == IsEv("fired") /\ PreLoginDone
TWrote == IsEv("wrote") /\ Wrote(Rec.id, Rec.tag)
TResp == IsEv("resp") /\ Resp(Rec.id, Rec.ok, Rec.body)
TDeliver == IsEv("deliver") /\ Deliver(Rec.tag, Rec.ok, Rec.body)
TDeliverRet == IsEv("deliverret") /\ DeliverRet(Rec.tag)
TComplete == IsEv("complete") /\ Complete
TEnd == IsEv("end") /\ End(Rec.settled)

TNext == TReset \/ TSend \/ TSendRet \/ TFired \/ TWrote \/ TResp \/ TDeliver
         \/ TDeliverRet \/ TComplete \/ TEnd
TSpec == TInit /\ [][TNext]_tvars
=============================================================================
