--------------------------- MODULE LiteRoute_Trace ---------------------------
(* Judges recorded I/O of the real Lite routing code (strings as code point arrays):
     {"ev":"clean","in":h,"out":c}                      lite.ClearVirtualHost
     {"ev":"row","p":pat,"hs":[h..],"ok":[b..],"g":[[grp..]..],"okb":[b..]}
                         lite.FindRouteWithGroups / lite.FindRoute of each h against one route {p}
     {"ev":"find","routes":[[pat..]..],"h":h,"idx":i,"pat":pat,"g":[grp..]}
                         lite.FindRouteWithGroups over a route list (idx 0 = no route)
     {"ev":"subst","t":template,"g":[grp..],"out":o}    substituteBackendParams
     {"ev":"route","routes":[[pats..]..],"tmpl":[t..],"host":raw,"dialed":[addr..],"closed":b}
                         end to end through lite.Forward: raw handshake host, one backend
                         template per route, the addresses that received a connection *)
EXTENDS LiteRoute, TraceLib

TClean == IsEv("clean") /\ Rec.out = Clean(Rec.in)

LowerAll(g) == [k \in 1..Len(g) |-> Lower(g[k])]
PairOK(pat, h, ok, g) == LET lp == Lower(pat)  lh == Lower(h) IN
                         /\ ok = MatchDP(lp, lh)
                         /\ ok => ValidGroups(lp, lh, LowerAll(g))
TRow == IsEv("row") /\ \A i \in 1..Len(Rec.hs) :
                          /\ PairOK(Rec.p, Rec.hs[i], Rec.ok[i], Rec.g[i])
                          /\ Rec.okb[i] = Rec.ok[i]

TFind == IsEv("find") /\
         LET i == FirstRoute(Rec.routes, Rec.h) IN
         /\ Rec.idx = i
         /\ i > 0 => /\ \E j \in 1..Len(Rec.routes[i]) : Rec.routes[i][j] = Rec.pat
                     /\ PairOK(Rec.pat, Rec.h, TRUE, Rec.g)

TSubst == IsEv("subst") /\ Rec.out = Subst(Rec.t, Rec.g)

TRoute == IsEv("route") /\
          LET c == Clean(Rec.host)
              i == FirstRoute(Rec.routes, c) IN
          /\ Rec.closed
          /\ IF i = 0 THEN Rec.dialed = <<>>
             ELSE /\ Len(Rec.dialed) = 1
                  /\ \E j \in 1..Len(Rec.routes[i]) :
                       /\ PatMatches(Rec.routes[i][j], c)
                       /\ \E g \in Groups(Lower(Rec.routes[i][j]), Lower(c)) :
                            Rec.dialed[1] = Subst(Rec.tmpl[i], g)

TNext == (TClean \/ TRow \/ TFind \/ TSubst \/ TRoute) /\ UNCHANGED <<p, s>>
TSpec == p = <<>> /\ s = <<>> /\ CursorInit /\ [][TNext]_<<p, s, l>>
=============================================================================
