SPECIFICATION Spec
CONSTANTS
  Readers = {"r1", "r2"}
  Writers = {"w1", "w2"}
  Keys = {"k1", "k2", "k3"}
  Locked = FALSE
  IterUnderLock = TRUE
  Export = TRUE
  MaxInit = 2
INVARIANTS Emit
