-------------------------- MODULE OfflineId_Trace --------------------------
(* Lines:
   {"ev":"uuid","md5":[16],"uuid":[16]}     uuid.OfflinePlayerUUID(name) vs crypto/md5 of "OfflinePlayer:"+name
   {"ev":"login","cps":[..],"admitted":bool,"md5":[16],"uuid":[16] or [],"backend":[16] or []}
       one offline-mode login attempt through the live proxy (forwarding disabled):
       admitted = login success naming this user; uuid = the id in login success;
       backend = the id the backend saw in the proxy's login start (1.19.3+), if it got one *)
EXTENDS OfflineId, TraceLib

TUuid == IsEv("uuid") /\ Rec.uuid = V3(Rec.md5) /\ UNCHANGED name
TLogin == /\ IsEv("login") /\ UNCHANGED name
          /\ Rec.admitted => /\ ValidName(Rec.cps)
                             /\ Rec.uuid = V3(Rec.md5)
                             /\ (Rec.backend # <<>> => Rec.backend = V3(Rec.md5))
          /\ ~Rec.admitted => Rec.backend = <<>>      \* nobody reaches a backend without being admitted
TNext == TUuid \/ TLogin
TSpec == name = <<>> /\ CursorInit /\ [][TNext]_<<name, l>>
=============================================================================
