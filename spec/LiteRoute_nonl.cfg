SPECIFICATION Spec
CONSTANTS
  PatAlpha = {42, 63, 97}
  HostAlpha = {97, 10}
  MaxPat = 2
  MaxHost = 2
INVARIANTS LineModeAgrees
