SPECIFICATION Spec
CONSTANTS
  Threads = {"a", "b"}
  Ids = {"u1", "u2"}
  Names = {"bob", "al"}
  Kicks = {TRUE, FALSE}
  Onlines = {TRUE, FALSE}
  Leaves = {TRUE, FALSE}
  Denies = {TRUE, FALSE}
  Locked = TRUE
  PtrCheck = TRUE
  UnlockOnReject = TRUE
  Export = FALSE
  MaxSteps = 1000
VIEW View
INVARIANTS TypeOK FindableById FindableByName OnePerId OnePerName SameSet OnlyLoggedIn NoHang
