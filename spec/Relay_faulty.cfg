SPECIFICATION Spec
CONSTANTS
  Versions = {763}
  ThrPlus1 = {0}
  Sizes = {"small"}
  Kinds = {"unknown", "icpt"}
  SmallSize = "small"
  MaxSend = 3
  Faulty = TRUE
VIEW View
INVARIANTS InOrderNoLossNoDup CompleteAtQuiescence
