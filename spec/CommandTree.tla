---------------------------- MODULE CommandTree ----------------------------
(* C23 -- the command tree sent to a player only shows proxy commands it may use.

   Trees as TLA+ values.  An input node is a record
       [name, kind ("lit" | "arg"), exec, req, rd, ch]
   req = "" or the permission its requirement asks for, rd = "" or the name of the
   top-level proxy command it redirects to, or "<root>" / "<up>" for a second-level node
   that redirects to the dispatcher root / to its parent command (redirecting nodes have
   no children),
   ch = set of child nodes with distinct names.  A tree (root) is the set of its
   top-level nodes.  What the player receives is a forest of output nodes
       [name, kind, exec, ch, rt]
   (no requirements on the wire); rt = {} or {the node a redirect leads to}.

   Merge(backend, proxy, perms) is the reference: the proxy's top-level nodes the
   player passes, filtered at every depth (children and redirect targets), replace
   backend nodes of the same name; all other backend nodes are kept as they are.
   Proxy nodes are executable and backend nodes are not (that is how the harness,
   and the invariants below, tell the origin of a top-level node), node kind is a
   function of the name ("pb", "qb", "bb" are arguments).

   Variant = "shallow" is a deliberately broken filter (top level only) showing the
   invariants are not vacuous. *)
EXTENDS Naturals, Sequences, FiniteSets, TLC, Json

CONSTANTS Mode,      \* "small": every case of the small universe; "random": one random case per step (-simulate)
          Deep,      \* BOOLEAN: proxy trees have a third level
          Cyc,       \* BOOLEAN: second-level proxy nodes may redirect to the root ("<root>") or to their parent ("<up>")
          Variant,   \* "reference" | "shallow"
          BackPairs, \* BOOLEAN: "small" mode: backend roots with two top-level nodes too
          Export

TopNames == {"x", "y", "z"}
ProxySub == {"pa", "pb"}
ProxySub3 == {"qa", "qb"}
BackSub == {"ba", "bb"}
Reqs == {"", "a", "b"}
PermSets == SUBSET {"a", "b"}

Kind(n) == IF n \in {"pb", "qb", "bb"} THEN "arg" ELSE "lit"

\* sets of at most two nodes of S with distinct names
KidSets(S) == {{}} \cup {{a} : a \in S} \cup {{pr[1], pr[2]} : pr \in {q \in S \X S : q[1].name # q[2].name}}

PNode(n, r, c) == [name |-> n, kind |-> Kind(n), exec |-> TRUE, req |-> r, rd |-> "", ch |-> c]
PLeaves(names) == {PNode(n, r, {}) : n \in names, r \in Reqs}
PLevel2(deep) == {PNode(n, r, c) : n \in ProxySub, r \in Reqs,
                                   c \in IF deep THEN KidSets(PLeaves(ProxySub3)) ELSE {{}}}
                 \cup (IF Cyc THEN {[name |-> n, kind |-> Kind(n), exec |-> TRUE, req |-> r, rd |-> t, ch |-> {}] :
                                       n \in ProxySub, r \in Reqs, t \in {"<root>", "<up>"}}
                       ELSE {})
PTop(n, deep) == {PNode(n, r, c) : r \in Reqs, c \in KidSets(PLevel2(deep))}
PRedirect(n) == {[name |-> n, kind |-> "lit", exec |-> TRUE, req |-> r, rd |-> t, ch |-> {}] :
                    r \in Reqs, t \in TopNames \ {n}}

BNode(n, c) == [name |-> n, kind |-> Kind(n), exec |-> FALSE, req |-> "", rd |-> "", ch |-> c]
BTop(n) == {BNode(n, c) : c \in KidSets({BNode(m, {}) : m \in BackSub})}
\* a backend alias redirecting to another of the backend's own root commands (vanilla /tp -> /teleport)
BRedirect(n) == {[name |-> n, kind |-> "lit", exec |-> FALSE, req |-> "", rd |-> t, ch |-> {}] : t \in TopNames \ {n}}
BackRoots == KidSets(UNION {BTop(n) \cup BRedirect(n) : n \in TopNames})
SmallBackRoots == IF BackPairs THEN BackRoots
                  ELSE {{}} \cup {{b} : b \in UNION {BTop(n) : n \in {"x", "y"}}}

\* the small universe: no proxy command, one, or one plus a node redirecting to it / to nothing
SmallProxyRoots ==
    {{}} \cup UNION {{{a} : a \in PTop(n, FALSE)} : n \in {"x"}}
         \cup UNION {{{a, r} : a \in PTop("x", FALSE), r \in PRedirect("y")}}

----------------------------------------------------------------------------
Pass(n, P) == n.req = "" \/ n.req \in P

\* where a redirect back to the root / to the parent command leads (the received graph is cyclic there)
Marker(nm, k) == [name |-> nm, kind |-> k, exec |-> FALSE, ch |-> {}, rt |-> {}]

(* A redirect to the dispatcher root: the player may be led to a copy of the proxy's own
   (filtered) root (rs = "copy"; inside that copy the same redirect closes the cycle), or to
   the root of the merged tree (rs = "merged").  The statement prefers neither.
   The received graph is cyclic then; it is unfolded into a tree by one rule shared with the
   harness: anc = names of the top-level commands on the current path; a redirect to a
   command already on the path, or to a root copy while inside one, is cut ("<cycle>"). *)
RECURSIVE Out(_, _, _, _, _, _)
Out(n, P, root, rs, inroot, anc) ==
    [name |-> n.name, kind |-> n.kind, exec |-> n.exec,
     ch |-> {Out(c, P, root, rs, inroot, anc) : c \in {c \in n.ch : Variant = "shallow" \/ Pass(c, P)}},
     rt |-> CASE n.rd = "" -> {}
              [] n.rd = "<root>" ->
                   IF rs = "merged" THEN {Marker("<root>", "root")}
                   ELSE IF inroot THEN {Marker("<cycle>", "root")}
                   ELSE {[name |-> "", kind |-> "root", exec |-> FALSE, rt |-> {},
                          ch |-> {Out(m, P, root, rs, TRUE, anc \cup {m.name}) : m \in {m \in root : Pass(m, P)}}]}
              [] n.rd = "<up>" -> {Marker("<up>", "lit")}
              [] OTHER -> {IF t.name \in anc THEN Marker("<cycle>", "lit")
                           ELSE Out(t, P, root, rs, inroot, anc \cup {t.name}) :
                              t \in {t \in root : t.name = n.rd /\ t.rd = "" /\ Pass(t, P)}}]

FilteredRS(proxy, P, rs) == {Out(n, P, proxy, rs, FALSE, {n.name}) : n \in {n \in proxy : Pass(n, P)}}
Filtered(proxy, P) == FilteredRS(proxy, P, "copy")
\* a backend node is kept as it is: its children, and where its redirect leads in the BACKEND's tree
\* (also when the proxy replaced that target at the top level)
RECURSIVE BOutIn(_, _)
BOutIn(b, bk) == [name |-> b.name, kind |-> b.kind, exec |-> b.exec, ch |-> {BOutIn(c, bk) : c \in b.ch},
                  rt |-> IF b.rd = "" THEN {}
                         ELSE {BOutIn(t, bk) : t \in {t \in bk : t.name = b.rd /\ t.rd = ""}}]

MergeRS(backend, proxy, P, rs) ==
    LET F == FilteredRS(proxy, P, rs) IN
      {BOutIn(b, backend) : b \in {b \in backend : b.name \notin {f.name : f \in F}}} \cup F
Merge(backend, proxy, P) == MergeRS(backend, proxy, P, "copy")

----------------------------------------------------------------------------
VARIABLES proxy, backend, perms, phase,
          perms2,             \* what the player holds when the backend sends its tree a second time
          da, db, dr, dk      \* "random" mode: the draws (state variables, so that each is drawn once)
vars == <<proxy, backend, perms, perms2, phase, da, db, dr, dk>>

AllTop == UNION {PTop(n, Deep) : n \in TopNames}
AllRedirect == UNION {PRedirect(n) : n \in TopNames}
NoNode == PNode("x", "", {})

Init == /\ proxy = {} /\ backend = {} /\ perms = {} /\ perms2 = {} /\ phase = "start"
        /\ da = NoNode /\ db = NoNode /\ dr = NoNode /\ dk = 0

\* "random": draw two commands, a redirecting node and a shape; then build a root with distinct names
Draw == /\ Mode = "random" /\ phase = "start" /\ phase' = "drawn"
        /\ da' = RandomElement(AllTop) /\ db' = RandomElement(AllTop)
        /\ dr' = RandomElement(AllRedirect) /\ dk' = RandomElement(1..6)
        /\ backend' = RandomElement(BackRoots) /\ perms' = RandomElement(PermSets)
        /\ perms2' = RandomElement(PermSets)
        /\ UNCHANGED proxy
Build == /\ Mode = "random" /\ phase = "drawn" /\ phase' = "case"
         /\ LET s1 == {da}
                s2 == IF dk \in {2, 4, 5, 6} /\ db.name # da.name THEN s1 \cup {db} ELSE s1
                s3 == IF dk \in {3, 4, 5} /\ dr.name \notin {n.name : n \in s2} THEN s2 \cup {dr} ELSE s2
            IN proxy' = s3
         /\ UNCHANGED <<backend, perms, perms2, da, db, dr, dk>>
Small == /\ Mode = "small" /\ phase = "start" /\ phase' = "case"
         /\ proxy' \in SmallProxyRoots
         /\ backend' \in SmallBackRoots
         /\ perms' \in PermSets
         /\ perms2' = {"a", "b"} \ perms'        \* everything held is revoked, everything else granted
         /\ UNCHANGED <<da, db, dr, dk>>
Next == Draw \/ Build \/ Small
Spec == Init /\ [][Next]_vars

Result == Merge(backend, proxy, perms)
\* the backend re-sends its tree after the player's permissions changed to perms2: the merge is a
\* function of the current permissions only (nothing of the first answer may survive)
Result2 == Merge(backend, proxy, perms2)

(* The statement, on the reference operator. *)
RECURSIVE OutPaths(_)
OutPaths(F) == UNION {{<<n.name>>} \cup {<<n.name>> \o p : p \in OutPaths(n.ch)}
                                   \cup {<<n.name, "->">> \o p : p \in OutPaths(n.rt)} : n \in F}
RECURSIVE PassAlong(_, _)
PassAlong(path, forest) ==
    IF path = <<>> THEN TRUE
    ELSE \E n \in forest :
           /\ n.name = path[1] /\ Pass(n, perms)
           /\ IF Len(path) >= 2 /\ path[2] = "->"
                THEN IF n.rd \in {"<root>", "<up>"}
                       THEN \/ path[3] \in {"<root>", "<up>", "<cycle>"}
                            \/ (path[3] = "" /\ PassAlong(SubSeq(path, 4, Len(path)), proxy))   \* the root copy
                       ELSE \/ path[3] = "<cycle>"
                            \/ (n.rd = path[3] /\ PassAlong(SubSeq(path, 3, Len(path)), proxy))
                ELSE PassAlong(Tail(path), n.ch)
RECURSIVE InPaths(_)
InPaths(F) == UNION {{<<n.name>>} \cup {<<n.name>> \o p : p \in InPaths(n.ch)} : n \in F}

ProxyPart == {n \in Result : n.exec}
EveryProxyNodePasses == \A p \in OutPaths(ProxyPart) : PassAlong(p, proxy)
EveryUsableProxyNodeShown == \A p \in InPaths(proxy) : PassAlong(p, proxy) => p \in OutPaths(ProxyPart)
NamesDistinct == \A a, b \in Result : a.name = b.name => a = b
ProxyReplacesBackend == \A n \in proxy : Pass(n, perms) => \E m \in Result : m.name = n.name /\ m.exec
BackendKept == \A b \in backend :
                  (~\E n \in proxy : n.name = b.name /\ Pass(n, perms)) => BOutIn(b, backend) \in Result
NothingElse == \A m \in Result : m.exec \/ \E b \in backend : BOutIn(b, backend) = m

Emit == (Export /\ phase = "case") =>
           PrintT(<<"CASE", ToJson([perms |-> perms, perms2 |-> perms2, proxy |-> proxy, backend |-> backend])>>)
=============================================================================
