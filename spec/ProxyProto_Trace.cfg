SPECIFICATION TSpec
CONSTANTS
  DB = 8
  W4 = 4
  W6 = 16
  TagOnes = 2
  Mode = "none"
  NoUnmap = FALSE
INVARIANT Mark
POSTCONDITION Accepted2
CHECK_DEADLOCK FALSE
