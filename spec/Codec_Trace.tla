---------------------------- MODULE Codec_Trace ----------------------------
(* Judges recorded I/O of the real util.Write* / util.Read* (harness/c03):

   {"ev":"reset","k","fn","cls"}            start of a group (one real function pair, one input class)
   {"ev":"enc","k","v","out","err","panic"} a writer was given v and produced bytes out
   {"ev":"dec","k","in","max","rd","ok","v","n","panic","alloc","rn"}
                                            a reader was given bytes in (rd = "buf": bytes.Reader,
                                            "one": one byte per Read, no ByteReader; "bbuf": bytes.Buffer,
                                            "bufio": bufio.Reader, "lim": io.LimitedReader) and returned value v
                                            having consumed n bytes (ok = no error); alloc = bytes allocated
                                            during the call (-1: not measured); rn = byte count reported by
                                            the function itself (-1: none)
   {"ev":"big", ...}                        the same for byte strings too long to log: header bytes hdr,
                                            body length len, bytes written wrote, reader given the first
                                            cut bytes returned rlen bytes, consumed rn; bodysame / same =
                                            the harness compared the (opaque) body bytes

   A line is accepted iff the real outcome is the one lib/Wire.tla requires:
     enc   out = Enc(k, v), no error
     dec   Dec(k, in, max) succeeds  => same value, same byte count, no error
           Dec(k, in, max) fails     => an error (never a value), in particular for every strict
                                        prefix of a valid encoding
           never a panic; a negative / oversized length prefix is refused without allocating for
           the body (alloc <= AllocSlack); an element count beyond the input is refused with at most
           the capped pre-allocation (alloc <= PreallocCap). *)
EXTENDS Codec, TraceLib

AllocSlack == 65536          \* bytes: error values, small buffers
PreallocCap == 2097152 + AllocSlack

LenPrefix(k, n) == CASE k \in {"string", "bytes"} -> EncVarInt(n)
                     [] k \in {"bytes17", "bytes17x"} -> EncExtShort(n)
                     [] k = "utf" -> EncU16(n)

TReset == IsEv("reset") /\ UNCHANGED c

TEnc == /\ IsEv("enc")
        /\ ~Rec.panic /\ ~Rec.err
        /\ Rec.out = Enc(Rec.k, Rec.v)
        /\ UNCHANGED c

TDec == /\ IsEv("dec")
        /\ ~Rec.panic
        /\ LET d == Dec(Rec.k, Rec.in, Rec.max) IN
             IF d.ok THEN /\ Rec.ok
                          /\ Rec.v = d.v
                          /\ Rec.n = d.n
                          /\ Rec.rn >= 0 => Rec.rn = d.n
                     ELSE ~Rec.ok
        /\ (Rec.alloc >= 0 /\ HostilePrefix(Rec.k, Rec.in, Rec.max)) => Rec.alloc <= AllocSlack
        /\ Rec.alloc >= 0 => Rec.alloc <= PreallocCap
        /\ UNCHANGED c

\* limits of the formats for long bodies: what the reader must accept
BigLimit(k, max) == CASE k = "string" -> StrMaxBytes(max)
                      [] k = "bytes" -> max
                      [] k \in {"bytes17", "bytes17x"} -> ForgeMaxArrayLength
                      [] k = "utf" -> 65535

TBig == /\ IsEv("big")
        /\ ~Rec.panic /\ ~Rec.werr
        /\ Rec.hdr = LenPrefix(Rec.k, Rec.len)
        /\ Rec.wrote = Len(Rec.hdr) + Rec.len
        /\ Rec.bodysame
        /\ IF Rec.cut = Rec.wrote /\ Rec.len <= BigLimit(Rec.k, Rec.max)
             THEN Rec.rok /\ Rec.rlen = Rec.len /\ Rec.rn = Rec.wrote /\ Rec.same
             ELSE ~Rec.rok
        /\ UNCHANGED c

TNext == TReset \/ TEnc \/ TDec \/ TBig
TSpec == c = 0 /\ CursorInit /\ [][TNext]_<<c, l>>
=============================================================================
