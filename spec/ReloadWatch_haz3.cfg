SPECIFICATION Spec
CONSTANTS
  Contents = {"A", "B"}
  MaxOps = 3
  Kinds = {"write"}
  Fates = {"deliver", "drop"}
  Recheck = FALSE
  Export = TRUE
INVARIANTS EmitHazard
