SPECIFICATION Spec
CONSTANTS
  Contents = {"A", "B"}
  MaxOps = 3
  Kinds = {"write"}
  Fates = {"deliver", "drop"}
  Rejects = {}
  CbOps = "none"
  Recheck = FALSE
  Post = "none"
  Record = "always"
  Breaks = FALSE
  Blind = FALSE
  Export = TRUE
INVARIANTS EmitHazard
