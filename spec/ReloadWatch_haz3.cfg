SPECIFICATION Spec
CONSTANTS
  Contents = {"A", "B"}
  MaxOps = 3
  Kinds = {"write"}
  Fates = {"deliver", "drop"}
  Rejects = {}
  CbOps = "none"
  Recheck = FALSE
  Post = "none"
  Record = "always"
  Export = TRUE
INVARIANTS EmitHazard
