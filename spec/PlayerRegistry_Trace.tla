------------------------ MODULE PlayerRegistry_Trace ------------------------
(* Trace acceptor for histories recorded by harness/c11 from the real registry.
   Insert / Remove are silent (unlogged) steps: run with the DFS queue. *)
EXTENDS PlayerRegistry, TraceLib

tvars == <<rvars, l>>

\* Rec.conns = sequence of [c, id, name]
ConnMap(s) == [c \in {s[i].c : i \in 1..Len(s)} |->
                 LET i == CHOOSE j \in 1..Len(s) : s[j].c = c IN [id |-> s[i].id, name |-> s[i].name]]

TInit == CursorInit /\ RInit(FALSE, <<>>)

TReset == IsEv("reset") /\ LET m == ConnMap(Rec.conns) IN
            /\ kick' = Rec.kick
            /\ cn' = m
            /\ phase' = [c \in DOMAIN m |-> "idle"]
            /\ reg' = [c \in DOMAIN m |-> "no"]
            /\ disc' = [c \in DOMAIN m |-> FALSE]
            /\ replaced' = [c \in DOMAIN m |-> FALSE]
            /\ byId' = <<>> /\ byName' = <<>>

TLoginCall == IsEv("login.call") /\ LoginCall(Rec.c)
TLoginRet == IsEv("login.ret") /\ LoginRet(Rec.c, Rec.open)
TDiscCall == IsEv("disc.call") /\ DiscCall(Rec.c)
TDiscRet == IsEv("disc.ret") /\ DiscOver(Rec.c)
TDiscEvent == IsEv("disc.event") /\ DiscOver(Rec.c)
TLook == IsEv("look") /\ Look(Rec.ids, Rec.names, Rec.count, Rec.list)
\* end of a run: every call has returned
TEnd == IsEv("end") /\ (\A c \in Conns : phase[c] # "login") /\ UNCHANGED rvars
TSilent == Silent /\ \E c \in Conns : Insert(c) \/ Remove(c)

TNext == TReset \/ TLoginCall \/ TLoginRet \/ TDiscCall \/ TDiscRet \/ TDiscEvent
         \/ TLook \/ TEnd \/ TSilent
TSpec == TInit /\ [][TNext]_tvars
=============================================================================
