SPECIFICATION Spec
CONSTANTS
  Big = TRUE
  Sample = 250
INVARIANTS Sane Emit
