SPECIFICATION Spec
CONSTANTS
  Payloads <- PayloadsQuick
  MaxWrites = 2
  Thresholds <- ThrQuick
  EmptyCompressed = FALSE
INVARIANTS TypeOK Delivered NoError AllRead
