------------------------------ MODULE LiteCount ------------------------------
(* C30 -- active-connection counting under concurrency.

   Code-shaped model of StrategyManager.TrackConnection and the closure it returns:
     track:    [activeConnections[key]++]   gate lb.track.mid    [strategy counter ++]
     untrack:  [strategy counter --]        gate lb.untrack.mid  [activeConnections[key]--]
   Each worker thread tracks one connection and later untracks it; an observer thread
   reads ActiveConnections() (the sum of activeConnections) between any two steps.

   Abstract rule (CountOK, also used by the trace spec): a value read while calls
   overlap lies between  #track calls returned - #untrack calls begun  and
   #track calls begun - #untrack calls returned;  with no call in progress it equals
   the number of open connections, and it is zero when all are closed. *)
EXTENDS Integers, Sequences, FiniteSets, TLC, Json

CONSTANTS Workers,    \* e.g. {"w1","w2"}
          Observer,   \* e.g. "o"
          Reads,      \* how many reads the observer makes
          Export

VARIABLES pc,         \* worker -> "idle","t1","t2","held","u1","u2","done"
          total,      \* sum of activeConnections
          strat,      \* sum of strategy counters
          tb, te, ub, ue,   \* track calls begun/ended, untrack calls begun/ended
          reads, lastRead, h

vars == <<pc, total, strat, tb, te, ub, ue, reads, lastRead, h>>
View == <<pc, total, strat, tb, te, ub, ue, reads, lastRead>>

Init == /\ pc = [w \in Workers |-> "idle"]
        /\ total = 0 /\ strat = 0
        /\ tb = 0 /\ te = 0 /\ ub = 0 /\ ue = 0
        /\ reads = 0 /\ lastRead = [n |-> 0, ok |-> TRUE] /\ h = <<>>

CountOK(n, b1, e1, b2, e2) == e1 - b2 <= n /\ n <= b1 - e2 /\ n >= 0

Go(w, to) == pc' = [pc EXCEPT ![w] = to] /\ h' = Append(h, w)

\* worker released from its start gate: runs TrackConnection up to lb.track.mid
Track1(w) == /\ pc[w] = "idle" /\ Go(w, "t1")
             /\ tb' = tb + 1 /\ total' = total + 1
             /\ UNCHANGED <<strat, te, ub, ue, reads, lastRead>>
\* ... finishes TrackConnection, then parks at the harness's own gate "hold"
Track2(w) == /\ pc[w] = "t1" /\ Go(w, "held")
             /\ strat' = strat + 1 /\ te' = te + 1
             /\ UNCHANGED <<total, tb, ub, ue, reads, lastRead>>
\* runs the returned closure up to lb.untrack.mid
Untrack1(w) == /\ pc[w] = "held" /\ Go(w, "u1")
               /\ ub' = ub + 1 /\ strat' = strat - 1
               /\ UNCHANGED <<total, tb, te, ue, reads, lastRead>>
Untrack2(w) == /\ pc[w] = "u1" /\ Go(w, "done")
               /\ total' = total - 1 /\ ue' = ue + 1
               /\ UNCHANGED <<strat, tb, te, ub, reads, lastRead>>
Read == /\ reads < Reads
        /\ reads' = reads + 1 /\ lastRead' = [n |-> total, ok |-> CountOK(total, tb, te, ub, ue)]
        /\ h' = Append(h, Observer)
        /\ UNCHANGED <<pc, total, strat, tb, te, ub, ue>>

Next == Read \/ \E w \in Workers : Track1(w) \/ Track2(w) \/ Untrack1(w) \/ Untrack2(w)
Spec == Init /\ [][Next]_vars

ReadOK == lastRead.ok
Quiet == (tb = te /\ ub = ue) => total = te - ue
AllDone == (\A w \in Workers : pc[w] = "done") /\ reads = Reads
ZeroAtEnd == AllDone => total = 0 /\ strat = 0

Emit == (Export /\ AllDone) => PrintT(<<"SCHED", ToJson(h)>>)
=============================================================================
