SPECIFICATION TSpec
CONSTANTS
  Backends = {"b1", "b2", "b3", "b4"}
  MaxJoins = 1000
INVARIANTS Mark TypeOK PlayImpliesJoined NoBackendBeforeLogin CfgAckOrder
POSTCONDITION Accepted
CHECK_DEADLOCK FALSE
