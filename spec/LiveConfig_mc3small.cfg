SPECIFICATION Spec
CONSTANTS
  Threads = {"t1", "t2", "t3"}
  Cands = {"A", "inv"}
  Atomic = TRUE
  Export = FALSE
VIEW View
INVARIANTS TypeOK Published CAS
PROPERTY RejectedUnchanged
