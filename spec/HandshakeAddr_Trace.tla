------------------------ MODULE HandshakeAddr_Trace ------------------------
(* One line per login driven through the live proxy (all strings as UTF-8 byte arrays):
   {"ev":"case","mode":..,"hook":..,"proto":n,
    "vh":[[..],..]          the client's handshake server address split on NUL
    "reached":bool          the fake backend received a handshake for this player
    "parts":[[..],..]       the backend's handshake server address split on NUL
    "backendAddr":[..],"backendHost":[..]   the backend's configured address (host:port / host)
    "ip":[..]               the source address the client dialled from
    "uuid":[16 bytes],"props":[{"n":[..],"v":[..],"s":[..]},..]   the player's profile
    "secret":[..]           configured bungeeguard secret
    "jsonok":bool,"gotprops":[{"n","v","s"},..]   part 4 parsed like BungeeCord/Spigot (Gson into
                            name/value/signature; JSON null = no properties; absent signature = [])
   }
   A login that never reached the backend carries no obligation (counted by the check). *)
EXTENDS HandshakeAddr, TraceLib

CONSTANT Collect   \* FALSE: a forbidden line stops the trace (verdict);
                   \* TRUE: TLC prints <<"REJECT", line>> for every forbidden line and goes on
                   \*       (second pass, only to list all of them at once)

Allowed == Rec.reached => Judge(Rec)
TCase == /\ IsEv("case")
         /\ IF Allowed THEN TRUE ELSE (Collect /\ PrintT(<<"REJECT", l>>))
         /\ UNCHANGED sc
TNext == TCase
TSpec == sc = <<>> /\ CursorInit /\ [][TNext]_<<sc, l>>
=============================================================================
