SPECIFICATION Spec
CONSTANTS
  NonceLen = 16
  MaxEnv = 16384
  Nums = {5, 6, 9, 12}
  MaxFields = 3
  ExportMin = -1
  Broken = FALSE
INVARIANTS Equiv NeverDowngraded OnlyListed
