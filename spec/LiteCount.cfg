SPECIFICATION Spec
CONSTANTS
  Workers = {"w1", "w2", "w3"}
  Observer = "o"
  Reads = 2
  Export = FALSE
VIEW View
INVARIANTS ReadOK Quiet ZeroAtEnd
