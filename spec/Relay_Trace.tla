---------------------------- MODULE Relay_Trace ----------------------------
(* Judges what the endpoints of the live rig logged while pumping a scenario through
   the real proxy.  Lines (one run = one client on one backend):
     {"ev":"reset","ver":n,"cthr":t,"bthr":t}           real thresholds (-1 = off)
     {"ev":"send","dir":d,"id":n,"len":n,"hash":s,"kind":k}
         logged by the sending endpoint *before* the write; len/hash are of the payload
         (packet id VarInt + body) as handed to the harness codec
     {"ev":"recv","dir":d,"id":n,"len":n,"hash":s,"comp":bool,"flen":n}
         logged by the receiving endpoint after it decoded a frame whose id is one of the
         scenario's relayed ids; comp/flen = how the frame travelled on the last hop
     {"ev":"end","dir":d,"closed":bool}
         the direction is quiescent: everything was sent and the receiver saw nothing
         more for a long time (or its connection ended)
   Packets the proxy originates itself (registered ids) are not part of the trace. *)
EXTENDS Relay, TraceLib

tv == <<vars, l>>

TInit == /\ CursorInit
         /\ ver = 0 /\ cthr = 0 /\ bthr = 0 /\ h = <<>>
         /\ sent = [d \in Dirs |-> <<>>] /\ recv = [d \in Dirs |-> <<>>]
         /\ pos = [d \in Dirs |-> 0]

TReset == /\ IsEv("reset")
          /\ ver' = Rec.ver /\ cthr' = Rec.cthr + 1 /\ bthr' = Rec.bthr + 1 /\ h' = <<>>
          /\ sent' = [d \in Dirs |-> <<>>] /\ recv' = [d \in Dirs |-> <<>>]
          /\ pos' = [d \in Dirs |-> 0]

TSend == /\ IsEv("send")
         /\ sent' = [sent EXCEPT ![Rec.dir] =
                        Append(@, [id |-> Rec.id, len |-> Rec.len, hash |-> Rec.hash, kind |-> Rec.kind])]
         /\ UNCHANGED <<ver, cthr, bthr, pos, recv, h>>

\* threshold (+1) of the hop a packet of direction d arrives on
DstThr(d) == IF d = "c2s" THEN bthr ELSE cthr

\* the next packet the receiver of direction d may see: the oldest relayed one not yet
\* delivered, identical in id, length and content, framed acceptably for that hop
TRecv == /\ IsEv("recv")
         /\ LET d == Rec.dir
                exp == NonIcpt(sent[d])
                k == Len(recv[d]) + 1
            IN /\ k <= Len(exp)
               /\ exp[k].id = Rec.id /\ exp[k].len = Rec.len /\ exp[k].hash = Rec.hash
               /\ Acceptable(DstThr(d), Rec.len, Rec.comp, Rec.flen)
               /\ recv' = [recv EXCEPT ![d] = Append(@, exp[k])]
         /\ UNCHANGED <<ver, cthr, bthr, sent, pos, h>>

TEnd == /\ IsEv("end")
        /\ recv[Rec.dir] = NonIcpt(sent[Rec.dir])
        /\ pos' = [pos EXCEPT ![Rec.dir] = Len(sent[Rec.dir])]
        /\ UNCHANGED <<ver, cthr, bthr, sent, recv, h>>

TNext == TReset \/ TSend \/ TRecv \/ TEnd
TSpec == TInit /\ [][TNext]_tv

\* the abstract invariants hold along every accepted trace as well
TraceInv == InOrderNoLossNoDup
=============================================================================
