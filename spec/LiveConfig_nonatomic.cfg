SPECIFICATION Spec
CONSTANTS
  Threads = {"t1", "t2"}
  Cands = {"A", "B", "same", "inv", "other"}
  Atomic = FALSE
  Export = FALSE
VIEW View
INVARIANTS TypeOK Published CAS
PROPERTY RejectedUnchanged
