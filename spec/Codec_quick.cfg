SPECIFICATION Spec
CONSTANTS
  Mode = "quick"
  Bug = "none"
INVARIANTS Holds Emit
