----------------------------- MODULE ReloadWatch -----------------------------
(* C38 -- config file reload fires once for the final content despite lost
   filesystem events.

   Design model of pkg/internal/reload's watch loop and its environment.

   Environment (at most MaxOps file operations, then the file stays as it is):
     Op(kind, c, fate)   kind in write / replace (atomic rename) / delete (c = "missing");
                         fate of the filesystem notification: "deliver" (queued, arrives
                         at any later time), "drop" (lost), "dup" (queued twice)
   Loop (one goroutine):
     EvDeliver           a queued notification arrives: reconcile
     Tick                periodic reconciliation: reconcile
     reconcile           fingerprint the file; if it differs from `observed`, remember it
                         and (re)arm the debounce timer
     Fire                debounce expires: if observed # evaluated, evaluated := observed
                         and the callback runs; the callback itself reads the file
                         (`loaded` := what it read)
   Recheck = TRUE models the loop fingerprinting the file again when the debounce
   expires and debouncing again if it moved on (so the callback evaluates what
   it reads); Recheck = FALSE is the loop that trusts the fingerprint taken at
   the last reconciliation.

   Safety: the callback never runs for a fingerprint equal to the last evaluated
   one (so consecutive calls differ).  Liveness (WF on Tick and Fire, no state
   constraint): once the file stays unchanged, eventually and forever
   evaluated = file, and what the application loaded is the file's content. *)
EXTENDS Naturals, Sequences, FiniteSets, TLC, Json

CONSTANTS Contents,   \* e.g. {"A", "B"}
          MaxOps,
          Kinds,      \* subset of {"write", "replace"}: how a content is put in place
          Fates,      \* subset of {"deliver", "drop", "dup"}: what happens to the notification
          Recheck,    \* BOOLEAN
          Export      \* BOOLEAN: record behaviours (h) and print them as scenarios

VARIABLES file, observed, evaluated, armed, pending, loaded, nops, calls, h
vars == <<file, observed, evaluated, armed, pending, loaded, nops, calls, h>>
View == <<file, observed, evaluated, armed, pending, loaded, nops, calls>>

Missing == "missing"

Init == /\ file \in Contents
        /\ observed = file /\ evaluated = file /\ loaded = file
        /\ armed = FALSE /\ pending = 0 /\ nops = 0 /\ calls = <<>> /\ h = <<[a |-> "init", c |-> file]>>

Log(e) == h' = IF Export THEN Append(h, e) ELSE h

Op(kind, c, fate) ==
    /\ nops < MaxOps
    /\ kind = "delete" <=> c = Missing
    /\ kind = "delete" => file # Missing
    /\ file' = c /\ nops' = nops + 1
    /\ pending' = IF fate = "drop" THEN pending
                  ELSE IF fate = "deliver" THEN (IF pending < 2 THEN pending + 1 ELSE 2)
                  ELSE 2
    /\ Log([a |-> "op", kind |-> kind, c |-> c, fate |-> fate])
    /\ UNCHANGED <<observed, evaluated, armed, loaded, calls>>

Reconcile == IF file # observed
               THEN observed' = file /\ armed' = TRUE
               ELSE UNCHANGED <<observed, armed>>

EvDeliver == /\ pending > 0 /\ pending' = pending - 1
             /\ Reconcile /\ Log([a |-> "ev"])
             /\ UNCHANGED <<file, evaluated, loaded, nops, calls>>

\* when exporting, only ticks that see a change are kept (the others change nothing)
Tick == /\ (Export => file # observed)
        /\ Reconcile /\ Log([a |-> "tick"])
        /\ UNCHANGED <<file, evaluated, pending, loaded, nops, calls>>

Fire == /\ armed
        /\ Log([a |-> "fire"])
        /\ IF Recheck /\ file # observed
             THEN /\ observed' = file /\ armed' = TRUE           \* moved on: debounce again
                  /\ UNCHANGED <<evaluated, loaded, calls>>
             ELSE /\ armed' = FALSE /\ UNCHANGED observed
                  /\ IF observed # evaluated
                       THEN /\ evaluated' = observed
                            /\ loaded' = file                    \* the callback reads the file itself
                            /\ calls' = Append(calls, observed)
                       ELSE UNCHANGED <<evaluated, loaded, calls>>
        /\ UNCHANGED <<file, pending, nops>>

Env == \/ \E k \in Kinds, c \in Contents, f \in Fates : Op(k, c, f)
       \/ \E f \in Fates : Op("delete", Missing, f)
Next == Env \/ EvDeliver \/ Tick \/ Fire

Spec == Init /\ [][Next]_vars
FairSpec == Spec /\ WF_vars(Tick) /\ WF_vars(Fire)

----------------------------------------------------------------------------
TypeOK == /\ file \in Contents \cup {Missing}
          /\ observed \in Contents \cup {Missing} /\ evaluated \in Contents \cup {Missing}
          /\ pending \in 0..2 /\ nops \in 0..MaxOps

\* never a call for content equal to what was last evaluated: consecutive calls differ,
\* and the first differs from the initial content
NoRepeat == /\ \A i \in 1..(Len(calls) - 1) : calls[i] # calls[i + 1]
            /\ Len(calls) > 0 => calls[Len(calls)] = evaluated
NeverForEvaluated == [][calls' # calls => calls'[Len(calls')] # evaluated]_vars

\* once the file stays unchanged: the loop has evaluated exactly that content ...
Converges == <>[](evaluated = file)
\* ... and the callback that evaluated it ran for that content (what was loaded is the file)
LoadsFinal == <>[](file # Missing => loaded = file)

Quiet == nops = MaxOps /\ ~armed /\ pending = 0 /\ observed = file
\* hazard: the loop is at rest although the application did not load the file's content
Hazard == Quiet /\ file # Missing /\ loaded # file
\* at rest with a stale load: from here only stuttering is possible, so LoadsFinal fails
NoHazard == ~Hazard
EmitHazard == (Export /\ Hazard) => PrintT(<<"SCEN", ToJson([steps |-> h, hazard |-> TRUE])>>)
Emit == (Export /\ Quiet) => PrintT(<<"SCEN", ToJson([steps |-> h, hazard |-> Hazard])>>)
=============================================================================
