----------------------------- MODULE ReloadWatch -----------------------------
(* C38 -- config file reload fires once for the final content despite lost
   filesystem events.

   Design model of pkg/internal/reload's watch loop and its environment.

   Environment (at most MaxOps file operations, then the file stays as it is):
     Op(kind, c, fate)   kind in write / replace (atomic rename) / delete (c = "missing");
                         fate of the filesystem notification: "deliver" (queued, arrives
                         at any later time), "drop" (lost), "dup" (queued twice).
                         Operations may also fall into the window of a running callback
                         (CbOps: "none", "one" = at most one per callback, "both" = any).
     Break               (Breaks = TRUE) the event watcher fails at run time and cannot be
                         created again: from then on every notification is lost
   Loop (one goroutine):
     EvDeliver           a queued notification arrives: reconcile
     Tick                periodic reconciliation: reconcile
     reconcile           fingerprint the file; if it differs from `observed`, remember it
                         and (re)arm the debounce timer
     Fire                debounce expires.  Recheck: fingerprint the file again and debounce
                         again if it moved on.  Otherwise, if observed # evaluated, the
                         callback starts for `observed` (CbStart is part of this step)
     CbRead              the callback reads the file itself (`loaded` := what it read) and
                         accepts or rejects what it read (Rejects)
     CbEnd               the callback returns.  Record = "always": the fingerprint was
                         recorded as evaluated when the callback started; "accept": only
                         now and only if it accepted.  Post = "forget": if the file no
                         longer carries that fingerprint the evaluation is forgotten and the
                         debounce re-armed; "rearm": only re-armed; "none": nothing.

     Blind = TRUE: without an event watcher the periodic reconciliation is skipped too.

   The watch loop as it is: Recheck = TRUE, Post = "forget", Record = "always", Blind = FALSE.
   The other values are designs that look plausible and are wrong; TLC shows that they
   reach a Hazard (the loop at rest although the callback did not run for, or the
   application did not load, the file's content), and every behaviour that ends in a hazard
   is exported as a scenario for the real loop.

   Safety: the callback never starts for the fingerprint recorded as evaluated.
   Liveness (WF on the loop's steps, no state constraint): once the file stays unchanged,
   eventually and forever the callback has run for exactly that content and what the
   application loaded is that content. *)
EXTENDS Naturals, Sequences, FiniteSets, TLC, Json

CONSTANTS Contents,   \* e.g. {"A", "B"}
          MaxOps,
          Kinds,      \* subset of {"write", "replace"}: how a content is put in place
          Fates,      \* subset of {"deliver", "drop", "dup"}: what happens to the notification
          Rejects,    \* contents the callback rejects
          CbOps,      \* "none" | "one" | "both": file operations inside a callback's window
          Recheck,    \* BOOLEAN
          Post,       \* "none" | "rearm" | "forget"
          Record,     \* "always" | "accept"
          Breaks,     \* BOOLEAN: the watcher may break for good
          Blind,      \* BOOLEAN: no reconciliation while there is no watcher
          Export      \* BOOLEAN: record behaviours (h) and print them as scenarios

VARIABLES file, observed, evaluated, armed, pending, loaded, ran, cb, cand, cbn, nops, calls, broken, h
vars == <<file, observed, evaluated, armed, pending, loaded, ran, cb, cand, cbn, nops, calls, broken, h>>

Missing == "missing"
Unknown == "unknown"

Init == /\ file \in Contents \ Rejects
        /\ observed = file /\ evaluated = file /\ loaded = file /\ ran = file
        /\ armed = FALSE /\ pending = 0 /\ nops = 0 /\ calls = <<>>
        /\ cb = "idle" /\ cand = file /\ cbn = 0 /\ broken = FALSE
        /\ h = <<[a |-> "init", c |-> file]>>

Log(es) == h' = IF Export THEN h \o es ELSE h

Op(kind, c, fate) ==
    /\ nops < MaxOps
    /\ kind = "delete" <=> c = Missing
    /\ kind = "delete" => file # Missing
    /\ cb # "idle" => (CbOps = "both" \/ (CbOps = "one" /\ cbn = 0))
    /\ cbn' = IF cb # "idle" THEN cbn + 1 ELSE cbn
    /\ file' = c /\ nops' = nops + 1
    /\ pending' = IF fate = "drop" \/ broken THEN pending
                  ELSE IF fate = "deliver" THEN (IF pending < 2 THEN pending + 1 ELSE 2)
                  ELSE 2
    /\ Log(<<[a |-> "op", kind |-> kind, c |-> c, fate |-> fate]>>)
    /\ UNCHANGED <<observed, evaluated, armed, loaded, ran, cb, cand, calls, broken>>

Reconcile == IF file # observed
               THEN observed' = file /\ armed' = TRUE
               ELSE UNCHANGED <<observed, armed>>

EvDeliver == /\ cb = "idle" /\ pending > 0 /\ pending' = pending - 1
             /\ Reconcile /\ Log(<<[a |-> "ev"]>>)
             /\ UNCHANGED <<file, evaluated, loaded, ran, cb, cand, cbn, nops, calls, broken>>

\* when exporting, only ticks that see a change are kept (the others change nothing)
Tick == /\ cb = "idle" /\ (Export => file # observed)
        /\ ~(Blind /\ broken)
        /\ Reconcile /\ Log(<<[a |-> "tick"]>>)
        /\ UNCHANGED <<file, evaluated, pending, loaded, ran, cb, cand, cbn, nops, calls, broken>>

\* the watcher fails (error on its channel) and every attempt to create a new one fails
Break == /\ Breaks /\ ~broken /\ cb = "idle"
         /\ broken' = TRUE /\ pending' = 0
         /\ Log(<<[a |-> "break"]>>)
         /\ UNCHANGED <<file, observed, evaluated, armed, loaded, ran, cb, cand, cbn, nops, calls>>

Fire == /\ cb = "idle" /\ armed
        /\ IF Recheck /\ file # observed
             THEN /\ observed' = file /\ armed' = TRUE           \* moved on: debounce again
                  /\ Log(<<[a |-> "fire"]>>)
                  /\ UNCHANGED <<evaluated, ran, cb, cand, cbn, calls>>
             ELSE /\ armed' = FALSE /\ UNCHANGED observed
                  /\ IF observed # evaluated
                       THEN /\ evaluated' = IF Record = "always" THEN observed ELSE evaluated
                            /\ cand' = observed /\ ran' = observed /\ cb' = "started" /\ cbn' = 0
                            /\ calls' = Append(calls, observed)
                            /\ Log(<<[a |-> "fire"], [a |-> "cbstart"]>>)
                       ELSE /\ Log(<<[a |-> "fire"]>>)
                            /\ UNCHANGED <<evaluated, ran, cb, cand, cbn, calls>>
        /\ UNCHANGED <<file, pending, loaded, nops, broken>>

CbRead == /\ cb = "started" /\ cb' = "read"
          /\ loaded' = file                                       \* the callback reads the file itself
          /\ Log(<<[a |-> "cbread"]>>)
          /\ UNCHANGED <<file, observed, evaluated, armed, pending, ran, cand, cbn, nops, calls, broken>>

CbEnd == /\ cb = "read" /\ cb' = "idle"
         /\ Log(<<[a |-> "cbend"]>>)
         /\ LET ev1 == IF Record = "accept" /\ loaded \notin Rejects THEN cand ELSE evaluated
                moved == Post # "none" /\ file # cand
            IN /\ evaluated' = IF moved /\ Post = "forget" THEN Unknown ELSE ev1
               /\ IF moved THEN observed' = file /\ armed' = TRUE
                           ELSE UNCHANGED <<observed, armed>>
         /\ UNCHANGED <<file, pending, loaded, ran, cand, cbn, nops, calls, broken>>

Env == \/ \E k \in Kinds, c \in Contents, f \in Fates : Op(k, c, f)
       \/ \E f \in Fates : Op("delete", Missing, f)
Loop == EvDeliver \/ Tick \/ Fire \/ CbRead \/ CbEnd
Next == Env \/ Break \/ Loop

Spec == Init /\ [][Next]_vars
FairSpec == Spec /\ WF_vars(Tick) /\ WF_vars(Fire) /\ WF_vars(CbRead) /\ WF_vars(CbEnd)

----------------------------------------------------------------------------
TypeOK == /\ file \in Contents \cup {Missing}
          /\ observed \in Contents \cup {Missing}
          /\ evaluated \in Contents \cup {Missing, Unknown}
          /\ pending \in 0..2 /\ nops \in 0..MaxOps /\ cb \in {"idle", "started", "read"}

\* never a call for the fingerprint recorded as evaluated
NeverForEvaluated == [][calls' # calls => calls'[Len(calls')] # evaluated]_vars

\* once the file stays unchanged: the callback has run for exactly that content ...
Converges == <>[](ran = file)
\* ... and what the application loaded then is the file's content
LoadsFinal == <>[](file # Missing => loaded = file)

Quiet == nops = MaxOps /\ cb = "idle" /\ ~armed /\ pending = 0
         /\ (observed = file \/ (Blind /\ broken))
\* at rest, and the callback did not run for / the application did not load the file's
\* content: from here only stuttering is possible, so Converges / LoadsFinal fail
Hazard == Quiet /\ file # Missing /\ (loaded # file \/ ran # file)
NoHazard == ~Hazard
Scen(hz) == ToJson([steps |-> h, hazard |-> hz, rejects |-> Rejects])
EmitHazard == (Export /\ Hazard) => PrintT(<<"SCEN", Scen(TRUE)>>)
Emit == (Export /\ Quiet) => PrintT(<<"SCEN", Scen(Hazard)>>)
=============================================================================
