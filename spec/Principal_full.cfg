SPECIFICATION Spec
CONSTANTS
  NonceLen = 16
  MaxEnv = 16384
  Nums = {1, 5, 6, 7, 8, 9, 10, 11, 12, 13}
  MaxFields = 2
  Fanout = 0
  ExportMin = 0
  Broken = FALSE
INVARIANTS Equiv NeverDowngraded OnlyListed Emit
