SPECIFICATION Spec
CONSTANTS
  Workers = {"w1", "w2", "w3"}
  Observer = "o"
  Picks = 2
  Locked = TRUE
  Export = FALSE
VIEW View
INVARIANT PickOK
