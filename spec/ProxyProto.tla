----------------------------- MODULE ProxyProto -----------------------------
(* C33 -- PROXY protocol headers are honoured only from trusted upstreams.

   Part 1: the rules on abstract addresses (a family and a sequence of DB-bit digits;
           bytes for real addresses): normalisation (unmap IPv4-in-IPv6, drop the zone),
           CIDR membership (whole digits + the leading bits of the next one), trust of a
           peer under a list of prefixes, and the outcome of a wrapped connection.
           Digit size and widths are constants so that TLC can check the rules
           exhaustively on a scaled address space (2-bit digits, 1-digit "v4" inside a
           2- or 3-digit "v6"), against plain arithmetic on the address value, and
           evaluate the same operators on 4 / 16 bytes.
   Part 2: the textual grammar of IP addresses, CIDR blocks and host:port peer
           addresses on sequences of character codes (the reference reading that
           judges ParseTrustedNetworks / Contains on recorded strings).
   Part 3: the models (Mode = "scaled": every prefix x every peer;
           Mode = "vec": boundary-structured real-width cases, exported;
           Mode = "lists": configured lists of up to three entries, exported). *)
EXTENDS Integers, Sequences, FiniteSets, TLC, Json, IPText

CONSTANTS DB,          \* bits per digit (8: bytes)
          W4, W6,      \* address widths in digits
          TagOnes,     \* the mapped-v4 tag is (W6-W4-TagOnes) zero digits, then TagOnes all-ones digits (2 bytes)
          Mode,        \* "scaled" | "vec" | "none"
          NoUnmap      \* TRUE: a broken Norm that forgets to unmap (non-vacuity)

----------------------------------------------------------------------------
(* Part 1 *)
TagLen == W6 - W4
MaxDigit == (2 ^ DB) - 1
MapTag == [i \in 1..TagLen |-> IF i > TagLen - TagOnes THEN MaxDigit ELSE 0]
Width(fam) == IF fam = 4 THEN W4 ELSE W6          \* in digits
BitWidth(fam) == DB * Width(fam)

NonIP == [fam |-> 0, d |-> <<>>, zone |-> FALSE]
\* (TLC evaluates an operator argument again at every mention of the parameter but a LET
\*  definition only once, so operators LET-bind their parameters before using them)
IsMapped(a0) == LET a == a0 IN a.fam = 6 /\ SubSeq(a.d, 1, TagLen) = MapTag
Norm(a0) == LET a == a0 IN
            IF IsMapped(a) /\ ~NoUnmap
              THEN [fam |-> 4, d |-> SubSeq(a.d, TagLen + 1, W6), zone |-> FALSE]
              ELSE [a EXCEPT !.zone = FALSE]

\* a (normalised) lies in prefix q = [fam, d, n]: same family and the first n bits equal,
\* i.e. n \div DB whole digits and the leading n % DB bits of the next digit
InPrefix(a0, p0) == LET a == a0
                        q == p0
                        ad == a.d
                        qd == q.d
                        k == q.n \div DB
                        r == q.n % DB
                    IN /\ a.fam = q.fam
                       /\ \A i \in 1..k : ad[i] = qd[i]
                       /\ r > 0 => ad[k + 1] \div (2 ^ (DB - r)) = qd[k + 1] \div (2 ^ (DB - r))

\* the same by arithmetic on the whole address value (only usable for narrow addresses)
RECURSIVE Val(_)
Val(b) == IF b = <<>> THEN 0 ELSE (2 ^ DB) * Val(SubSeq(b, 1, Len(b) - 1)) + b[Len(b)]
InPrefixA(a0, p0) == LET a == a0
                         q == p0
                     IN a.fam = q.fam /\
                        Val(a.d) \div (2 ^ (BitWidth(q.fam) - q.n)) = Val(q.d) \div (2 ^ (BitWidth(q.fam) - q.n))

\* nets: a sequence of prefixes
Trusted(nets0, peer0) == LET nets == nets0
                             a == Norm(peer0)
                         IN a.fam # 0 /\ \E k \in 1..Len(nets) : InPrefix(a, nets[k])

\* A mapped peer that, read as a plain 128-bit address, lies in an IPv6 prefix: after
\* normalisation it is an IPv4 address and no IPv6 prefix holds it.  The statement fixes
\* the normalisation; whether such a list "contains" the peer is left open (either way ok).
Ambiguous(nets0, peer0) ==
    LET nets == nets0
        a == peer0
    IN /\ IsMapped(a) /\ ~Trusted(nets, a)
       /\ LET raw == [a EXCEPT !.zone = FALSE] IN \E k \in 1..Len(nets) : InPrefix(raw, nets[k])

Kinds == {"none", "v1tcp4", "v1tcp6", "v2tcp4", "v2tcp6", "v1unknown", "v2local", "garbage"}
AddrKinds == {"v1tcp4", "v1tcp6", "v2tcp4", "v2tcp6"}
\* "own": no error, the connection keeps the peer's address; "hdr": no error, the address is the
\* header's source; "fail": reading fails; "any": not constrained by the statement
Outcome(trusted, first) ==
    IF first = "none" THEN "own"
    ELSE IF first = "garbage" THEN "any"               \* starts like a header but is none
    ELSE IF ~trusted THEN "fail"
    ELSE IF first \in AddrKinds THEN "hdr" ELSE "any"  \* UNKNOWN / LOCAL carry no address

----------------------------------------------------------------------------
(* Part 2: text.  s is a sequence of character codes. *)
\* Dot, Colon, ..., HasCh, Count, Split, DecTok, ParseIP: see lib/IPText.tla

\* abstract address of a parsed ip (digits = bytes)
AddrOf(ip0) == LET ip == ip0 IN IF ip.st # "ok" THEN NonIP ELSE [fam |-> ip.fam, d |-> ip.bytes, zone |-> ip.zone]

\* A trusted-list entry: an IP or IP/len; IPv4-mapped forms are rejected.  Zoned entries and
\* leading zeros are "amb" (not required either way).
BadNet == [st |-> "bad"]
AmbNet == [st |-> "amb"]
ParseNet(s0) ==
    LET s == s0
        ns == Count(s, Slash)
    IN IF ns > 1 THEN BadNet
       ELSE LET t == Split(s, Slash)
                ip == ParseIP(t[1])
            IN IF ip.st = "bad" THEN BadNet
               ELSE IF ip.st = "amb" THEN AmbNet
               ELSE LET a == AddrOf(ip)
                        w == IF ip.fam = 4 THEN 32 ELSE 128
                        n == IF ns = 0 THEN w ELSE DecTok(t[2], w)
                    IN IF n = -1 THEN BadNet
                       ELSE IF IsMapped(a) THEN BadNet
                       ELSE IF n = -2 \/ ip.zone THEN AmbNet
                       ELSE [st |-> "ok", fam |-> ip.fam, d |-> a.d, n |-> n]

\* host part of a peer address text: "[h]:port", "h:port", or the text itself
HostOf(s0) ==
    LET s == s0 IN
    IF Len(s) > 0 /\ s[1] = LBr /\ HasCh(s, RBr)
      THEN LET j == CHOOSE i \in 1..Len(s) : s[i] = RBr /\ \A k \in 1..(i - 1) : s[k] # RBr
           IN SubSeq(s, 2, j - 1)
    ELSE IF Count(s, Colon) = 1
      THEN LET j == CHOOSE i \in 1..Len(s) : s[i] = Colon IN SubSeq(s, 1, j - 1)
    ELSE s

PeerOf(text) == AddrOf(ParseIP(HostOf(text)))

\* A configured trusted list: empty means "not configured" (the documented defaults apply);
\* otherwise every entry has to be a valid IP or CIDR.  A blank entry is not one.  An entry
\* with white space around a non-blank text is left open (readers trim or do not).
IsWs(c) == c \in {32, 9, 10, 11, 12, 13}
Blank(s0) == LET s == s0 IN \A i \in 1..Len(s) : IsWs(s[i])
EntryVerdict(s0) == LET s == s0 IN
                    IF Blank(s) THEN "bad"
                    ELSE IF IsWs(s[1]) \/ IsWs(s[Len(s)]) THEN "amb"
                    ELSE ParseNet(s).st
ListVerdict(list0) == LET list == list0
                          v == [k \in 1..Len(list) |-> EntryVerdict(list[k])]
                      IN IF \E k \in 1..Len(list) : v[k] = "bad" THEN "bad"
                         ELSE IF \E k \in 1..Len(list) : v[k] = "amb" THEN "amb" ELSE "ok"

----------------------------------------------------------------------------
(* Part 3: models *)
VARIABLES p, peer

AllDigits(w) == [1..w -> 0..MaxDigit]
\* flip / keep bits of a digit sequence; bit positions count from 1 at the most significant end
BitOf(b, k) == (b[(k - 1) \div DB + 1] \div (2 ^ (DB - 1 - ((k - 1) % DB)))) % 2
Flip(b, k) == LET i == (k - 1) \div DB + 1
                  w == 2 ^ (DB - 1 - ((k - 1) % DB))
              IN [b EXCEPT ![i] = IF BitOf(b, k) = 1 THEN @ - w ELSE @ + w]
Mask(b, n) == [i \in 1..Len(b) |->
                 IF i <= n \div DB THEN b[i]
                 ELSE IF i = n \div DB + 1 THEN (b[i] \div (2 ^ (DB - (n % DB)))) * (2 ^ (DB - (n % DB)))
                 ELSE 0]

ScaledPrefixes == [fam : {4}, d : AllDigits(W4), n : 0..(DB * W4)] \cup [fam : {6}, d : AllDigits(W6), n : 0..(DB * W6)]
ScaledPeers == [fam : {4}, d : AllDigits(W4), zone : {FALSE}] \cup [fam : {6}, d : AllDigits(W6), zone : BOOLEAN]
               \cup {NonIP}

Base4 == <<203, 0, 113, 77>>
Base6 == <<32, 1, 13, 184, 0, 66, 0, 0, 171, 205, 0, 0, 18, 52, 86, 120>>
Compat6 == <<0, 0, 0, 0, 0, 0, 0, 0, 0, 0, 0, 0, 203, 0, 113, 77>>   \* ::203.0.113.77, not mapped
Lens4 == {0, 1, 7, 8, 9, 16, 23, 24, 25, 31, 32}
Lens6 == {0, 1, 7, 8, 63, 64, 65, 95, 96, 97, 127, 128}
VecPrefixes == {[fam |-> 4, d |-> IF m THEN Mask(Base4, n) ELSE Base4, n |-> n] : n \in Lens4, m \in BOOLEAN}
               \cup {[fam |-> 6, d |-> IF m THEN Mask(Base6, n) ELSE Base6, n |-> n] : n \in Lens6, m \in BOOLEAN}
Flips(q) == {0} \cup ({q.n, q.n + 1, BitWidth(q.fam)} \cap 1..BitWidth(q.fam))
Fl(b, k) == IF k = 0 THEN b ELSE Flip(b, k)
VecPeers(q) ==
    IF q.fam = 4
      THEN {[fam |-> 4, d |-> Fl(Base4, k), zone |-> FALSE] : k \in Flips(q)}
           \cup {[fam |-> 6, d |-> MapTag \o Fl(Base4, k), zone |-> z] : k \in Flips(q), z \in BOOLEAN}
           \cup {[fam |-> 6, d |-> Base6, zone |-> FALSE], [fam |-> 6, d |-> Compat6, zone |-> FALSE]}
      ELSE {[fam |-> 6, d |-> Fl(Base6, k), zone |-> z] : k \in Flips(q), z \in BOOLEAN}
           \cup {[fam |-> 4, d |-> Base4, zone |-> FALSE],
                 [fam |-> 6, d |-> MapTag \o Base4, zone |-> FALSE]}

\* Mode "lists": p is a configured list of up to three entries (peer unused)
ListEntries == { <<49, 57, 50, 46, 48, 46, 50, 46, 49, 48>>,                       \* 192.0.2.10
                 <<49, 48, 46, 48, 46, 48, 46, 48, 47, 56>>,                       \* 10.0.0.0/8
                 <<50, 48, 48, 49, 58, 100, 98, 56, 58, 58, 47, 51, 50>>,          \* 2001:db8::/32
                 <<>>, <<32>>, <<9>>,                                              \* blank ones
                 <<98, 111, 103, 117, 115>>,                                       \* bogus
                 <<58, 58, 102, 102, 102, 102, 58, 49, 48, 46, 48, 46, 48, 46, 49>> } \* ::ffff:10.0.0.1
Lists == UNION {[1..n -> ListEntries] : n \in 0..3}

Init == IF Mode = "scaled" THEN p \in ScaledPrefixes /\ peer \in ScaledPeers
        ELSE IF Mode = "lists" THEN p \in Lists /\ peer = 0
        ELSE p \in VecPrefixes /\ peer \in VecPeers(p)
Next == UNCHANGED <<p, peer>>
Spec == Init /\ [][Next]_<<p, peer>>

T == Trusted(<<p>>, peer)

BitsEqArith == Mode = "scaled" => (InPrefix(Norm(peer), p) = InPrefixA(Norm(peer), p))
\* a mapped address is trusted exactly when the IPv4 address it carries is
MappedAsV4 == IsMapped(peer) =>
                 T = Trusted(<<p>>, [fam |-> 4, d |-> SubSeq(peer.d, TagLen + 1, W6), zone |-> FALSE])
ZoneIrrelevant == peer.fam = 6 => T = Trusted(<<p>>, [peer EXCEPT !.zone = ~@])
NonIPUntrusted == peer.fam = 0 => ~T
\* the statement
OnlyTrustedChangesAddress == \A f \in Kinds : Outcome(T, f) = "hdr" => T /\ f \in AddrKinds
UntrustedHeaderFails == \A f \in Kinds \ {"none", "garbage"} : ~T => Outcome(T, f) = "fail"
NoHeaderKeepsOwn == Outcome(T, "none") = "own"
\* /0 trusts the whole family, /W exactly one address
Extremes == /\ (p.n = 0 /\ Norm(peer).fam = p.fam) => T
            /\ (p.n = BitWidth(p.fam) /\ T) => Norm(peer).d = p.d

\* (Mode "lists") a list with a blank entry is never acceptable, an empty list always is,
\* and a non-empty list is acceptable exactly when each entry alone is
ListRules == /\ (\E k \in 1..Len(p) : Blank(p[k])) => ListVerdict(p) = "bad"
             /\ p = <<>> => ListVerdict(p) = "ok"
             /\ ListVerdict(p) = "ok" <=> \A k \in 1..Len(p) : ListVerdict(<<p[k]>>) = "ok"
EmitList == PrintT(<<"LIST", ToJson([list |-> p, verdict |-> ListVerdict(p)])>>)

Emit == Mode = "vec" =>
          PrintT(<<"VEC", ToJson([p |-> [fam |-> p.fam, bytes |-> p.d, n |-> p.n],
                                  peer |-> [fam |-> peer.fam, bytes |-> peer.d, zone |-> peer.zone],
                                  trusted |-> T, amb |-> Ambiguous(<<p>>, peer)])>>)
=============================================================================
