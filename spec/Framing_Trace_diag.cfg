SPECIFICATION TSpec
CONSTANTS
  Diagnose = TRUE
INVARIANT Mark
POSTCONDITION Accepted
CHECK_DEADLOCK FALSE
