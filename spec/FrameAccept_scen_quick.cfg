SPECIFICATION Spec
CONSTANTS
  Thresholds = {0, 256}
  Lenient = FALSE
INVARIANTS Clauses CapsOrdered Emit
