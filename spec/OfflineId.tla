----------------------------- MODULE OfflineId -----------------------------
(* C10 -- offline identities match vanilla; only valid user names are admitted.

   ValidName: 2..16 characters from A-Z a-z 0-9 _ (over code points).
   V3: the RFC 4122 name-based (version 3) bit fix-up of an MD5 digest, which is all that
   vanilla's UUID.nameUUIDFromBytes does after hashing ("OfflinePlayer:" + name in UTF-8;
   MD5 itself is uninterpreted here and instantiated by crypto/md5 in the harness).

   The model enumerates user names over a boundary alphabet; each becomes one login
   attempt against the live proxy. *)
EXTENDS Naturals, Sequences, TLC, Json

CONSTANTS Alphabet,     \* code points
          MaxShort      \* enumerate all names of length 0..MaxShort

Allowed == (48..57) \cup (65..90) \cup (97..122) \cup {95}

ValidName(cps) == /\ Len(cps) \in 2..16
                  /\ \A i \in 1..Len(cps) : cps[i] \in Allowed

V3(m) == [i \in 1..16 |-> IF i = 7 THEN (m[i] % 16) + 48
                          ELSE IF i = 9 THEN (m[i] % 64) + 128
                          ELSE m[i]]

\* version nibble 3, variant 10xx
IsV3(u) == (u[7] \div 16) = 3 /\ (u[9] \div 64) = 2

RECURSIVE Seqs(_)
Seqs(n) == IF n = 0 THEN {<<>>}
           ELSE LET S == Seqs(n - 1) IN S \cup {Append(s, c) : s \in {t \in S : Len(t) = n - 1}, c \in Alphabet}

Fill(n) == [i \in 1..n |-> 97 + (i % 26)]     \* valid filler letters

\* long names: a filler of length 14..17 with one boundary character substituted anywhere
Long == {[Fill(n) EXCEPT ![p] = c] : n \in 14..17, p \in {1, 8, 14}, c \in Alphabet}
        \cup {Fill(n) : n \in 14..18}

Names == Seqs(MaxShort) \cup Long

VARIABLE name
Init == name \in Names
Next == UNCHANGED name
Spec == Init /\ [][Next]_name

\* sanity of the reference: V3 output always carries version 3 / variant 2 and only touches bytes 7, 9
V3Shape == \A b \in {0, 15, 16, 127, 128, 255} :
             LET m == [i \in 1..16 |-> b] IN IsV3(V3(m)) /\ \A i \in (1..16) \ {7, 9} : V3(m)[i] = b
Emit == PrintT(<<"NAME", ToJson([cps |-> name, valid |-> ValidName(name)])>>)
=============================================================================
