---------------------------- MODULE Chat_Trace ----------------------------
(* Judges what the real chat queue / chat + command handlers did, as seen by the client
   side (packets handed to the play session handler) and by the backend connection
   (packets written to it).  It requires only what C21 states, NOT equality with the
   Velocity machine of Chat.tla:

     {"ev":"reset","fka":bool,"ucmd":bool,...}   new player; fka = forceKeyAuthentication
     {"ev":"recv","k","off","out","sig","txt","rtxt"}   client packet about to be handled
          (k/off/out/sig as in Chat.tla; txt = message / command text, rtxt = the command
          line the command event rewrites it to, "" if none)
     {"ev":"out","k","off","txt"}                packet written to the backend connection
          (k = chat | scmd | ucmd | ack by packet type; off = last-seen offset / ack offset,
          0 for an unsigned command, which has no such field)
     {"ev":"disc"}                               the proxy closed the client connection
     {"ev":"end"}                                every queued task completed

   Acceptor state: sent (client packets), next (first client packet not yet accounted
   for), bk (acknowledgements the backend got), closed.  An `out` is attributed to a
   client packet j >= next such that every packet in between may legitimately produce
   nothing (held acknowledgement, consumed / denied command); texts identify chat
   messages and commands, so the backend's order must be the client's order.  With
   C(j) = acknowledgements the client sent up to packet j, at every accounted packet:
   bk <= C(j), C(j) - bk < 40, and bk = C(j) after a forwarded packet that carries a
   last-seen update.  An unsigned command must arrive as an unsigned command. *)
EXTENDS Chat, TraceLib

VARIABLES bk, fka
tv == <<vars, bk, fka, l>>

Pin == UNCHANGED <<fam, phase, newoff, outp, delayed, lag, bad, blog, h>>

TInit == CursorInit /\ Init /\ fam = "pre1205" /\ bk = 0 /\ fka = FALSE

TReset == /\ IsEv("reset")
          /\ sent' = <<>> /\ next' = 1 /\ closed' = FALSE /\ bk' = 0 /\ fka' = Rec.fka
          /\ Pin

TRecv == /\ IsEv("recv")
         /\ sent' = Append(sent, Rec)
         /\ UNCHANGED <<next, closed, bk, fka>> /\ Pin

C(j) == Sum(sent, j)

(* packet m may be processed without the backend seeing anything *)
Quiet(m) == /\ LET q == sent[m] IN
                  \/ q.k = "ack"
                  \/ (q.k \in {"scmd", "ucmd"} /\ q.out \in {"consumed", "denied"})
             /\ C(m) - bk < 2 * Window

Text(q) == IF q.out = "rewritten" THEN q.rtxt ELSE q.txt

Matches(q, o) ==
    CASE o.k = "chat" -> q.k = "chat" /\ o.txt = q.txt
      [] o.k = "scmd" -> q.k = "scmd" /\ q.out \in {"forwarded", "rewritten"} /\ o.txt = Text(q)
      [] o.k = "ucmd" -> /\ o.off = 0 /\ o.txt = Text(q)
                         /\ \/ (q.k = "ucmd" /\ q.out \in {"forwarded", "rewritten"})
                            \/ (q.k = "scmd" /\ q.out = "rewritten")   \* rebuilt without signatures
      [] o.k = "ack"  -> q.k = "ack" \/ (q.k = "scmd" /\ q.out \in {"consumed", "denied"})
      [] OTHER -> FALSE

TOut == /\ IsEv("out")
        /\ \E j \in next..Len(sent) :
              /\ Matches(sent[j], Rec)
              /\ LET b2 == bk + Rec.off IN
                   /\ IF closed
                        THEN b2 <= C(Len(sent))           \* after a disconnect only order and safety matter
                        ELSE /\ \A m \in next..(j - 1) : Quiet(m)
                             /\ b2 <= C(j)
                             /\ C(j) - b2 < 2 * Window
                             /\ (Rec.k \in {"chat", "scmd"} => b2 = C(j))
                             /\ (sent[j].k = "ucmd" => Rec.k = "ucmd")
                   /\ bk' = b2
              /\ next' = j + 1
        /\ UNCHANGED <<sent, closed, fka>> /\ Pin

(* the proxy may give up on a player whose signed command it cannot pass on *)
TDisc == /\ IsEv("disc")
         /\ IF closed THEN UNCHANGED next
            ELSE /\ fka
                 /\ \E j \in next..Len(sent) :
                       /\ MayDisconnect(sent[j])
                       /\ \A m \in next..(j - 1) : Quiet(m)
                       /\ next' = j + 1
         /\ closed' = TRUE
         /\ UNCHANGED <<sent, bk, fka>> /\ Pin

TEnd == /\ IsEv("end")
        /\ (closed \/ \A m \in next..Len(sent) : Quiet(m))
        /\ UNCHANGED <<sent, next, closed, bk, fka>> /\ Pin

(* probe in its own process: a plugin changes a signed chat message while forceKeyAuthentication
   is on; the chat queue must survive it (idle again) and the player is disconnected.
   {"ev":"begin"} {"ev":"returned","idle","disc"} -- a dead process leaves {"ev":"crashed"}. *)
TBegin == IsEv("begin") /\ UNCHANGED <<sent, next, closed, bk, fka>> /\ Pin
TReturned == IsEv("returned") /\ Rec.idle /\ Rec.disc /\ UNCHANGED <<sent, next, closed, bk, fka>> /\ Pin

TNext == TReset \/ TRecv \/ TOut \/ TDisc \/ TEnd \/ TBegin \/ TReturned
TSpec == TInit /\ [][TNext]_tv
=============================================================================
