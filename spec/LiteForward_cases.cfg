SPECIFICATION Spec
CONSTANTS
  Hosts <- HostsDef
  Protos = {47, 765, 767, 128}
  Ports = {0, 25565, 65535}
  Nexts = {2, 3}
  Export = TRUE
INVARIANTS CodecRoundTrip RewriteAccepted Emit
