------------------------- MODULE ListingHist_Trace -------------------------
(* Trace acceptor for histories recorded by harness/c12.  Apply is a silent step. *)
EXTENDS ListingHist, TraceLib

tvars == <<lvars, l>>

TInit == CursorInit /\ HInit({})
TReset == IsEv("reset") /\ m' = ToSet(Rec.init) /\ wop' = <<>> /\ rd' = <<>>
TWCall == IsEv("w.call") /\ WCall(Rec.t, Rec.op, Rec.k)
TWRet == IsEv("w.ret") /\ WRet(Rec.t)
TRCall == IsEv("r.call") /\ RCall(Rec.t)
TRRet == IsEv("r.ret") /\
           IF Has(Rec, "list") THEN RRetList(Rec.t, Rec.list)
           ELSE IF Has(Rec, "count") THEN RRetCount(Rec.t, Rec.count)
           ELSE RRetClosed(Rec.t, Rec.closed)
TEnd == IsEv("end") /\ End
TSilent == Silent /\ \E t \in DOMAIN wop : Apply(t)

TNext == TReset \/ TWCall \/ TWRet \/ TRCall \/ TRRet \/ TEnd \/ TSilent
TSpec == TInit /\ [][TNext]_tvars
=============================================================================
