---------------------------- MODULE ReloadWatchObs ----------------------------
(* C38 -- abstract (property-level) specification of the config file watcher over
   what can be observed: file operations, the loop's reads of the file and its
   callback invocations.  It is the weakest spec that entails the property; it
   knows nothing about timers or notifications (lost, duplicated and delayed
   notifications are simply absent from it).

   file       what the file holds ("missing" when deleted); set when an operation begins
   since      every content the file held since the loop's last read (a read that is
              logged now may have happened just before the latest operation)
   torn       an in-place write (truncate + write) happened since then: a read may
              see any partial content
   inop       a file operation is in progress
   evaluated  fingerprint label the loop evaluated last (initially the initial content)
   loaded     what the application loaded last: the content the callback read
   cbp        a callback announced its fingerprint and has not read the file yet
   win        the callback window: from that announcement until the loop's first read of the
              file after the callback read it
   shaky      a file operation overlapped the callback window of the last evaluation: what
              the callback read cannot be known to the loop, the evaluation is not certain
   tStable    time the last file operation ended;  tCb  time of the last callback read *)
EXTENDS Integers, FiniteSets

VARIABLES file, since, torn, inop, evaluated, loaded, cbp, win, shaky, tStable, tCb, bound
ovars == <<file, since, torn, inop, evaluated, loaded, cbp, win, shaky, tStable, tCb, bound>>

OReset(init, b) == /\ file' = init /\ since' = {init} /\ torn' = FALSE /\ inop' = FALSE
                   /\ evaluated' = init /\ loaded' = init /\ cbp' = FALSE /\ win' = FALSE /\ shaky' = FALSE
                   /\ tStable' = 0 /\ tCb' = 0 /\ bound' = b

OpBegin(kind, c) == /\ ~inop /\ inop' = TRUE
                    /\ file' = c /\ since' = since \cup {c}
                    /\ torn' = (torn \/ kind = "write")
                    /\ shaky' = (shaky \/ win)
                    /\ UNCHANGED <<evaluated, loaded, cbp, win, tStable, tCb, bound>>
OpEnd(t) == /\ inop /\ inop' = FALSE /\ tStable' = t
            /\ UNCHANGED <<file, since, torn, evaluated, loaded, cbp, win, shaky, tCb, bound>>

\* the loop read the file: it saw a content the file held since its previous read
Saw(x) == x \in since \/ torn
\* after a read that returned x: x stays possible (an operation may have completed between the
\* read and its log line), everything older than the current file is forgotten
Forget(x) == /\ since' = (IF inop THEN since ELSE {file}) \cup {x}
             /\ torn' = (inop /\ torn)

Reconcile(fp) == /\ Saw(fp) /\ Forget(fp)
                 /\ win' = (win /\ cbp)        \* the first read after the callback's closes the window
                 /\ UNCHANGED <<file, inop, evaluated, loaded, cbp, shaky, tStable, tCb, bound>>

\* the callback is about to run for fingerprint fp: never for what was evaluated last
\* (hence at most once per distinct content while it stays).  An evaluation counts only
\* if the callback really read that content: when it read something else (the file was
\* changed under it) the application does not hold fp, and evaluating fp again is right;
\* and when a file operation overlapped the callback window the loop cannot know what was
\* read (the file did not "stay unchanged"), so evaluating fp once more is allowed.
\* The callback runs "for that content": the fingerprint it is started for is one the file has
\* held since the loop's last read -- not a fingerprint remembered from before a change the loop
\* has already seen reverted.
Callback(fp) == /\ ~cbp /\ (fp # evaluated \/ loaded # evaluated \/ shaky)
                /\ Saw(fp)
                /\ evaluated' = fp /\ cbp' = TRUE /\ win' = TRUE /\ shaky' = inop
                /\ UNCHANGED <<file, since, torn, inop, loaded, tStable, tCb, bound>>

\* the callback read the file
CbRead(x, t) == /\ cbp /\ cbp' = FALSE
                /\ Saw(x) /\ Forget(x)
                /\ loaded' = x /\ tCb' = t
                /\ UNCHANGED <<file, inop, evaluated, win, shaky, tStable, bound>>

\* the loop is at rest after the file stopped changing: it evaluated exactly the file's
\* content, the callback ran for that content (the application holds it), and it did so
\* within the reconciliation interval plus debounce (plus slack) of the last operation
Settled == /\ ~inop /\ ~cbp
           /\ file # "missing" => /\ evaluated = file
                                  /\ loaded = file
                                  /\ tCb - tStable <= bound
           /\ UNCHANGED ovars
=============================================================================
