---------------------------- MODULE Packets_Trace ----------------------------
(* Judges what the real encoders produced (harness/c07):

   {"ev":"pkt","pkt":"loginstart","v":760,"f":{...abstract field values...},"bytes":[...],"err":""}
       bytes written by the real Packet.Encode for protocol v         -> Matches(Fields(pkt, v, f), bytes)
   {"ev":"floordiv","a":-8,"b":8,"q":-1}   mathutil.FloorDiv(a, b)    -> q = FloorDiv(a, b)

   Every line is consumed; refused lines are printed (<<"BAD", line>>) and counted in TLC
   register 2, lines on which this module contradicts itself (the inverse law RoundTrip
   fails) in register 3 -- those are spec errors, never verdicts. *)
EXTENDS Packets, TraceLib

Judge(P) == IF P THEN TRUE ELSE PrintT(<<"BAD", l>>) /\ TLCSet(2, TLCGet(2) + 1)
SelfCheck(P) == IF P THEN TRUE ELSE PrintT(<<"SPECBAD", l>>) /\ TLCSet(3, TLCGet(3) + 1)

TPkt == /\ IsEv("pkt")
        /\ LET fs == Fields(Rec.pkt, Rec.v, Rec.f)
               bytes == ConcatMap(EncField, fs)             \* = Layout(Rec.pkt, Rec.v, Rec.f)
           IN /\ Judge(Rec.err = "" /\ Matches(fs, Rec.bytes))
              /\ SelfCheck(RoundTripOn(fs, bytes))
        /\ UNCHANGED sh

TFloorDiv == /\ IsEv("floordiv")
             /\ Judge(Rec.q = FloorDiv(Rec.a, Rec.b))
             /\ UNCHANGED sh

(* {"ev":"frame","pkt","v","f","pid","payload","err"}: the payload (packet id + body) of the one frame a
   connection received for a packet sent through codec.Encoder.WritePacket while another connection was sent
   a packet of the same kind in the middle of this send; framing / inflating is done by the harness
   (own VarInt, Go's compress/zlib), err = what could not be framed. *)
TFrame == /\ IsEv("frame")
          /\ LET fs == Fields(Rec.pkt, Rec.v, Rec.f)
                 idb == EncVarInt(Rec.pid)
             IN Judge(/\ Rec.err = ""
                      /\ Take(Rec.payload, Len(idb)) = idb
                      /\ Matches(fs, Drop(Rec.payload, Len(idb))))
          /\ UNCHANGED sh

TNext == TPkt \/ TFloorDiv \/ TFrame
TSpec == sh = 0 /\ CursorInit /\ TLCSet(2, 0) /\ TLCSet(3, 0) /\ [][TNext]_<<sh, l>>

AllGood == /\ Accepted
           /\ PrintT(<<"NBAD", TLCGet(2)>>)
           /\ PrintT(<<"NSPECBAD", TLCGet(3)>>)
           /\ TLCGet(2) = 0 /\ TLCGet(3) = 0
=============================================================================
