SPECIFICATION Spec
CONSTANTS
  Threads = {"a", "b"}
  Ids = {"u1", "u2"}
  Names = {"bob", "al"}
  Kicks = {TRUE, FALSE}
  Onlines = {TRUE, FALSE}
  Leaves = {TRUE, FALSE}
  Denies = {TRUE, FALSE}
  Locked = FALSE
  PtrCheck = TRUE
  UnlockOnReject = TRUE
  Export = TRUE
  MaxSteps = 18
INVARIANTS Emit
