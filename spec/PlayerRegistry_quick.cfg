SPECIFICATION MSpec
CONSTANTS
  MConns = {"a", "b"}
  MIds = {"u1", "u2"}
  MNames = {"bob", "al"}
INVARIANTS OnePerId CountIsIds OnePerName SameSet FindableById FindableByName NoReplaceWithoutKick OnlyRegistered
PROPERTY OthersUntouched
