------------------------------ MODULE Packets ------------------------------
(* C07 -- the vanilla wire layout of the packets the proxy builds itself.

   Fields(pkt, v, f) is the packet body as a sequence of typed fields [t, x] for
   protocol v and abstract field values f; Layout(pkt, v, f) its bytes (Wire.tla).
   The layouts are written from the vanilla protocol (wiki.vg / the vanilla packet
   classes), not from gate's encoders.  RoundTrip is the inverse law: decoding the
   layout with Wire's independent decoders and the same field types gives the values
   back and consumes every byte -- it validates this module against Wire.tla.

   Abstract values: text and byte arrays are byte sequences, 32-bit numbers integers,
   64-bit numbers four big-endian 16-bit limbs, UUIDs 16 bytes.

   The model part enumerates the shape classes the harness instantiates
   (packet x protocol x field shapes: every length that crosses a prefix boundary,
   every optional present/absent, every subset of player-info actions in three supply
   orders, 0/1/2 entries), and checks FloorDiv (used for the fixed bit set length)
   against its defining property. *)
EXTENDS Wire, TLC, Json, FiniteSets

VARIABLE sh     \* the shape class being exported

-----------------------------------------------------------------------------
(* floor division, by its defining property *)
FloorDiv(a, b) == CHOOSE q \in -100..100 : IF b > 0 THEN q * b <= a /\ a < (q + 1) * b
                                                   ELSE q * b >= a /\ a > (q + 1) * b
\* bytes of a fixed bit set of n bits, as vanilla computes it
BitSetBytes(n) == -FloorDiv(-n, 8)

-----------------------------------------------------------------------------
(* protocol numbers of the version switches of the vanilla format *)
P1_7_6 == 5      P1_8 == 47      P1_12_2 == 340   P1_13 == 393     P1_16 == 735
P1_19 == 759     P1_19_1 == 760  P1_19_3 == 761   P1_20_2 == 764   P1_20_3 == 765
P1_20_5 == 766   P1_21 == 767    P1_21_2 == 768   P1_21_4 == 769   P26_2 == 776

F(t, x) == [t |-> t, x |-> x]

IsNil(u) == \A i \in 1..Len(u) : u[i] = 0

\* int32 carried in the two low limbs of a 64-bit value (the high limbs are its sign extension)
I32OfLimbs(ls) == (IF ls[3] >= 32768 THEN ls[3] - 65536 ELSE ls[3]) * 65536 + ls[4]

HexDigit(n) == IF n < 10 THEN 48 + n ELSE 87 + n              \* '0'..'9', 'a'..'f'
HexOf(bs) == LET RECURSIVE H(_) H(i) == IF i > Len(bs) THEN <<>>
                                        ELSE <<HexDigit(bs[i] \div 16), HexDigit(bs[i] % 16)>> \o H(i + 1)
             IN H(1)
Undashed(u) == HexOf(u)
Dashed(u) == HexOf(SubSeq(u, 1, 4)) \o <<45>> \o HexOf(SubSeq(u, 5, 6)) \o <<45>> \o HexOf(SubSeq(u, 7, 8))
             \o <<45>> \o HexOf(SubSeq(u, 9, 10)) \o <<45>> \o HexOf(SubSeq(u, 11, 16))

\* a signed profile public key: expiry (epoch ms), X.509 key bytes, signature bytes
KeyFields(k) == <<F("i64", k.exp), F("bytes", k.pub), F("bytes", k.sig)>>

(* 1.13 plugin channel names.  A name with ':' is modern already; the four historical names
   have fixed modern forms; anything else becomes "legacy:" + lower case with every byte
   outside [a-z0-9_-] removed (the reference's rule; the result is a valid identifier). *)
Str(s) == s      \* byte strings are written as tuples of character codes below
Lower(c) == IF c >= 65 /\ c <= 90 THEN c + 32 ELSE c
KeepIdent(c) == (c >= 97 /\ c <= 122) \/ (c >= 48 /\ c <= 57) \/ c = 45 \/ c = 95
FilterLower(s) == LET RECURSIVE G(_) G(i) == IF i > Len(s) THEN <<>>
                                            ELSE (IF KeepIdent(Lower(s[i])) THEN <<Lower(s[i])>> ELSE <<>>) \o G(i + 1)
                  IN G(1)
cMCBrand      == <<77, 67, 124, 66, 114, 97, 110, 100>>                                   \* MC|Brand
cREGISTER     == <<82, 69, 71, 73, 83, 84, 69, 82>>                                       \* REGISTER
cUNREGISTER   == <<85, 78>> \o cREGISTER                                                  \* UNREGISTER
cBungeeCord   == <<66, 117, 110, 103, 101, 101, 67, 111, 114, 100>>                       \* BungeeCord
cMinecraft    == <<109, 105, 110, 101, 99, 114, 97, 102, 116, 58>>                        \* minecraft:
cBrand        == cMinecraft \o <<98, 114, 97, 110, 100>>                                  \* minecraft:brand
cRegister     == cMinecraft \o <<114, 101, 103, 105, 115, 116, 101, 114>>                 \* minecraft:register
cUnregister   == cMinecraft \o <<117, 110, 114, 101, 103, 105, 115, 116, 101, 114>>       \* minecraft:unregister
cBungeeMain   == <<98, 117, 110, 103, 101, 101, 99, 111, 114, 100, 58, 109, 97, 105, 110>> \* bungeecord:main
cLegacy       == <<108, 101, 103, 97, 99, 121, 58>>                                       \* legacy:
ModernChannel(name) ==
    IF \E i \in 1..Len(name) : name[i] = 58 THEN name
    ELSE IF name = cREGISTER THEN cRegister
    ELSE IF name = cUNREGISTER THEN cUnregister
    ELSE IF name = cMCBrand THEN cBrand
    ELSE IF name = cBungeeCord THEN cBungeeMain
    ELSE cLegacy \o FilterLower(name)

-----------------------------------------------------------------------------
(* player-info update: the protocol's action order and what each action carries *)
ActAdd == 0  ActChat == 1  ActGameMode == 2  ActListed == 3  ActLatency == 4
ActDisplayName == 5  ActListOrder == 6  ActHat == 7
NumActions(v) == IF v >= P1_21_4 THEN 8 ELSE IF v >= P1_21_2 THEN 7 ELSE 6

(* Chat components.  Before 1.20.3 (and always in the login state) a component travels as a
   JSON string, whose text stays opaque here.  Since 1.20.3 it is a nameless network NBT tag;
   the proxy builds it from the component it means, and how (string tag or compound, key
   order) is its choice, so such a field is not compared byte by byte: it is DECODED by the
   NBT reader below and the decoded tag must mean the component.  A meant component is
   [text |-> bytes, extra |-> <<components>>]. *)
U16At(b, o) == b[o + 1] * 256 + b[o + 2]                       \* o = number of bytes before
U32At(b, o) == ((b[o + 1] * 256 + b[o + 2]) * 256 + b[o + 3]) * 256 + b[o + 4]   \* < 2^31 assumed
NbtFixed(ty) == CASE ty = 1 -> 1 [] ty = 2 -> 2 [] ty = 3 -> 4 [] ty = 4 -> 8 [] ty = 5 -> 4 [] ty = 6 -> 8
NbtVal(ty, str, kids) == [ty |-> ty, s |-> str, kids |-> kids]  \* kids: <<[k |-> name, v |-> value]>>

(* Reads the payload of a tag of type ty that starts after the first o bytes of b.
   Result [ok, v, n]: n = number of bytes of b before the first unread byte. *)
RECURSIVE NbtPayload(_, _, _)
NbtPayload(b, o, ty) ==
    IF ty \in 1..6 THEN
        IF o + NbtFixed(ty) > Len(b) THEN Fail ELSE Ok(NbtVal(ty, <<>>, <<>>), o + NbtFixed(ty))
    ELSE IF ty = 8 THEN
        IF o + 2 > Len(b) \/ o + 2 + U16At(b, o) > Len(b) THEN Fail
        ELSE Ok(NbtVal(8, SubSeq(b, o + 3, o + 2 + U16At(b, o)), <<>>), o + 2 + U16At(b, o))
    ELSE IF ty \in {7, 11, 12} THEN
        IF o + 4 > Len(b) \/ b[o + 1] >= 128 THEN Fail
        ELSE LET n == o + 4 + U32At(b, o) * (IF ty = 7 THEN 1 ELSE IF ty = 11 THEN 4 ELSE 8) IN
             IF n > Len(b) THEN Fail ELSE Ok(NbtVal(ty, <<>>, <<>>), n)
    ELSE IF ty = 9 THEN
        IF o + 5 > Len(b) \/ b[o + 2] >= 128 THEN Fail
        ELSE LET et == b[o + 1]
                 cnt == U32At(b, o + 1)
                 RECURSIVE L(_, _, _)
                 L(k, off, acc) ==
                     IF k = 0 THEN Ok(NbtVal(9, <<>>, acc), off)
                     ELSE LET d == NbtPayload(b, off, et) IN
                          IF ~d.ok THEN Fail ELSE L(k - 1, d.n, Append(acc, [k |-> <<>>, v |-> d.v]))
             IN IF cnt > Len(b) \/ (cnt > 0 /\ et = 0) THEN Fail ELSE L(cnt, o + 5, <<>>)
    ELSE IF ty = 10 THEN
        LET RECURSIVE C(_, _)
            C(off, acc) ==
                IF off + 1 > Len(b) THEN Fail
                ELSE IF b[off + 1] = 0 THEN Ok(NbtVal(10, <<>>, acc), off + 1)
                ELSE LET nm == NbtPayload(b, off + 1, 8) IN
                     IF ~nm.ok THEN Fail
                     ELSE LET d == NbtPayload(b, nm.n, b[off + 1]) IN
                          IF ~d.ok THEN Fail ELSE C(d.n, Append(acc, [k |-> nm.v.s, v |-> d.v]))
        IN C(o, <<>>)
    ELSE Fail

\* network form since 1.20.2: type byte, no name, payload
NbtRoot(b, o) == IF o + 1 > Len(b) THEN Fail ELSE NbtPayload(b, o + 1, b[o + 1])

kText  == <<116, 101, 120, 116>>            \* text
kExtra == <<101, 120, 116, 114, 97>>        \* extra
Keys(v) == {v.kids[i].k : i \in DOMAIN v.kids}
Get(v, key) == v.kids[CHOOSE i \in DOMAIN v.kids : v.kids[i].k = key].v

(* The decoded tag means component c: a string tag with the text (no children), or a compound
   whose `text` is a STRING tag with exactly the text, whose `extra` (present iff c has
   children) is a list whose elements mean the children in order, and nothing else.  A list
   element may be boxed as {"": element} (how vanilla stores mixed lists). *)
RECURSIVE Means(_, _)
Means(v, c) ==
    \/ v.ty = 8 /\ c.extra = <<>> /\ v.s = c.text
    \/ /\ v.ty = 10 /\ Keys(v) = {<<>>} /\ Len(v.kids) = 1
       /\ Means(v.kids[1].v, c)
    \/ /\ v.ty = 10
       /\ Len(v.kids) = Cardinality(Keys(v))                                 \* no key twice
       /\ Keys(v) = (IF c.extra = <<>> THEN {kText} ELSE {kText, kExtra})
       /\ Get(v, kText).ty = 8 /\ Get(v, kText).s = c.text
       /\ c.extra # <<>> =>
             LET x == Get(v, kExtra) IN
             /\ x.ty = 9 /\ Len(x.kids) = Len(c.extra)
             /\ \A i \in DOMAIN c.extra : Means(x.kids[i].v, c.extra[i])

\* the encoding this spec would choose (compound form); only used to check the reader above
RECURSIVE NbtCompPayload(_)
NbtCompPayload(c) ==
    <<8>> \o EncUTF(kText) \o EncUTF(c.text) \o
    (IF c.extra = <<>> THEN <<>>
     ELSE <<9>> \o EncUTF(kExtra) \o <<10>> \o EncI32(Len(c.extra)) \o ConcatMap(NbtCompPayload, c.extra)) \o
    <<0>>
EncNbtComp(c) == <<10>> \o NbtCompPayload(c)

ComponentField(v, json, comp) == IF v >= P1_20_3 THEN F("nbtcomp", comp) ELSE F("string", json)

ActionFields(a, v, e) ==
    CASE a = ActAdd         -> <<F("string", e.name), F("props", e.props)>>
      [] a = ActChat        -> IF e.hasSess THEN <<F("bool", TRUE), F("uuid", e.sess.id)>> \o KeyFields(e.sess)
                               ELSE <<F("bool", FALSE)>>
      [] a = ActGameMode    -> <<F("varint", e.gm)>>
      [] a = ActListed      -> <<F("bool", e.listed)>>
      [] a = ActLatency     -> <<F("varint", e.lat)>>
      [] a = ActDisplayName -> IF e.hasDn THEN <<F("bool", TRUE), ComponentField(v, e.dn, e.dnc)>>
                               ELSE <<F("bool", FALSE)>>
      [] a = ActListOrder   -> <<F("varint", e.order)>>
      [] a = ActHat         -> <<F("bool", e.hat)>>

\* the entry's data of every action in the set, in the protocol's order
EntryFields(acts, v, e) ==
    LET RECURSIVE G(_) G(a) == IF a > 7 THEN <<>>
                               ELSE (IF a \in acts THEN ActionFields(a, v, e) ELSE <<>>) \o G(a + 1)
    IN <<F("uuid", e.id)>> \o G(0)

Pow2(n) == IF n = 0 THEN 1 ELSE IF n = 1 THEN 2 ELSE IF n = 2 THEN 4 ELSE IF n = 3 THEN 8 ELSE IF n = 4 THEN 16
           ELSE IF n = 5 THEN 32 ELSE IF n = 6 THEN 64 ELSE 128
BitSetOf(acts, v) ==
    LET RECURSIVE S(_) S(a) == IF a > 7 THEN 0 ELSE (IF a \in acts THEN Pow2(a) ELSE 0) + S(a + 1)
    IN [i \in 1..BitSetBytes(NumActions(v)) |-> IF i = 1 THEN S(0) ELSE 0]

-----------------------------------------------------------------------------
Fields(pkt, v, f) ==
    CASE pkt = "handshake" ->
            <<F("varint", f.pv), F("string", f.addr), F("u16", f.port), F("varint", f.next)>>
      [] pkt = "loginstart" ->
            <<F("string", f.name)>> \o
            (IF v >= P1_19 /\ v < P1_19_3
               THEN IF f.hasKey THEN <<F("bool", TRUE)>> \o KeyFields(f.key) ELSE <<F("bool", FALSE)>>
               ELSE <<>>) \o
            (IF v >= P1_20_2 THEN <<F("uuid", f.holder)>>
             ELSE IF v >= P1_19_1
               THEN IF IsNil(f.holder) THEN <<F("bool", FALSE)>> ELSE <<F("bool", TRUE), F("uuid", f.holder)>>
               ELSE <<>>)
      [] pkt = "loginsuccess" ->
            (IF v >= P1_16 THEN <<F("uuid", f.uuid)>>
             ELSE IF v >= P1_7_6 THEN <<F("string", Dashed(f.uuid))>>
             ELSE <<F("string", Undashed(f.uuid))>>) \o
            <<F("string", f.name)>> \o
            (IF v >= P1_19 THEN <<F("props", f.props)>> ELSE <<>>) \o
            (IF v = P1_20_5 \/ v = P1_21 THEN <<F("bool", TRUE)>> ELSE <<>>)       \* strict error handling
      [] pkt = "encreq" ->
            IF v < P1_8 THEN <<F("string", f.sid), F("bytes17", f.pub), F("bytes17", f.tok)>>
            ELSE <<F("string", f.sid), F("bytes", f.pub), F("bytes", f.tok)>> \o
                 (IF v >= P1_20_5 THEN <<F("bool", f.auth)>> ELSE <<>>)
      [] pkt = "encresp" ->
            IF v < P1_8 THEN <<F("bytes17", f.secret), F("bytes17", f.tok)>>
            ELSE <<F("bytes", f.secret)>> \o
                 (IF v >= P1_19 /\ v < P1_19_3
                    THEN IF f.hasSalt THEN <<F("bool", FALSE), F("i64", f.salt)>> ELSE <<F("bool", TRUE)>>
                    ELSE <<>>) \o
                 <<F("bytes", f.tok)>>
      [] pkt = "compression" -> <<F("varint", f.thr)>>
      [] pkt = "loginpluginmsg" -> <<F("varint", f.id), F("string", f.chan), F("raw", f.data)>>
      [] pkt = "loginpluginresp" -> <<F("varint", f.id), F("bool", f.ok), F("raw", f.data)>>
      [] pkt = "plugin" ->
            <<F("string", IF v >= P1_13 THEN ModernChannel(f.chan) ELSE f.chan)>> \o
            (IF v < P1_8 THEN <<F("bytes17", f.data)>> ELSE <<F("raw", f.data)>>)
      [] pkt = "disconnect" ->
            \* the login state keeps JSON text for every protocol
            <<IF f.st = "login" THEN F("string", f.body) ELSE ComponentField(v, f.body, f.comp)>>
      [] pkt = "keepalive" ->
            IF v >= P1_12_2 THEN <<F("i64", f.id)>>
            ELSE IF v >= P1_8 THEN <<F("varint", I32OfLimbs(f.id))>>
            ELSE <<F("i32", I32OfLimbs(f.id))>>
      [] pkt = "statusreq" -> <<>>
      [] pkt = "statusresp" -> <<F("string", f.json)>>
      [] pkt = "statusping" -> <<F("i64", f.id)>>
      [] pkt = "piremove" -> <<F("varint", Len(f.ids))>> \o [i \in 1..Len(f.ids) |-> F("uuid", f.ids[i])]
      [] pkt = "upsert" ->
            LET acts == {f.acts[i] : i \in DOMAIN f.acts}
                RECURSIVE E(_) E(i) == IF i > Len(f.entries) THEN <<>>
                                       ELSE EntryFields(acts, v, f.entries[i]) \o E(i + 1)
            IN <<F("raw", BitSetOf(acts, v)), F("varint", Len(f.entries))>> \o E(1)
      [] pkt = "transfer" -> <<F("string", f.host), F("varint", f.port)>>

EncField(fl) ==
    CASE fl.t = "varint"  -> EncVarInt(fl.x)
      [] fl.t = "string"  -> EncString(fl.x)
      [] fl.t = "bytes"   -> EncBytes(fl.x)
      [] fl.t = "bytes17" -> EncBytes17(fl.x)
      [] fl.t = "raw"     -> fl.x
      [] fl.t = "u16"     -> EncU16(fl.x)
      [] fl.t = "i32"     -> EncI32(fl.x)
      [] fl.t = "i64"     -> EncLimbs(fl.x)
      [] fl.t = "bool"    -> EncBool(fl.x)
      [] fl.t = "uuid"    -> EncUUID(fl.x)
      [] fl.t = "props"   -> EncProps(fl.x)
      [] fl.t = "nbtcomp" -> EncNbtComp(fl.x)

Layout(pkt, v, f) == ConcatMap(EncField, Fields(pkt, v, f))

BigMax == 4194304
\* decode one field of type t from the front of b; `len` is only used for raw (unframed) fields
DecField(t, b, len) ==
    CASE t = "varint"  -> DecVarInt(b)
      [] t = "string"  -> DecBytes(b, BigMax)
      [] t = "bytes"   -> DecBytes(b, BigMax)
      [] t = "bytes17" -> DecBytes17(b)
      [] t = "raw"     -> IF Len(b) < len THEN Fail ELSE Ok(SubSeq(b, 1, len), len)
      [] t = "u16"     -> DecU16(b)
      [] t = "i32"     -> DecI32(b)
      [] t = "i64"     -> DecLimbs(b, 4)
      [] t = "bool"    -> DecBool(b)
      [] t = "uuid"    -> DecUUID(b)
      [] t = "props"   -> DecProps(b, BigMax \div 4)

\* an unframed field is delimited by the end of the packet, or (bit set, NBT) by its own content:
\* the inverse law gives the decoder its length
RoundTripOn(fs, bytes) ==
    LET RECURSIVE G(_, _)
        G(i, off) == IF i > Len(fs) THEN off = Len(bytes)
                     ELSE IF fs[i].t = "nbtcomp"
                       THEN LET d == NbtRoot(bytes, off) IN d.ok /\ Means(d.v, fs[i].x) /\ G(i + 1, d.n)
                     ELSE LET d == DecField(fs[i].t, Drop(bytes, off), IF fs[i].t = "raw" THEN Len(fs[i].x) ELSE 0)
                          IN d.ok /\ d.v = fs[i].x /\ G(i + 1, off + d.n)
    IN G(1, 0)

(* The judgement: `bytes` is the packet body of the fields fs.  Every field but an NBT
   component has one encoding and must appear byte for byte; an NBT component must decode
   to a tag that means it; nothing may follow the last field. *)
Matches(fs, bytes) ==
    LET RECURSIVE G(_, _)
        G(i, off) == IF i > Len(fs) THEN off = Len(bytes)
                     ELSE IF fs[i].t = "nbtcomp"
                       THEN LET d == NbtRoot(bytes, off) IN d.ok /\ Means(d.v, fs[i].x) /\ G(i + 1, d.n)
                     ELSE LET e == EncField(fs[i]) IN
                          /\ off + Len(e) <= Len(bytes)
                          /\ SubSeq(bytes, off + 1, off + Len(e)) = e
                          /\ G(i + 1, off + Len(e))
    IN G(1, 0)
RoundTrip(pkt, v, f) == RoundTripOn(Fields(pkt, v, f), Layout(pkt, v, f))

-----------------------------------------------------------------------------
(* Shape classes.  A shape is [pkt, v, p] with p a tuple of six integers whose meaning
   depends on the packet (documented with the enumeration; unused positions are 0). *)
CONSTANTS VersionsAll,      \* every supported protocol
          Thorough          \* TRUE: every protocol; FALSE: the two sides of every version switch

Boundary == {4, 5, 47, 338, 340, 393, 573, 735, 758, 759, 760, 761, 763, 764, 765, 766, 767, 768, 769, 775, 776}
Vs == IF Thorough THEN VersionsAll ELSE Boundary \cap VersionsAll
From(lo) == {v \in Vs : v >= lo}
UpsertVs == IF Thorough THEN From(761) ELSE {761, 765, 768, 769, 776} \cap VersionsAll

Sh(pkt, v, a, b, c, d, e, g) == [pkt |-> pkt, v |-> v, p |-> <<a, b, c, d, e, g>>]

\* component texts: ordinary sentences and words, and texts that look like SNBT numbers,
\* booleans or malformed numbers ("404", "-1", "1b", "0.5", "true", "1.21.4", "1e3", "" ...);
\* the harness holds the list, the class is its index
TextClasses == 0..23
Perms == {0, 1, 2}          \* supply order: canonical, reversed, rotated by 3 (with one action supplied twice)

Shapes ==
    \* handshake: address length, port, next state, protocol field
    {Sh("handshake", v, a, b, c, d, 0, 0) : v \in {4, 776} \cap Vs, a \in {0, 1, 127, 128, 255},
                                           b \in {0, 25565, 32768, 65535}, c \in {1, 2, 3}, d \in {-1, 47, 776}} \cup
    \* loginstart: name length, key present, holder present
    {Sh("loginstart", v, a, b, c, 0, 0, 0) : v \in Vs, a \in {1, 16}, b \in {0, 1}, c \in {0, 1}} \cup
    \* loginsuccess: name length, properties, bit i of c = property i signed, uuid class
    {Sh("loginsuccess", v, a, b, c, d, 0, 0) : v \in Vs, a \in {1, 16}, b \in {0, 1, 2}, c \in {0, 1, 2}, d \in {0, 1, 2}} \cup
    \* encreq: server id length, key length, token length, shouldAuthenticate
    {Sh("encreq", v, a, b, c, d, 0, 0) : v \in Vs, a \in {0, 20}, b \in {0, 128, 162, 294}, c \in {0, 4, 16}, d \in {0, 1}} \cup
    \* encresp: secret length, token/signature length, salt present
    {Sh("encresp", v, a, b, c, 0, 0, 0) : v \in Vs, a \in {0, 127, 128}, b \in {0, 128, 256}, c \in {0, 1}} \cup
    {Sh("compression", v, a, 0, 0, 0, 0, 0) : v \in From(47), a \in {-1, 0, 127, 128, 256, 16383, 16384, 2097151, 2097152}} \cup
    \* login plugin message / response: id, channel length or success, data length
    {Sh("loginpluginmsg", v, a, b, c, 0, 0, 0) : v \in From(393), a \in {0, 127, 128, -1}, b \in {1, 20}, c \in {0, 1, 300}} \cup
    {Sh("loginpluginresp", v, a, b, c, 0, 0, 0) : v \in From(393), a \in {0, 127, 128, -1}, b \in {0, 1}, c \in {0, 1, 300}} \cup
    \* plugin message: channel class 0..7, data length (above 32767 the 1.7 length is an extended short)
    {Sh("plugin", v, a, b, 0, 0, 0, 0) : v \in Vs, a \in 0..7, b \in {0, 1, 127, 128, 255, 256}} \cup
    {Sh("plugin", v, a, b, 0, 0, 0, 0) : v \in {4, 5, 47, 393} \cap Vs, a \in IF Thorough THEN {0, 5} ELSE {5},
                                        b \in IF Thorough THEN {32767, 32768, 40000, 65535, 65536, 100000}
                                                          ELSE {32767, 32768, 65536}} \cup
    \* disconnect: state 0 login 1 play 2 config, text class, children
    \*   (JSON era and login state: the text is opaque, three classes suffice)
    {Sh("disconnect", v, a, b, 0, 0, 0, 0) : v \in Vs, a \in {0, 1}, b \in {0, 2, 9}} \cup
    {Sh("disconnect", v, 2, b, 0, 0, 0, 0) : v \in From(764), b \in {0, 2, 9}} \cup
    {Sh("disconnect", v, 1, b, c, 0, 0, 0) : v \in From(765), b \in TextClasses, c \in {0, 2}} \cup
    {Sh("disconnect", v, 2, b, 0, 0, 0, 0) : v \in From(765), b \in TextClasses} \cup
    \* keep-alive / status ping: id class
    {Sh("keepalive", v, a, 0, 0, 0, 0, 0) : v \in Vs, a \in 0..8} \cup
    {Sh("statusreq", v, 0, 0, 0, 0, 0, 0) : v \in {4, 776} \cap Vs} \cup
    {Sh("statusresp", v, a, 0, 0, 0, 0, 0) : v \in {4, 776} \cap Vs, a \in {2, 127, 128, 16383, 16384, 40000}} \cup
    {Sh("statusping", v, a, 0, 0, 0, 0, 0) : v \in {4, 776} \cap Vs, a \in 0..8} \cup
    {Sh("piremove", v, a, 0, 0, 0, 0, 0) : v \in From(761), a \in {0, 1, 2, 3}} \cup
    \* upsert: action set (bit mask over the actions of the protocol), supply order, entries, variant
    \*         (bit 0 chat session present, bit 1 display name present, bits 2-3 properties)
    {Sh("upsert", v, a, b, 1, d, 0, 0) : v \in UpsertVs, a \in 0..255, b \in Perms, d \in IF Thorough THEN {0, 7} ELSE {6}} \cup
    {Sh("upsert", v, a, b, c, d, 0, 0) : v \in UpsertVs, a \in {0, 1, 3, 34, 63, 127, 255}, b \in {0, 1}, c \in {0, 2},
                                        d \in {0, 3, 7, 9}} \cup
    \* upsert with a display name of every text class (add player + display name), children
    {Sh("upsert", v, 33, 0, 1, 2, e, g) : v \in UpsertVs, e \in TextClasses, g \in {0, 2}} \cup
    {Sh("transfer", v, a, b, 0, 0, 0, 0) : v \in From(766), a \in {1, 127, 128, 255}, b \in {0, 25565, 65535}}

\* the action mask must only use actions the protocol has
ShapeOK(s) == s.pkt = "upsert" => (NumActions(s.v) = 8 \/ s.p[1] < Pow2(NumActions(s.v)))

Init == sh \in {s \in Shapes : ShapeOK(s)}
Next == FALSE
Spec == Init /\ [][Next]_sh

Emit == PrintT(<<"SHAPE", ToJson(sh)>>)

\* model-level sanity, evaluated once (on one shape)
FloorDivOK ==
    (sh.pkt = "statusreq" /\ sh.v = 4) =>
        /\ \A a \in -20..20, b \in (-9..9) \ {0} :
              LET q == FloorDiv(a, b) r == a - q * b IN
              IF b > 0 THEN r >= 0 /\ r < b ELSE r <= 0 /\ r > b
        /\ \A n \in 0..64 : BitSetBytes(n) * 8 >= n /\ (BitSetBytes(n) - 1) * 8 < n
        /\ \A v \in VersionsAll : v >= P1_19_3 => BitSetBytes(NumActions(v)) = 1
=============================================================================
