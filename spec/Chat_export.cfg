SPECIFICATION Spec
CONSTANTS
  MaxLen = 6
  MaxQueue = 3
  Offs = {0, 1, 2, 19, 20, 21, 39}
  Outcomes = {"forwarded", "rewritten", "consumed", "denied"}
  Sigs = {FALSE, TRUE}
  Fams = {"pre1205", "1205"}
  Disc = FALSE
  Variant = "velocity"
  Export = TRUE
  Sample = TRUE
INVARIANTS Emit HistOrder HistExceeds HistCatchUp HistUcmd HistKinds
