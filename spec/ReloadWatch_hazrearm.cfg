SPECIFICATION Spec
CONSTANTS
  Contents = {"A", "B"}
  MaxOps = 3
  Kinds = {"write"}
  Fates = {"drop"}
  Rejects = {}
  CbOps = "one"
  Recheck = TRUE
  Post = "rearm"
  Record = "always"
  Export = TRUE
INVARIANTS EmitHazard
