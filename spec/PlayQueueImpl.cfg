SPECIFICATION Spec
CONSTANTS
  Writers = {"w1", "w2"}
  Two = {"w1"}
  Three = {}
  SOps <- SOpsELE
  Cap = 2
  Split = FALSE
  Prefill = FALSE
  Locked = TRUE
  Export = FALSE
VIEW View
INVARIANTS TypeOK NoStranded NoSpuriousClose NoLossNoDup PerWriterOrder Bounded
PROPERTY HeldInConfig NoOvertake
