SPECIFICATION TSpec
CONSTANTS
  Thresholds = {0}
  Lenient = FALSE
  Diagnose = TRUE
INVARIANT Mark
POSTCONDITION Accepted
CHECK_DEADLOCK FALSE
