SPECIFICATION TSpec
CONSTANTS
  Protos = {0}
  Collect = TRUE
INVARIANT Mark
POSTCONDITION Accepted
CHECK_DEADLOCK FALSE
