----------------------------- MODULE LiteBalance -----------------------------
(* C30 -- Lite backend selection: for one connection attempt each *distinct* backend
   of the route is tried at most once, in the order the strategy dictates, and the
   attempt fails only after every backend failed; active-connection counts equal the
   number of open forwarded connections.

   Backend addresses are sequences of code points.  Two entries name the same
   backend iff their canonical forms agree: host lower-cased, port 25565 when none.

   Part 1 (reference rules): what an observed attempt -- the sequence of addresses the
   real code tried and its outcome -- must satisfy, given the route's backend list,
   the strategy and the balancer state (open connections, measured latencies, the
   previous round-robin pick).  Used by LiteBalance_Trace to judge recorded attempts.

   Part 2 (code-shaped attempt loop): pick by strategy, dial, drop the tried backend
   from the remaining list.  With DropAll = TRUE every entry naming the tried backend
   is dropped; with DropAll = FALSE only the first entry that names it is dropped (what
   gate did before the fix).  TLC checks the rules on every behaviour of the loop over
   all small lists / outcomes (LiteBalance.cfg), shows DropAll = FALSE violates
   them (LiteBalance_dropfirst.cfg), and exports the scenarios the harness runs. *)
EXTENDS Integers, Sequences, FiniteSets, TLC, Json

COLON == 58
LowerCp(c) == IF c >= 65 /\ c <= 90 THEN c + 32 ELSE c
Lower(s) == [i \in 1..Len(s) |-> LowerCp(s[i])]
HasPort(b) == \E i \in 1..Len(b) : b[i] = COLON
DefaultPort == <<58, 50, 53, 53, 54, 53>>          \* ":25565"
Canon(b) == IF HasPort(b) THEN Lower(b) ELSE Lower(b) \o DefaultPort

Range(s) == {s[i] : i \in 1..Len(s)}
CanonSet(s) == {Canon(s[i]) : i \in 1..Len(s)}
SetMin(S) == CHOOSE x \in S : \A y \in S : x <= y
\* position of the first entry of list naming the same backend as b (0 if none)
FirstPos(list, b) == LET S == {i \in 1..Len(list) : Canon(list[i]) = Canon(b)} IN
                     IF S = {} THEN 0 ELSE SetMin(S)

----------------------------------------------------------------------------
(* Part 1: rules for one observed attempt.
     list     the route's backend list (after parameter substitution)
     tries    addresses tried, in order
     result   "open" (last try connected and is being forwarded) or "closed"
     up       canonical addresses of backends that accept connections
     active   canonical address -> number of open forwarded connections
     lat      address -> measured latency (0 = unmeasured)
     rrPrev   config position of the previous attempt's only pick, 0 if it made several
              picks / there was none *)

AtMostOnce(tries) == \A i, j \in 1..Len(tries) : i # j => Canon(tries[i]) # Canon(tries[j])
FromList(list, tries) == \A i \in 1..Len(tries) : tries[i] \in Range(list)

Outcome(list, tries, result, up) ==
    /\ result \in {"open", "closed"}
    /\ Len(tries) >= 1
    /\ \A i \in 1..Len(tries) - 1 : Canon(tries[i]) \notin up       \* moved on only after a failure
    /\ result = "open" => Canon(tries[Len(tries)]) \in up
    /\ result = "closed" => /\ CanonSet(tries) = CanonSet(list)      \* every distinct backend was tried
                            /\ CanonSet(list) \cap up = {}          \* ... and none of them accepts

\* backends not tried before step i
Untried(list, tries, i) == CanonSet(list) \ {Canon(tries[j]) : j \in 1..i - 1}

Act(active, c) == IF c \in DOMAIN active THEN active[c] ELSE 0
Lat(lat, b) == IF b \in DOMAIN lat THEN lat[b] ELSE 0
\* measured latency of a distinct backend = that of any of its spellings in the list that was measured
Unmeasured(list, lat, c) == \A i \in 1..Len(list) : Canon(list[i]) = c => Lat(lat, list[i]) = 0

\* The balancer keeps connection counts and latencies per address as written; the statement
\* does not say how two different spellings of one backend share them, so the count and
\* latency orders are required only for lists without such spellings (exact duplicates are fine).
NoSpellings(list) == \A i, j \in 1..Len(list) : Canon(list[i]) = Canon(list[j]) => list[i] = list[j]

Order(strategy, list, tries, active, lat, rrPrev) ==
    CASE strategy \in {"sequential", ""} ->
           \A i \in 1..Len(tries) - 1 : FirstPos(list, tries[i]) < FirstPos(list, tries[i + 1])
      [] strategy = "least-connections" ->
           NoSpellings(list) => \A i \in 1..Len(tries) :
              \A c \in Untried(list, tries, i) : Act(active, Canon(tries[i])) <= Act(active, c)
      [] strategy = "lowest-latency" ->
           NoSpellings(list) => \A i \in 1..Len(tries) :
              LET U == Untried(list, tries, i) IN
              IF \E c \in U : Unmeasured(list, lat, c)
                THEN Lat(lat, tries[i]) = 0                         \* unmeasured first
                ELSE \A k \in 1..Len(list) :
                        Canon(list[k]) \in U => Lat(lat, tries[i]) <= Lat(lat, list[k])
      [] strategy = "round-robin" ->
           \* rotation across connections, pinned only where the statement pins it: the
           \* previous attempt made a single pick and the list has no duplicates
           (rrPrev > 0 /\ Cardinality(CanonSet(list)) = Len(list))
              => FirstPos(list, tries[1]) = (rrPrev % Len(list)) + 1
      [] OTHER -> TRUE                                              \* random: no order

(* Round-robin over successive connections (see LiteRR.tla): on a duplicate-free list, among
   any RRWindow(list) consecutive attempts every accepting backend is selected at least once.
   sel = selected backend (canonical) of each attempt so far, <<>> when none accepted. *)
RRWindow(list) == 2 * Len(list) + 2
RRFair(strategy, list, up, sel) ==
    (strategy = "round-robin" /\ Cardinality(CanonSet(list)) = Len(list) /\ Len(sel) >= RRWindow(list))
      => \A c \in up \cap CanonSet(list) :
            \E i \in (Len(sel) - RRWindow(list) + 1)..Len(sel) : sel[i] = c

AttemptOK(strategy, list, tries, result, up, active, lat, rrPrev) ==
    /\ FromList(list, tries)
    /\ AtMostOnce(tries)
    /\ Outcome(list, tries, result, up)
    /\ Order(strategy, list, tries, active, lat, rrPrev)

----------------------------------------------------------------------------
(* Part 2: the attempt loop as a state machine over abstract scenarios. *)
CONSTANTS Raw,        \* set of raw addresses (code point sequences) lists are built from
          Dead,       \* raw addresses that can never accept (unparsable port)
          MaxList,    \* longest backend list
          Strategies, \* strategies explored
          DropAll,    \* BOOLEAN
          Export      \* BOOLEAN

VARIABLES sc,         \* scenario: [strategy, list, up]
          remaining, tries, result

vars == <<sc, remaining, tries, result>>

RECURSIVE SeqsOf(_, _)
SeqsOf(A, n) == IF n = 0 THEN {<<>>}
                ELSE LET S == SeqsOf(A, n - 1) IN S \cup {Append(s, a) : s \in S, a \in A}

Init == /\ sc \in [strategy : Strategies,
                   list : SeqsOf(Raw, MaxList) \ {<<>>},
                   up : SUBSET {Canon(r) : r \in Raw \ Dead}]
        /\ remaining = sc.list
        /\ tries = <<>>
        /\ result = "trying"

\* the strategies' picks on a fresh balancer (no connections, no latencies): the first
\* entry, or any entry for random and for round-robin (whose index moves with every pick)
Picks == IF sc.strategy \in {"random", "round-robin"} THEN Range(remaining) ELSE {remaining[1]}

Drop(list, b) == IF DropAll THEN SelectSeq(list, LAMBDA x : Canon(x) # Canon(b))
                 ELSE LET k == FirstPos(list, b) IN
                      SubSeq(list, 1, k - 1) \o SubSeq(list, k + 1, Len(list))

Try == /\ result = "trying" /\ remaining # <<>>
       /\ \E b \in Picks :
            /\ tries' = Append(tries, b)
            /\ remaining' = Drop(remaining, b)
            /\ result' = IF Canon(b) \in sc.up THEN "open" ELSE "trying"
       /\ UNCHANGED sc
GiveUp == /\ result = "trying" /\ remaining = <<>>
          /\ result' = "closed"
          /\ UNCHANGED <<sc, remaining, tries>>
Next == Try \/ GiveUp
Spec == Init /\ [][Next]_vars

Finished == result \in {"open", "closed"}
LoopOK == Finished => AttemptOK(sc.strategy, sc.list, tries, result, sc.up, <<>>, <<>>, 0)
TriesOnce == AtMostOnce(tries)

Emit == (Export /\ Finished) => PrintT(<<"SCEN", ToJson(sc)>>)

----------------------------------------------------------------------------
(* Concrete address universes (":1" and ":2" stand for the ports of the harness's
   listeners and are replaced by the real ports before use). *)
RawDef == {
            <<108, 111, 99, 97, 108, 104, 111, 115, 116, 58, 49>>,   \* "localhost:1"
            <<76, 79, 67, 65, 76, 72, 79, 83, 84, 58, 49>>,   \* "LOCALHOST:1"
            <<76, 111, 99, 97, 108, 72, 111, 115, 116, 58, 49>>,   \* "LocalHost:1"
            <<49, 50, 55, 46, 48, 46, 48, 46, 49, 58, 50>>,   \* "127.0.0.1:2"
            <<49, 50, 55, 46, 48, 46, 48, 46, 49>>,   \* "127.0.0.1"
            <<49, 50, 55, 46, 48, 46, 48, 46, 49, 58, 50, 53, 53, 54, 53>> ,   \* "127.0.0.1:25565"
            <<49, 50, 55, 46, 48, 46, 48, 46, 49, 58, 120>>   \* "127.0.0.1:x" (what "127.0.0.1:$1" becomes for a host that is not a number)
          }
DeadDef == {<<49, 50, 55, 46, 48, 46, 48, 46, 49, 58, 120>>}
RawSmall == {
              <<108, 111, 99, 97, 108, 104, 111, 115, 116, 58, 49>>,   \* "localhost:1"
              <<76, 79, 67, 65, 76, 72, 79, 83, 84, 58, 49>>,   \* "LOCALHOST:1"
              <<49, 50, 55, 46, 48, 46, 48, 46, 49, 58, 50>>    \* "127.0.0.1:2"
            }
AllStrategies == {"sequential", "", "round-robin", "least-connections", "lowest-latency", "random"}
=============================================================================
