----------------------------- MODULE PlayQueue -----------------------------
(* C14 -- abstract (black-box) specification of a connection's outbound side,
   phrased over what a user and the peer can observe:

     call / ret   a WritePacket, enter-config, leave-config or Close call starts / returns
     wire         the peer decoded the next packet from the byte stream
     sync         nothing is in flight and everything written so far has reached the peer
     eof          the peer saw the connection close

   Every call takes effect atomically at one instant between its call and its
   return (Lin, a silent step): this is the spec traces of the real code are
   judged against; it knows nothing about mutexes, queue pointers or buffers.

     write P (play-only packet)   config phase: appended to `held` (at most cap, the
                                  cap+1st closes the connection and fails);
                                  play phase:   appended to `wire`
     write K (valid in config)    appended to `wire` in either phase
     enter                        phase := config
     leave                        phase := play; `held` moves to the end of `wire` in order
     close                        closed := TRUE

   The peer must see exactly `wire`, in order (a prefix once closed): no loss, no
   duplication, held packets after the leave and before any packet written later. *)
EXTENDS Naturals, Sequences, FiniteSets

VARIABLES phase,     \* "play" | "config"
          held,      \* Seq(packet id)
          wire,      \* Seq(packet id): what must arrive at the peer, in order
          closed,    \* BOOLEAN
          open,      \* calls in progress: thread -> [op, kind, pkt, lin, res]
          pos,       \* number of packets the peer has decoded so far
          cap        \* bound of the holding queue

avars == <<phase, held, wire, closed, open, pos, cap>>

AInit(c) == /\ phase = "play" /\ held = <<>> /\ wire = <<>> /\ closed = FALSE
            /\ open = <<>> /\ pos = 0 /\ cap = c

Put(fn, k, v) == [x \in DOMAIN fn \cup {k} |-> IF x = k THEN v ELSE fn[x]]
Drop(fn, k) == [x \in DOMAIN fn \ {k} |-> fn[x]]

\* op \in {"write", "enter", "leave", "close"}; kind \in {"P", "K", ""}
Call(t, op, kind, pkt) ==
    /\ t \notin DOMAIN open
    /\ open' = Put(open, t, [op |-> op, kind |-> kind, pkt |-> pkt, lin |-> FALSE, res |-> ""])
    /\ UNCHANGED <<phase, held, wire, closed, pos, cap>>

Done(t, r) == open' = [open EXCEPT ![t].lin = TRUE, ![t].res = r]

\* the instant at which the call takes effect
Lin(t) ==
    /\ t \in DOMAIN open /\ ~open[t].lin
    /\ LET o == open[t] IN
         CASE o.op = "write" ->
                IF closed
                  THEN Done(t, "fail") /\ UNCHANGED <<phase, held, wire, closed>>
                  ELSE IF o.kind = "P" /\ phase = "config"
                         THEN IF Len(held) >= cap
                                THEN /\ closed' = TRUE /\ Done(t, "fail")
                                     /\ UNCHANGED <<phase, held, wire>>
                                ELSE /\ held' = Append(held, o.pkt) /\ Done(t, "ok")
                                     /\ UNCHANGED <<phase, wire, closed>>
                         ELSE /\ wire' = Append(wire, o.pkt) /\ Done(t, "ok")
                              /\ UNCHANGED <<phase, held, closed>>
           [] o.op = "enter" ->
                /\ phase' = "config" /\ Done(t, "ok")
                /\ UNCHANGED <<held, wire, closed>>
           [] o.op = "leave" ->
                /\ phase' = "play" /\ Done(t, "ok")
                /\ IF closed THEN UNCHANGED <<held, wire>>
                             ELSE wire' = wire \o held /\ held' = <<>>
                /\ UNCHANGED closed
           [] o.op = "close" ->
                /\ closed' = TRUE /\ Done(t, "ok")
                /\ UNCHANGED <<phase, held, wire>>
    /\ UNCHANGED <<pos, cap>>

\* the call returns with the result the real code reported ("ok" | "fail")
Ret(t, r) ==
    /\ t \in DOMAIN open /\ open[t].lin
    /\ open[t].op = "write" => open[t].res = r
    /\ open' = Drop(open, t)
    /\ UNCHANGED <<phase, held, wire, closed, pos, cap>>

\* the peer decodes the next packet: it is the next one of `wire`
Wire(p) ==
    /\ pos < Len(wire) /\ wire[pos + 1] = p
    /\ pos' = pos + 1
    /\ UNCHANGED <<phase, held, wire, closed, open, cap>>

\* quiescent and flushed: everything on `wire` has arrived; the connection is open
Sync == /\ open = <<>> /\ ~closed /\ pos = Len(wire)
        /\ UNCHANGED avars

\* a flush through the connection failed: only a closed connection does that
SyncFail == /\ open = <<>> /\ closed
            /\ UNCHANGED avars

Eof == closed /\ UNCHANGED avars

End == open = <<>> /\ UNCHANGED avars
=============================================================================
