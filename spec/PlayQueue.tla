----------------------------- MODULE PlayQueue -----------------------------
(* C14 -- abstract (black-box) specification of a connection's outbound side,
   phrased over what a user and the peer can observe:

     call / ret   a WritePacket / BufferPacket, enter-config, leave-config or Close call
                  starts / returns
     wire         the peer decoded the next packet from the byte stream
     sync         nothing is in flight and everything written so far has reached the peer
     eof          the peer saw the connection close

   Every call takes effect atomically at one instant between its call and its
   return (Lin, a silent step): this is the spec traces of the real code are
   judged against; it knows nothing about mutexes, queue pointers or buffers.

     write P (play-only packet)   config phase: added to `held` (at most cap, the
                                  cap+1st closes the connection and fails);
                                  play phase:   appended to `wire`
     write K (valid in config)    appended to `wire` in either phase
     enter                        phase := config
     leave                        phase := play; `held` moves to the end of `wire`
     close                        closed := TRUE

   The order in which concurrently written packets were accepted into `held` cannot be
   observed before they are released, so `held` is kept as a SET of packets stamped with
   the logical times of their call and return, and `wire` as a sequence of such sets: the
   peer must see the sets one after the other, and inside a set any order that respects
   "A's write had returned before B's write was called => A before B" -- exactly the
   orders the atomic-instant reading allows, without enumerating them.  So: no loss, no
   duplication, held packets after the leave and before any packet written later, order
   of writing preserved wherever there was one. *)
EXTENDS Naturals, Sequences, FiniteSets

VARIABLES phase,     \* "play" | "config"
          held,      \* set of [pkt, c, r]: c / r = logical time of the write's call / return (0: not yet)
          wire,      \* Seq(set of [pkt, c, r]): what must still arrive at the peer
          closed,    \* BOOLEAN
          open,      \* calls in progress: thread -> [op, kind, pkt, c, lin, res]
          clk,       \* logical clock: one tick per call / ret
          cap        \* bound of the holding queue

avars == <<phase, held, wire, closed, open, clk, cap>>

AInit(c) == /\ phase = "play" /\ held = {} /\ wire = <<>> /\ closed = FALSE
            /\ open = <<>> /\ clk = 0 /\ cap = c

Put(fn, k, v) == [x \in DOMAIN fn \cup {k} |-> IF x = k THEN v ELSE fn[x]]
Drop(fn, k) == [x \in DOMAIN fn \ {k} |-> fn[x]]

\* op \in {"write", "enter", "leave", "close"}; kind \in {"P", "K", ""}
Call(t, op, kind, pkt) ==
    /\ t \notin DOMAIN open
    /\ clk' = clk + 1
    /\ open' = Put(open, t, [op |-> op, kind |-> kind, pkt |-> pkt, c |-> clk + 1,
                             lin |-> FALSE, res |-> ""])
    /\ UNCHANGED <<phase, held, wire, closed, cap>>

Done(t, r) == open' = [open EXCEPT ![t].lin = TRUE, ![t].res = r]

\* the instant at which the call takes effect
Lin(t) ==
    /\ t \in DOMAIN open /\ ~open[t].lin
    /\ LET o == open[t]
           rec == [pkt |-> o.pkt, c |-> o.c, r |-> 0]
       IN
         CASE o.op = "write" ->
                IF closed
                  THEN Done(t, "fail") /\ UNCHANGED <<phase, held, wire, closed>>
                  ELSE IF o.kind = "P" /\ phase = "config"
                         THEN IF Cardinality(held) >= cap
                                THEN /\ closed' = TRUE /\ Done(t, "fail")
                                     /\ UNCHANGED <<phase, held, wire>>
                                ELSE /\ held' = held \cup {rec} /\ Done(t, "ok")
                                     /\ UNCHANGED <<phase, wire, closed>>
                         ELSE /\ wire' = Append(wire, {rec}) /\ Done(t, "ok")
                              /\ UNCHANGED <<phase, held, closed>>
           [] o.op = "enter" ->
                /\ phase' = "config" /\ Done(t, "ok")
                /\ UNCHANGED <<held, wire, closed>>
           [] o.op = "leave" ->
                /\ phase' = "play" /\ Done(t, "ok")
                /\ IF closed \/ held = {} THEN UNCHANGED <<held, wire>>
                                          ELSE wire' = Append(wire, held) /\ held' = {}
                /\ UNCHANGED closed
           [] o.op = "close" ->
                /\ closed' = TRUE /\ Done(t, "ok")
                /\ UNCHANGED <<phase, held, wire>>
    /\ UNCHANGED <<clk, cap>>

\* stamp the return time on the call's packet, wherever it waits
Stamp(S, p, now) == {IF h.pkt = p /\ h.r = 0 THEN [h EXCEPT !.r = now] ELSE h : h \in S}

\* the call returns with the result the real code reported ("ok" | "fail")
Ret(t, r) ==
    /\ t \in DOMAIN open /\ open[t].lin
    /\ open[t].op = "write" => open[t].res = r
    /\ clk' = clk + 1
    /\ IF open[t].op = "write" /\ open[t].res = "ok"
         THEN /\ held' = Stamp(held, open[t].pkt, clk + 1)
              /\ wire' = [i \in DOMAIN wire |-> Stamp(wire[i], open[t].pkt, clk + 1)]
         ELSE UNCHANGED <<held, wire>>
    /\ open' = Drop(open, t)
    /\ UNCHANGED <<phase, closed, cap>>

\* the peer decodes the next packet: it belongs to the first set still expected, and no
\* packet of that set whose write had returned before this one's was called is still missing
Wire(p) ==
    /\ wire # <<>>
    /\ \E h \in Head(wire) :
         /\ h.pkt = p
         /\ \A g \in Head(wire) \ {h} : ~(g.r # 0 /\ g.r < h.c)
         /\ wire' = (IF Head(wire) = {h} THEN Tail(wire) ELSE <<Head(wire) \ {h}>> \o Tail(wire))
    /\ UNCHANGED <<phase, held, closed, open, clk, cap>>

\* quiescent and flushed: everything on `wire` has arrived; the connection is open
Sync == /\ open = <<>> /\ ~closed /\ wire = <<>>
        /\ UNCHANGED avars

\* a flush through the connection failed: only a closed connection does that
SyncFail == /\ open = <<>> /\ closed
            /\ UNCHANGED avars

Eof == closed /\ UNCHANGED avars

End == open = <<>> /\ UNCHANGED avars
=============================================================================
