SPECIFICATION Spec
CONSTANTS
  MaxDev = 2
  Export = FALSE
INVARIANTS Agree BaselineValid
