SPECIFICATION Spec
CONSTANTS
  Supported = {4, 5, 47, 763, 765, 775}
  MaxProto = 775
  ClientProtos = {4, 47, 765, 775, 0, 3, 9999}
  NegProtos = {1, 2}
  Payloads = {1, 2}
  MaxLen = 4
INVARIANTS OneResponse ResponseProto EchoExact Emit
PROPERTY ClosedIsFinal
