SPECIFICATION TSpec
CONSTANTS
  Hosts = {}
  Protos = {}
  Ports = {}
  Nexts = {}
  Export = FALSE
INVARIANT Mark
POSTCONDITION Accepted
CHECK_DEADLOCK FALSE
