SPECIFICATION Spec
INVARIANTS BytesEqBits ZoneIrrelevant MappedIsV4 Emit
