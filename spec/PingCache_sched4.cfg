SPECIFICATION Spec
CONSTANTS
  Threads = {"t1", "t2", "t3", "t4"}
  Keys = {"a", "b", "c"}
  MaxLoads = 3
  TTL = 1
  GenCheck = TRUE
  Locked = FALSE
  Export = TRUE
INVARIANTS Emit
