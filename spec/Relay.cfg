SPECIFICATION Spec
CONSTANTS
  Versions = {763}
  ThrPlus1 = {0}
  Sizes = {"small", "big"}
  Kinds = {"unknown", "pass", "icpt"}
  SmallSize = "small"
  MaxSend = 2
  Faulty = FALSE
VIEW View
INVARIANTS InOrderNoLossNoDup CompleteAtQuiescence
