SPECIFICATION MSpec
CONSTANTS
  MaxCount = 1024
  MaxBytes = 4194304
  MaxMsgs = 4
  Sizes = {1}
  Kinds = {"join765", "join763", "switch765", "playq763", "fallback765", "flushfail765"}
INVARIANTS InOrder NoLoss Emit
