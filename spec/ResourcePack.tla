---------------------------- MODULE ResourcePack ----------------------------
(* C27 -- resource-pack prompts never block and follow the client-version rules.

   History machine of one player's resource-pack handler.  One step = one call
   (queue a pack / client response / remove / clear) and everything the handler did
   before the call returned: prompts written to the client, responses reported to the
   backend, the "handled" result (FALSE = the session handler forwards the client's
   response packet to the backend server).

   Three handler kinds (mode), decided by the client's protocol number (ModeOf):
     "legacy"     clients before 1.17 (< 755)        one queue, one prompt at a time
     "legacy117"  clients 1.17 - 1.20.2 (755..764)   same, but forced packs are never auto-declined
     "modern"     clients 1.20.3+ (>= 765)           one queue per pack id

   Faults: a response call may run while a write fails (op.fail): "prompt" = the client
   connection refuses the packets written during the call, "report" = the first write to the
   backend during the call fails.  Attempted writes are what is recorded; the requirements on
   them stay the same (in particular the client's response to a backend pack must still be
   handed to the backend), only the "handled" result is then not constrained (the call
   returns an error, which the session handler treats as handled).  A faulted call ends its
   history.

   The module has two layers.
   * LegacyStep / ModernStep are THE specification: relations between the state before
     a call, the call, what the handler emitted, and the state after.  They only demand
     what the property states (see the comments at each clause); they judge the
     recorded behaviour of the real handlers (ResourcePack_Trace) and every step of the
     reference machine below (PROPERTY Refines).
   * The reference machine (Init/Next) is Velocity's handler semantics.  TLC explores it,
     checks the property invariants on it and exports its histories for replay. *)
EXTENDS Integers, Sequences, FiniteSets, TLC, Json

CONSTANTS Versions,    \* client protocol numbers of this run (both sides of 755 and 765)
          PackNames,   \* subset of {"A","B","C","D"}: the packs of this run
          Statuses,    \* client response statuses used in this run
          MaxLen,      \* history length
          InitPrev     \* "none" (as required) | "dec" (broken variant: starts as if declined)

AllStatuses == {"accepted", "declined", "success", "failed", "downloaded",
                "invalidUrl", "failedReload", "discarded"}
ModeOf(v) == IF v < 755 THEN "legacy" ELSE IF v < 765 THEN "legacy117" ELSE "modern"

Intermediate(s) == s \in {"accepted", "downloaded"}   \* the pack stays outstanding

Ids == {1, 2}
Pack(n) == CASE n = "A" -> [id |-> 1, forced |-> FALSE, origin |-> "proxy"]
             [] n = "B" -> [id |-> 2, forced |-> FALSE, origin |-> "backend"]
             [] n = "C" -> [id |-> 1, forced |-> TRUE, origin |-> "backend"]
             [] n = "D" -> [id |-> 2, forced |-> TRUE, origin |-> "proxy"]

-----------------------------------------------------------------------------
(* The specification. *)

\* forced packs on 1.17+ are still prompted, whatever the client declined before
NeverAuto(mode, n) == Pack(n).forced /\ mode = "legacy117"

BackendAmong(s, k) == Cardinality({i \in 1..k : Pack(s[i]).origin = "backend"})

(* The queue qq gained a new head (or is empty): the first k packs are auto-declined,
   which is allowed only after the client has declined one (decl) and never for forced
   packs on 1.17+; the next one is prompted, exactly once. *)
Tick(mode, qq, decl, prompts, q2, k) ==
    /\ k \in 0..Len(qq)
    /\ \A i \in 1..k : decl /\ ~NeverAuto(mode, qq[i])
    /\ q2 = SubSeq(qq, k + 1, Len(qq))
    /\ prompts = IF q2 = <<>> THEN <<>> ELSE <<q2[1]>>

(* Reports written to the backend during one call: `own` (0/1) reports of the client's
   status s for the answered pack, plus at most maxAuto "declined" reports for
   auto-declined backend packs (those are optional: the statement is silent). *)
ReportsOK(reps, own, s, maxAuto) ==
    /\ Len(reps) <= own + maxAuto
    /\ \A j \in 1..Len(reps) : reps[j].st = "declined" \/ (own = 1 /\ reps[j].st = s)
    /\ own = 1 => \E j \in 1..Len(reps) : reps[j].st = s
    /\ (own = 1 /\ s # "declined") => Cardinality({j \in 1..Len(reps) : reps[j].st = s}) = 1

(* legacy handlers: q = outstanding packs in queue order, the head is the one prompted;
   decl = the client has declined a pack *)
LegacyStep(mode, q, decl, op, out, q2, decl2) ==
    CASE op.op = "queue" ->
            /\ decl2 = decl
            /\ IF q = <<>>
                 THEN \E k \in 0..1 : /\ Tick(mode, <<op.pack>>, decl, out.prompts, q2, k)
                                      /\ ReportsOK(out.reports, 0, "declined", BackendAmong(<<op.pack>>, k))
                 \* something is outstanding: at most one prompt at a time
                 ELSE q2 = Append(q, op.pack) /\ out.prompts = <<>> /\ out.reports = <<>>
      [] op.op = "response" ->
            /\ decl2 = (decl \/ op.st = "declined")
            /\ IF q = <<>>
                 \* nothing outstanding: the call must complete and prompt nothing; whether
                 \* the stray response is passed on to the backend is not specified
                 THEN q2 = q /\ out.prompts = <<>>
                 ELSE LET head == Pack(q[1])
                          own == IF head.origin = "backend" THEN 1 ELSE 0 IN
                      \* reported to the backend iff the answered pack came from the backend
                      /\ (op.fail = "" => out.handled = (head.origin = "proxy"))
                      /\ IF Intermediate(op.st)
                           THEN q2 = q /\ out.prompts = <<>> /\ ReportsOK(out.reports, own, op.st, 0)
                           ELSE \E k \in 0..(Len(q) - 1) :
                                   /\ Tick(mode, Tail(q), decl2, out.prompts, q2, k)
                                   /\ ReportsOK(out.reports, own, op.st, BackendAmong(Tail(q), k))
      [] op.op = "clear" -> q2 = q /\ decl2 = decl /\ out.prompts = <<>> /\ out.reports = <<>>

RemoveAt(s, j) == SubSeq(s, 1, j - 1) \o SubSeq(s, j + 1, Len(s))

(* modern handler: qm[id] = outstanding packs with that id; the head is the one prompted *)
ModernStep(qm, op, out, qm2) ==
    CASE op.op = "queue" ->
            LET i == Pack(op.pack).id IN
            /\ qm2 = [qm EXCEPT ![i] = Append(@, op.pack)]
            /\ out.prompts = IF qm[i] = <<>> THEN <<op.pack>> ELSE <<>>
            /\ out.reports = <<>>
      [] op.op = "response" ->
            LET i == op.sid IN
            IF qm[i] = <<>>
              THEN qm2 = qm /\ out.prompts = <<>>          \* untracked id: only completion
              ELSE LET head == Pack(qm[i][1]) IN
                   /\ (op.fail = "" => out.handled = (head.origin = "proxy"))
                   /\ out.reports = IF head.origin = "backend" THEN <<[id |-> i, st |-> op.st]>> ELSE <<>>
                   /\ IF Intermediate(op.st)
                        THEN qm2 = qm /\ out.prompts = <<>>
                        \* the answered pack leaves; one of the waiting packs of this id (the
                        \* statement fixes no order among them) is prompted and becomes the head
                        ELSE LET rest == Tail(qm[i]) IN
                             IF rest = <<>> THEN qm2 = [qm EXCEPT ![i] = <<>>] /\ out.prompts = <<>>
                             ELSE \E j \in 1..Len(rest) :
                                     /\ out.prompts = <<rest[j]>>
                                     /\ qm2 = [qm EXCEPT ![i] = <<rest[j]>> \o RemoveAt(rest, j)]
      [] op.op = "remove" -> qm2 = [qm EXCEPT ![op.sid] = <<>>] /\ out.prompts = <<>> /\ out.reports = <<>>
      [] op.op = "clear" -> qm2 = [i \in Ids |-> <<>>] /\ out.prompts = <<>> /\ out.reports = <<>>

-----------------------------------------------------------------------------
(* The reference machine (Velocity's LegacyResourcePackHandler / Legacy117 / Modern). *)

VARIABLES ver,       \* the client's protocol number
          mode,      \* the handler kind = ModeOf(ver)
          q, qm,     \* outstanding packs (legacy) / per id (modern)
          prev,      \* legacy: the client's previous accept/decline: "none" | "acc" | "dec"
          decl,      \* the client has declined a pack (the specification's state)
          open,      \* prompts not yet answered with a final status
          nAuto,     \* packs auto-declined so far
          last,      \* [op, out] of the last call
          h          \* the calls so far
vars == <<ver, mode, q, qm, prev, decl, open, nAuto, last, h>>

Faults == {"", "prompt", "report"}
QueueOps == {[op |-> "queue", pack |-> n, sid |-> 0, st |-> "", fail |-> ""] : n \in PackNames}
RespOps == IF mode = "modern"
             THEN {[op |-> "response", pack |-> "", sid |-> i, st |-> s, fail |-> f] : i \in Ids, s \in Statuses, f \in Faults}
             ELSE {[op |-> "response", pack |-> "", sid |-> 0, st |-> s, fail |-> f] : s \in Statuses, f \in Faults}
OtherOps == IF mode = "modern"
              THEN {[op |-> "remove", pack |-> "", sid |-> i, st |-> "", fail |-> ""] : i \in Ids}
                   \cup {[op |-> "clear", pack |-> "", sid |-> 0, st |-> "", fail |-> ""]}
              ELSE {[op |-> "clear", pack |-> "", sid |-> 0, st |-> "", fail |-> ""]}
Ops == QueueOps \cup RespOps \cup OtherOps

Rep(i, s) == [id |-> i, st |-> s]
AutoReps(auto) == LET RECURSIVE F(_)
                      F(s) == IF s = <<>> THEN <<>>
                              ELSE (IF Pack(Head(s)).origin = "backend" THEN <<Rep(0, "declined")>> ELSE <<>>)
                                   \o F(Tail(s))
                  IN F(auto)

RECURSIVE RefTick(_, _)
RefTick(qq, pv) ==
    IF qq = <<>> THEN [q2 |-> <<>>, prompts |-> <<>>, auto |-> <<>>]
    ELSE IF pv = "dec" /\ ~NeverAuto(mode, qq[1])
      THEN LET r == RefTick(Tail(qq), pv) IN [r EXCEPT !.auto = <<qq[1]>> \o @]
      ELSE [q2 |-> qq, prompts |-> <<qq[1]>>, auto |-> <<>>]

NoOut == [prompts |-> <<>>, reports |-> <<>>, handled |-> FALSE]

LegacyApply(op) ==
    CASE op.op = "queue" ->
            IF q = <<>>
              THEN LET r == RefTick(<<op.pack>>, prev) IN
                   /\ q' = r.q2 /\ prev' = prev /\ nAuto' = nAuto + Len(r.auto)
                   /\ open' = open + Len(r.prompts)
                   /\ last' = [op |-> op, out |-> [NoOut EXCEPT !.prompts = r.prompts, !.reports = AutoReps(r.auto)]]
              ELSE /\ q' = Append(q, op.pack) /\ UNCHANGED <<prev, nAuto, open>>
                   /\ last' = [op |-> op, out |-> NoOut]
      [] op.op = "response" ->
            LET pv == IF op.st = "accepted" THEN "acc" ELSE IF op.st = "declined" THEN "dec" ELSE prev IN
            /\ prev' = pv
            /\ IF q = <<>>
                 THEN /\ UNCHANGED <<q, nAuto, open>>
                      /\ last' = [op |-> op, out |-> [NoOut EXCEPT !.reports = <<Rep(0, op.st)>>]]
                 ELSE LET head == Pack(q[1])
                          own == IF head.origin = "backend" THEN <<Rep(0, op.st)>> ELSE <<>> IN
                      IF Intermediate(op.st)
                        THEN /\ UNCHANGED <<q, nAuto, open>>
                             /\ last' = [op |-> op, out |-> [prompts |-> <<>>, reports |-> own,
                                                             handled |-> head.origin = "proxy"]]
                        ELSE LET r == RefTick(Tail(q), pv) IN
                             /\ q' = r.q2 /\ nAuto' = nAuto + Len(r.auto)
                             /\ open' = open - 1 + Len(r.prompts)
                             /\ last' = [op |-> op, out |-> [prompts |-> r.prompts,
                                                             reports |-> AutoReps(r.auto) \o own,
                                                             handled |-> head.origin = "proxy"]]
      [] op.op = "clear" -> UNCHANGED <<q, prev, nAuto, open>> /\ last' = [op |-> op, out |-> NoOut]

ModernApply(op) ==
    CASE op.op = "queue" ->
            LET i == Pack(op.pack).id IN
            /\ qm' = [qm EXCEPT ![i] = Append(@, op.pack)]
            /\ last' = [op |-> op, out |-> [NoOut EXCEPT !.prompts = IF qm[i] = <<>> THEN <<op.pack>> ELSE <<>>]]
      [] op.op = "response" ->
            LET i == op.sid IN
            IF qm[i] = <<>>
              THEN /\ qm' = qm
                   /\ last' = [op |-> op, out |-> [NoOut EXCEPT !.reports = <<Rep(i, op.st)>>]]
              ELSE LET head == Pack(qm[i][1])
                       rest == IF Intermediate(op.st) THEN qm[i] ELSE Tail(qm[i]) IN
                   /\ qm' = [qm EXCEPT ![i] = rest]
                   /\ last' = [op |-> op, out |->
                                [prompts |-> IF Intermediate(op.st) \/ rest = <<>> THEN <<>> ELSE <<rest[1]>>,
                                 reports |-> IF head.origin = "backend" THEN <<Rep(i, op.st)>> ELSE <<>>,
                                 handled |-> head.origin = "proxy"]]
      [] op.op = "remove" -> qm' = [qm EXCEPT ![op.sid] = <<>>] /\ last' = [op |-> op, out |-> NoOut]
      [] op.op = "clear" -> qm' = [i \in Ids |-> <<>>] /\ last' = [op |-> op, out |-> NoOut]

Init == /\ ver \in Versions /\ mode = ModeOf(ver) /\ q = <<>> /\ qm = [i \in Ids |-> <<>>] /\ prev = InitPrev /\ decl = FALSE
        /\ open = 0 /\ nAuto = 0 /\ h = <<>>
        /\ last = [op |-> [op |-> "clear", pack |-> "", sid |-> 0, st |-> "", fail |-> ""], out |-> NoOut]

Next == /\ Len(h) < MaxLen /\ mode' = mode /\ ver' = ver
        /\ \E op \in Ops :
              /\ (op.fail = "" \/ Len(h) = MaxLen - 1)       \* a faulted call ends the history
              /\ IF mode = "modern"
                   THEN ModernApply(op) /\ UNCHANGED <<q, prev, nAuto, open>>
                   ELSE LegacyApply(op) /\ UNCHANGED qm
              /\ decl' = (decl \/ (op.op = "response" /\ op.st = "declined"))
              /\ h' = Append(h, op)

Spec == Init /\ [][Next]_vars

-----------------------------------------------------------------------------
(* The property on the reference machine. *)

\* every step of the reference machine is allowed by the specification
Refines == [][IF mode = "modern"
                THEN ModernStep(qm, last'.op, last'.out, qm')
                ELSE LegacyStep(mode, q, decl, last'.op, last'.out, q', decl')]_vars

\* before 1.20.3: at most one prompt outstanding, and it is the head of the queue
OnePrompt == mode # "modern" => (open <= 1 /\ (q # <<>> <=> open = 1))
\* packs are auto-declined only after the client has declined one
AutoOnlyAfterDecline == nAuto > 0 => decl

Emit == Len(h) = MaxLen => PrintT(<<"HIST", ToJson([ver |-> ver, mode |-> mode, h |-> h])>>)
=============================================================================
