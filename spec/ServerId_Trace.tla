--------------------------- MODULE ServerId_Trace ---------------------------
(* Judges recorded I/O of the real authenticator:
     {"ev":"id",   "digest":[20 bytes], "id":"..."}   GenerateServerID(secret) with
                    digest = SHA-1(secret ++ publicKeyDER) computed by the harness (crypto/sha1)
     {"ev":"twos", "in":[..], "out":[..]}              the in-place two's complement helper *)
EXTENDS ServerId, TraceLib

TId == IsEv("id") /\ Rec.id = SignedHex(Rec.digest) /\ UNCHANGED d
TTwos == IsEv("twos") /\ Rec.out = Twos(Rec.in) /\ UNCHANGED d
TNext == TId \/ TTwos
TSpec == d = <<0>> /\ CursorInit /\ [][TNext]_<<d, l>>
=============================================================================
