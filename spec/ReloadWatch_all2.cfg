SPECIFICATION Spec
CONSTANTS
  Contents = {"A", "B"}
  MaxOps = 2
  Kinds = {"write"}
  Fates = {"deliver", "drop"}
  Rejects = {}
  CbOps = "none"
  Recheck = TRUE
  Post = "forget"
  Record = "always"
  Export = TRUE
INVARIANTS Emit
