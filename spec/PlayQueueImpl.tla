--------------------------- MODULE PlayQueueImpl ---------------------------
(* C14 -- packets written during the configuration phase are held and delivered
   after it, in order, without loss.

   Code-shaped model of netmc.minecraftConn.bufferPacket / SetState /
   ensurePlayPacketQueue and queue.PlayPacketQueue: one action per segment
   between the gate points of the instrumented code.

     writer, one WritePacket call          state thread, one SetState call
       ReadPtr : c.mu.Lock; ptr := c.playPacketQueue      SOp : c.mu.Lock; wr.SetState(s);
                 -- gate pq.readptr --                          (activate | -- gate pq.release.begin --)
       DoWrite : ptr.Queue(p) or wr.WritePacket(p);        SRelease : ReleaseQueue; queue := nil;
                 c.mu.Unlock; Flush                             c.mu.Unlock

   With Locked = TRUE the writer keeps c.mu from ReadPtr to the end of DoWrite
   (the code as it is).  With Locked = FALSE the mutex is ignored: that
   lock-agnostic variant shows the invariants are not vacuous (TLC finds the
   packet stranded in a released queue and the play packet hitting the encoder
   in config state) and enumerates every interleaving of gate points, which the
   harness forces on the real connection (infeasible ones are skipped there).

   Thread w runs the writes Prog[w] (a sequence of kinds: "P" play-only packet,
   "K" packet that is also valid in the configuration phase); the state thread
   runs SOps (a sequence of "enter" / "leave").  Packet identity = <<w, i>>. *)
EXTENDS Naturals, Sequences, FiniteSets, TLC, Json

CONSTANTS Writers,      \* e.g. {"w1", "w2"}
          Two, Three,   \* writers doing two / three writes (the others do one)
          SOps,         \* e.g. <<"enter", "leave">>
          Cap,          \* queue bound (1024 in the code; small here)
          Split,        \* BOOLEAN: Queue() is two segments (bound check -- gate pq.queue.checked -- push)
          Prefill,      \* BOOLEAN: start in config with a queue holding Cap-1 packets
          Locked,       \* BOOLEAN
          Export        \* BOOLEAN: print every complete behaviour as a schedule

\* values for SOps (a cfg file cannot write tuples): SOps <- SOpsEL
SOpsEL == <<"enter", "leave">>
SOpsELE == <<"enter", "leave", "enter">>
SOpsELEL == <<"enter", "leave", "enter", "leave">>
SOpsNone == <<>>

S == "s"
NOps == [w \in Writers |-> IF w \in Three THEN 3 ELSE IF w \in Two THEN 2 ELSE 1]
Threads == Writers \cup {S}
MaxQ == Len(SOps) + 1

VARIABLES prog,         \* [Writers -> Seq({"P","K"})]
          pc,           \* [Threads -> {"idle", "ptr", "rel"}]
          idx,          \* [Threads -> Nat] next operation (1-based)
          ptr,          \* [Writers -> 0..MaxQ] copied queue pointer (0 = nil)
          lock,         \* holder of c.mu or "none"
          ph,           \* encoder state: "play" | "config"
          q,            \* c.playPacketQueue: queue id or 0 (nil)
          nq,           \* queues allocated so far
          qc,           \* [1..MaxQ -> Seq(packet)] contents of every queue object ever made
          wire,         \* packets encoded to the connection, in order
          closed,       \* connection closed
          why,          \* "" | "overflow" | "encode" : why it was closed
          h             \* schedule (thread names); hidden by VIEW

vars == <<prog, pc, idx, ptr, lock, ph, q, nq, qc, wire, closed, why, h>>
View == <<prog, pc, idx, ptr, lock, ph, q, nq, qc, wire, closed, why>>

RECURSIVE SeqsOf(_, _)
SeqsOf(n, set) == IF n = 0 THEN {<<>>}
                  ELSE {Append(s, k) : s \in SeqsOf(n - 1, set), k \in set}

Init == /\ prog \in {f \in [Writers -> SeqsOf(3, {"P", "K"}) \cup SeqsOf(2, {"P", "K"})
                                      \cup SeqsOf(1, {"P", "K"}) \cup {<<>>}] :
                        \A w \in Writers : Len(f[w]) = NOps[w]}
        /\ pc = [t \in Threads |-> "idle"]
        /\ idx = [t \in Threads |-> 1]
        /\ ptr = [w \in Writers |-> 0]
        /\ lock = "none"
        /\ IF Prefill
             THEN /\ ph = "config" /\ q = 1 /\ nq = 1
                  /\ qc = [i \in 1..MaxQ |-> IF i = 1 THEN [j \in 1..(Cap - 1) |-> <<"m", j>>] ELSE <<>>]
             ELSE /\ ph = "play" /\ q = 0 /\ nq = 0
                  /\ qc = [i \in 1..MaxQ |-> <<>>]
        /\ wire = <<>> /\ closed = FALSE /\ why = ""
        /\ h = <<>>

Step(t) == h' = Append(h, t)

\* bufferPacket: if Closed(c) return ErrClosedConn; c.mu.Lock(); ptr := c.playPacketQueue
ReadPtr(w) ==
    /\ pc[w] = "idle" /\ idx[w] <= Len(prog[w])
    /\ Step(w)
    /\ IF closed
         THEN /\ idx' = [idx EXCEPT ![w] = @ + 1]          \* returns ErrClosedConn at once
              /\ UNCHANGED <<pc, ptr, lock>>
         ELSE /\ IF Locked THEN lock = "none" /\ lock' = w ELSE UNCHANGED lock
              /\ ptr' = [ptr EXCEPT ![w] = q]
              /\ pc' = [pc EXCEPT ![w] = "ptr"]
              /\ UNCHANGED idx
    /\ UNCHANGED <<prog, ph, q, nq, qc, wire, closed, why>>

\* ptr.Queue(p) | c.wr.WritePacket(p); unlock; (Flush)
DoWrite(w) ==
    /\ pc[w] = "ptr"
    /\ ~(Split /\ ptr[w] # 0 /\ prog[w][idx[w]] = "P")
    /\ Step(w)
    /\ LET k == prog[w][idx[w]]
           p == <<w, idx[w]>>
       IN IF ptr[w] # 0 /\ k = "P"
            THEN IF Len(qc[ptr[w]]) >= Cap
                   THEN /\ closed' = TRUE /\ why' = (IF why = "" THEN "overflow" ELSE why)
                        /\ UNCHANGED <<qc, wire>>
                   ELSE /\ qc' = [qc EXCEPT ![ptr[w]] = Append(@, p)]
                        /\ UNCHANGED <<wire, closed, why>>
            ELSE IF k = "P" /\ ph = "config"
                   THEN \* the encoder is in config state and has no id for a play packet
                        /\ closed' = TRUE /\ why' = (IF why = "" THEN "encode" ELSE why)
                        /\ UNCHANGED <<qc, wire>>
                   ELSE /\ wire' = (IF closed THEN wire ELSE Append(wire, p))
                        /\ UNCHANGED <<qc, closed, why>>
    /\ pc' = [pc EXCEPT ![w] = "idle"]
    /\ idx' = [idx EXCEPT ![w] = @ + 1]
    /\ IF Locked THEN lock' = "none" ELSE UNCHANGED lock
    /\ UNCHANGED <<prog, ptr, ph, q, nq>>

\* Queue() in two segments (Split): the bound check ...
DoCheck(w) ==
    /\ pc[w] = "ptr" /\ Split /\ ptr[w] # 0 /\ prog[w][idx[w]] = "P"
    /\ Step(w)
    /\ IF Len(qc[ptr[w]]) >= Cap
         THEN /\ closed' = TRUE /\ why' = (IF why = "" THEN "overflow" ELSE why)
              /\ pc' = [pc EXCEPT ![w] = "idle"]
              /\ idx' = [idx EXCEPT ![w] = @ + 1]
              /\ IF Locked THEN lock' = "none" ELSE UNCHANGED lock
         ELSE /\ pc' = [pc EXCEPT ![w] = "chk"]              \* -- gate pq.queue.checked --
              /\ UNCHANGED <<closed, why, idx, lock>>
    /\ UNCHANGED <<prog, ptr, ph, q, nq, qc, wire>>

\* ... and the push
DoPush(w) ==
    /\ pc[w] = "chk"
    /\ Step(w)
    /\ qc' = [qc EXCEPT ![ptr[w]] = Append(@, <<w, idx[w]>>)]
    /\ pc' = [pc EXCEPT ![w] = "idle"]
    /\ idx' = [idx EXCEPT ![w] = @ + 1]
    /\ IF Locked THEN lock' = "none" ELSE UNCHANGED lock
    /\ UNCHANGED <<prog, ptr, ph, q, nq, wire, closed, why>>

\* SetState(s): entirely under c.mu.  Entering config, or leaving it with no queue, is one
\* segment.  Leaving with a queue is two: up to the gate pq.release.begin (encoder already
\* switched), then ReleaseQueue; c.playPacketQueue = nil; unlock.
SOp ==
    /\ pc[S] = "idle" /\ idx[S] <= Len(SOps)
    /\ Locked => lock = "none"
    /\ Step(S)
    /\ IF SOps[idx[S]] = "enter"
         THEN /\ ph' = "config"
              /\ IF q = 0 THEN q' = nq + 1 /\ nq' = nq + 1 ELSE UNCHANGED <<q, nq>>
              /\ idx' = [idx EXCEPT ![S] = @ + 1]
              /\ UNCHANGED <<pc, lock>>
         ELSE /\ ph' = "play"
              /\ IF q # 0
                   THEN /\ pc' = [pc EXCEPT ![S] = "rel"]      \* -- gate pq.release.begin --
                        /\ IF Locked THEN lock' = S ELSE UNCHANGED lock
                        /\ UNCHANGED idx
                   ELSE /\ idx' = [idx EXCEPT ![S] = @ + 1]
                        /\ UNCHANGED <<pc, lock>>
              /\ UNCHANGED <<q, nq>>
    /\ UNCHANGED <<prog, ptr, qc, wire, closed, why>>

\* ReleaseQueue(bufferNoQueue, Flush); c.playPacketQueue = nil; c.mu.Unlock()
SRelease ==
    /\ pc[S] = "rel"
    /\ Step(S)
    /\ IF q # 0
         THEN /\ wire' = (IF closed THEN wire ELSE wire \o qc[q])
              /\ qc' = [qc EXCEPT ![q] = <<>>]
              /\ q' = 0
         ELSE UNCHANGED <<q, qc, wire>>
    /\ pc' = [pc EXCEPT ![S] = "idle"]
    /\ idx' = [idx EXCEPT ![S] = @ + 1]
    /\ IF Locked THEN lock' = "none" ELSE UNCHANGED lock
    /\ UNCHANGED <<prog, ptr, ph, nq, closed, why>>

Next == SOp \/ SRelease \/ \E w \in Writers : ReadPtr(w) \/ DoWrite(w) \/ DoCheck(w) \/ DoPush(w)

Spec == Init /\ [][Next]_vars

Quiescent == /\ \A w \in Writers : pc[w] = "idle" /\ idx[w] > Len(prog[w])
             /\ pc[S] = "idle" /\ idx[S] > Len(SOps)

----------------------------------------------------------------------------
(* The property, on the model's state. *)

AllPkts == {<<w, i>> : w \in Writers, i \in 1..3}
Count(s, p) == Cardinality({i \in 1..Len(s) : s[i] = p})
Live == IF q = 0 THEN <<>> ELSE qc[q]

\* no packet sits in a queue that was already released (it would never be sent)
NoStranded == \A i \in 1..MaxQ : i # q => qc[i] = <<>>

\* the connection is closed only by overflow of the holding queue
NoSpuriousClose == closed => why = "overflow"

\* at quiescence every written packet is on the wire or still held, exactly once
NoLossNoDup ==
    (Quiescent /\ ~closed) =>
        \A w \in Writers : \A i \in 1..Len(prog[w]) :
            Count(wire, <<w, i>>) + Count(Live, <<w, i>>) = 1

\* per-writer order on the wire among packets of the same kind (a held play packet
\* is legitimately overtaken by a later config-phase packet of the same writer)
KindOf(p) == prog[p[1]][p[2]]
PerWriterOrder ==
    \A i, j \in 1..Len(wire) :
        (i < j /\ wire[i][1] = wire[j][1] /\ KindOf(wire[i]) = KindOf(wire[j]))
            => wire[i][2] < wire[j][2]

\* play-only packets are never encoded while the encoder is in config state:
\* nothing is appended to the wire by a "P" write in config (checked as action property)
HeldInConfig ==
    [][\A w \in Writers :
         (pc[w] = "ptr" /\ pc'[w] = "idle" /\ prog[w][idx[w]] = "P" /\ ph = "config")
            => wire' = wire]_vars

\* while held packets wait at the release gate nothing else reaches the wire: a later
\* packet must not overtake them
NoOvertake ==
    [][(pc[S] = "rel" /\ pc'[S] = "rel" /\ q # 0 /\ qc[q] # <<>>) => wire' = wire]_vars

Bounded == \A i \in 1..MaxQ : Len(qc[i]) <= Cap

TypeOK == /\ ph \in {"play", "config"} /\ q \in 0..MaxQ /\ closed \in BOOLEAN

----------------------------------------------------------------------------
(* Schedule export: each complete behaviour once (h makes them distinct). *)
Emit == (Export /\ Quiescent) =>
           PrintT(<<"SCHED", ToJson([prog |-> prog, sops |-> SOps, prefill |-> Prefill, sched |-> h])>>)
=============================================================================
