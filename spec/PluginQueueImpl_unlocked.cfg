SPECIFICATION Spec
CONSTANTS
  Ks = {2}
  Locked = FALSE
  Export = FALSE
VIEW View
INVARIANTS InOrder NoLoss
