SPECIFICATION Spec
CONSTANTS
  Threads = {}
  Servers = {"s1"}
  InitServer = "none"
  Try1 = "s1"
  Try2 = "s1"
  Apis = {"connect"}
  Behs = {"accept"}
  Atomic = TRUE
  StaleClears = FALSE
  KickClears = FALSE
  AllowKick = FALSE
  AllowQuit = FALSE
  Sequential = FALSE
  FirstRound = TRUE
  AckThenInstall = TRUE
  Export = FALSE
VIEW View
INVARIANTS FirstJoinLands
