-------------------------- MODULE CommandDispatch --------------------------
(* C22 -- a command runs on the proxy or reaches the backend exactly once.

   Decision table.  A player of client family fam (which packet type carries
   commands), holding or not holding the permission "verif.use", types command
   lines one after the other.  For each line the CommandExecuteEvent result is
     deny   the event denies the command
     fwd    the event asks to forward it to the backend
     to     the event rewrites the command line to `to` ("" = unchanged)
   and the packet is signed or not (keyed: signed flag, session: argument signatures).

   Registered proxy commands of the fixture:
     vopen            no requirement          valias   alias of vopen
     vperm            requires "verif.use"    vargs <word>   one word argument
     verr             its handler runs and then returns an ordinary error: still executed by the
                      proxy (once), so it must not reach the backend as well
     VMix             registered under a mixed-case literal; typed exactly so it names that
                      command, typed in another case ("vmix") it is one of the open cases below
   Everything else is unknown to the proxy.

   Decision(fam, perm, s) = what must happen:
     proxy   number of proxy command executions (0 or 1)
     backend number of packets the backend receives (0 or 1)
     text    the command text in that packet
   executed on the proxy  <=>  the effective line names a registered proxy command the
   player may use and the event neither denied nor forwarded it; otherwise, unless
   denied, the backend receives it exactly once (unchanged or as rewritten); a denied
   command reaches nobody.

   Lines whose "naming a registered command" the statement leaves open (upper-case
   spelling, trailing space) are Ambiguous: for them the relation only demands that
   the command is not both executed and delivered, never delivered twice, delivered
   when the event forwards it and never when it is denied. *)
EXTENDS Naturals, Sequences, FiniteSets, TLC, Json

CONSTANTS MaxLen,   \* command lines per history
          Sample    \* BOOLEAN: -simulate only (one random line per step)

Fams == {"legacy", "keyed", "session", "unsigned"}
\* a line is the command text after the one slash that marks a command; "/vopen" and "//vnone x" are
\* lines that themselves begin with slashes (typed "//vopen", "///vnone x", e.g. WorldEdit's "//wand"):
\* they name no proxy command, even if the text after the extra slashes does
Lines == {"vopen", "vperm", "valias", "vargs w", "vnone", "vnone a b", "VOPEN", "vopen ", "/vopen", "//vnone x", "VMix", "vmix", "verr"}
Targets == {"", "vopen", "vperm", "vargs z", "vother x"}

Registered(line) == line \in {"vopen", "vperm", "valias", "vargs w", "vargs z", "VMix", "verr"}
NeedsPerm(line) == line = "vperm"
Ambiguous(line) == line \in {"VOPEN", "vopen ", "vmix"}
\* the proxy command (handler) a registered line runs
Handler(line) == CASE line \in {"vopen", "valias"} -> "vopen"
                   [] line = "vperm" -> "vperm"
                   [] line \in {"vargs w", "vargs z"} -> "vargs"
                   [] line = "VMix" -> "vmix"
                   [] line = "verr" -> "verr"
                   [] OTHER -> ""

Steps == [line : Lines, to : Targets, deny : BOOLEAN, fwd : BOOLEAN, signed : BOOLEAN]
ValidStep(f, s) == /\ (s.signed => f \in {"keyed", "session"})
                   /\ s.to # s.line

Eff(s) == IF s.to = "" THEN s.line ELSE s.to
MayUse(perm, line) == NeedsPerm(line) => perm
OnProxy(perm, s) == Registered(Eff(s)) /\ MayUse(perm, Eff(s)) /\ ~s.deny /\ ~s.fwd
Wire(f, line) == IF f = "legacy" THEN "/" \o line ELSE line

Decision(f, perm, s) ==
    [proxy   |-> IF OnProxy(perm, s) THEN 1 ELSE 0,
     backend |-> IF ~s.deny /\ ~OnProxy(perm, s) THEN 1 ELSE 0,
     text    |-> Wire(f, Eff(s)),
     handler |-> Handler(Eff(s))]

(* Observed(f, perm, s, execs, back): execs = sequence of handler names that ran,
   back = sequence of [txt, signed] the backend received for this line. *)
Observed(f, perm, s, execs, back) ==
    LET d == Decision(f, perm, s) IN
    IF s.deny THEN execs = <<>> /\ back = <<>>
    ELSE IF Ambiguous(Eff(s)) /\ ~s.fwd
      THEN \/ (Len(execs) = 1 /\ back = <<>>)
           \/ (execs = <<>> /\ Len(back) = 1 /\ back[1].txt = d.text)
           \/ (execs = <<>> /\ back = <<>>)          \* answered with a syntax error
    ELSE /\ Len(execs) = d.proxy
         /\ (d.proxy = 1 => execs[1] = d.handler)
         /\ Len(back) = d.backend
         /\ (d.backend = 1 => /\ back[1].txt = d.text
                              /\ (s.to = "" => back[1].signed = s.signed))   \* unchanged

VARIABLES fam, perm, h
vars == <<fam, perm, h>>

Init == fam \in Fams /\ perm \in BOOLEAN /\ h = <<>>
Next == /\ Len(h) < MaxLen
        /\ IF Sample THEN h' = Append(h, RandomElement({s \in Steps : ValidStep(fam, s)}))
           ELSE \E s \in Steps : ValidStep(fam, s) /\ h' = Append(h, s)
        /\ UNCHANGED <<fam, perm>>
Spec == Init /\ [][Next]_vars

(* The statement, on the table itself *)
ExactlyOnePlace == \A i \in 1..Len(h) : LET d == Decision(fam, perm, h[i]) IN
                      /\ d.proxy + d.backend = (IF h[i].deny THEN 0 ELSE 1)
                      /\ (d.proxy = 1 <=> OnProxy(perm, h[i]))
DeniedNowhere == \A i \in 1..Len(h) : h[i].deny =>
                      LET d == Decision(fam, perm, h[i]) IN d.proxy = 0 /\ d.backend = 0
ForwardedNeverRuns == \A i \in 1..Len(h) : h[i].fwd => Decision(fam, perm, h[i]).proxy = 0
NoPermNeverRuns == \A i \in 1..Len(h) : (NeedsPerm(Eff(h[i])) /\ ~perm) => Decision(fam, perm, h[i]).proxy = 0

Emit == Len(h) = MaxLen => PrintT(<<"CASE", ToJson([fam |-> fam, perm |-> perm, steps |-> h])>>)
=============================================================================
