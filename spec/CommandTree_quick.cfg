SPECIFICATION Spec
CONSTANTS
  Mode = "small"
  Deep = FALSE
  Cyc = FALSE
  Variant = "reference"
  BackPairs = FALSE
  Export = FALSE
INVARIANTS EveryProxyNodePasses EveryUsableProxyNodeShown NamesDistinct ProxyReplacesBackend BackendKept NothingElse
