SPECIFICATION FairSpec
CONSTANTS
  Contents = {"A", "B"}
  MaxOps = 3
  Kinds = {"write"}
  Fates = {"drop"}
  Rejects = {"B"}
  CbOps = "none"
  Recheck = TRUE
  Post = "forget"
  Record = "accept"
  Breaks = FALSE
  Blind = FALSE
  Export = FALSE
INVARIANTS NoHazard
