SPECIFICATION Spec
CONSTANTS
  Backends = {"a", "b", "c", "d"}
  MaxConns = 14
  WrapShrunken = TRUE
INVARIANT RRFair
