------------------------- MODULE FutureHist_Trace -------------------------
EXTENDS FutureHist, TraceLib

tvars == <<hvars, l>>

AsSet(s) == {s[i] : i \in 1..Len(s)}

TInit == CursorInit /\ HInit({})

TReset == IsEv("reset") /\ LET futs == AsSet(Rec.futs) IN
            /\ started' = [f \in futs |-> {}]
            /\ frozen' = [f \in futs |-> FALSE]
            /\ cands' = [f \in futs |-> {}]
            /\ val' = [f \in futs |-> 0]
            /\ reg' = [f \in futs |-> {}]
            /\ ran' = <<>>
            /\ comp' = [f \in futs |-> <<>>]
            /\ open' = <<>>

TCompose == IsEv("compose") /\ Compose(Rec.out, Rec.f, Rec.g)
TCall == IsEv("call") /\
           IF Rec.op = "accept" THEN CallAccept(Rec.thread, Rec.fut, Rec.cb)
           ELSE CallComplete(Rec.thread, Rec.fut, Rec.v)
TRan == IsEv("ran") /\ Ran(Rec.cb, Rec.fut, Rec.v)
TRet == IsEv("ret") /\ Ret(Rec.thread)
TEnd == IsEv("end") /\ End

TNext == TReset \/ TCompose \/ TCall \/ TRan \/ TRet \/ TEnd
TSpec == TInit /\ [][TNext]_tvars
=============================================================================
