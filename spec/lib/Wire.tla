-------------------------------- MODULE Wire --------------------------------
(* Byte-level wire operators of the Minecraft Java protocol, shared by every spec
   that talks about bytes on the wire (C03 primitives, C02/C01 framing, packet
   layouts).  Pure operators only: no variables, no constants.

   Conventions
   * A byte string is a TLA+ sequence over 0..255.  Text (strings, keys) is its
     UTF-8 byte string; Wire never looks inside UTF-8.
   * TLC integers are 32-bit signed, so int32 values (VarInt, Int) are plain
     integers; wider or unsigned-32 values are sequences of big-endian 16-bit
     limbs (most significant first): uint32 = <<hi, lo>>, (u)int64 / double =
     <<l3, l2, l1, l0>>.  Floats are specified on their IEEE-754 bit pattern.
   * Every encoder  EncX(v)  returns the byte string.
   * Every decoder  DecX(b, ...)  reads from the FRONT of b, ignores what follows
     the value, and returns a record  [ok, v, n]:
        ok  TRUE iff b starts with a complete, acceptable encoding
        v   the decoded value (meaningless when ~ok: test ok first, TLC cannot
            compare values of different shapes)
        n   number of bytes consumed (meaningless when ~ok)
     Strict-prefix rule: all formats here are self-delimiting, hence for every
     strict prefix p of EncX(v):  ~DecX(p).ok .  A decoder must never invent the
     missing bytes.  Length prefixes that are negative or above the format's
     limit give ~ok without looking at (or needing) any body byte.
   * Only div/mod arithmetic on possibly-negative values (TLA+ % and \div floor,
     so no 2^32 constant is needed), nothing overflows 32 bits.
   * Operators are non-recursive in the length of byte bodies (SubSeq / \o), so
     multi-megabyte arrays are fine; recursion is only over element counts. *)
EXTENDS Integers, Sequences

Byte == 0..255
IsBytes(b) == \A i \in 1..Len(b) : b[i] \in Byte

Min2(a, b) == IF a < b THEN a ELSE b

\* first k bytes / everything after the first k bytes (k may exceed Len)
Take(b, k) == SubSeq(b, 1, Min2(k, Len(b)))
Drop(b, k) == SubSeq(b, k + 1, Len(b))

\* the result of a failed decode; v and n carry no information
Fail == [ok |-> FALSE, v |-> 0, n |-> 0]
Ok(v, n) == [ok |-> TRUE, v |-> v, n |-> n]

\* all strict prefixes of b
StrictPrefixes(b) == {SubSeq(b, 1, k) : k \in 0..(Len(b) - 1)}

\* E(x1) \o E(x2) \o ... for a sequence xs
ConcatMap(E(_), xs) ==
    LET RECURSIVE F(_)
        F(i) == IF i > Len(xs) THEN <<>> ELSE E(xs[i]) \o F(i + 1)
    IN F(1)

-----------------------------------------------------------------------------
(* VarInt: LEB128 of the value's 32-bit two's-complement pattern, least
   significant group first, bit 7 = "more follows"; 1..5 bytes, negative values
   always take 5.  The encoder output is minimal (no redundant zero groups). *)

Int32 == (-2147483647 - 1)..2147483647

RECURSIVE EncVarNat(_)
EncVarNat(v) == IF v < 128 THEN <<v>> ELSE <<(v % 128) + 128>> \o EncVarNat(v \div 128)

EncVarNeg(v) == << (v % 128) + 128,
                   ((v \div 128) % 128) + 128,
                   ((v \div 16384) % 128) + 128,
                   ((v \div 2097152) % 128) + 128,
                   (v \div 268435456) % 16 >>

EncVarInt(v) == IF v >= 0 THEN EncVarNat(v) ELSE EncVarNeg(v)

VarIntLen(v) == Len(EncVarInt(v))

(* Reads at most 5 bytes.  Fails when the bytes end before a byte without the
   continuation bit (truncation) and when 5 bytes all carry it (too long).
   Bits 4..6 of a 5th byte do not fit in 32 bits and are dropped, as vanilla,
   Velocity and Gate all do; such encodings are never produced by EncVarInt. *)
DecVarInt(b) ==
    LET m == Min2(Len(b), 5)
        stop == {i \in 1..m : b[i] < 128}
    IN IF stop = {} THEN Fail
       ELSE LET n == CHOOSE i \in stop : \A j \in stop : i <= j
                g(i) == IF i <= n THEN b[i] % 128 ELSE 0
                low == g(1) + g(2) * 128 + g(3) * 16384 + g(4) * 2097152
                top == g(5) % 16
            IN Ok(IF top >= 8 THEN (top - 16) * 268435456 + low
                              ELSE top * 268435456 + low, n)

\* b starts with a VarInt in its shortest form (what EncVarInt would produce)
MinimalVarInt(b) == LET d == DecVarInt(b) IN d.ok /\ Take(b, d.n) = EncVarInt(d.v)

-----------------------------------------------------------------------------
(* Fixed-width big-endian integers. *)

EncU8(v) == <<v>>
DecU8(b) == IF Len(b) < 1 THEN Fail ELSE Ok(b[1], 1)
\* signed byte: -128..127
EncI8(v) == <<v % 256>>
DecI8(b) == IF Len(b) < 1 THEN Fail ELSE Ok(IF b[1] >= 128 THEN b[1] - 256 ELSE b[1], 1)

\* boolean: one byte, 1 / 0; any non-zero byte reads as TRUE
EncBool(v) == IF v THEN <<1>> ELSE <<0>>
DecBool(b) == IF Len(b) < 1 THEN Fail ELSE Ok(b[1] # 0, 1)

\* unsigned short 0..65535
EncU16(v) == <<v \div 256, v % 256>>
DecU16(b) == IF Len(b) < 2 THEN Fail ELSE Ok(b[1] * 256 + b[2], 2)
\* signed short -32768..32767
EncI16(v) == EncU16(v % 65536)
DecI16(b) == LET d == DecU16(b) IN
             IF ~d.ok THEN Fail ELSE Ok(IF d.v >= 32768 THEN d.v - 65536 ELSE d.v, 2)

\* int32 as a TLC integer (two's complement)
EncI32(v) == EncU16((v \div 65536) % 65536) \o EncU16(v % 65536)
DecI32(b) == IF Len(b) < 4 THEN Fail
             ELSE LET hi == b[1] * 256 + b[2]
                      lo == b[3] * 256 + b[4]
                  IN Ok((IF hi >= 32768 THEN hi - 65536 ELSE hi) * 65536 + lo, 4)

\* k big-endian 16-bit limbs (k = 2: uint32 / float; k = 4: (u)int64 / double / time)
EncLimbs(ls) == ConcatMap(EncU16, ls)
DecLimbs(b, k) == IF Len(b) < 2 * k THEN Fail
                  ELSE Ok([i \in 1..k |-> b[2 * i - 1] * 256 + b[2 * i]], 2 * k)

\* UUID: 16 raw bytes (most significant first); the "int array" form of 1.16+ NBT-less
\* packets is the same 16 bytes written as four big-endian int32
EncUUID(u) == u
DecUUID(b) == IF Len(b) < 16 THEN Fail ELSE Ok(SubSeq(b, 1, 16), 16)

-----------------------------------------------------------------------------
(* Length-prefixed byte strings.
   String / byte array: VarInt byte length + bytes.  The decoder takes the largest
   acceptable byte length (for a string of at most maxChars code points that is
   StrMaxBytes(maxChars): UTF-8 needs at most 4 bytes per code point). *)

EncBytes(s) == EncVarInt(Len(s)) \o s
DecBytes(b, maxLen) ==
    LET h == DecVarInt(b) IN
    IF ~h.ok \/ h.v < 0 \/ h.v > maxLen THEN Fail          \* rejected on the prefix alone
    ELSE IF Len(b) - h.n < h.v THEN Fail                   \* truncated body
    ELSE Ok(SubSeq(b, h.n + 1, h.n + h.v), h.n + h.v)

\* TRUE iff b starts with a length prefix that must be rejected without reading on
BadLenPrefix(b, maxLen) == LET h == DecVarInt(b) IN h.ok /\ (h.v < 0 \/ h.v > maxLen)

StrMaxBytes(maxChars) == 4 * maxChars
EncString(s) == EncBytes(s)
DecString(b, maxChars) == DecBytes(b, StrMaxBytes(maxChars))

\* java.io.DataOutput "UTF": unsigned-short byte length + bytes (at most 65535 bytes)
EncUTF(s) == EncU16(Len(s)) \o s
DecUTF(b) == LET h == DecU16(b) IN
             IF ~h.ok \/ Len(b) - 2 < h.v THEN Fail ELSE Ok(SubSeq(b, 3, 2 + h.v), 2 + h.v)

(* 1.7-style byte array.  Length = "extended short" (vanilla short, Forge extension):
   a big-endian unsigned short whose low 15 bits are bits 0..14 of the length; when
   its bit 15 is set one more byte follows carrying bits 15..22.  Lengths up to
   32767 therefore look exactly like a vanilla short. *)
ForgeMaxArrayLength == 2097050        \* 0x1FFF9A
EncExtShort(len) ==
    LET low == len % 32768  high == len \div 32768 IN
    IF high = 0 THEN EncU16(low) ELSE EncU16(low + 32768) \o <<high % 256>>
DecExtShort(b) ==
    LET h == DecU16(b) IN
    IF ~h.ok THEN Fail
    ELSE IF h.v < 32768 THEN Ok(h.v, 2)
    ELSE IF Len(b) < 3 THEN Fail
    ELSE Ok(b[3] * 32768 + (h.v - 32768), 3)
EncBytes17(s) == EncExtShort(Len(s)) \o s
DecBytes17(b) ==
    LET h == DecExtShort(b) IN
    IF ~h.ok \/ h.v > ForgeMaxArrayLength THEN Fail
    ELSE IF Len(b) - h.n < h.v THEN Fail
    ELSE Ok(SubSeq(b, h.n + 1, h.n + h.v), h.n + h.v)

-----------------------------------------------------------------------------
(* Counted arrays: VarInt count + elements.  D(bytes) is an element decoder
   returning [ok, v, n].  A negative count is rejected on the prefix alone. *)

EncArray(E(_), xs) == EncVarInt(Len(xs)) \o ConcatMap(E, xs)

\* decode cnt consecutive elements from the front of b
DecMany(D(_), b, cnt) ==
    LET RECURSIVE G(_, _, _)
        G(k, off, acc) ==
            IF k = 0 THEN Ok(acc, off)
            ELSE LET d == D(Drop(b, off)) IN
                 IF ~d.ok THEN Fail ELSE G(k - 1, off + d.n, Append(acc, d.v))
    IN G(cnt, 0, <<>>)

DecArray(D(_), b) ==
    LET h == DecVarInt(b) IN
    IF ~h.ok \/ h.v < 0 THEN Fail
    \* every element takes at least one byte: a count beyond the remaining bytes is truncated
    ELSE IF h.v > Len(b) - h.n THEN Fail
    ELSE LET r == DecMany(D, Drop(b, h.n), h.v) IN
         IF ~r.ok THEN Fail ELSE Ok(r.v, h.n + r.n)

NegativeCount(b) == LET h == DecVarInt(b) IN h.ok /\ h.v < 0

-----------------------------------------------------------------------------
(* Game-profile property list: VarInt count, then per property
   String name, String value, Bool hasSignature, [String signature].
   A property is a record [name, value, sig]; sig = <<>> means "unsigned"
   (hasSignature = FALSE), the writer never emits an empty signature string. *)

EncProp(p) == EncString(p.name) \o EncString(p.value) \o
              (IF p.sig = <<>> THEN EncBool(FALSE) ELSE EncBool(TRUE) \o EncString(p.sig))
EncProps(ps) == EncArray(EncProp, ps)

DecProp(b, maxChars) ==
    LET a == DecString(b, maxChars) IN
    IF ~a.ok THEN Fail ELSE
    LET v == DecString(Drop(b, a.n), maxChars) IN
    IF ~v.ok THEN Fail ELSE
    LET f == DecBool(Drop(b, a.n + v.n)) IN
    IF ~f.ok THEN Fail ELSE
    IF ~f.v THEN Ok([name |-> a.v, value |-> v.v, sig |-> <<>>], a.n + v.n + 1) ELSE
    LET s == DecString(Drop(b, a.n + v.n + 1), maxChars) IN
    IF ~s.ok THEN Fail
    ELSE Ok([name |-> a.v, value |-> v.v, sig |-> s.v], a.n + v.n + 1 + s.n)

DecProps(b, maxChars) == LET D(x) == DecProp(x, maxChars) IN DecArray(D, b)

-----------------------------------------------------------------------------
(* Resource keys ("namespace:value" written as a String).
   A key value is a record [ns, val] of byte strings.  Reading splits at the first
   ':'; no ':' or an empty namespace means namespace "minecraft".  Namespace chars
   are [a-z0-9_.-], value chars additionally '/'; the namespace ".." is refused. *)

Colon == 58
MinecraftNS == <<109, 105, 110, 101, 99, 114, 97, 102, 116>>      \* "minecraft"

NsChar(c) == (c >= 97 /\ c <= 122) \/ (c >= 48 /\ c <= 57) \/ c = 95 \/ c = 45 \/ c = 46
ValChar(c) == NsChar(c) \/ c = 47
KeyValid(k) == /\ \A i \in 1..Len(k.ns) : NsChar(k.ns[i])
               /\ \A i \in 1..Len(k.val) : ValChar(k.val[i])
               /\ k.ns # <<46, 46>>

KeyText(k) == k.ns \o <<Colon>> \o k.val
\* the "minimal" text omits a minecraft namespace
KeyMinimalText(k) == IF k.ns = MinecraftNS THEN k.val ELSE KeyText(k)

ParseKey(s) ==
    LET cs == {i \in 1..Len(s) : s[i] = Colon} IN
    IF cs = {} THEN [ns |-> MinecraftNS, val |-> s]
    ELSE LET c == CHOOSE i \in cs : \A j \in cs : i <= j IN
         [ns |-> IF c = 1 THEN MinecraftNS ELSE SubSeq(s, 1, c - 1), val |-> Drop(s, c)]

EncKey(k) == EncString(KeyText(k))
EncMinimalKey(k) == EncString(KeyMinimalText(k))
\* validated read (ReadKey): an invalid key is an error
DecKey(b, maxChars) ==
    LET s == DecString(b, maxChars) IN
    IF ~s.ok THEN Fail
    ELSE LET k == ParseKey(s.v) IN IF KeyValid(k) THEN Ok(k, s.n) ELSE Fail
\* unvalidated read of the minimal form
DecMinimalKey(b, maxChars) ==
    LET s == DecString(b, maxChars) IN IF ~s.ok THEN Fail ELSE Ok(ParseKey(s.v), s.n)
=============================================================================
