------------------------------ MODULE TraceLib ------------------------------
(* Common cursor over an ndjson trace recorded from the real code.

   A trace spec EXTENDS TraceLib, declares its own state variables, and defines
   for each event name an action   IsEv("name") /\ <bind logged fields> /\ SpecAction.
   `l` is the index of the next unread line.  TLC register 1 keeps the high-water
   mark of consumed lines (INVARIANT Mark; run with -workers 1), printed by the POSTCONDITION as
   <<"MATCHED", k>>; the runner compares it with <<"TRACELEN", n>>.  On a rejection
   the first unexplained line is k+1.

   Traces of many independent runs are concatenated; a line with ev = "reset"
   re-initialises the spec state (the trace spec defines what that means). *)
EXTENDS Naturals, Sequences, TLC, Json

VARIABLE l

Trace == ndJsonDeserialize("trace.ndjson")

Max2(a, b) == IF a > b THEN a ELSE b

CursorInit == l = 1 /\ TLCSet(1, 0)

Rec == Trace[l]

Has(r, f) == f \in DOMAIN r

\* consume line l if it is event e
IsEv(e) == /\ l <= Len(Trace)
           /\ Trace[l].ev = e
           /\ l' = l + 1

\* INVARIANT Mark: evaluated on every reached state; l - 1 lines were consumed to reach it
Mark == TLCSet(1, Max2(TLCGet(1), l - 1))

\* a silent (unlogged) spec step: does not consume a line
Silent == l' = l

Accepted == /\ PrintT(<<"MATCHED", TLCGet(1)>>)
            /\ PrintT(<<"TRACELEN", Len(Trace)>>)
            /\ TLCGet(1) = Len(Trace)
=============================================================================
