------------------------------- MODULE IPText -------------------------------
(* The textual grammar of IP addresses on sequences of character codes:
   IPv4 dotted quads, IPv6 with "::" compression, an embedded dotted quad at the end
   and an optional %zone.  ParseIP(s) = [st |-> "ok" | "bad" | "amb", fam |-> 4 | 6,
   bytes |-> 4 or 16 bytes, zone |-> BOOLEAN]; "amb" = only a leading zero in a decimal
   field keeps it from being valid (readers disagree on those).
   (TLC evaluates an operator argument again at every mention of the parameter but a LET
   definition only once, so operators LET-bind their parameters before using them.) *)
EXTENDS Integers, Sequences, FiniteSets, SequencesExt

Dot == 46
Colon == 58
Slash == 47
Pct == 37
LBr == 91
RBr == 93
IsDig(c) == c >= 48 /\ c <= 57
HexV(c) == IF IsDig(c) THEN c - 48
           ELSE IF c >= 97 /\ c <= 102 THEN c - 87
           ELSE IF c >= 65 /\ c <= 70 THEN c - 55 ELSE -1
HasCh(s0, c) == LET s == s0 IN \E i \in 1..Len(s) : s[i] = c
Count(s0, c) == LET s == s0 IN Cardinality({i \in 1..Len(s) : s[i] = c})

\* tokens of s between separators c (k separators give k+1 tokens, possibly empty)
Split(s0, c) ==
    LET s == s0
        P == SetToSortSeq({i \in 1..Len(s) : s[i] = c}, LAMBDA x, y : x < y)
        k == Len(P)
        Pos(j) == IF j = 0 THEN 0 ELSE IF j = k + 1 THEN Len(s) + 1 ELSE P[j]
    IN [j \in 1..(k + 1) |-> SubSeq(s, Pos(j - 1) + 1, Pos(j) - 1)]

\* decimal token: its value, -1 if it is no number in 0..max, -2 if it only fails for a leading zero
DecTok(t0, max) ==
    LET t == t0 IN
    IF Len(t) = 0 \/ Len(t) > 3 \/ \E i \in 1..Len(t) : ~IsDig(t[i]) THEN -1
    ELSE LET v == IF Len(t) = 1 THEN t[1] - 48
                  ELSE IF Len(t) = 2 THEN 10 * (t[1] - 48) + t[2] - 48
                  ELSE 100 * (t[1] - 48) + 10 * (t[2] - 48) + t[3] - 48
         IN IF v > max THEN -1 ELSE IF Len(t) > 1 /\ t[1] = 48 THEN -2 ELSE v

\* hexadecimal group of 1..4 digits: its value or -1
HexTok(t0) ==
    LET t == t0 IN
    IF Len(t) = 0 \/ Len(t) > 4 \/ \E i \in 1..Len(t) : HexV(t[i]) < 0 THEN -1
    ELSE IF Len(t) = 1 THEN HexV(t[1])
    ELSE IF Len(t) = 2 THEN 16 * HexV(t[1]) + HexV(t[2])
    ELSE IF Len(t) = 3 THEN 256 * HexV(t[1]) + 16 * HexV(t[2]) + HexV(t[3])
    ELSE 4096 * HexV(t[1]) + 256 * HexV(t[2]) + 16 * HexV(t[3]) + HexV(t[4])

BadIP == [st |-> "bad", fam |-> 0, bytes |-> <<>>, zone |-> FALSE]
AmbIP == [st |-> "amb", fam |-> 0, bytes |-> <<>>, zone |-> FALSE]

ParseV4(s0) ==
    LET t == Split(s0, Dot) IN
    IF Len(t) # 4 THEN BadIP
    ELSE LET v == [i \in 1..4 |-> DecTok(t[i], 255)] IN
         IF \E i \in 1..4 : v[i] = -1 THEN BadIP
         ELSE IF \E i \in 1..4 : v[i] = -2 THEN AmbIP
         ELSE [st |-> "ok", fam |-> 4, bytes |-> v, zone |-> FALSE]

\* groups (16-bit values) of a colon separated string; a dotted quad is allowed as the very
\* last token when v4ok.  <<-1>> = malformed, <<-2>> = only a leading zero in the dotted quad
Groups(str0, v4ok) ==
    LET str == str0 IN
    IF str = <<>> THEN <<>>
    ELSE LET t == Split(str, Colon)
             n == Len(t)
             dotted == HasCh(t[n], Dot)
             q == IF dotted THEN ParseV4(t[n]) ELSE BadIP
             hx == [i \in 1..n |-> IF i = n /\ dotted THEN 0 ELSE HexTok(t[i])]
         IN IF \E i \in 1..n : hx[i] < 0 THEN <<-1>>
            ELSE IF ~dotted THEN hx
            ELSE IF ~v4ok \/ q.st = "bad" THEN <<-1>>
            ELSE IF q.st = "amb" THEN <<-2>>
            ELSE SubSeq(hx, 1, n - 1) \o <<256 * q.bytes[1] + q.bytes[2], 256 * q.bytes[3] + q.bytes[4]>>

GBad(g0) == LET g == g0 IN g # <<>> /\ g[1] < 0

ParseV6(s0) ==
    LET s == s0
        z == IF HasCh(s, Pct) THEN CHOOSE i \in 1..Len(s) : s[i] = Pct /\ \A j \in 1..(i - 1) : s[j] # Pct ELSE 0
        a == IF z = 0 THEN s ELSE SubSeq(s, 1, z - 1)
        D == {i \in 1..(Len(a) - 1) : a[i] = Colon /\ a[i + 1] = Colon}
    IN IF z # 0 /\ z = Len(s) THEN BadIP                         \* empty zone
       ELSE IF Cardinality(D) > 1 THEN BadIP                     \* "::" twice or ":::"
       ELSE LET g == IF D = {} THEN Groups(a, TRUE)
                     ELSE LET i == CHOOSE x \in D : TRUE
                              L == Groups(SubSeq(a, 1, i - 1), FALSE)
                              R == Groups(SubSeq(a, i + 2, Len(a)), TRUE)
                          IN IF GBad(L) THEN L ELSE IF GBad(R) THEN R
                             ELSE IF Len(L) + Len(R) > 7 THEN <<-1>>
                             ELSE L \o [k \in 1..(8 - Len(L) - Len(R)) |-> 0] \o R
            IN IF GBad(g) THEN (IF g[1] = -2 THEN AmbIP ELSE BadIP)
               ELSE IF Len(g) # 8 THEN BadIP
               ELSE [st |-> "ok", fam |-> 6,
                     bytes |-> [k \in 1..16 |-> IF k % 2 = 1 THEN g[(k + 1) \div 2] \div 256 ELSE g[k \div 2] % 256],
                     zone |-> z # 0]

ParseIP(s0) == LET s == s0 IN IF HasCh(s, Colon) THEN ParseV6(s) ELSE IF HasCh(s, Pct) THEN BadIP ELSE ParseV4(s)
=============================================================================
