----------------------------- MODULE FrameRules -----------------------------
(* Which frames a Minecraft frame decoder must yield, skip or reject (C02; also the
   reader of the C01 model and the judge of the frames the real writer emits).

   Transcribed from the property statement and from Velocity's
   MinecraftVarintFrameDecoder + MinecraftCompressDecoder (where they differ the
   statement wins: an uncompressed frame of exactly the threshold size is tolerated,
   a larger one rejected).  zlib is uninterpreted: the facts about a compressed body
   (does it inflate completely and with a correct checksum, to how many bytes, are
   there bytes left behind the stream) are inputs z = [ok, n, trail].

   Frame(dir, thr, head, avail, z) is the verdict on the frame at the front of a byte
   stream of which `avail` bytes are available and `head` are the first (at most 16):

     kind   "raw"        yield the bytes behind the length prefix (compression off) or
                         behind the claimed-size VarInt 0 (compression on)
            "inflated"   yield the inflated body
            "skip"       nothing to yield (empty frame / empty uncompressed payload), go on
            "reject"     protocol violation: error, nothing is yielded any more
            "incomplete" the available bytes end inside the frame: no payload; at the
                         end of a finite stream that is an error as well
     off, plen  where the payload starts (raw) and how long it is
     used       bytes of the stream consumed by this frame (skip / raw / inflated)
     judged     FALSE where the statement leaves the outcome open: a length prefix that
                is not minimally encoded, bytes behind the end of the zlib stream.
                Safety (no panic, no hang, bounded allocation) is required regardless.
     lenOK      the length prefix announces 1..MaxFrame bytes (memory for it may be taken)
     inflOK     the claimed size passed all checks (memory for it may be taken)
     need       bytes of memory the frame justifies: its length if lenOK plus the claimed
                size if inflOK

   dir = "sb" (from a client, cap 2 MiB) or "cb" (from a server, cap 8 MiB);
   thr = -1: compression off. *)
EXTENDS Wire

MaxFrame == 2097151      \* 2^21 - 1, vanilla's 3-byte VarInt frame length
CapSB == 2097152         \* 2 MiB
CapCB == 8388608         \* 8 MiB
Cap(dir) == IF dir = "sb" THEN CapSB ELSE CapCB

\* the compression envelope on numbers: claimed size, bytes behind it, zlib facts
Envelope(dir, thr, claimed, rest, z) ==
    IF claimed = 0
      THEN IF rest > thr THEN "reject" ELSE IF rest = 0 THEN "skip" ELSE "raw"
    ELSE IF claimed < 0 \/ claimed < thr \/ claimed > Cap(dir) THEN "reject"
    ELSE IF z.ok /\ z.n = claimed THEN "inflated" ELSE "reject"

\* the claimed size is one for which the decoder may allocate and inflate
ClaimOK(dir, thr, claimed) == claimed > 0 /\ claimed >= thr /\ claimed <= Cap(dir)

V(kind, off, plen, used, judged, lenOK, inflOK, need) ==
    [kind |-> kind, off |-> off, plen |-> plen, used |-> used, judged |-> judged,
     lenOK |-> lenOK, inflOK |-> inflOK, need |-> need]

Frame(dir, thr, head, avail, z) ==
    LET d == DecVarInt(head) IN
    IF ~d.ok
      THEN \* no terminated VarInt within 5 bytes: too long, or the stream ends inside it
           IF Len(head) >= 5 THEN V("reject", 0, 0, 0, TRUE, FALSE, FALSE, 0)
                             ELSE V("incomplete", 0, 0, 0, TRUE, FALSE, FALSE, 0)
    ELSE
    LET L == d.v
        minimal == MinimalVarInt(head)
    IN
    IF L = 0 THEN V("skip", 0, 0, d.n, minimal, FALSE, FALSE, 0)
    ELSE IF L < 0 \/ L > MaxFrame THEN V("reject", 0, 0, 0, minimal, FALSE, FALSE, 0)
    ELSE IF avail - d.n < L THEN V("incomplete", 0, 0, 0, minimal, TRUE, FALSE, L)
    ELSE IF thr < 0 THEN V("raw", d.n, L, d.n + L, minimal, TRUE, FALSE, L)
    ELSE
    \* compression on: the claimed-size VarInt must lie inside the frame
    LET c == DecVarInt(SubSeq(head, d.n + 1, Min2(d.n + L, Len(head)))) IN
    IF ~c.ok THEN V("reject", 0, 0, 0, minimal, TRUE, FALSE, L)
    ELSE
    LET rest == L - c.n
        e == Envelope(dir, thr, c.v, rest, z)
        open == ClaimOK(dir, thr, c.v) /\ z.trail > 0     \* trailing bytes: not judged
    IN V(e, IF e = "raw" THEN d.n + c.n ELSE 0,
         IF e = "raw" THEN rest ELSE IF e = "inflated" THEN c.v ELSE 0,
         IF e = "reject" THEN 0 ELSE d.n + L,
         minimal /\ ~open, TRUE, ClaimOK(dir, thr, c.v),
         L + (IF ClaimOK(dir, thr, c.v) THEN c.v ELSE 0))

\* where the harness must have looked for the zlib body of this frame (compression on)
ZRegion(head) == LET d == DecVarInt(head)
                     c == DecVarInt(Drop(head, d.n))
                 IN [off |-> d.n + c.n, len |-> d.v - c.n]
=============================================================================
