SPECIFICATION Spec
CONSTANTS
  MaxDev = 3
  Export = FALSE
INVARIANTS Agree BaselineValid
