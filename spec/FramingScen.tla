---------------------------- MODULE FramingScen ----------------------------
(* C01 -- the scenario classes the real writer/reader pair is driven through.

   One scenario = one connection: payload size class, compression threshold class
   *relative to that size*, zlib level, encryption on/off, how settings are applied
   (from the start, or late: after the first payload, as the login sequence does),
   how the byte stream is chunked on its way to the reader, payload contents.
   TLC enumerates the product, attaches what lib/FrameRules.tla expects of the main
   payload's frame (mode) and prints every scenario ("SCEN"); the harness runs them on
   the real netmc writer/reader, Framing_Trace.tla judges the recorded frames and
   deliveries. *)
EXTENDS FrameRules, TLC, Json

CONSTANTS Big,     \* BOOLEAN: include the payload sizes above 64 KiB
          Sample   \* 0: every scenario; n > 0: n random draws (TLC -seed) plus the Must set

VARIABLE s

SmallSizes == {0, 1, 2, 63, 64, 127, 128, 129, 255, 256, 4095, 4096, 16383, 16384, 32767, 32768, 65535}
BigSizes == {1048575, 1048576, 2097146, 2097150, 2097151}

\* thresholds -1 .. 2^20, chosen relative to the size
Thrs(size) == {t \in {-1, 0, 1, size - 1, size, size + 1, 1048576} : t >= -1 /\ t <= 1048576}

Levels == -1..9
Chunks == {"whole", "one", "lenvarint", "datalen", "body", "random"}

Small == {[size |-> size, thr |-> thr, level |-> lv, enc |-> e, late |-> late, chunk |-> ch, content |-> co] :
            size \in SmallSizes, thr \in {-1, 0, 1, 64, 256, 1048576}, lv \in Levels, e \in BOOLEAN,
            late \in BOOLEAN, ch \in Chunks, co \in {"random", "zeros"}}

\* the threshold classes relative to the size (kept out of the product above to keep it flat)
Relative == {[size |-> size, thr |-> thr, level |-> lv, enc |-> e, late |-> late, chunk |-> ch, content |-> co] :
            size \in SmallSizes \ {0}, thr \in {-2, -3, -4}, lv \in {-1, 0, 1, 9}, e \in BOOLEAN,
            late \in BOOLEAN, ch \in Chunks, co \in {"random", "zeros"}}
\* thr -2/-3/-4 stand for size-1 / size / size+1
Resolve(x) == IF x.thr = -2 THEN [x EXCEPT !.thr = x.size - 1]
              ELSE IF x.thr = -3 THEN [x EXCEPT !.thr = x.size]
              ELSE IF x.thr = -4 THEN [x EXCEPT !.thr = x.size + 1] ELSE x

Large == {[size |-> size, thr |-> thr, level |-> lv, enc |-> e, late |-> late, chunk |-> ch, content |-> co] :
            size \in BigSizes, thr \in {-1, 0, 1048576}, lv \in {-1, 1}, e \in BOOLEAN,
            late \in {FALSE}, ch \in {"whole", "random", "body"}, co \in {"random", "zeros"}}

All == Small \cup {Resolve(x) : x \in Relative} \cup (IF Big THEN Large ELSE {})

\* always run: every size class once per threshold class, plainly chunked, and the empty payload under
\* every threshold
Must == {[size |-> size, thr |-> thr, level |-> -1, enc |-> FALSE, late |-> FALSE, chunk |-> "whole",
          content |-> "zeros"] :
            size \in {0, 1, 64, 256, 32768}, thr \in {-1, 0, 1, 64, 256, 1048576}}
        \cup
        {[size |-> size, thr |-> 0, level |-> -1, enc |-> FALSE, late |-> FALSE, chunk |-> "whole",
          content |-> "zeros"] : size \in SmallSizes}

\* one random scenario (TLC's -seed makes the draws reproducible); one in twelve is a large one
Draw(i) ==
    LET big == Big /\ RandomElement(1..12) = 1
        size == RandomElement(IF big THEN BigSizes ELSE SmallSizes)
        thr == IF big THEN RandomElement({-1, 0, 1048576})
               ELSE RandomElement({-1, 0, 1, 64, 256, 1048576} \cup {t \in {size - 1, size, size + 1} : t >= 0})
    IN [size |-> size, thr |-> thr,
        level |-> IF big THEN RandomElement({-1, 1}) ELSE RandomElement(Levels),
        enc |-> RandomElement(BOOLEAN),
        late |-> IF big THEN FALSE ELSE RandomElement(BOOLEAN),
        chunk |-> IF big THEN RandomElement({"whole", "random", "body"}) ELSE RandomElement(Chunks),
        content |-> RandomElement({"random", "zeros"})]

Init == s \in (IF Sample = 0 THEN All ELSE {Draw(i) : i \in 1..Sample} \cup Must)
Next == UNCHANGED s
Spec == Init /\ [][Next]_s

\* what the writer's frame for the main payload must look like to a conforming reader
Mode(x) == IF x.thr < 0 THEN "plain"
           ELSE IF x.size = 0 THEN "empty"
           ELSE IF x.size < x.thr THEN "uncompressed"
           ELSE IF x.size = x.thr THEN "either"          \* exactly the threshold: both forms are accepted
           ELSE "compressed"

\* the two admissible envelopes are indeed accepted by the reader rules, the wrong ones are not
Sane ==
    LET n == s.size  t == s.thr
        zgood == [ok |-> TRUE, n |-> n, trail |-> 0]
    IN t >= 0 =>
       /\ Mode(s) \in {"uncompressed", "either"} => Envelope("cb", t, 0, n, zgood) = "raw"
       /\ Mode(s) \in {"compressed", "either"} /\ n > 0 => Envelope("cb", t, n, 20, zgood) = "inflated"
       /\ Mode(s) = "compressed" => Envelope("cb", t, 0, n, zgood) = "reject"
       /\ Mode(s) = "uncompressed" => Envelope("cb", t, n, 20, zgood) = "reject"
       /\ Mode(s) = "empty" => Envelope("cb", t, 0, 0, zgood) = "skip"

Emit == PrintT(<<"SCEN", ToJson([s EXCEPT !.level = s.level] @@ [mode |-> Mode(s)])>>)
=============================================================================
