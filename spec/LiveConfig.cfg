SPECIFICATION Spec
CONSTANTS
  Threads = {"t1", "t2", "t3"}
  Cands = {"A", "B", "same", "inv", "other"}
  Atomic = TRUE
  Export = FALSE
VIEW View
INVARIANTS TypeOK Published CAS
PROPERTY RejectedUnchanged
