----------------------------- MODULE LiteForward -----------------------------
(* C31 -- Lite forwards the connection unchanged apart from configured rewrites.

   Once a route is chosen the backend receives
       [PROXY protocol header with the client's real address]   iff the route enables it
       the client's handshake packet exactly as sent, unless virtual-host rewriting or
           TCPShield real-IP applies (then only the server address may differ)
       every further client byte unchanged
   and the client receives every backend byte unchanged.

   Everything is a sequence of bytes (0..255).  The operators below parse what the
   backend received: PROXY protocol v2 (binary) and v1 (text), the VarInt frame, the
   handshake fields.  The packet *payload* must be byte-identical when no rewrite
   applies; the VarInt that frames it only has to decode to the payload length (the
   statement speaks of the handshake, the frame length is transport).

   Big streams are compared by their head in full and by SHA-256 digests of
   fixed-size chunks aligned at the end of the stream (the digest is the harness's
   stdlib primitive; a stream with n digests of size c has length Len(head) + n*c). *)
EXTENDS Integers, Sequences, FiniteSets, TLC, Json

NUL == 0
SLASH == 47
DOT == 46

SetMin(S) == CHOOSE x \in S : \A y \in S : x <= y
SetMax(S) == CHOOSE x \in S : \A y \in S : x >= y
Drop(s, n) == SubSeq(s, n + 1, Len(s))
Take(s, n) == SubSeq(s, 1, n)
StartsWith(s, p) == Len(p) <= Len(s) /\ Take(s, Len(p)) = p
EndsWith(s, p) == Len(p) <= Len(s) /\ Drop(s, Len(s) - Len(p)) = p

----------------------------------------------------------------------------
(* VarInt (values below 2^31 only: lengths, protocol numbers, states) *)
Pow128(k) == CASE k = 0 -> 1 [] k = 1 -> 128 [] k = 2 -> 16384 [] k = 3 -> 2097152 [] OTHER -> 268435456
RECURSIVE ViLenFrom(_, _, _)
ViLenFrom(b, i, k) == IF i + k > Len(b) \/ k >= 5 THEN 0
                      ELSE IF b[i + k] < 128 THEN k + 1 ELSE ViLenFrom(b, i, k + 1)
ViLen(b, i) == ViLenFrom(b, i, 0)                   \* bytes of the VarInt at position i, 0 = none
RECURSIVE ViSum(_, _, _)
ViSum(b, i, n) == IF n = 0 THEN 0 ELSE ViSum(b, i, n - 1) + (b[i + n - 1] % 128) * Pow128(n - 1)
ViOK(b, i) == ViLen(b, i) > 0 /\ (ViLen(b, i) = 5 => b[i + 4] < 8)
ViVal(b, i) == ViSum(b, i, ViLen(b, i))

RECURSIVE EncVi(_)
EncVi(v) == IF v < 128 THEN <<v>> ELSE <<(v % 128) + 128>> \o EncVi(v \div 128)

----------------------------------------------------------------------------
(* Handshake payload: id, protocol, address (length-prefixed), port (2 bytes), next state, rest *)
Dec(P) ==
    LET iProto == 1 + ViLen(P, 1)
        iLen == iProto + ViLen(P, iProto)
        iHost == iLen + ViLen(P, iLen)
        hl == ViVal(P, iLen)
        iPort == iHost + hl
        iNext == iPort + 2
    IN IF ~ViOK(P, 1) \/ ~ViOK(P, iProto) \/ ~ViOK(P, iLen) \/ iNext > Len(P) + 1 \/ ~ViOK(P, iNext)
         THEN [ok |-> FALSE]
         ELSE [ok |-> TRUE, id |-> ViVal(P, 1), proto |-> ViVal(P, iProto),
               host |-> SubSeq(P, iHost, iPort - 1), port |-> P[iPort] * 256 + P[iPort + 1],
               next |-> ViVal(P, iNext), extra |-> Drop(P, iNext + ViLen(P, iNext) - 1)]

Enc(h) == EncVi(0) \o EncVi(h.proto) \o EncVi(Len(h.host)) \o h.host
          \o <<h.port \div 256, h.port % 256>> \o EncVi(h.next)

----------------------------------------------------------------------------
(* Virtual host operations on byte strings *)
LowerB(c) == IF c >= 65 /\ c <= 90 THEN c + 32 ELSE c
Lower(s) == [i \in 1..Len(s) |-> LowerB(s[i])]
EqualFold(a, b) == Lower(a) = Lower(b)
IsSep3(h, i) == i + 2 <= Len(h) /\ h[i] = SLASH /\ h[i+1] = SLASH /\ h[i+2] = SLASH
SepPos(h) == {i \in 1..Len(h) : IsSep3(h, i)}
NulPos(h) == {i \in 1..Len(h) : h[i] = NUL}
CutAt(h) == LET S == SepPos(h) \cup NulPos(h) IN IF S = {} THEN Len(h) + 1 ELSE SetMin(S)
TrimDots(s) == LET K == {i \in 1..Len(s) : s[i] # DOT} IN
               IF K = {} THEN <<>> ELSE SubSeq(s, SetMin(K), SetMax(K))
Clean(h) == TrimDots(Take(h, CutAt(h) - 1))
Suffix(h) == Drop(h, CutAt(h) - 1)                  \* from the first separator on
UpToNul(h) == IF NulPos(h) = {} THEN h ELSE Take(h, SetMin(NulPos(h)) - 1)
UpToSep(h) == IF SepPos(h) = {} THEN h ELSE Take(h, SetMin(SepPos(h)) - 1)
\* NUL <forge marker> NUL as gate re-appends it: the text between the first two NULs
ForgeTail(h) == IF NulPos(h) = {} THEN <<>>
                ELSE LET a == SetMin(NulPos(h))
                         R == {i \in NulPos(h) : i > a}
                         b == IF R = {} THEN Len(h) + 1 ELSE SetMin(R)
                     IN <<NUL>> \o SubSeq(h, a + 1, b - 1) \o <<NUL>>

RECURSIVE DecStr(_)
DecStr(n) == IF n < 10 THEN <<48 + n>> ELSE DecStr(n \div 10) \o <<48 + (n % 10)>>
IsDigits(s) == s # <<>> /\ Len(s) <= 10 /\ \A i \in 1..Len(s) : s[i] >= 48 /\ s[i] <= 57
RECURSIVE DecVal(_)
DecVal(s) == IF s = <<>> THEN 0 ELSE DecVal(Take(s, Len(s) - 1)) * 10 + (s[Len(s)] - 48)
\* "a.b.c.d:port"
AddrStr(ip, port) == DecStr(ip[1]) \o <<DOT>> \o DecStr(ip[2]) \o <<DOT>> \o DecStr(ip[3]) \o <<DOT>>
                     \o DecStr(ip[4]) \o <<58>> \o DecStr(port)

(* Is h2 an acceptable server address for a handshake sent with address h?
     mvh / tcps   route options;  bh = host part of the backend address
     ip, port     the client's real address;  t0..t1 = clock window of the connection *)
MvhApplies(mvh, h, bh) == mvh /\ ~EqualFold(Clean(h), bh)
TcpsApplies(tcps, h) == tcps /\ SepPos(h) # {}

VhostOK(h, h2, bh) == Clean(h2) = bh /\ Suffix(h2) = Suffix(h)

TcpsOK(h, h2, mvhOn, bh, ip, port, t0, t1) ==
    LET ft == ForgeTail(h)
        body == Take(h2, Len(h2) - Len(ft))
        S == SepPos(body)
    IN /\ EndsWith(h2, ft)
       /\ Cardinality(S) >= 2
       /\ LET s2 == SetMax(S)
              s1 == SetMax({i \in S : i + 2 < s2})
              ts == Drop(body, s2 + 2)
              addr == SubSeq(body, s1 + 3, s2 - 1)
              pre == Take(body, s1 - 1)
          IN /\ {i \in S : i + 2 < s2} # {}
             /\ IsDigits(ts) /\ DecVal(ts) >= t0 /\ DecVal(ts) <= t1
             /\ addr = AddrStr(ip, port)
             /\ IF mvhOn THEN Clean(pre) = bh
                ELSE pre \in {UpToNul(h), UpToSep(h)}

HostOK(h, h2, mvh, tcps, bh, ip, port, t0, t1) ==
    LET m == MvhApplies(mvh, h, bh)
        t == TcpsApplies(tcps, h)
    IN IF t THEN TcpsOK(h, h2, m, bh, ip, port, t0, t1)
       ELSE IF m THEN VhostOK(h, h2, bh)
       ELSE h2 = h

\* P2 is an acceptable handshake payload for the payload P the client sent
PayloadOK(P, P2, mvh, tcps, bh, ip, port, t0, t1) ==
    LET d == Dec(P) IN
    IF ~d.ok THEN FALSE
    ELSE IF ~MvhApplies(mvh, d.host, bh) /\ ~TcpsApplies(tcps, d.host) THEN P2 = P      \* exactly as sent
    ELSE LET d2 == Dec(P2) IN
         /\ d2.ok /\ d2.id = d.id /\ d2.proto = d.proto /\ d2.port = d.port /\ d2.next = d.next
         /\ HostOK(d.host, d2.host, mvh, tcps, bh, ip, port, t0, t1)

----------------------------------------------------------------------------
(* PROXY protocol.  Result: [ok, len, ip, port] for a PROXY/TCP4 header. *)
V2Sig == <<13, 10, 13, 10, 0, 13, 10, 81, 85, 73, 84, 10>>
ParseV2(b) ==
    IF Len(b) < 16 \/ Take(b, 12) # V2Sig THEN [ok |-> FALSE]
    ELSE LET alen == b[15] * 256 + b[16] IN
         IF b[13] # 33 \/ b[14] # 17 \/ alen < 12 \/ Len(b) < 16 + alen THEN [ok |-> FALSE]   \* v2 PROXY, TCP over IPv4
         ELSE [ok |-> TRUE, len |-> 16 + alen, ip |-> SubSeq(b, 17, 20), port |-> b[25] * 256 + b[26],
               dip |-> SubSeq(b, 21, 24), dport |-> b[27] * 256 + b[28]]

V1Pre == <<80, 82, 79, 88, 89, 32, 84, 67, 80, 52, 32>>       \* "PROXY TCP4 "
\* fields of s separated by single spaces
RECURSIVE Fields(_)
Fields(s) == LET S == {i \in 1..Len(s) : s[i] = 32} IN
             IF S = {} THEN <<s>> ELSE <<Take(s, SetMin(S) - 1)>> \o Fields(Drop(s, SetMin(S)))
RECURSIVE DotFields(_)
DotFields(s) == LET S == {i \in 1..Len(s) : s[i] = DOT} IN
                IF S = {} THEN <<s>> ELSE <<Take(s, SetMin(S) - 1)>> \o DotFields(Drop(s, SetMin(S)))
ParseV1(b) ==
    LET E == {i \in 1..Len(b) - 1 : i <= 107 /\ b[i] = 13 /\ b[i+1] = 10} IN
    IF ~StartsWith(b, V1Pre) \/ E = {} THEN [ok |-> FALSE]
    ELSE LET e == SetMin(E)
             f == Fields(SubSeq(b, Len(V1Pre) + 1, e - 1))
         IN IF Len(f) # 4 \/ ~IsDigits(f[3]) \/ ~IsDigits(f[4]) THEN [ok |-> FALSE]
            ELSE LET q == DotFields(f[1]) IN
                 IF Len(q) # 4 \/ \E k \in 1..4 : ~IsDigits(q[k]) THEN [ok |-> FALSE]
                 ELSE [ok |-> TRUE, len |-> e + 1, ip |-> [k \in 1..4 |-> DecVal(q[k])], port |-> DecVal(f[3])]
ParseProxy(b) == IF ParseV2(b).ok THEN ParseV2(b) ELSE ParseV1(b)

----------------------------------------------------------------------------
(* What the backend received: head (in full) ++ chunks given by digests.
   bhead/bdig  backend side;   rest/rdig = what the client sent after the handshake frame *)
BackendOK(bhead, bdig, P, rhead, rdig, pp, mvh, tcps, bh, ip, port, t0, t1) ==
    LET hdr == IF pp THEN ParseProxy(bhead) ELSE [ok |-> TRUE, len |-> 0]
    IN /\ hdr.ok
       /\ pp => (hdr.ip = ip /\ hdr.port = port)
       /\ LET b1 == Drop(bhead, hdr.len)
              n == ViLen(b1, 1)
          IN /\ ViOK(b1, 1)
             /\ n + ViVal(b1, 1) <= Len(b1)
             /\ PayloadOK(P, SubSeq(b1, n + 1, n + ViVal(b1, 1)), mvh, tcps, bh, ip, port, t0, t1)
             /\ Drop(b1, n + ViVal(b1, 1)) = rhead
             /\ bdig = rdig

ClientOK(chead, cdig, khead, kdig) == chead = khead /\ cdig = kdig

----------------------------------------------------------------------------
(* Self-check model: the handshake codec round-trips and the rewrite rules are
   consistent, over all combinations of small field values; also enumerates the
   cases (options x handshake shape x delivery) the harness instantiates. *)
CONSTANTS Hosts,      \* set of host byte strings
          Protos, Ports, Nexts, Export

Shapes == {"plain", "padded-varints", "trailing-bytes", "long-frame-varint"}
\* "grouped": three such cases run concurrently (each through its own proxy), the forwarding
\* goroutines held after the handshake re-encode until all have re-encoded
\* "after-failed-backend": the route lists a backend on the same host that refuses the connection
\* before the one that accepts
Delivery == {"one-segment", "handshake-first", "byte-by-byte", "grouped", "after-failed-backend"}

VARIABLES c
Init == c \in [host : Hosts, proto : Protos, port : Ports, next : Nexts,
               pp : BOOLEAN, mvh : BOOLEAN, tcps : BOOLEAN, shape : Shapes, delivery : Delivery]
Next == UNCHANGED c
Spec == Init /\ [][Next]_c

BH == <<98, 97, 99, 107, 46, 101, 120>>               \* "back.ex"
CodecRoundTrip == LET h == [proto |-> c.proto, host |-> c.host, port |-> c.port, next |-> c.next]
                      d == Dec(Enc(h))
                  IN d.ok /\ d.id = 0 /\ d.proto = h.proto /\ d.host = h.host /\ d.port = h.port
                     /\ d.next = h.next /\ d.extra = <<>>
\* the rewrite gate performs (replace the cleaned host, append the TCPShield fields) is accepted,
\* an unrelated address is not
GateRewrite(h, m, t) ==
    LET RECURSIVE Rep(_)
        Rep(s) == IF Clean(h) = <<>> \/ Len(s) < Len(Clean(h)) THEN s
                  ELSE IF Take(s, Len(Clean(h))) = Clean(h) THEN BH \o Rep(Drop(s, Len(Clean(h))))
                  ELSE <<s[1]>> \o Rep(Drop(s, 1))
        hm == IF m THEN Rep(h) ELSE h
    IN IF t THEN UpToNul(hm) \o <<47, 47, 47>> \o AddrStr(<<127, 0, 0, 1>>, 40000) \o <<47, 47, 47>>
                 \o DecStr(1700000000) \o ForgeTail(hm)
       ELSE hm
RewriteAccepted ==
    LET m == MvhApplies(c.mvh, c.host, BH)
        t == TcpsApplies(c.tcps, c.host)
    IN (Clean(c.host) # <<>>) =>
         /\ HostOK(c.host, GateRewrite(c.host, m, t), c.mvh, c.tcps, BH, <<127, 0, 0, 1>>, 40000,
                   1600000000, 1800000000)
         /\ ~HostOK(c.host, <<120>> \o c.host, c.mvh, c.tcps, BH, <<127, 0, 0, 1>>, 40000,
                    1600000000, 1800000000)

Emit == Export => PrintT(<<"CASE", ToJson(c)>>)

----------------------------------------------------------------------------
(* Host universe of the self-check / case export: plain, case and dot variants, Forge and
   TCPShield suffixes, the backend's own name, empty, non-ASCII (UTF-8), 130 bytes. *)
HostsDef == {
    <<97, 46, 101, 120>>,
    <<65, 46, 69, 120, 46>>,
    <<46, 97, 46, 101, 120>>,
    <<97, 46, 101, 120, 0, 70, 77, 76, 0>>,
    <<97, 46, 101, 120, 0, 70, 77, 76, 50, 0>>,
    <<97, 46, 101, 120, 47, 47, 47, 49, 46, 50, 46, 51, 46, 52, 58, 53, 47, 47, 47, 49, 50, 51>>,
    <<97, 46, 101, 120, 46, 47, 47, 47, 49, 46, 50, 46, 51, 46, 52, 58, 53, 47, 47, 47, 49, 50, 51, 0, 70, 77, 76, 0>>,
    <<98, 97, 99, 107, 46, 101, 120>>,
    <<66, 65, 67, 75, 46, 69, 88>>,
    <<98, 97, 99, 107, 46, 101, 120, 0, 70, 77, 76, 0>>,
    <<>>,
    <<46>>,
    <<195, 169, 46, 101, 120>>,
    <<115, 117, 98, 46, 97, 46, 101, 120>>,
    <<120, 120, 120, 120, 120, 120, 120, 120, 120, 120, 120, 120, 120, 120, 120, 120, 120, 120, 120, 120, 120, 120, 120, 120, 120, 120, 120, 120, 120, 120, 120, 120, 120, 120, 120, 120, 120, 120, 120, 120, 120, 120, 120, 120, 120, 120, 120, 120, 120, 120, 120, 120, 120, 120, 120, 120, 120, 120, 120, 120, 120, 120, 120, 120, 120, 120, 120, 120, 120, 120, 120, 120, 120, 120, 120, 120, 120, 120, 120, 120, 120, 120, 120, 120, 120, 120, 120, 120, 120, 120, 120, 120, 120, 120, 120, 120, 120, 120, 120, 120, 120, 120, 120, 120, 120, 120, 120, 120, 120, 120, 120, 120, 120, 120, 120, 120, 120, 120, 120, 120, 120, 120, 120, 120, 120, 120, 120, 120, 120, 120>> }
=============================================================================
