----------------------------- MODULE LiteForward -----------------------------
(* C31 -- Lite forwards the connection unchanged apart from configured rewrites.

   Once a route is chosen the backend receives
       [PROXY protocol header with the client's real address]   iff the route enables it
       the client's handshake packet exactly as sent, unless virtual-host rewriting or
           TCPShield real-IP applies (then only the server address may differ)
       every further client byte unchanged
   and the client receives every backend byte unchanged.

   Everything is a sequence of bytes (0..255).  The operators below parse what the
   backend received: PROXY protocol v2 (binary) and v1 (text), the VarInt frame, the
   handshake fields.  The packet *payload* must be byte-identical when no rewrite
   applies; the VarInt that frames it only has to decode to the payload length (the
   statement speaks of the handshake, the frame length is transport).

   Big streams are compared by their head in full and by SHA-256 digests of
   fixed-size chunks aligned at the end of the stream (the digest is the harness's
   stdlib primitive; a stream with n digests of size c has length Len(head) + n*c). *)
EXTENDS Integers, Sequences, FiniteSets, TLC, Json

NUL == 0
SLASH == 47
DOT == 46

SetMin(S) == CHOOSE x \in S : \A y \in S : x <= y
SetMax(S) == CHOOSE x \in S : \A y \in S : x >= y
Drop(s, n) == SubSeq(s, n + 1, Len(s))
Take(s, n) == SubSeq(s, 1, n)
StartsWith(s, p) == Len(p) <= Len(s) /\ Take(s, Len(p)) = p
EndsWith(s, p) == Len(p) <= Len(s) /\ Drop(s, Len(s) - Len(p)) = p

----------------------------------------------------------------------------
(* VarInt (values below 2^31 only: lengths, protocol numbers, states) *)
Pow128(k) == CASE k = 0 -> 1 [] k = 1 -> 128 [] k = 2 -> 16384 [] k = 3 -> 2097152 [] OTHER -> 268435456
RECURSIVE ViLenFrom(_, _, _)
ViLenFrom(b, i, k) == IF i + k > Len(b) \/ k >= 5 THEN 0
                      ELSE IF b[i + k] < 128 THEN k + 1 ELSE ViLenFrom(b, i, k + 1)
ViLen(b, i) == ViLenFrom(b, i, 0)                   \* bytes of the VarInt at position i, 0 = none
RECURSIVE ViSum(_, _, _)
ViSum(b, i, n) == IF n = 0 THEN 0 ELSE ViSum(b, i, n - 1) + (b[i + n - 1] % 128) * Pow128(n - 1)
ViOK(b, i) == ViLen(b, i) > 0 /\ (ViLen(b, i) = 5 => b[i + 4] < 8)
ViVal(b, i) == ViSum(b, i, ViLen(b, i))

RECURSIVE EncVi(_)
EncVi(v) == IF v < 128 THEN <<v>> ELSE <<(v % 128) + 128>> \o EncVi(v \div 128)

----------------------------------------------------------------------------
(* Handshake payload: id, protocol, address (length-prefixed), port (2 bytes), next state, rest *)
Dec(P) ==
    LET iProto == 1 + ViLen(P, 1)
        iLen == iProto + ViLen(P, iProto)
        iHost == iLen + ViLen(P, iLen)
        hl == ViVal(P, iLen)
        iPort == iHost + hl
        iNext == iPort + 2
    IN IF ~ViOK(P, 1) \/ ~ViOK(P, iProto) \/ ~ViOK(P, iLen) \/ iNext > Len(P) + 1 \/ ~ViOK(P, iNext)
         THEN [ok |-> FALSE]
         ELSE [ok |-> TRUE, id |-> ViVal(P, 1), proto |-> ViVal(P, iProto),
               host |-> SubSeq(P, iHost, iPort - 1), port |-> P[iPort] * 256 + P[iPort + 1],
               next |-> ViVal(P, iNext), extra |-> Drop(P, iNext + ViLen(P, iNext) - 1)]

Enc(h) == EncVi(0) \o EncVi(h.proto) \o EncVi(Len(h.host)) \o h.host
          \o <<h.port \div 256, h.port % 256>> \o EncVi(h.next)

----------------------------------------------------------------------------
(* Virtual host operations on byte strings *)
LowerB(c) == IF c >= 65 /\ c <= 90 THEN c + 32 ELSE c
Lower(s) == [i \in 1..Len(s) |-> LowerB(s[i])]
EqualFold(a, b) == Lower(a) = Lower(b)
IsSep3(h, i) == i + 2 <= Len(h) /\ h[i] = SLASH /\ h[i+1] = SLASH /\ h[i+2] = SLASH
SepPos(h) == {i \in 1..Len(h) : IsSep3(h, i)}
NulPos(h) == {i \in 1..Len(h) : h[i] = NUL}
CutAt(h) == LET S == SepPos(h) \cup NulPos(h) IN IF S = {} THEN Len(h) + 1 ELSE SetMin(S)
TrimDots(s) == LET K == {i \in 1..Len(s) : s[i] # DOT} IN
               IF K = {} THEN <<>> ELSE SubSeq(s, SetMin(K), SetMax(K))
Clean(h) == TrimDots(Take(h, CutAt(h) - 1))
Suffix(h) == Drop(h, CutAt(h) - 1)                  \* from the first separator on
UpToNul(h) == IF NulPos(h) = {} THEN h ELSE Take(h, SetMin(NulPos(h)) - 1)
UpToSep(h) == IF SepPos(h) = {} THEN h ELSE Take(h, SetMin(SepPos(h)) - 1)
\* NUL <forge marker> NUL as gate re-appends it: the text between the first two NULs
ForgeTail(h) == IF NulPos(h) = {} THEN <<>>
                ELSE LET a == SetMin(NulPos(h))
                         R == {i \in NulPos(h) : i > a}
                         b == IF R = {} THEN Len(h) + 1 ELSE SetMin(R)
                     IN <<NUL>> \o SubSeq(h, a + 1, b - 1) \o <<NUL>>

RECURSIVE DecStr(_)
DecStr(n) == IF n < 10 THEN <<48 + n>> ELSE DecStr(n \div 10) \o <<48 + (n % 10)>>
IsDigits(s) == s # <<>> /\ Len(s) <= 10 /\ \A i \in 1..Len(s) : s[i] >= 48 /\ s[i] <= 57
RECURSIVE DecVal(_)
DecVal(s) == IF s = <<>> THEN 0 ELSE DecVal(Take(s, Len(s) - 1)) * 10 + (s[Len(s)] - 48)
\* "a.b.c.d:port"
AddrStr(ip, port) == DecStr(ip[1]) \o <<DOT>> \o DecStr(ip[2]) \o <<DOT>> \o DecStr(ip[3]) \o <<DOT>>
                     \o DecStr(ip[4]) \o <<58>> \o DecStr(port)

(* Is h2 an acceptable server address for a handshake sent with address h?
     mvh / tcps   route options;  bh = host part of the backend address
     ip, port     the client's real address;  t0..t1 = clock window of the connection *)
MvhApplies(mvh, h, bh) == mvh /\ ~EqualFold(Clean(h), bh)
TcpsApplies(tcps, h) == tcps /\ SepPos(h) # {}

VhostOK(h, h2, bh) == Clean(h2) = bh /\ Suffix(h2) = Suffix(h)

TcpsOK(h, h2, mvhOn, bh, ip, port, t0, t1) ==
    LET ft == ForgeTail(h)
        body == Take(h2, Len(h2) - Len(ft))
        S == SepPos(body)
    IN /\ EndsWith(h2, ft)
       /\ Cardinality(S) >= 2
       /\ LET s2 == SetMax(S)
              s1 == SetMax({i \in S : i + 2 < s2})
              ts == Drop(body, s2 + 2)
              addr == SubSeq(body, s1 + 3, s2 - 1)
              pre == Take(body, s1 - 1)
          IN /\ {i \in S : i + 2 < s2} # {}
             /\ IsDigits(ts) /\ DecVal(ts) >= t0 /\ DecVal(ts) <= t1
             /\ addr = AddrStr(ip, port)
             /\ IF mvhOn THEN Clean(pre) = bh
                ELSE pre \in {UpToNul(h), UpToSep(h)}

HostOK(h, h2, mvh, tcps, bh, ip, port, t0, t1) ==
    LET m == MvhApplies(mvh, h, bh)
        t == TcpsApplies(tcps, h)
    IN IF t THEN TcpsOK(h, h2, m, bh, ip, port, t0, t1)
       ELSE IF m THEN VhostOK(h, h2, bh)
       ELSE h2 = h

\* P2 is an acceptable handshake payload for the payload P the client sent
PayloadOK(P, P2, mvh, tcps, bh, ip, port, t0, t1) ==
    LET d == Dec(P) IN
    IF ~d.ok THEN FALSE
    ELSE IF ~MvhApplies(mvh, d.host, bh) /\ ~TcpsApplies(tcps, d.host) THEN P2 = P      \* exactly as sent
    ELSE LET d2 == Dec(P2) IN
         /\ d2.ok /\ d2.id = d.id /\ d2.proto = d.proto /\ d2.port = d.port /\ d2.next = d.next
         /\ HostOK(d.host, d2.host, mvh, tcps, bh, ip, port, t0, t1)

----------------------------------------------------------------------------
(* PROXY protocol.  Result: [ok, len, ip, port] for a PROXY/TCP4 header. *)
V2Sig == <<13, 10, 13, 10, 0, 13, 10, 81, 85, 73, 84, 10>>
ParseV2(b) ==
    IF Len(b) < 16 \/ Take(b, 12) # V2Sig THEN [ok |-> FALSE]
    ELSE LET alen == b[15] * 256 + b[16] IN
         IF b[13] # 33 \/ b[14] # 17 \/ alen < 12 \/ Len(b) < 16 + alen THEN [ok |-> FALSE]   \* v2 PROXY, TCP over IPv4
         ELSE [ok |-> TRUE, len |-> 16 + alen, ip |-> SubSeq(b, 17, 20), port |-> b[25] * 256 + b[26],
               dip |-> SubSeq(b, 21, 24), dport |-> b[27] * 256 + b[28]]

V1Pre == <<80, 82, 79, 88, 89, 32, 84, 67, 80, 52, 32>>       \* "PROXY TCP4 "
\* fields of s separated by single spaces
RECURSIVE Fields(_)
Fields(s) == LET S == {i \in 1..Len(s) : s[i] = 32} IN
             IF S = {} THEN <<s>> ELSE <<Take(s, SetMin(S) - 1)>> \o Fields(Drop(s, SetMin(S)))
RECURSIVE DotFields(_)
DotFields(s) == LET S == {i \in 1..Len(s) : s[i] = DOT} IN
                IF S = {} THEN <<s>> ELSE <<Take(s, SetMin(S) - 1)>> \o DotFields(Drop(s, SetMin(S)))
ParseV1(b) ==
    LET E == {i \in 1..Len(b) - 1 : i <= 107 /\ b[i] = 13 /\ b[i+1] = 10} IN
    IF ~StartsWith(b, V1Pre) \/ E = {} THEN [ok |-> FALSE]
    ELSE LET e == SetMin(E)
             f == Fields(SubSeq(b, Len(V1Pre) + 1, e - 1))
         IN IF Len(f) # 4 \/ ~IsDigits(f[3]) \/ ~IsDigits(f[4]) THEN [ok |-> FALSE]
            ELSE LET q == DotFields(f[1]) IN
                 IF Len(q) # 4 \/ \E k \in 1..4 : ~IsDigits(q[k]) THEN [ok |-> FALSE]
                 ELSE [ok |-> TRUE, len |-> e + 1, ip |-> [k \in 1..4 |-> DecVal(q[k])], port |-> DecVal(f[3])]
ParseProxy(b) == IF ParseV2(b).ok THEN ParseV2(b) ELSE ParseV1(b)

----------------------------------------------------------------------------
(* What the backend received: head (in full) ++ chunks given by digests.
   bhead/bdig  backend side;   rest/rdig = what the client sent after the handshake frame *)
BackendOK(bhead, bdig, P, rhead, rdig, pp, mvh, tcps, bh, ip, port, t0, t1) ==
    LET hdr == IF pp THEN ParseProxy(bhead) ELSE [ok |-> TRUE, len |-> 0]
    IN /\ hdr.ok
       /\ pp => (hdr.ip = ip /\ hdr.port = port)
       /\ LET b1 == Drop(bhead, hdr.len)
              n == ViLen(b1, 1)
          IN /\ ViOK(b1, 1)
             /\ n + ViVal(b1, 1) <= Len(b1)
             /\ PayloadOK(P, SubSeq(b1, n + 1, n + ViVal(b1, 1)), mvh, tcps, bh, ip, port, t0, t1)
             /\ Drop(b1, n + ViVal(b1, 1)) = rhead
             /\ bdig = rdig

ClientOK(chead, cdig, khead, kdig) == chead = khead /\ cdig = kdig

----------------------------------------------------------------------------
(* Self-check model: the handshake codec round-trips and the rewrite rules are
   consistent, over all combinations of small field values; also enumerates the
   cases (options x handshake shape x delivery) the harness instantiates. *)
CONSTANTS Hosts,      \* set of host byte strings
          Protos, Ports, Nexts, Export

Shapes == {"plain", "padded-varints", "trailing-bytes", "long-frame-varint"}
\* "grouped": three such cases run concurrently (each through its own proxy), the forwarding
\* goroutines held after the handshake re-encode until all have re-encoded
\* "after-failed-backend": the route lists a backend on the same host that refuses the connection
\* before the one that accepts
Delivery == {"one-segment", "handshake-first", "byte-by-byte", "grouped", "after-failed-backend"}

VARIABLES c
Init == c \in [host : Hosts, proto : Protos, port : Ports, next : Nexts,
               pp : BOOLEAN, mvh : BOOLEAN, tcps : BOOLEAN, shape : Shapes, delivery : Delivery]
Next == UNCHANGED c
Spec == Init /\ [][Next]_c

BH == <<98, 97, 99, 107, 46, 101, 120>>               \* "back.ex"
CodecRoundTrip == LET h == [proto |-> c.proto, host |-> c.host, port |-> c.port, next |-> c.next]
                      d == Dec(Enc(h))
                  IN d.ok /\ d.id = 0 /\ d.proto = h.proto /\ d.host = h.host /\ d.port = h.port
                     /\ d.next = h.next /\ d.extra = <<>>
\* the rewrite gate performs (replace the cleaned host, append the TCPShield fields) is accepted,
\* an unrelated address is not
GateRewrite(h, m, t) ==
    LET RECURSIVE Rep(_)
        Rep(s) == IF Clean(h) = <<>> \/ Len(s) < Len(Clean(h)) THEN s
                  ELSE IF Take(s, Len(Clean(h))) = Clean(h) THEN BH \o Rep(Drop(s, Len(Clean(h))))
                  ELSE <<s[1]>> \o Rep(Drop(s, 1))
        hm == IF m THEN Rep(h) ELSE h
    IN IF t THEN UpToNul(hm) \o <<47, 47, 47>> \o AddrStr(<<127, 0, 0, 1>>, 40000) \o <<47, 47, 47>>
                 \o DecStr(1700000000) \o ForgeTail(hm)
       ELSE hm
RewriteAccepted ==
    LET m == MvhApplies(c.mvh, c.host, BH)
        t == TcpsApplies(c.tcps, c.host)
    IN (Clean(c.host) # <<>> /\ Len(c.host) <= 200) =>
         /\ HostOK(c.host, GateRewrite(c.host, m, t), c.mvh, c.tcps, BH, <<127, 0, 0, 1>>, 40000,
                   1600000000, 1800000000)
         /\ ~HostOK(c.host, <<120>> \o c.host, c.mvh, c.tcps, BH, <<127, 0, 0, 1>>, 40000,
                    1600000000, 1800000000)

Emit == Export => PrintT(<<"CASE", ToJson(c)>>)

----------------------------------------------------------------------------
(* Host universe of the self-check / case export: plain, case and dot variants, Forge and
   TCPShield suffixes, the backend's own name, empty, non-ASCII (UTF-8), 130 bytes; addresses with
   300 / 1000 bytes of forwarding-like data appended after a NUL, 255 two-byte characters. *)
HostsDef == {
    <<97, 46, 101, 120>>,
    <<65, 46, 69, 120, 46>>,
    <<46, 97, 46, 101, 120>>,
    <<97, 46, 101, 120, 0, 70, 77, 76, 0>>,
    <<97, 46, 101, 120, 0, 70, 77, 76, 50, 0>>,
    <<97, 46, 101, 120, 47, 47, 47, 49, 46, 50, 46, 51, 46, 52, 58, 53, 47, 47, 47, 49, 50, 51>>,
    <<97, 46, 101, 120, 46, 47, 47, 47, 49, 46, 50, 46, 51, 46, 52, 58, 53, 47, 47, 47, 49, 50, 51, 0, 70, 77, 76, 0>>,
    <<98, 97, 99, 107, 46, 101, 120>>,
    <<66, 65, 67, 75, 46, 69, 88>>,
    <<98, 97, 99, 107, 46, 101, 120, 0, 70, 77, 76, 0>>,
    <<>>,
    <<46>>,
    <<195, 169, 46, 101, 120>>,
    <<115, 117, 98, 46, 97, 46, 101, 120>>,
    <<120, 120, 120, 120, 120, 120, 120, 120, 120, 120, 120, 120, 120, 120, 120, 120, 120, 120, 120, 120, 120, 120, 120, 120, 120, 120, 120, 120, 120, 120, 120, 120, 120, 120, 120, 120, 120, 120, 120, 120, 120, 120, 120, 120, 120, 120, 120, 120, 120, 120, 120, 120, 120, 120, 120, 120, 120, 120, 120, 120, 120, 120, 120, 120, 120, 120, 120, 120, 120, 120, 120, 120, 120, 120, 120, 120, 120, 120, 120, 120, 120, 120, 120, 120, 120, 120, 120, 120, 120, 120, 120, 120, 120, 120, 120, 120, 120, 120, 120, 120, 120, 120, 120, 120, 120, 120, 120, 120, 120, 120, 120, 120, 120, 120, 120, 120, 120, 120, 120, 120, 120, 120, 120, 120, 120, 120, 120, 120, 120, 120>>,
    <<97, 46, 101, 120, 0, 117, 106, 122, 46, 100, 101, 56, 103, 120, 125, 100, 54, 110, 99, 102, 49, 48, 101, 112, 102, 57, 49, 100, 123, 104, 111, 44, 44, 125, 100, 123, 125, 122, 100, 111, 99, 57, 105, 115, 48, 106, 56, 104, 123, 116, 57, 95, 108, 103, 125, 123, 44, 109, 120, 103, 57, 101, 123, 100, 58, 110, 53, 95, 56, 49, 117, 51, 125, 51, 120, 116, 112, 108, 112, 102, 123, 116, 55, 53, 118, 50, 115, 34, 101, 104, 54, 48, 107, 118, 106, 53, 48, 99, 45, 101, 57, 123, 117, 118, 119, 34, 53, 125, 51, 101, 102, 114, 52, 45, 101, 100, 116, 46, 123, 95, 50, 115, 121, 45, 119, 98, 51, 119, 107, 58, 104, 53, 100, 110, 115, 105, 112, 122, 122, 53, 102, 107, 50, 122, 57, 114, 105, 49, 57, 114, 48, 119, 95, 121, 111, 106, 102, 108, 106, 111, 45, 111, 97, 53, 125, 108, 113, 115, 97, 106, 48, 56, 120, 58, 123, 117, 105, 54, 58, 46, 95, 100, 51, 95, 57, 122, 122, 122, 122, 103, 52, 44, 122, 100, 109, 101, 110, 50, 107, 104, 118, 34, 100, 103, 97, 123, 106, 56, 103, 120, 58, 98, 101, 110, 58, 121, 106, 44, 113, 119, 34, 120, 52, 104, 104, 53, 51, 52, 52, 116, 102, 106, 103, 118, 113, 52, 107, 55, 98, 110, 55, 120, 106, 56, 98, 55, 116, 46, 102, 113, 55, 120, 107, 119, 111, 56, 56, 54, 118, 44, 111, 58, 109, 112, 122, 111, 109, 55, 53, 119, 98, 98, 114, 52, 113, 109, 34, 119, 50, 119, 120, 102, 111, 103, 111, 52, 109, 118, 110, 52, 58, 58, 97, 52, 46, 119, 46, 102, 45, 104>>,
    <<97, 46, 101, 120, 0, 121, 109, 52, 108, 49, 44, 118, 102, 122, 51, 122, 102, 107, 107, 105, 98, 106, 125, 51, 46, 106, 58, 34, 52, 45, 119, 106, 57, 57, 105, 98, 97, 46, 103, 55, 105, 49, 109, 110, 98, 113, 110, 115, 54, 112, 125, 117, 113, 56, 48, 105, 100, 119, 51, 45, 125, 55, 48, 54, 105, 56, 106, 55, 54, 98, 50, 108, 34, 97, 106, 108, 106, 52, 58, 104, 57, 100, 117, 95, 55, 55, 57, 52, 103, 57, 100, 112, 109, 114, 99, 103, 54, 50, 57, 98, 101, 50, 117, 58, 54, 34, 54, 109, 114, 50, 54, 56, 52, 54, 112, 55, 113, 57, 109, 50, 105, 48, 104, 122, 50, 117, 101, 45, 112, 49, 101, 110, 45, 116, 104, 106, 46, 45, 120, 106, 113, 105, 51, 111, 103, 122, 53, 107, 45, 111, 107, 49, 54, 122, 118, 48, 109, 119, 117, 102, 120, 98, 118, 57, 51, 50, 98, 121, 118, 55, 58, 115, 54, 101, 104, 111, 103, 102, 113, 114, 99, 108, 114, 105, 49, 95, 113, 122, 106, 56, 54, 123, 53, 117, 102, 114, 100, 108, 49, 101, 114, 98, 44, 102, 113, 102, 34, 111, 101, 113, 104, 51, 97, 118, 57, 48, 114, 58, 105, 99, 55, 112, 104, 107, 113, 100, 108, 109, 116, 44, 116, 55, 110, 115, 50, 54, 95, 108, 114, 119, 98, 113, 99, 97, 98, 54, 57, 109, 54, 52, 112, 50, 103, 45, 46, 49, 45, 53, 56, 122, 54, 116, 110, 111, 118, 109, 44, 105, 122, 119, 100, 105, 97, 101, 44, 113, 49, 107, 100, 102, 45, 121, 54, 45, 115, 34, 112, 115, 99, 51, 108, 107, 114, 50, 97, 113, 120, 118, 57, 117, 112, 99, 116, 110, 119, 108, 97, 118, 121, 102, 52, 114, 54, 46, 109, 112, 54, 97, 102, 113, 102, 106, 122, 125, 99, 122, 98, 116, 116, 44, 111, 102, 125, 55, 106, 45, 34, 121, 117, 53, 106, 115, 58, 46, 106, 99, 54, 44, 49, 54, 105, 55, 54, 123, 98, 95, 125, 95, 46, 111, 102, 98, 99, 105, 44, 120, 103, 121, 50, 57, 100, 44, 98, 44, 56, 95, 112, 53, 113, 97, 51, 101, 54, 56, 102, 45, 55, 101, 52, 113, 101, 113, 112, 110, 111, 46, 51, 53, 121, 101, 52, 95, 115, 99, 58, 44, 46, 109, 101, 34, 106, 118, 113, 46, 116, 58, 123, 105, 97, 52, 100, 53, 114, 95, 103, 110, 95, 53, 115, 55, 115, 51, 51, 51, 104, 57, 109, 116, 102, 52, 98, 115, 51, 101, 54, 50, 114, 121, 110, 110, 101, 125, 102, 106, 55, 113, 120, 105, 34, 44, 54, 114, 104, 120, 111, 53, 53, 122, 98, 107, 97, 53, 95, 50, 122, 116, 106, 48, 119, 121, 117, 104, 118, 97, 117, 118, 122, 104, 109, 97, 115, 113, 120, 101, 122, 121, 125, 101, 120, 49, 114, 100, 114, 103, 100, 45, 115, 44, 106, 112, 114, 49, 54, 117, 109, 120, 49, 98, 44, 122, 57, 57, 110, 102, 100, 48, 50, 58, 105, 46, 115, 53, 100, 57, 105, 107, 52, 48, 118, 115, 116, 113, 46, 113, 122, 46, 112, 116, 52, 57, 45, 122, 104, 107, 46, 107, 101, 110, 54, 53, 57, 111, 50, 118, 50, 49, 105, 57, 109, 112, 102, 108, 118, 57, 102, 117, 112, 120, 113, 123, 109, 98, 48, 121, 48, 55, 110, 121, 114, 118, 100, 53, 114, 123, 120, 105, 95, 54, 55, 44, 110, 102, 114, 112, 121, 122, 46, 50, 49, 116, 98, 105, 99, 49, 52, 125, 53, 97, 101, 122, 55, 51, 50, 112, 103, 111, 106, 106, 55, 95, 103, 46, 51, 102, 57, 99, 97, 105, 111, 123, 99, 46, 116, 105, 44, 113, 55, 44, 49, 104, 103, 101, 116, 55, 125, 109, 121, 113, 111, 34, 97, 97, 56, 116, 51, 114, 117, 46, 112, 52, 55, 112, 57, 112, 98, 48, 46, 116, 100, 98, 109, 53, 95, 46, 48, 102, 113, 111, 45, 49, 120, 111, 53, 99, 118, 48, 120, 95, 122, 109, 97, 115, 54, 101, 110, 53, 109, 116, 109, 111, 51, 111, 113, 115, 103, 58, 53, 58, 108, 111, 53, 48, 45, 100, 34, 106, 122, 100, 110, 98, 34, 106, 48, 100, 100, 108, 122, 50, 117, 104, 102, 107, 118, 109, 108, 46, 55, 51, 99, 116, 45, 121, 120, 118, 50, 107, 103, 97, 102, 114, 102, 119, 48, 104, 57, 110, 121, 119, 116, 49, 102, 100, 52, 109, 120, 56, 50, 109, 117, 120, 52, 98, 44, 48, 112, 44, 122, 99, 121, 99, 51, 101, 100, 113, 109, 101, 34, 118, 120, 114, 118, 58, 99, 113, 117, 114, 116, 97, 34, 44, 101, 98, 111, 103, 52, 51, 121, 113, 49, 53, 105, 53, 108, 97, 116, 106, 34, 112, 117, 117, 51, 120, 34, 102, 54, 109, 122, 107, 112, 48, 101, 46, 99, 52, 57, 56, 117, 107, 49, 103, 101, 113, 58, 102, 110, 103, 48, 53, 50, 108, 111, 105, 48, 51, 58, 95, 112, 56, 45, 104, 115, 115, 114, 123, 114, 120, 113, 113, 109, 50, 112, 108, 112, 112, 106, 115, 125, 109, 117, 101, 122, 113, 112, 54, 55, 111, 46, 103, 46, 51, 99, 103, 97, 52, 111, 50, 120, 99, 115, 111, 104, 100, 109, 34, 125, 109, 101, 120, 54, 108, 50, 34, 113, 45, 97, 103, 44, 34, 58, 119, 110, 99, 120, 118, 106, 99, 110, 113, 99, 34, 46, 110, 97, 117, 48, 95, 120, 108, 58, 116, 101, 110, 99, 53, 57, 52, 101, 48, 103, 122, 45, 57, 106, 44, 56, 102, 46, 107, 122, 114, 48, 115, 45, 116, 48, 100, 116, 123, 119, 48, 48, 98, 120, 46, 109, 122, 122, 110, 97, 49, 107, 49, 104, 102, 122, 123, 120, 51, 107, 105>>,
    <<195, 169, 195, 169, 195, 169, 195, 169, 195, 169, 195, 169, 195, 169, 195, 169, 195, 169, 195, 169, 195, 169, 195, 169, 195, 169, 195, 169, 195, 169, 195, 169, 195, 169, 195, 169, 195, 169, 195, 169, 195, 169, 195, 169, 195, 169, 195, 169, 195, 169, 195, 169, 195, 169, 195, 169, 195, 169, 195, 169, 195, 169, 195, 169, 195, 169, 195, 169, 195, 169, 195, 169, 195, 169, 195, 169, 195, 169, 195, 169, 195, 169, 195, 169, 195, 169, 195, 169, 195, 169, 195, 169, 195, 169, 195, 169, 195, 169, 195, 169, 195, 169, 195, 169, 195, 169, 195, 169, 195, 169, 195, 169, 195, 169, 195, 169, 195, 169, 195, 169, 195, 169, 195, 169, 195, 169, 195, 169, 195, 169, 195, 169, 195, 169, 195, 169, 195, 169, 195, 169, 195, 169, 195, 169, 195, 169, 195, 169, 195, 169, 195, 169, 195, 169, 195, 169, 195, 169, 195, 169, 195, 169, 195, 169, 195, 169, 195, 169, 195, 169, 195, 169, 195, 169, 195, 169, 195, 169, 195, 169, 195, 169, 195, 169, 195, 169, 195, 169, 195, 169, 195, 169, 195, 169, 195, 169, 195, 169, 195, 169, 195, 169, 195, 169, 195, 169, 195, 169, 195, 169, 195, 169, 195, 169, 195, 169, 195, 169, 195, 169, 195, 169, 195, 169, 195, 169, 195, 169, 195, 169, 195, 169, 195, 169, 195, 169, 195, 169, 195, 169, 195, 169, 195, 169, 195, 169, 195, 169, 195, 169, 195, 169, 195, 169, 195, 169, 195, 169, 195, 169, 195, 169, 195, 169, 195, 169, 195, 169, 195, 169, 195, 169, 195, 169, 195, 169, 195, 169, 195, 169, 195, 169, 195, 169, 195, 169, 195, 169, 195, 169, 195, 169, 195, 169, 195, 169, 195, 169, 195, 169, 195, 169, 195, 169, 195, 169, 195, 169, 195, 169, 195, 169, 195, 169, 195, 169, 195, 169, 195, 169, 195, 169, 195, 169, 195, 169, 195, 169, 195, 169, 195, 169, 195, 169, 195, 169, 195, 169, 195, 169, 195, 169, 195, 169, 195, 169, 195, 169, 195, 169, 195, 169, 195, 169, 195, 169, 195, 169, 195, 169, 195, 169, 195, 169, 195, 169, 195, 169, 195, 169, 195, 169, 195, 169, 195, 169, 195, 169, 195, 169, 195, 169, 195, 169, 195, 169, 195, 169, 195, 169, 195, 169, 195, 169, 195, 169, 195, 169, 195, 169, 195, 169, 195, 169, 195, 169, 195, 169, 195, 169, 195, 169, 195, 169, 195, 169, 195, 169, 195, 169, 195, 169, 195, 169, 195, 169, 195, 169, 195, 169, 195, 169, 195, 169, 195, 169, 195, 169, 195, 169, 195, 169, 195, 169, 195, 169, 195, 169, 195, 169, 195, 169, 195, 169, 195, 169, 195, 169, 195, 169, 195, 169, 195, 169, 195, 169, 195, 169, 195, 169, 195, 169, 195, 169, 195, 169, 195, 169, 195, 169, 195, 169, 195, 169, 195, 169, 195, 169, 195, 169, 195, 169, 195, 169, 195, 169, 195, 169, 195, 169, 195, 169, 195, 169, 195, 169, 195, 169, 195, 169>> }
=============================================================================
