SPECIFICATION Spec
CONSTANTS
  Threads = {"t1", "t2"}
  Kinds <- KindsAll
  FaultSeqs <- FaultsSome
  Locked = TRUE
  Recover = TRUE
  Export = FALSE
VIEW View
INVARIANTS TypeOK AtMostOnce ClosedWhenReturned LaterWritesClosed ExactlyOnce PerConnection Alive
