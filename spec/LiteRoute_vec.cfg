SPECIFICATION VSpec
CONSTANTS
  PatAlpha = {97, 66, 46, 42, 63, 40, 92, 10, 233}
  HostAlpha = {97, 66, 46, 40, 92, 10, 233, 42}
  MaxPat = 3
  MaxHost = 3
INVARIANTS VecOut
