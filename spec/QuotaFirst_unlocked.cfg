SPECIFICATION Spec
CONSTANTS
  Threads = {"a", "b", "c"}
  Burst = 1
  Locked = FALSE
  Export = FALSE
VIEW View
INVARIANTS GroupBound
