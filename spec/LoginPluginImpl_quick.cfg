SPECIFICATION Spec
CONSTANTS
  Handlers = {"h1"}
  MaxPre = 1
  MaxResp = 2
  Ids = {1, 2}
  Chain = TRUE
  ClearOnRun = TRUE
  Export = FALSE
VIEW View
INVARIANTS TypeOK DeliveredOnce DeliveredMatch CompletedOnce CompletedClean CompletedExactly
