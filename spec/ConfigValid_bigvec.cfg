SPECIFICATION Spec
CONSTANTS
  MaxDev = 3
  Export = TRUE
INVARIANTS Emit
