SPECIFICATION Spec
CONSTANTS
  MaxShort = 4
  Cut = 16
INVARIANTS AlwaysValid Idempotent KeepsValid Emit
