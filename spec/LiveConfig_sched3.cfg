SPECIFICATION Spec
CONSTANTS
  Threads = {"t1", "t2", "t3"}
  Cands = {"A", "B", "same"}
  Atomic = FALSE
  Export = TRUE
INVARIANTS Emit
