SPECIFICATION Spec
CONSTANTS
  Threads = {"t1", "t2"}
  Values = {1, 2}
  Locked = FALSE
  Export = TRUE
INVARIANTS Emit
