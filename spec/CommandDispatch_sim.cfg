SPECIFICATION Spec
CONSTANTS
  MaxLen = 3
  Sample = TRUE
INVARIANTS ExactlyOnePlace DeniedNowhere ForwardedNeverRuns NoPermNeverRuns Emit
