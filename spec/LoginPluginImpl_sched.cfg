SPECIFICATION Spec
CONSTANTS
  Handlers = {"h1"}
  MaxPre = 1
  MaxResp = 2
  Ids = {1, 2}
  Chain = FALSE
  ClearOnRun = TRUE
  Export = TRUE
INVARIANTS Emit
