SPECIFICATION TSpec
CONSTANTS
  Versions = {754}
  PackNames = {"A", "B", "C", "D"}
  Statuses = {"accepted"}
  MaxLen = 0
  InitPrev = "none"
INVARIANT Mark
POSTCONDITION Accepted
CHECK_DEADLOCK FALSE
