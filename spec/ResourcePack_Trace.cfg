SPECIFICATION TSpec
CONSTANTS
  Modes = {"legacy"}
  PackNames = {"A", "B", "C", "D"}
  Statuses = {"accepted"}
  MaxLen = 0
  InitPrev = "none"
INVARIANT Mark
POSTCONDITION Accepted
CHECK_DEADLOCK FALSE
