SPECIFICATION Spec
CONSTANTS
  NonceLen = 16
  MaxEnv = 16384
  Nums = {9, 12}
  MaxFields = 3
  Fanout = 0
  ExportMin = 99
  Broken = FALSE
INVARIANTS Equiv NeverDowngraded OnlyListed
