SPECIFICATION Spec
CONSTANTS
  Raw <- RawDef
  Dead <- DeadDef
  MaxList = 2
  Strategies <- AllStrategies
  DropAll = TRUE
  Export = FALSE
INVARIANTS LoopOK TriesOnce
