SPECIFICATION Spec
CONSTANTS
  Hosts <- HostsDef
  Protos = {47, 767}
  Ports = {25565}
  Nexts = {2, 3}
  Export = TRUE
INVARIANTS CodecRoundTrip RewriteAccepted Emit
