SPECIFICATION TSpec
CONSTANT Collect = TRUE
INVARIANT Mark
POSTCONDITION Accepted
CHECK_DEADLOCK FALSE
