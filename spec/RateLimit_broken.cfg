SPECIFICATION Spec
CONSTANTS
  W = 3
  MaxT = 7
  MaxLen = 6
  Counts = {1, 2}
  InitCap = 2
  BrokenResize = TRUE
  Export = FALSE
VIEW View
INVARIANTS TotalIsWindowSum RingIsWindow CleanOutside 
