--------------------------- MODULE PlayQueue_Trace ---------------------------
EXTENDS PlayQueue, TraceLib

tvars == <<avars, l>>

TInit == CursorInit /\ AInit(1024)

TReset == IsEv("reset")
          /\ phase' = "play" /\ held' = {} /\ wire' = <<>> /\ closed' = FALSE
          /\ open' = <<>> /\ clk' = 0 /\ cap' = Rec.cap

TCall == IsEv("call") /\ Call(Rec.thread, Rec.op, Rec.kind, Rec.pkt)
TRet == IsEv("ret") /\ Ret(Rec.thread, Rec.res)
TWire == IsEv("wire") /\ Wire(Rec.pkt)
TSync == IsEv("sync") /\ Sync
TSyncFail == IsEv("syncfail") /\ SyncFail
TEof == IsEv("eof") /\ Eof
TEnd == IsEv("end") /\ End
\* unlogged: the instant a pending call takes effect
TLin == \E t \in DOMAIN open : Lin(t) /\ Silent

TNext == TReset \/ TCall \/ TRet \/ TWire \/ TSync \/ TSyncFail \/ TEof \/ TEnd \/ TLin
TSpec == TInit /\ [][TNext]_tvars
=============================================================================
