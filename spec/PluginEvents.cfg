SPECIFICATION Spec
INVARIANTS IdealAllowed RawRejected MissingRegRejected Emit
