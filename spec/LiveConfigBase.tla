--------------------------- MODULE LiveConfigBase ---------------------------
(* C35 -- vocabulary shared by the schedule model (LiveConfig) and the abstract
   history spec (LiveConfigHist): configuration contents and the named
   candidate pool that the harness realises on real gate configurations. *)
Init0 == [r |-> "r0", o |-> "o0"]
Pool == [ same    |-> Init0,
          A       |-> [r |-> "rA", o |-> "o0"],
          A2      |-> [r |-> "rA2", o |-> "o0"],    \* A's routes with other hosts / backends
          B       |-> [r |-> "rB", o |-> "o0"],
          inv     |-> [r |-> "rBad", o |-> "o0"],   \* a route without backend
          other   |-> [r |-> "r0", o |-> "o1"],     \* bind changed
          otherA  |-> [r |-> "rA", o |-> "o1"],     \* bind and routes changed
          liteoff |-> [r |-> "r0", o |-> "o2"],     \* lite.enabled switched off
          \* a difference in each section outside the Java config, alone and with a route change
          noreload  |-> [r |-> "r0", o |-> "o3"],   \* root-level noAutoReload flipped
          noreloadA |-> [r |-> "rA", o |-> "o3"],
          health    |-> [r |-> "r0", o |-> "o4"],   \* healthService bind changed
          healthA   |-> [r |-> "rA", o |-> "o4"],
          connect   |-> [r |-> "r0", o |-> "o5"],   \* connect endpoint name set
          connectA  |-> [r |-> "rA", o |-> "o5"],
          api       |-> [r |-> "r0", o |-> "o6"],   \* api bind changed
          apiA      |-> [r |-> "rA", o |-> "o6"],
          none    |-> [r |-> "nil", o |-> "nil"] ]  \* nil candidate
Valid(c) == c.r \notin {"rBad", "nil"}
\* the only live-safe difference: Lite routes
RoutesOnly(a, b) == a.o = b.o
=============================================================================
