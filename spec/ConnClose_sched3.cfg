SPECIFICATION Spec
CONSTANTS
  Threads = {"t1", "t2", "t3"}
  Kinds <- KindsAll
  FaultSeqs <- FaultsSome
  Locked = FALSE
  Recover = TRUE
  Export = TRUE
INVARIANTS Emit
