SPECIFICATION Spec
CONSTANTS
  Keys = {"a", "b"}
  LeafSel = "std"
  Export = TRUE
INVARIANTS Emit
