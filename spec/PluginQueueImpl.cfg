SPECIFICATION Spec
CONSTANTS
  Ks = {1, 2, 3, 4}
  Locked = TRUE
  Export = TRUE
INVARIANTS InOrder NoLoss Emit
