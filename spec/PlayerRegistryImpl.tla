------------------------- MODULE PlayerRegistryImpl -------------------------
(* C11 -- code-shaped model of gate's player registry
   (pkg/edition/java/proxy: proxy.go canRegisterConnection / registerConnection /
   unregisterConnection, session_client_auth.go Activated..completeLogin,
   player.go teardown, netmc close -> Disconnected()).

   One action per segment between two gate points (verifhook.Point) of the
   instrumented code, so a behaviour's thread sequence `h` is a schedule the
   harness can force on the real code:

     start                  Begin        -> parks at reg.can.enter
     reg.can.enter          Can          RLock; both maps read; RUnlock; LoginEvent
     reg.register.enter     RegCheck     Lock; duplicate test / kick test
     reg.register.insert    RegInsert    both map writes; Unlock; LoginSuccess
     reg.kick               Kick         existing.Disconnect() (runs its teardown here)
     reg.unregister.enter   UnregLock    Lock
     reg.unregister.locked  Unreg        both deletes; Unlock; DisconnectEvent
     h.leave                Leave        the client closes its connection

   Locked = TRUE: muP is respected (what the code does).  Locked = FALSE ignores
   muP: shows the invariants are not vacuous and enumerates every gate-point
   interleaving (the infeasible ones block on the real mutex and are skipped).

   PtrCheck / UnlockOnReject describe two details of the code:
     PtrCheck        unregisterConnection deletes an entry only if it maps to the
                     player being unregistered
     UnlockOnReject  registerConnection releases muP on its `return false` paths
   Both are TRUE for the tree as it is now (after the C11 fixes); the *_prefix
   configuration keeps the old behaviour as a second non-vacuity witness. *)
EXTENDS Naturals, Sequences, FiniteSets, TLC, Json

CONSTANTS Threads,         \* connections = threads, e.g. {"a","b","c"}
          Ids, Names,      \* UUIDs and lower-cased user names
          Kicks, Onlines,  \* subsets of BOOLEAN to choose the mode from
          Leaves, Denies,  \* subsets of BOOLEAN for the per-connection flags
          Locked, PtrCheck, UnlockOnReject,
          Export,          \* print complete behaviours as schedules
          MaxSteps         \* bound on Len(h) (the kick retry loop can spin)

VARIABLES kick, online,    \* config: OnlineModeKickExistingPlayers, OnlineMode
          prog,            \* [Threads -> [id, name, leave, deny]]
          pc, lock,
          byId, byName,    \* playerIDs / playerNames  (key -> connection)
          closed,          \* [Threads -> BOOLEAN] connection context cancelled (Active() = false)
          tdone,           \* [Threads -> BOOLEAN] teardown of that connection finished
          regd,            \* [Threads -> BOOLEAN] registerConnection returned true
          replaced,        \* [Threads -> BOOLEAN] a newer player took over the name entry
          td, cont, kickee,\* per thread: whose teardown it runs, where it continues, whom it kicks
          h

vars == <<kick, online, prog, pc, lock, byId, byName, closed, tdone, regd, replaced, td, cont, kickee, h>>
View == <<kick, online, prog, pc, lock, byId, byName, closed, tdone, regd, replaced, td, cont, kickee>>

Put(fn, k, v) == [x \in DOMAIN fn \cup {k} |-> IF x = k THEN v ELSE fn[x]]
Drop(fn, k) == [x \in DOMAIN fn \ {k} |-> fn[x]]
Range(fn) == {fn[x] : x \in DOMAIN fn}
Has(fn, k) == k \in DOMAIN fn

Progs == [id : Ids, name : Names, leave : Leaves, deny : Denies]

\* w.l.o.g. (ids and names are interchangeable) one thread uses a fixed id and name
Anchor == CHOOSE t \in Threads : TRUE
Init == /\ kick \in Kicks /\ online \in Onlines
        /\ prog \in [Threads -> Progs]
        /\ prog[Anchor].id = (CHOOSE i \in Ids : TRUE)
        /\ prog[Anchor].name = (CHOOSE n \in Names : TRUE)
        /\ pc = [t \in Threads |-> "start"]
        /\ lock = "none"
        /\ byId = <<>> /\ byName = <<>>
        /\ closed = [t \in Threads |-> FALSE]
        /\ tdone = [t \in Threads |-> FALSE]
        /\ regd = [t \in Threads |-> FALSE]
        /\ replaced = [t \in Threads |-> FALSE]
        /\ td = [t \in Threads |-> "none"]
        /\ cont = [t \in Threads |-> "none"]
        /\ kickee = [t \in Threads |-> "none"]
        /\ h = <<>>

Id(t) == prog[t].id
Name(t) == prog[t].name

Go(t, to) == pc' = [pc EXCEPT ![t] = to] /\ h' = Append(h, t)
Free == ~Locked \/ lock = "none"
Take(t) == IF Locked THEN lock' = t ELSE UNCHANGED lock
Release == IF Locked THEN lock' = "none" ELSE UNCHANGED lock

\* thread t calls Disconnect()/Close() on connection e, which is still open: the
\* context is cancelled and e's teardown starts in thread t (parks at reg.unregister.enter)
StartTeardown(t, e, k) == /\ closed' = [closed EXCEPT ![e] = TRUE]
                          /\ td' = [td EXCEPT ![t] = e]
                          /\ cont' = [cont EXCEPT ![t] = k]
                          /\ Go(t, "unreg")

Begin(t) == /\ pc[t] = "start"
            /\ Go(t, "can")
            /\ UNCHANGED <<kick, online, prog, lock, byId, byName, closed, tdone, regd, replaced, td, cont, kickee>>

\* canRegisterConnection (under RLock: one atomic read of both maps), then the
\* PermissionsSetup / LoginEvent window
Can(t) == /\ pc[t] = "can"
          /\ Free
          /\ LET ok == (online /\ kick) \/ (~Has(byName, Name(t)) /\ ~Has(byId, Id(t))) IN
               IF ~ok \/ prog[t].deny
                 THEN StartTeardown(t, t, "ret")          \* player.Disconnect(...)
                 ELSE Go(t, "reg") /\ UNCHANGED <<closed, td, cont>>
          /\ UNCHANGED <<kick, online, prog, lock, byId, byName, tdone, regd, replaced, kickee>>

\* registerConnection: Lock, then the duplicate test (or the kick test)
RegCheck(t) == /\ pc[t] = "reg"
               /\ Free
               /\ IF kick
                    THEN IF Has(byId, Id(t))
                           THEN /\ kickee' = [kickee EXCEPT ![t] = byId[Id(t)]]
                                /\ Go(t, "kick")            \* Unlock; parks at reg.kick
                                /\ UNCHANGED <<lock, closed, td, cont>>
                           ELSE /\ Take(t) /\ Go(t, "ins")
                                /\ UNCHANGED <<kickee, closed, td, cont>>
                    ELSE IF Has(byName, Name(t)) \/ Has(byId, Id(t))
                           THEN /\ IF UnlockOnReject THEN UNCHANGED lock ELSE Take(t)
                                /\ StartTeardown(t, t, "ret") \* return false; Disconnect(alreadyConnected)
                                /\ UNCHANGED kickee
                           ELSE /\ Take(t) /\ Go(t, "ins")
                                /\ UNCHANGED <<kickee, closed, td, cont>>
               /\ UNCHANGED <<kick, online, prog, byId, byName, tdone, regd, replaced>>

\* the two map writes, Unlock, LoginSuccess; Activated() returns
RegInsert(t) == /\ pc[t] = "ins"
                /\ byId' = Put(byId, Id(t), t)
                /\ byName' = Put(byName, Name(t), t)
                /\ replaced' = IF Has(byName, Name(t)) /\ byName[Name(t)] # t
                                 THEN [replaced EXCEPT ![byName[Name(t)]] = TRUE] ELSE replaced
                /\ regd' = [regd EXCEPT ![t] = TRUE]
                /\ Release
                /\ Go(t, IF prog[t].leave THEN "in" ELSE "done")
                /\ UNCHANGED <<kick, online, prog, closed, tdone, td, cont, kickee>>

\* existing.Disconnect(): no-op if existing is already closing, else its teardown runs here
Kick(t) == /\ pc[t] = "kick"
           /\ LET e == kickee[t] IN
                IF closed[e] THEN Go(t, "reg") /\ UNCHANGED <<closed, td, cont>>
                ELSE StartTeardown(t, e, "reg")
           /\ UNCHANGED <<kick, online, prog, lock, byId, byName, tdone, regd, replaced, kickee>>

UnregLock(t) == /\ pc[t] = "unreg"
                /\ Free
                /\ Take(t) /\ Go(t, "unregL")
                /\ UNCHANGED <<kick, online, prog, byId, byName, closed, tdone, regd, replaced, td, cont, kickee>>

Unreg(t) == /\ pc[t] = "unregL"
            /\ LET e == td[t] IN
                 /\ byName' = IF Has(byName, Name(e)) /\ (~PtrCheck \/ byName[Name(e)] = e)
                                THEN Drop(byName, Name(e)) ELSE byName
                 /\ byId' = IF Has(byId, Id(e)) /\ (~PtrCheck \/ byId[Id(e)] = e)
                              THEN Drop(byId, Id(e)) ELSE byId
                 /\ tdone' = [tdone EXCEPT ![e] = TRUE]
            /\ Release
            /\ Go(t, IF cont[t] = "reg" THEN "reg" ELSE "done")
            /\ UNCHANGED <<kick, online, prog, closed, regd, replaced, td, cont, kickee>>

\* the client closes its own connection; if a kicker is already closing it, Close()
\* waits for that teardown (sync.Once) and returns
Leave(t) == /\ pc[t] = "in"
            /\ IF closed[t]
                 THEN tdone[t] /\ Go(t, "done") /\ UNCHANGED <<closed, td, cont>>
                 ELSE StartTeardown(t, t, "leave")
            /\ UNCHANGED <<kick, online, prog, lock, byId, byName, tdone, regd, replaced, kickee>>

Step(t) == \/ Begin(t) \/ Can(t) \/ RegCheck(t) \/ RegInsert(t) \/ Kick(t)
           \/ UnregLock(t) \/ Unreg(t) \/ Leave(t)

Quiescent == \A t \in Threads : pc[t] = "done"

Next == \/ (Len(h) < MaxSteps /\ \E t \in Threads : Step(t))
        \/ (Quiescent /\ UNCHANGED vars)

Spec == Init /\ [][Next]_vars

----------------------------------------------------------------------------
(* The property, on the model's state. *)

\* a player whose login succeeded and whose disconnect has not begun
Live(c) == regd[c] /\ ~closed[c]

FindableById == \A c \in Threads : Live(c) => Has(byId, Id(c)) /\ byId[Id(c)] = c

FindableByName == \A c \in Threads :
    Live(c) /\ ~(kick /\ replaced[c]) => Has(byName, Name(c)) /\ byName[Name(c)] = c

\* at most one live session per UUID (kick mode: the older one is disconnected first)
OnePerId == \A c, d \in Threads : c # d /\ Live(c) /\ Live(d) => Id(c) # Id(d)

OnePerName == ~kick => \A c, d \in Threads : c # d /\ Live(c) /\ Live(d) => Name(c) # Name(d)

SameSet == ~kick => Range(byId) = Range(byName)

\* nobody is registered without having logged in
OnlyLoggedIn == \A c \in Range(byId) \cup Range(byName) : regd[c]

\* no call hangs: some thread can always move until all are done
NoHang == Quiescent \/ Len(h) >= MaxSteps \/ \E t \in Threads : ENABLED Step(t)

TypeOK == /\ lock \in Threads \cup {"none"}
          /\ DOMAIN byId \subseteq Ids /\ DOMAIN byName \subseteq Names

----------------------------------------------------------------------------
(* Schedule export: each complete (or stuck, or cut-off) behaviour once. *)
Stuck == ~Quiescent /\ ~(\E t \in Threads : ENABLED Step(t))
Emit == (Export /\ (Quiescent \/ Stuck \/ Len(h) = MaxSteps)) =>
           PrintT(<<"SCHED", ToJson([kick |-> kick, online |-> online, prog |-> prog, sched |-> h])>>)
=============================================================================
