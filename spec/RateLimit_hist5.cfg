SPECIFICATION Spec
CONSTANTS
  W = 3
  MaxT = 7
  MaxLen = 5
  Counts = {1, 2}
  InitCap = 2
  BrokenResize = FALSE
  Export = TRUE

INVARIANTS TotalIsWindowSum RingIsWindow CleanOutside Emit
