SPECIFICATION TSpec
CONSTANTS
  MaxShort = 0
  Cut = 16
INVARIANT Mark
POSTCONDITION Accepted
CHECK_DEADLOCK FALSE
