---------------------------- MODULE FutureHist ----------------------------
(* C42 -- abstract (black-box) specification of a family of futures, phrased over
   what a user can observe: calls starting and returning, and callbacks running.
   This is the spec traces of the real code are judged against; it knows nothing
   about mutexes or slices.

   Futures are either external (completed by Complete calls) or the result of
   ThenCompose(f, _ -> g), which completes with g's value once f and g completed --
   unless its holder completed it directly before that. *)
EXTENDS Naturals, Sequences, FiniteSets

VARIABLES started,   \* [fut -> set of values for which Complete(f, v) has been called]
          frozen,    \* [fut -> BOOLEAN] a Complete call on f has returned
          cands,     \* [fut -> values whose Complete had started when the first one returned]
          val,       \* [fut -> fixed value once observed, else 0]
          reg,       \* [fut -> set of callbacks whose ThenAccept has been called]
          ran,       \* [callback -> times it ran]
          comp,      \* [fut -> <<f, g>>] for composed futures, <<>> for external ones
          open       \* calls in progress: thread -> [op, fut]

hvars == <<started, frozen, cands, val, reg, ran, comp, open>>

Futs == DOMAIN comp

HInit(futs) == /\ started = [f \in futs |-> {}]
               /\ frozen = [f \in futs |-> FALSE]
               /\ cands = [f \in futs |-> {}]
               /\ val = [f \in futs |-> 0]
               /\ reg = [f \in futs |-> {}]
               /\ ran = <<>>
               /\ comp = [f \in futs |-> <<>>]
               /\ open = <<>>

RECURSIVE CanComplete(_), Possible(_), Inner(_)
\* A composed future is an ordinary future as well: its holder may complete it directly
\* (a cancel / timeout) and whichever completion comes first -- the direct one or the link
\* from g -- fixes the value; the other one is ignored.
Linked(f) == comp[f] # <<>> /\ CanComplete(comp[f][1]) /\ CanComplete(comp[f][2])
CanComplete(f) == started[f] # {} \/ Linked(f)
\* values the link may deliver to f
Inner(f) == IF Linked(f) THEN Possible(comp[f][2]) ELSE {}
\* values f may legitimately hold
Possible(f) == IF val[f] # 0 THEN {val[f]}
               ELSE IF frozen[f] THEN cands[f]
               ELSE started[f] \cup Inner(f)

Put(fn, k, v) == [x \in DOMAIN fn \cup {k} |-> IF x = k THEN v ELSE fn[x]]
Drop(fn, k) == [x \in DOMAIN fn \ {k} |-> fn[x]]

Compose(out, f, g) == /\ out \in Futs /\ f \in Futs /\ g \in Futs
                      /\ comp[out] = <<>> /\ started[out] = {}
                      /\ comp' = [comp EXCEPT ![out] = <<f, g>>]
                      /\ UNCHANGED <<started, frozen, cands, val, reg, ran, open>>

CallAccept(t, f, cb) == /\ t \notin DOMAIN open /\ cb \notin DOMAIN ran
                        /\ reg' = [reg EXCEPT ![f] = @ \cup {cb}]
                        /\ ran' = Put(ran, cb, 0)
                        /\ open' = Put(open, t, [op |-> "accept", fut |-> f])
                        /\ UNCHANGED <<started, frozen, cands, val, comp>>

CallComplete(t, f, v) == /\ t \notin DOMAIN open /\ v # 0
                         /\ started' = [started EXCEPT ![f] = @ \cup {v}]
                         /\ open' = Put(open, t, [op |-> "complete", fut |-> f])
                         /\ UNCHANGED <<frozen, cands, val, reg, ran, comp>>

\* A callback runs: registered, not yet run, the future can be complete, and the
\* value is the future's one value.
Ran(cb, f, v) == /\ cb \in reg[f]
                 /\ ran[cb] = 0
                 /\ CanComplete(f)
                 /\ v \in Possible(f)
                 /\ ran' = [ran EXCEPT ![cb] = 1]
                 /\ val' = [val EXCEPT ![f] = v]
                 /\ UNCHANGED <<started, frozen, cands, reg, comp, open>>

Ret(t) == /\ t \in DOMAIN open
          /\ LET c == open[t] IN
               IF c.op = "complete" /\ ~frozen[c.fut]
                 THEN /\ frozen' = [frozen EXCEPT ![c.fut] = TRUE]
                      /\ cands' = [cands EXCEPT ![c.fut] = started[c.fut] \cup Inner(c.fut)]
                 ELSE UNCHANGED <<frozen, cands>>
          /\ open' = Drop(open, t)
          /\ UNCHANGED <<started, val, reg, ran, comp>>

\* Quiescence: every call returned.  Every callback of a completable future ran
\* exactly once, and the others not at all.
End == /\ open = <<>>
       /\ \A f \in Futs : \A cb \in reg[f] : ran[cb] = (IF CanComplete(f) THEN 1 ELSE 0)
       /\ UNCHANGED hvars
=============================================================================
