---------------------------- MODULE Switch_Trace ----------------------------
(* Judges what the real proxy did while the harness forced a schedule of connection
   requests, backend behaviours and kicks on one player.  Lines of one run:
     {"ev":"reset","cfg":bool,"init":server|"none","fallbacks":[..]}   player in play on init ("none": the
                                            run starts before the player's first connection request)
     {"ev":"call","t":thread,"s":server,"api":"connect"|"indication"}        harness, before the call
     {"ev":"chk","who":thread|"?","s":server,"res":"ok"|"inprogress"|"already"}   hook sw.check (read lock held)
     {"ev":"start","who":..,"s":server}     hook sw.setInFlight with a connection (player lock held)
     {"ev":"clear","who":..}                hook sw.setInFlight with nil (no meaning for the spec)
     {"ev":"end","who":..,"s":server}       hook sw.attemptEnd (deferred reset of the attempt)
     {"ev":"conn","s":server|"none"}        hook sw.setConnected (player lock held)
     {"ev":"ret","t":thread,"status":"success"|"already"|"inprogress"|"fail","beh":..}  harness, after the call
     {"ev":"kick"}                          harness: the current backend sends a play disconnect
     {"ev":"quit"}                          harness: the client closes its connection
     {"ev":"cancel","t":thread}             harness: the caller cancels the request's context
     {"ev":"dial","who":..,"s":..,"phase":"held"|"released"}   harness: the attempt's TCP dial (no meaning for the spec)
     {"ev":"obs","current":..,"alive":bool,"open":[servers],"openids":[ids],"lists":[servers]}
                                            harness at quiescence: Player.CurrentServer(), client connection,
                                            fake backends' still-open connections of this player,
                                            RegisteredServer.Players() of every server *)
EXTENDS Switch, TraceLib

tv == <<svars, l>>

AsSet(s) == {s[i] : i \in 1..Len(s)}

TInit == CursorInit /\ SInit("none", [cfg |-> FALSE, fallbacks |-> {}])

TReset == /\ IsEv("reset")
          /\ cur' = Rec.init /\ att' = {} /\ calls' = <<>> /\ prev' = Obs0(Rec.init) /\ since' = NoSince
          /\ env' = [cfg |-> Rec.cfg, fallbacks |-> AsSet(Rec.fallbacks)]

TCall == IsEv("call") /\ Call(Rec.t, Rec.s, Rec.api)
TChk == IsEv("chk") /\ Check(Rec.who, Rec.s, Rec.res)
TStart == IsEv("start") /\ Start(Rec.who, Rec.s)
TClear == IsEv("clear") /\ UNCHANGED svars
TEnd == IsEv("end") /\ End(Rec.who, Rec.s)
TConn == IsEv("conn") /\ Connected(Rec.s)
TRet == IsEv("ret") /\ Ret(Rec.t, Rec.status, Rec.beh)
TKick == IsEv("kick") /\ Kick
TQuit == IsEv("quit") /\ Quit
\* harness: the caller cancels the context of request t.  The call has to come back (its attempt
\* ends, so the player is where it was and later requests are admitted); a harness line
\* {"ev":"stuck","t":..} -- the call still blocked 6 s later -- is matched by no action.
TCancel == IsEv("cancel") /\ Rec.t \in DOMAIN calls /\ UNCHANGED svars
TDial == IsEv("dial") /\ UNCHANGED svars      \* harness: an attempt's TCP dial is held / released
TObs == IsEv("obs") /\ Observe([current |-> Rec.current, alive |-> Rec.alive, open |-> Rec.open,
                                 openids |-> Rec.openids, lists |-> AsSet(Rec.lists)])

TNext == TReset \/ TCall \/ TChk \/ TStart \/ TClear \/ TEnd \/ TConn \/ TRet \/ TKick \/ TQuit \/ TCancel \/ TDial \/ TObs
TSpec == TInit /\ [][TNext]_tv
=============================================================================
