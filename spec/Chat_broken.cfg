SPECIFICATION Spec
CONSTANTS
  MaxLen = 2
  MaxQueue = 1
  Offs = {0, 1, 20, 39}
  Outcomes = {"forwarded", "rewritten", "consumed", "denied"}
  Sigs = {FALSE, TRUE}
  Fams = {"pre1205", "1205"}
  Disc = FALSE
  Variant = "ucmdflush"
  Export = FALSE
  Sample = FALSE
VIEW View
INVARIANTS TypeOK NeverExceeds LagBelowTwoWindows CatchesUp Conserved
