SPECIFICATION TSpec
CONSTANTS
  Thresholds = {0}
  Lenient = FALSE
  Diagnose = FALSE
INVARIANT Mark
POSTCONDITION Accepted
CHECK_DEADLOCK FALSE
