----------------------------- MODULE PluginEvents -----------------------------
(* C25 -- plugin channel events fire for forwarded messages with the real message body.

   Decision table.  A row is one plugin message travelling through the proxy:
     phase   which handler sees it: "clientPlay", "clientConfig" (client -> backend),
             "backendPlay", "backendConfig" (backend -> client)
     kind    "register" / "unregister" (minecraft:register / minecraft:unregister),
             "registered" (a channel registered with the proxy's ChannelRegistrar),
             "unregistered" (any other channel)
     action  what the PluginMessageEvent subscriber does: "none", "allow" (SetForward(true)),
             "deny" (SetForward(false))
     shape   body shape: "empty", "one", "many", "invalid" (channel lists) / "empty", "one", "big"
     overlap the message is followed by a second, different one of the same size while the
             subscriber still handles the first one's event (play handlers: they do not pause
             reading); both messages are observed and judged, each against its own body
   and its observation
     body       the message's data as sent
     regEvents  PlayerChannelRegisterEvents raised for the sender
     pm         Data() of every PluginMessageEvent raised for it (sequence of byte sequences; with
                overlap: as read when the handler starts and again when it ends)
     fwd        data of every copy of the message that arrived at the other side

   Allowed(row) is the property:
     - a channel registration of a client that was forwarded raised exactly one
       PlayerChannelRegisterEvent (and never more than one);
     - every PluginMessageEvent exposes exactly the message's body;
     - what was forwarded after an event is that data; nothing is forwarded twice. *)
EXTENDS Naturals, Sequences, FiniteSets, TLC, Json

Phases == {"clientPlay", "clientConfig", "backendPlay", "backendConfig"}
Kinds == {"register", "unregister", "registered", "unregistered"}
Actions == {"none", "allow", "deny"}
\* "same": one fixed channel list; the harness sends such a row twice in a row, so the second
\* registration names only channels the player has registered before
ListShapes == {"empty", "one", "many", "invalid", "same"}
DataShapes == {"empty", "one", "big"}

FromClient(p) == p \in {"clientPlay", "clientConfig"}

Allowed(r) ==
    /\ r.regEvents <= 1
    /\ (r.kind = "register" /\ FromClient(r.phase) /\ Len(r.fwd) >= 1) => r.regEvents = 1
    /\ (r.kind # "register") => r.regEvents = 0
    /\ \A i \in 1..Len(r.pm) : r.pm[i] = r.body
    /\ Len(r.fwd) <= 1
    /\ (Len(r.pm) >= 1 /\ Len(r.fwd) = 1) => r.fwd[1] = r.pm[1]
    /\ \A i \in 1..Len(r.fwd) : r.fwd[i] = r.body

(* ------------------------------------------------------------ the table rows *)
Rows == {r \in [phase : Phases, kind : Kinds, action : Actions, shape : ListShapes \cup DataShapes,
                 overlap : BOOLEAN] :
            /\ (r.overlap => /\ r.phase \in {"clientPlay", "backendPlay"} /\ r.kind = "registered"
                             /\ r.action \in {"none", "allow"} /\ r.shape \in {"one", "big"})
            /\ (r.kind \in {"register", "unregister"} => r.shape \in ListShapes /\ r.action = "none")
            /\ (r.kind \in {"registered", "unregistered"} => r.shape \in DataShapes)
            /\ (r.kind = "unregistered" => r.action = "none")}

\* the ideal outcome of a row for a 2-byte body <<7, 9>>, and two defective ones
B == <<7, 9>>
Ideal(r) == [phase |-> r.phase, kind |-> r.kind, body |-> B,
             regEvents |-> IF r.kind = "register" /\ FromClient(r.phase) THEN 1 ELSE 0,
             pm |-> IF r.kind = "registered" THEN <<B>> ELSE <<>>,
             fwd |-> IF r.action = "deny" THEN <<>> ELSE <<B>>]
RawPacket(r) == [Ideal(r) EXCEPT !.pm = IF r.kind = "registered" THEN <<<<24, 1, 120>> \o B>> ELSE <<>>]
NoRegEvent(r) == [Ideal(r) EXCEPT !.regEvents = 0]

VARIABLE row
Init == row \in Rows
Next == UNCHANGED row
Spec == Init /\ [][Next]_row

IdealAllowed == Allowed(Ideal(row))
\* non-vacuity: the table rejects an event that carries the raw packet and a forwarded
\* registration without its event
RawRejected == row.kind = "registered" => ~Allowed(RawPacket(row))
MissingRegRejected == (row.kind = "register" /\ FromClient(row.phase)) => ~Allowed(NoRegEvent(row))
Emit == PrintT(<<"ROW", ToJson(row)>>)
=============================================================================
