------------------------------ MODULE ServerId ------------------------------
(* C09 -- the session-server id is Java's  new BigInteger(digest).toString(16):
   the digest read as a signed two's-complement big-endian integer, printed in
   lowercase hex without leading zeros, with "-" when negative.

   SignedHex works on byte sequences of any length and is deliberately written as
   subtract-one-then-complement (the code does complement-then-increment).
   IntHex is the arithmetic definition, usable for short digests; TLC checks the
   two agree for every 1- and 2-byte digest (65 792 cases), which validates the
   byte-level operator that then judges the real 20-byte digests. *)
EXTENDS Integers, Sequences, TLC

HexChar == <<"0","1","2","3","4","5","6","7","8","9","a","b","c","d","e","f">>

Front(s) == SubSeq(s, 1, Len(s) - 1)
Last(s) == s[Len(s)]

\* d - 1 on a big-endian byte string (d # 0...0)
RECURSIVE MinusOne(_)
MinusOne(d) == IF Last(d) > 0 THEN Append(Front(d), Last(d) - 1)
               ELSE Append(MinusOne(Front(d)), 255)

Complement(d) == [i \in 1..Len(d) |-> 255 - d[i]]

IsZero(d) == \A i \in 1..Len(d) : d[i] = 0

\* magnitude of the two's-complement value of d when d is negative
NegMagnitude(d) == Complement(MinusOne(d))

\* what an in-place two's complement of a byte string must produce
Twos(d) == IF IsZero(d) THEN d ELSE Complement(MinusOne(d))

RECURSIVE Nibbles(_)
Nibbles(d) == IF d = <<>> THEN <<>>
              ELSE <<Head(d) \div 16, Head(d) % 16>> \o Nibbles(Tail(d))

RECURSIVE Strip(_)
Strip(ns) == IF ns # <<>> /\ Head(ns) = 0 THEN Strip(Tail(ns)) ELSE ns

RECURSIVE HexOf(_)
HexOf(ns) == IF ns = <<>> THEN "" ELSE HexChar[Head(ns) + 1] \o HexOf(Tail(ns))

HexMag(d) == LET ns == Strip(Nibbles(d)) IN IF ns = <<>> THEN "0" ELSE HexOf(ns)

SignedHex(d) == IF d[1] >= 128 THEN "-" \o HexMag(NegMagnitude(d)) ELSE HexMag(d)

----------------------------------------------------------------------------
(* Arithmetic definition for short digests. *)
RECURSIVE Val(_)
Val(d) == IF d = <<>> THEN 0 ELSE Val(Front(d)) * 256 + Last(d)
Pow256(n) == IF n = 1 THEN 256 ELSE 65536
Signed(d) == IF d[1] >= 128 THEN Val(d) - Pow256(Len(d)) ELSE Val(d)
RECURSIVE NatHex(_)
NatHex(n) == IF n < 16 THEN HexChar[n + 1] ELSE NatHex(n \div 16) \o HexChar[(n % 16) + 1]
IntHex(d) == LET v == Signed(d) IN IF v < 0 THEN "-" \o NatHex(-v) ELSE NatHex(v)

VARIABLE d
Byte == 0..255
Init == d \in {<<a>> : a \in Byte} \cup {<<a, b>> : a \in Byte, b \in Byte}
Next == UNCHANGED d
Spec == Init /\ [][Next]_d

ByteLevelMatchesArithmetic == SignedHex(d) = IntHex(d)
\* two's complement is an involution and matches 2^(8n) - v
TwosOK == /\ Twos(Twos(d)) = d
          /\ ~IsZero(d) => Val(Twos(d)) = Pow256(Len(d)) - Val(d)
=============================================================================
