SPECIFICATION Spec
INVARIANTS ByteLevelMatchesArithmetic TwosOK
