SPECIFICATION Spec
CONSTANTS
  Threads = {"t1", "t2", "t3"}
  Servers = {"s1", "s2", "s3"}
  InitServer = "s1"
  Try1 = "s1"
  Try2 = "s3"
  Apis = {"connect"}
  Behs = {"accept", "kicklogin"}
  Atomic = TRUE
  StaleClears = TRUE
  KickClears = FALSE
  AllowKick = TRUE
  AllowQuit = TRUE
  Sequential = FALSE
  FirstRound = FALSE
  AckThenInstall = FALSE
  Export = FALSE
VIEW View
INVARIANTS AtMostOneInFlight SlotTracksAttempt QuiescentClean
