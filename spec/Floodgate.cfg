SPECIFICATION Spec
CONSTANTS NoAuth = FALSE
INVARIANTS DecoderMeetsStatement Emit
