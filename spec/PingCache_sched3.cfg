SPECIFICATION Spec
CONSTANTS
  Threads = {"t1", "t2", "t3"}
  Keys = {"a"}
  MaxLoads = 2
  TTL = 1
  GenCheck = TRUE
  Locked = TRUE
  Export = TRUE
INVARIANTS Emit
