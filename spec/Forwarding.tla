----------------------------- MODULE Forwarding -----------------------------
(* C20 -- Velocity "modern forwarding": version negotiation, payload layout, MAC.

   Negotiate is a transcription of Velocity's VelocityServerConnection /
   LoginSessionHandler.findForwardingVersion(requested, player):

       requested = min(requested, MODERN_FORWARDING_MAX_VERSION (4))
       if requested > MODERN_FORWARDING_DEFAULT (1):
           if player protocol >= 1.19.3:  requested >= LAZY_SESSION (4) ? 4 : 1
           key GENERIC_V1 -> WITH_KEY (2)
           key LINKED_V2  -> requested >= WITH_KEY_V2 (3) ? 3 : 1
           no key / other -> 1
       return 1

   Highest is an independent, declarative reading of the same table: the highest version
   not above the request that the player's client / key revision can carry.  TLC proves
   the two equal on the whole space 0..255 x Protos x {none, v1, v2}.

   Payload is the byte layout a Paper backend reads (VelocityProxy.checkIntegrity / readAddress /
   createProfile / readProperties [/ readForwardedKey / readSignerUuidOrElse]):
       signature(32) ++ VarInt version ++ String ip ++ UUID ++ String name ++ properties
       [++ Long expiry ++ ByteArray publicKey ++ ByteArray keySignature   (versions 2, 3)
        [++ Bool hasHolder [++ UUID holder]]]                             (version 3)
   HMAC-SHA256 is uninterpreted here (the harness verifies it with crypto/hmac). *)
EXTENDS Integers, Sequences, TLC, Json, Wire

CONSTANTS Protos        \* client protocol numbers (the proxy's supported list, given by the check)

P1_19_3 == 761
Keys == {"none", "v1", "v2"}
Default == 1  WithKey == 2  WithKeyV2 == 3  LazySession == 4  MaxVersion == 4

Negotiate(requested, proto, key) ==
    LET r == Min2(requested, MaxVersion) IN
    IF r > Default
    THEN IF proto >= P1_19_3 THEN (IF r >= LazySession THEN LazySession ELSE Default)
         ELSE IF key = "v1" THEN WithKey
         ELSE IF key = "v2" THEN (IF r >= WithKeyV2 THEN WithKeyV2 ELSE Default)
         ELSE Default
    ELSE Default

\* what a (client protocol, key revision) can carry at all
Carries(v, proto, key) ==
    \/ v = Default
    \/ v = WithKey /\ key = "v1" /\ proto < P1_19_3
    \/ v = WithKeyV2 /\ key = "v2" /\ proto < P1_19_3
    \/ v = LazySession /\ proto >= P1_19_3
Highest(requested, proto, key) ==
    LET ok == {v \in 1..MaxVersion : Carries(v, proto, key) /\ (v = Default \/ v <= requested)}
    IN CHOOSE v \in ok : \A w \in ok : w <= v

\* a backend that sends no (or a malformed) version byte asked for the default
Effective(req) == IF req < 0 THEN Default ELSE req

VARIABLES req, proto, key
vars == <<req, proto, key>>
Init == req \in 0..255 /\ proto \in Protos /\ key \in Keys
Next == UNCHANGED vars
Spec == Init /\ [][Next]_vars

TranscriptionMatchesDeclarative == Negotiate(req, proto, key) = Highest(req, proto, key)
NeverAboveRequest == LET v == Negotiate(req, proto, key) IN v \in 1..MaxVersion /\ (v = Default \/ v <= req)

\* boundary requests are exported as scenarios for the live rig / the payload shim
ReqSample == {0, 1, 2, 3, 4, 5, 127, 128, 255}
Emit == req \in ReqSample => PrintT(<<"SC", ToJson([req |-> req, proto |-> proto, key |-> key])>>)

----------------------------------------------------------------------------
(* Payload layout (byte sequences; property = [name, value, sig], sig = <<>> unsigned) *)
KeyPart(v, k) ==
    IF v \in {WithKey, WithKeyV2}
    THEN EncLimbs(k.expiry) \o EncBytes(k.pub) \o EncBytes(k.sig) \o
         (IF v = WithKeyV2 THEN (IF k.holder = <<>> THEN EncBool(FALSE) ELSE EncBool(TRUE) \o k.holder) ELSE <<>>)
    ELSE <<>>

Payload(v, ip, uuid, name, props, k) ==
    EncVarInt(v) \o EncString(ip) \o EncUUID(uuid) \o EncString(name) \o EncProps(props) \o KeyPart(v, k)
=============================================================================
