SPECIFICATION TSpec
CONSTANTS
  MaxLen = 99
  Sample = FALSE
INVARIANT Mark
POSTCONDITION Accepted
CHECK_DEADLOCK FALSE
