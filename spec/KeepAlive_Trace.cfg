SPECIFICATION TSpec
INVARIANT Mark
POSTCONDITION Accepted
CHECK_DEADLOCK FALSE
