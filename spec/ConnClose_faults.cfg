SPECIFICATION Spec
CONSTANTS
  Threads = {"t1"}
  Kinds <- KindsEof
  FaultSeqs <- FaultsAll3
  Locked = TRUE
  Recover = TRUE
  Export = TRUE
INVARIANTS EmitFaults Alive AtMostOnce ExactlyOnce
