SPECIFICATION Spec
CONSTANTS
  Servers = {"s1", "s2", "s3"}
  Threads = {"t1", "t2"}
  MaxCalls = 2
  GenCfg = FALSE
  GenFallbacks = {"s1"}
INVARIANTS AtMostOneInFlight AtMostOneJoinPerCall
