SPECIFICATION Spec
CONSTANTS
  Payloads <- PayloadsFull
  MaxWrites = 3
  Thresholds <- ThrFull
  EmptyCompressed = FALSE
INVARIANTS TypeOK Delivered NoError AllRead
