SPECIFICATION FairSpec
CONSTANTS
  Contents = {"A", "B"}
  MaxOps = 3
  Kinds = {"write"}
  Fates = {"drop"}
  Rejects = {}
  CbOps = "one"
  Recheck = TRUE
  Post = "rearm"
  Record = "always"
  Breaks = FALSE
  Blind = FALSE
  Export = FALSE
INVARIANTS NoHazard
