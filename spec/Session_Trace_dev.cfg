SPECIFICATION TSpec
CONSTANTS
  Backends = {"b1", "b2", "b3", "b4", "b5", "b6"}
  MaxJoins = 1000
  AllowEarlyAck = TRUE
INVARIANTS Mark TypeOK PlayImpliesJoined NoBackendBeforeLogin CfgAckOrder
POSTCONDITION Accepted
CHECK_DEADLOCK FALSE
