SPECIFICATION Spec
CONSTANTS
  Alphabet = {42, 45, 46, 47, 48, 57, 58, 64, 65, 90, 91, 95, 96, 97, 122, 123, 32, 10, 233, 65313, 0, 8490, 383, 304, 305}
  MaxShort = 2
INVARIANTS V3Shape Emit
