-------------------------- MODULE LiteBalance_Trace --------------------------
(* Judges recorded behaviour of the real Lite balancer (addresses as code points):
     reset   strategy list up            new scenario: fresh proxy / StrategyManager
     lat     b ms                        StrategyManager.RecordLatency(b, ms)
     attempt id tries result             one connection through lite.Forward: the addresses the
                                         code tried (lb.try events) and "open"/"closed"
     abort   id tries                    the accepting backend reset connection id right after the handshake
     opened  id                          a connection of a concurrent batch is being forwarded
     close   id                          the client closed connection id and the proxy let go of it
     count   n                           StrategyManager.ActiveConnections() at a quiescent point
   and of concurrent TrackConnection calls:
     tb / te / ub / ue                   track call begins / returned, untrack call begins / returned
     pbegin o / pick o b                 reader o is about to ask / has asked least-connections to choose
                                         between B (where all tracked connections go) and idle C
     obegin o / obs o n                  reader o is about to read / has read ActiveConnections() = n *)
EXTENDS LiteBalance, TraceLib

VARIABLES cfg, open, lat, rrPrev, ctb, cte, cub, cue, ob, sel, pb

tv == <<cfg, open, lat, rrPrev, ctb, cte, cub, cue, ob, sel, pb>>
tvars == <<vars, tv, l>>

Put(f, k, v) == [x \in DOMAIN f \cup {k} |-> IF x = k THEN v ELSE f[x]]
Drop1(f, k) == [x \in DOMAIN f \ {k} |-> f[x]]
AsSet(s) == {s[i] : i \in 1..Len(s)}
ActiveOf(o) == [c \in {o[k] : k \in DOMAIN o} |-> Cardinality({k \in DOMAIN o : o[k] = c})]
PosOf(list, b) == LET S == {i \in 1..Len(list) : list[i] = b} IN IF S = {} THEN 0 ELSE SetMin(S)

TInit == /\ CursorInit
         /\ cfg = [strategy |-> "", list |-> <<>>, up |-> {}]
         /\ open = <<>> /\ lat = <<>> /\ rrPrev = 0
         /\ ctb = 0 /\ cte = 0 /\ cub = 0 /\ cue = 0 /\ ob = <<>> /\ sel = <<>> /\ pb = <<>>
         /\ sc = 0 /\ remaining = <<>> /\ tries = <<>> /\ result = ""

TReset == /\ IsEv("reset")
          /\ cfg' = [strategy |-> Rec.strategy, list |-> Rec.list, up |-> AsSet(Rec.up)]
          /\ open' = <<>> /\ lat' = <<>> /\ rrPrev' = 0
          /\ ctb' = 0 /\ cte' = 0 /\ cub' = 0 /\ cue' = 0 /\ ob' = <<>> /\ sel' = <<>> /\ pb' = <<>>

TLat == IsEv("lat") /\ lat' = Put(lat, Rec.b, Rec.ms) /\ UNCHANGED <<cfg, open, rrPrev, ctb, cte, cub, cue, ob, sel, pb>>

TAttempt == /\ IsEv("attempt")
            /\ Rec.id \notin DOMAIN open
            /\ AttemptOK(cfg.strategy, cfg.list, Rec.tries, Rec.result, cfg.up, ActiveOf(open), lat, rrPrev)
            /\ open' = IF Rec.result = "open" THEN Put(open, Rec.id, Canon(Rec.tries[Len(Rec.tries)])) ELSE open
            /\ rrPrev' = IF Len(Rec.tries) = 1 THEN PosOf(cfg.list, Rec.tries[1]) ELSE 0
            /\ sel' = Append(sel, IF Rec.result = "open" THEN Canon(Rec.tries[Len(Rec.tries)]) ELSE <<>>)
            /\ RRFair(cfg.strategy, cfg.list, cfg.up, sel')
            /\ UNCHANGED <<cfg, lat, ctb, cte, cub, cue, ob, pb>>

\* fault: the backend that accepted connection id reset it before anything was forwarded
\* (lite.Forward gave up while flushing the client's buffered bytes): not an open connection
TAbort == /\ IsEv("abort")
          /\ Rec.id \notin DOMAIN open
          /\ FromList(cfg.list, Rec.tries) /\ AtMostOnce(Rec.tries) /\ Len(Rec.tries) >= 1
          /\ \A i \in 1..Len(Rec.tries) - 1 : Canon(Rec.tries[i]) \notin cfg.up
          /\ Canon(Rec.tries[Len(Rec.tries)]) \in cfg.up
          /\ Order(cfg.strategy, cfg.list, Rec.tries, ActiveOf(open), lat, rrPrev)
          /\ rrPrev' = IF Len(Rec.tries) = 1 THEN PosOf(cfg.list, Rec.tries[1]) ELSE 0
          /\ sel' = Append(sel, Canon(Rec.tries[Len(Rec.tries)]))
          /\ RRFair(cfg.strategy, cfg.list, cfg.up, sel')
          /\ UNCHANGED <<cfg, open, lat, ctb, cte, cub, cue, ob, pb>>

TOpened == IsEv("opened") /\ Rec.id \notin DOMAIN open /\ open' = Put(open, Rec.id, <<>>)
           /\ UNCHANGED <<cfg, lat, rrPrev, ctb, cte, cub, cue, ob, sel, pb>>
TClose == IsEv("close") /\ Rec.id \in DOMAIN open /\ open' = Drop1(open, Rec.id)
          /\ UNCHANGED <<cfg, lat, rrPrev, ctb, cte, cub, cue, ob, sel, pb>>
TCount == IsEv("count") /\ Rec.n = Cardinality(DOMAIN open) /\ UNCHANGED tv

TTb == IsEv("tb") /\ ctb' = ctb + 1 /\ UNCHANGED <<cfg, open, lat, rrPrev, cte, cub, cue, ob, sel, pb>>
TTe == IsEv("te") /\ cte < ctb /\ cte' = cte + 1 /\ UNCHANGED <<cfg, open, lat, rrPrev, ctb, cub, cue, ob, sel, pb>>
TUb == IsEv("ub") /\ cub' = cub + 1 /\ UNCHANGED <<cfg, open, lat, rrPrev, ctb, cte, cue, ob, sel, pb>>
TUe == IsEv("ue") /\ cue < cub /\ cue' = cue + 1 /\ UNCHANGED <<cfg, open, lat, rrPrev, ctb, cte, cub, ob, sel, pb>>
\* LiteCount's CountOK over the interval of the read: reader o announces the read (obegin),
\* reads, and reports the value (obs)
TOBegin == IsEv("obegin") /\ ob' = Put(ob, Rec.o, [te |-> cte, ue |-> cue])
           /\ UNCHANGED <<cfg, open, lat, rrPrev, ctb, cte, cub, cue, sel, pb>>
TObs == IsEv("obs") /\ Rec.o \in DOMAIN ob
        /\ ob[Rec.o].te - cub <= Rec.n /\ Rec.n <= ctb - ob[Rec.o].ue /\ Rec.n >= 0
        /\ UNCHANGED tv

\* least-connections choice between backend B (all tracked connections go there) and idle C, made by
\* reader o while connections to B open and close (LiteLeast.PickRule)
TPBegin == IsEv("pbegin") /\ pb' = Put(pb, Rec.o, cte)
           /\ UNCHANGED <<cfg, open, lat, rrPrev, ctb, cte, cub, cue, ob, sel>>
TPick == IsEv("pick") /\ Rec.o \in DOMAIN pb
         /\ (Rec.b = "B" => pb[Rec.o] - cub <= 0)
         /\ UNCHANGED tv

TNext == (TReset \/ TLat \/ TAttempt \/ TAbort \/ TOpened \/ TClose \/ TCount \/ TTb \/ TTe \/ TUb \/ TUe \/ TOBegin \/ TObs \/ TPBegin \/ TPick)
         /\ UNCHANGED vars
TSpec == TInit /\ [][TNext]_tvars
=============================================================================
