--------------------------- MODULE HandshakeAddr ---------------------------
(* C19 -- the server address the proxy puts into the handshake it sends to a backend.

   A scenario is one login through the proxy:
     vh     the server address of the CLIENT's handshake as its NUL-separated parts
            (vh[1] is the host the player typed; later parts are Forge markers or whatever
            an upstream hop appended)
     proto  client protocol number (decides, with the markers, the client type: vanilla,
            legacy Forge 1.8-1.12, modern Forge FML2/FML3/FORGE, undetermined 1.7)
     mode   player-info forwarding mode of the proxy
     props  the profile property list the player ends up with (symbolic kinds; the harness
            picks concrete hostile strings: quotes, backslashes, NUL, non-ASCII, HTML, 1.2 kB)
     nilp   props = <<>> given as "no list at all" instead of an empty list
     hook   "none" | "info" (the target's ServerInfo implements HandshakeAddresser and appends
            a NUL part) | "backend" (Proxy.SetBackendHandshakeAddresser appends a NUL part)

   What the backend must receive (Judge below, used by HandshakeAddr_Trace):
     modes none / velocity:   first NUL-part of the address = first NUL-part of vh
     modes legacy / bungeeguard (hooks none, backend):
         exactly four NUL-parts  backendAddr, playerIP, undashed(uuid), JSON
         and the JSON, read the way BungeeCord/Spigot reads it, is the property list
         (+ optionally one "extraData" Forge marker property for clients that sent
         markers) (+ the bungeeguard-token property in bungeeguard mode).

   All strings that were on the wire are byte sequences here. *)
EXTENDS Naturals, Sequences, TLC, Json

Host == "play.example.com"

VHosts == { <<Host>>, <<"Play.EXAMPLE.com">>, <<"play.example.com.">>,
            <<Host, "FML", "">>,            \* legacy Forge 1.8-1.12:  host\0FML\0
            <<Host, "FML2", "">>,           \* Forge 1.13-1.17
            <<Host, "FML3", "">>,           \* Forge 1.18-1.20.1
            <<Host, "FORGE">>,              \* Forge 1.20.2+
            <<Host, "FORGE2">>,             \* ... with NAT version
            <<Host, "extra">>,              \* an unknown part (upstream hop)
            <<Host, "FML", "", "extra">>,
            <<"FORGE.example.com">>,        \* marker text inside the host itself
            \* hosts that BEGIN with a marker string, sent by Forge clients (marker parts follow)
            <<"FORGE.example.com", "FORGE">>, <<"FORGEcraft.net", "FORGE2">>,
            <<"FML2host.example", "FML2", "">>, <<"FML3server.example.org", "FML3", "">>,
            <<"FML.example.com", "FML", "">>,
            <<"forge.example.com", "FORGE">>, <<"fml3.example", "FML3", "">>,
            <<"example.com///10.1.2.3:4567///1700000000">>,          \* TCPShield real-ip
            <<"example.com///10.1.2.3:4567///1700000000", "FML3", "">>,
            <<"", "FORGE">>,                \* empty host with a marker
            <<"192.0.2.7">>,
            <<"2001:db8::1">>,              \* IPv6 literal as vanilla sends it
            <<"play.example.com:25565">> }  \* host text carrying a port

Protos == {5, 47, 340, 754, 763, 765, 767}
P1_13 == 393
Modes == {"none", "velocity", "legacy", "bungeeguard"}
Hooks == {"none", "info", "backend"}

P(n, v, s) == [n |-> n, v |-> v, s |-> s]
PropLists == { <<>>,
               <<P("textures", "plain", "sig")>>,
               <<P("textures", "plain", "")>>,
               <<P("textures", "long", "sig"), P("other", "plain", "")>>,
               <<P("textures", "quote", "sigq")>>,
               <<P("weird", "nul", ""), P("textures", "uni", "sig")>>,
               <<P("textures", "html", ""), P("textures", "empty", ""), P("other", "quote", "sig")>>,
               <<P("extraData", "plain", "")>>,             \* a player property that looks like ours
               <<P("bungeeguard-token", "plain", "")>> }

Forwarded(m) == m \in {"legacy", "bungeeguard"}

Scenarios ==
    { [vh |-> vh, proto |-> p, mode |-> m, props |-> pl, nilp |-> np, hook |-> h] :
        vh \in VHosts, p \in Protos, m \in Modes, pl \in PropLists, np \in BOOLEAN, h \in Hooks }

Valid(sc) ==
    /\ (sc.mode = "velocity" => sc.proto >= P1_13)     \* velocity mode refuses older clients
    /\ (Forwarded(sc.mode) => sc.hook # "info")         \* an own addresser replaces the forwarding scheme
    /\ (~Forwarded(sc.mode) => sc.props = <<>> /\ ~sc.nilp)   \* properties only matter when forwarded
    /\ (sc.nilp => sc.props = <<>>)

VARIABLE sc
Init == sc \in {s \in Scenarios : Valid(s)}
Next == UNCHANGED sc
Spec == Init /\ [][Next]_sc

----------------------------------------------------------------------------
(* Reference operators over byte sequences *)
HexDigit(n) == IF n < 10 THEN 48 + n ELSE 87 + n
RECURSIVE Hex(_)
Hex(b) == IF b = <<>> THEN <<>>
          ELSE <<HexDigit(Head(b) \div 16), HexDigit(Head(b) % 16)>> \o Hex(Tail(b))

\* Java's String.split("\0"): trailing empty parts are dropped (BungeeCord/Spigot use it)
RECURSIVE JavaSplit(_)
JavaSplit(parts) == IF parts # <<>> /\ parts[Len(parts)] = <<>>
                    THEN JavaSplit(SubSeq(parts, 1, Len(parts) - 1)) ELSE parts

ExtraDataName == <<101, 120, 116, 114, 97, 68, 97, 116, 97>>                 \* "extraData"
TokenName == <<98,117,110,103,101,101,103,117,97,114,100,45,116,111,107,101,110>>   \* "bungeeguard-token"

HostFirst(c) == c.vh[1] # <<>> => (c.parts # <<>> /\ c.parts[1] = c.vh[1])

Token(c) == IF c.mode = "bungeeguard" THEN <<[n |-> TokenName, v |-> c.secret, s |-> <<>>]>> ELSE <<>>

PropsOK(c) ==
    LET want == c.props
        tok == Token(c)
        got == c.gotprops
        k == Len(want)
        IsExtra(p) == p.n = ExtraDataName
    IN \/ got = want \o tok
       \/ /\ Len(c.vh) > 1                       \* the client sent marker parts: one extraData
          /\ Len(got) = k + 1 + Len(tok)         \* property may sit before or after the token
          /\ \/ IsExtra(got[k + 1]) /\ got = want \o <<got[k + 1]>> \o tok
             \/ tok # <<>> /\ IsExtra(got[k + 2]) /\ got = want \o tok \o <<got[k + 2]>>

LegacyExact(c) ==
    /\ Len(c.parts) = 4
    /\ Len(JavaSplit(c.parts)) = 4
    /\ c.parts[1] \in {c.backendAddr, c.backendHost}
    /\ c.parts[2] = c.ip
    /\ c.parts[3] = Hex(c.uuid)
    /\ c.jsonok
    /\ PropsOK(c)

Judge(c) == IF Forwarded(c.mode) THEN (c.hook # "info" => LegacyExact(c)) ELSE HostFirst(c)

----------------------------------------------------------------------------
(* Model-level checks: the reference operators on known vectors; the scenario export *)
RefOK == /\ Hex(<<0, 9, 10, 255, 16>>) = <<48,48, 48,57, 48,97, 102,102, 49,48>>
         /\ Len(Hex([i \in 1..16 |-> 0])) = 32
         /\ JavaSplit(<<<<1>>, <<>>, <<2>>, <<>>, <<>>>>) = <<<<1>>, <<>>, <<2>>>>
         /\ JavaSplit(<<<<>>, <<>>>>) = <<>>
Emit == PrintT(<<"SC", ToJson(sc)>>)
=============================================================================
