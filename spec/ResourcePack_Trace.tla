------------------------- MODULE ResourcePack_Trace -------------------------
(* Judges what the real resource-pack handlers did, call by call.  Lines:
     {"ev":"reset","ver":<client protocol>}      a fresh handler for that client; its kind is ModeOf(ver)
     {"ev":"op","op":"queue"|"response"|"remove"|"clear","pack":name,"sid":id,"st":status,
      "fail":""|"prompt"|"report",   the write fault injected during the call (writes are logged as attempted)
      "returned":bool,     the call came back before the watchdog fired (confirmed by a re-run)
      "panicked":bool,     the call ended in a panic
      "prompts":[names],   resource pack requests written to the client during the call
      "reports":[{"id":i,"st":status}],  responses written to the in-flight backend during the call
      "handled":bool}      result of OnResourcePackResponse (FALSE = response forwarded to the backend)
   Every call must return; what it emitted must satisfy LegacyStep / ModernStep. *)
EXTENDS ResourcePack, TraceLib

unused == <<prev, open, nAuto, last, h>>      \* the reference machine's own variables
tv == <<ver, q, qm, decl, mode, l, unused>>

TInit == CursorInit /\ q = <<>> /\ qm = [i \in Ids |-> <<>>] /\ decl = FALSE /\ mode = "legacy" /\ ver = 0
         /\ prev = "none" /\ open = 0 /\ nAuto = 0 /\ last = 0 /\ h = <<>>

TReset == /\ IsEv("reset")
          /\ q' = <<>> /\ qm' = [i \in Ids |-> <<>>] /\ decl' = FALSE /\ ver' = Rec.ver /\ mode' = ModeOf(Rec.ver) /\ UNCHANGED unused

Op(r) == [op |-> r.op, pack |-> r.pack, sid |-> r.sid, st |-> r.st, fail |-> r.fail]
Out(r) == [prompts |-> r.prompts, reports |-> r.reports, handled |-> r.handled]

\* the queue after the call is determined by the call and the prompts it wrote
NextQueues(r) == {q, Append(q, r.pack)} \cup {SubSeq(q, k, Len(q)) : k \in 1..(Len(q) + 1)}
                 \cup {<<>>, <<r.pack>>}

\* the per-id queues a call on pack `pack` may leave behind (ModernStep picks the right one)
Cands(qq, pack) == {qq, [i \in Ids |-> <<>>]} \cup UNION {
                     {[qq EXCEPT ![i] = s] : s \in {<<>>, Append(qq[i], pack)} \cup
                         (IF qq[i] = <<>> THEN {}
                          ELSE {<<Tail(qq[i])[j]>> \o RemoveAt(Tail(qq[i]), j) : j \in 1..(Len(qq[i]) - 1)})}
                     : i \in Ids}

TOp == /\ IsEv("op")
       /\ Rec.returned /\ ~Rec.panicked
       /\ mode' = mode /\ ver' = ver /\ UNCHANGED unused
       /\ IF mode = "modern"
            THEN /\ \E qm2 \in Cands(qm, Rec.pack) :
                       ModernStep(qm, Op(Rec), Out(Rec), qm2) /\ qm' = qm2
                 /\ UNCHANGED <<q, decl>>
            ELSE /\ Rec.op # "remove"
                 /\ \E q2 \in NextQueues(Rec), d2 \in BOOLEAN :
                       LegacyStep(mode, q, decl, Op(Rec), Out(Rec), q2, d2) /\ q' = q2 /\ decl' = d2
                 /\ UNCHANGED qm

(* {"ev":"par","a":<response call>,"b":<queue call>,"returned":bool,"prompts":[..],"reports":[..],"handled":bool}
   two calls on a modern handler running at the same time on two goroutines (the response call is
   held at its status event while the queue call is started): both must return and what was
   written must be what the two calls write in one of the two orders. *)
TPar == /\ IsEv("par") /\ mode = "modern" /\ Rec.returned
        /\ mode' = mode /\ ver' = ver /\ UNCHANGED <<unused, q, decl>>
        /\ \E pa, pb \in {<<>>} \cup {<<n>> : n \in PackNames} :
              /\ (Rec.prompts = pa \o pb \/ Rec.prompts = pb \o pa)
              /\ LET a == Op(Rec.a)  b == Op(Rec.b)
                     oa == [prompts |-> pa, reports |-> Rec.reports, handled |-> Rec.handled]
                     ob == [prompts |-> pb, reports |-> <<>>, handled |-> FALSE]
                 IN \/ \E q1 \in Cands(qm, b.pack) : \E q2 \in Cands(q1, b.pack) :
                          ModernStep(qm, a, oa, q1) /\ ModernStep(q1, b, ob, q2) /\ qm' = q2
                    \/ \E q1 \in Cands(qm, b.pack) : \E q2 \in Cands(q1, b.pack) :
                          ModernStep(qm, b, ob, q1) /\ ModernStep(q1, a, oa, q2) /\ qm' = q2

TNext == TReset \/ TOp \/ TPar
TSpec == TInit /\ [][TNext]_tv
=============================================================================
