SPECIFICATION Spec
CONSTANTS
  Readers = {"r1"}
  Writers = {"w1", "w2"}
  Keys = {"k1", "k2", "k3"}
  Locked = TRUE
  IterUnderLock = TRUE
  Export = FALSE
  MaxInit = 3
VIEW View
INVARIANTS NoIterWriteOverlap SnapshotAtomic NoHang
