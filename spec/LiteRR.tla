-------------------------------- MODULE LiteRR --------------------------------
(* C30 -- round-robin "rotating across connections" over successive connections when
   some backend is down.

   Code-shaped model of roundRobinNextBackend + the attempt loop: one index per route,
   advanced by every pick; a pick takes  remaining[index % Len(remaining)]  where
   remaining is the list still untried in the current attempt.  With WrapShrunken the
   stored index is reduced modulo the length of that shrunken list (the seeded defect).

   RRFair (the rule traces are judged by, see LiteBalance.RRFair): on a duplicate-free
   list, among any Window(list) consecutive connections every accepting backend is
   selected at least once -- no backend is starved by the rotation.  Exact rotation of
   first picks is not required (the index also advances on retries). *)
EXTENDS Integers, Sequences, FiniteSets, TLC

CONSTANTS Backends, MaxConns, WrapShrunken

VARIABLES list, up, idx, sel

vars == <<list, up, idx, sel>>

Window(l) == 2 * Len(l) + 2
Range(s) == {s[i] : i \in 1..Len(s)}
Perms == {s \in UNION {[1..n -> Backends] : n \in 2..3} : \A i, j \in 1..Len(s) : i # j => s[i] # s[j]}

Init == /\ list \in Perms
        /\ up \in SUBSET Backends
        /\ idx = 0 /\ sel = <<>>

\* one whole attempt: returns <<selected or "", new index>>
RECURSIVE Attempt(_, _)
Attempt(rem, i) ==
    IF rem = <<>> THEN <<"", i>>
    ELSE LET k == (i % Len(rem)) + 1
             b == rem[k]
             ni == IF WrapShrunken THEN ((i % Len(rem)) + 1) % Len(rem) ELSE i + 1
         IN IF b \in up THEN <<b, ni>>
            ELSE Attempt(SelectSeq(rem, LAMBDA x : x # b), ni)

Connect == /\ Len(sel) < MaxConns
           /\ LET r == Attempt(list, idx) IN sel' = Append(sel, r[1]) /\ idx' = r[2]
           /\ UNCHANGED <<list, up>>
Spec == Init /\ [][Connect]_vars

RRFair == Len(sel) >= Window(list) =>
            \A c \in up \cap Range(list) :
               \E i \in (Len(sel) - Window(list) + 1)..Len(sel) : sel[i] = c
===============================================================================
