SPECIFICATION Spec
CONSTANTS
  VersionsAll = {4, 5, 47, 107, 108, 110, 210, 315, 316, 335, 338, 340, 393, 404, 477, 573, 735, 736, 751, 753, 754, 755, 756, 757, 758, 759, 760, 761, 762, 763, 764, 765, 766, 767, 768, 769, 770, 771, 772, 773, 774, 775, 776}
  Thorough = FALSE
INVARIANTS Emit FloorDivOK
