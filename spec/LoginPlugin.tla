---------------------------- MODULE LoginPlugin ----------------------------
(* C13 -- login plugin messages are answered exactly once by the matching consumer;
   login completion runs exactly once.

   Abstract (black-box) acceptor, phrased over what plugins, the client and a backend
   can observe.  It knows nothing about mutexes, maps or queues; histories of the real
   code are judged against it (LoginPlugin_Trace.tla).

   A message is identified by its tag (the payload the sender chose; the consumer
   registered with it carries the same tag).  Observable events:

     Send(tag) / SendRet(tag)   a SendLoginPluginMessage call starts / has returned
                                (for the Forge relay: the backend sent a login plugin
                                message; its "consumer" is the answer to the backend)
     PreLoginDone               the pre-login event has returned
     Wrote(id, tag)             the client received message id carrying tag
     Resp(id, ok, body)         the client sent a response
     Deliver(tag, ok, body)     the consumer of tag was invoked (relay: the backend
                                received the answer for its message)
     DeliverRet(tag)            that invocation returned
     Complete                   the login-completion step ran
     End(settled)               quiescence

   Decision points are not observable, so the completion rule is phrased with what
   provably happened before them: completion is decided after the pre-login event
   returned or after a consumer returned; every message whose Send had returned by
   then (snap) must have been answered. *)
EXTENDS Naturals, Sequences, FiniteSets

VARIABLES sent,       \* tags whose Send was called
          retd,       \* tags whose Send returned
          snap,       \* retd at the last possible completion decision point
          fired,      \* the pre-login event returned
          bind,       \* tag -> message id (function on a subset of sent)
          resps,      \* client responses so far: <<[id, ok, body]>>
          used,       \* indices of resps that were delivered
          delivered,  \* tags whose consumer was invoked
          owed,       \* tags whose message the client answered after having received it
          completed   \* number of completion runs

hvars == <<sent, retd, snap, fired, bind, resps, used, delivered, owed, completed>>

HInit == /\ sent = {} /\ retd = {} /\ snap = {} /\ fired = FALSE
         /\ bind = <<>> /\ resps = <<>> /\ used = {} /\ delivered = {}
         /\ owed = {} /\ completed = 0

Put(fn, k, v) == [x \in DOMAIN fn \cup {k} |-> IF x = k THEN v ELSE fn[x]]

\* tag may be bound to id: not bound otherwise, and id not taken by another tag
CanBind(tag, id) == /\ (tag \in DOMAIN bind => bind[tag] = id)
                    /\ \A t \in DOMAIN bind : t # tag => bind[t] # id

Send(tag) == /\ tag \notin sent
             /\ sent' = sent \cup {tag}
             /\ UNCHANGED <<retd, snap, fired, bind, resps, used, delivered, owed, completed>>

SendRet(tag) == /\ tag \in sent
                /\ retd' = retd \cup {tag}
                /\ UNCHANGED <<sent, snap, fired, bind, resps, used, delivered, owed, completed>>

PreLoginDone == /\ ~fired
                /\ fired' = TRUE
                /\ snap' = retd
                /\ UNCHANGED <<sent, retd, bind, resps, used, delivered, owed, completed>>

Wrote(id, tag) == /\ tag \in sent
                  /\ CanBind(tag, id)
                  /\ bind' = Put(bind, tag, id)
                  /\ UNCHANGED <<sent, retd, snap, fired, resps, used, delivered, owed, completed>>

Resp(id, ok, body) == /\ resps' = Append(resps, [id |-> id, ok |-> ok, body |-> body])
                      /\ owed' = owed \cup {t \in DOMAIN bind : bind[t] = id}
                      /\ UNCHANGED <<sent, retd, snap, fired, bind, used, delivered, completed>>

\* The consumer registered with tag is invoked: at most once, with a response the client
\* really sent for the id of that very message (each response instance is consumed at
\* most once, so duplicates and unknown ids can deliver nothing).
Deliver(tag, ok, body) ==
    /\ tag \in sent
    /\ tag \notin delivered
    /\ \E i \in (1..Len(resps)) \ used :
          /\ resps[i].ok = ok
          /\ (IF ok THEN resps[i].body = body ELSE body = <<>>)
          /\ CanBind(tag, resps[i].id)
          /\ bind' = Put(bind, tag, resps[i].id)
          /\ used' = used \cup {i}
    /\ delivered' = delivered \cup {tag}
    /\ UNCHANGED <<sent, retd, snap, fired, resps, owed, completed>>

DeliverRet(tag) == /\ tag \in delivered
                   /\ snap' = retd
                   /\ UNCHANGED <<sent, retd, fired, bind, resps, used, delivered, owed, completed>>

\* Login completion: exactly once, after the pre-login event, and no message whose Send
\* had returned by the decision point is still unanswered.
Complete == /\ completed = 0
            /\ fired
            /\ snap \subseteq delivered
            /\ completed' = 1
            /\ UNCHANGED <<sent, retd, snap, fired, bind, resps, used, delivered, owed>>

\* Quiescence.  settled: the connection is still alive and every response was processed;
\* then every message the client answered after receiving it reached its consumer, and a
\* login whose messages were all answered has completed.
End(settled) == /\ completed <= 1
                /\ settled => owed \subseteq delivered
                /\ (settled /\ fired /\ sent \subseteq delivered) => completed = 1
                /\ UNCHANGED hvars
=============================================================================
