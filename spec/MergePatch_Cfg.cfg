SPECIFICATION CSpec
CONSTANTS
  Keys = {"a", "b"}
  LeafSel = "std"
  Export = FALSE
INVARIANT EmitAll
