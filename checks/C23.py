"""C23 -- the command tree sent to a player only shows proxy commands it may use.

1. TLC checks the reference operator Merge of CommandTree.tla (trees as TLA+ records, Filter at
   every depth and through redirects, same-name replacement) against the statement's invariants
   over every case of a small universe; a shallow-filter variant must violate them.
2. TLC exports cases (proxy tree x backend tree x permission set): random deep ones, and in
   thorough every case of the small universe.
3. The Go harness registers the proxy tree (brigodier nodes with permission requirements and
   redirects) on the real command manager, feeds the backend tree as an AvailableCommands packet
   through the real backendPlaySessionHandler, and decodes the packet written to the player's
   connection with its own decoder of the Commands wire format.
4. TLC re-evaluates Merge on every recorded case and compares it with the received tree.
"""
import json
import random
import vlib

META = {
    "category": "model_checking",
    "text": "CommandTree.tla models command trees as TLA+ records and defines Merge(backend, proxy, perms): proxy "
            "nodes the player passes, filtered at every depth and through redirects, replace backend nodes of the "
            "same name, all other backend nodes are kept. TLC checks Merge against the statement (every received "
            "proxy node passes along its whole path, every usable one is shown, replacement, backend kept, nothing "
            "else) exhaustively over a small universe and shows a shallow filter violates it; exported cases (random "
            "three-level proxy trees with redirects x backend trees x permission sets) are registered on the real "
            "command manager and pushed through the real backend play session handler; the packet the player "
            "connection wrote is decoded by the harness's own Commands decoder and TLC compares it with Merge.",
    "design_ref": "DESIGN.md section 4, C23",
    "level_note": "Every case is fed twice through the same backend session handler with the player's permissions "
                  "changed in between (revoked / granted); each answer is judged against Merge with the permissions "
                  "held at that moment. Equality with Merge also demands that usable proxy nodes are shown and redirects to usable targets "
                  "kept ('merges its commands'); a redirect whose target the player may not use must lead nowhere. "
                  "Backend trees contain aliases that redirect to another backend root command (vanilla /tp -> "
                  "/teleport): an untouched alias must still lead to the backend's target subtree, also when a proxy "
                  "command replaced that target at the top level. Proxy redirects go to other top-level proxy commands "
                  "(alias style), to the dispatcher root or to "
                  "the parent command (cyclic; the received graph is followed up to the cycle). Origin of a top-level node is told by the executable flag "
                  "(proxy nodes executable, backend nodes not). The restricted flag (0x20) that the proxy sets on "
                  "its nodes is recorded but not judged. AnnounceProxyCommands is on (the default).",
    "technique": "TLA+ reference operator over tree-valued records, TLC exhaustive self-check + case export, replay on "
                 "real code, independent wire decoding, TLC trace validation",
}


def run(ctx):
    r = ctx.tlc("CommandTree", ctx.pick("CommandTree_quick.cfg", "CommandTree.cfg"), timeout=1500)
    ctx.log("CommandTree.tla: Merge satisfies the statement on %d cases of the small universe" % r.distinct)
    r2 = ctx.tlc("CommandTree", "CommandTree_shallow.cfg", allow_violation=True, count=False)
    if not r2.violated:
        raise vlib.ToolError("shallow filter variant violates nothing: invariants vacuous")
    ctx.log("CommandTree.tla (shallow filter): violates %s (non-vacuity ok)" % r2.violated)
    r3 = ctx.tlc("CommandTree", "CommandTree_random.cfg", workers=1, simulate=ctx.pick(250, 6000), depth=4,
                 count=False, timeout=1500)
    cases = r3.printed_json("CASE")
    for c in cases:
        c["origin"] = "random"
    if not ctx.quick:
        r4 = ctx.tlc("CommandTree", "CommandTree_export.cfg", workers=1, count=False, timeout=1800)
        ex = r4.printed_json("CASE")
        for c in ex:
            c["origin"] = "small"
        random.Random(ctx.seed).shuffle(ex)
        cases += ex[:20000]
    # cyclic redirects first, each in its own process (a runaway recursion ends the process)
    import os
    probe, cyc_ok = [], True
    for mode in ("root", "parent"):
        pr = ctx.harness("./c23", "TestRedirectCycle", env={"VERIF_CYCLE": mode}, check=False, timeout=600)
        if not os.path.exists(ctx.path("cycle_%s_begin.ndjson" % mode)):
            raise vlib.ToolError("cycle probe did not start:\n" + "\n".join(pr.stdout.splitlines()[-30:]))
        probe += vlib.read_ndjson(ctx.path("cycle_%s_begin.ndjson" % mode))
        if os.path.exists(ctx.path("cycle_%s_end.ndjson" % mode)):
            probe += vlib.read_ndjson(ctx.path("cycle_%s_end.ndjson" % mode))
        else:
            cyc_ok = False
            probe.append({"ev": "crashed", "mode": mode, "rc": pr.returncode,
                          "stack_overflow": "stack overflow" in pr.stdout})
    if not cyc_ok:     # the merge would take the whole harness down: leave those cases out
        cases = [c for c in cases if "<root>" not in json.dumps(c) and "<up>" not in json.dumps(c)]
    n_cyc = sum(1 for c in cases if "<root>" in json.dumps(c) or "<up>" in json.dumps(c))
    ctx.log("cases: %d (%d with a redirect to the root / parent)" % (len(cases), n_cyc))
    with open(ctx.path("cases.json"), "w") as fh:
        json.dump(cases, fh)
    ctx.harness("./c23", "TestMerge", timeout=1500)
    st = json.load(open(ctx.path("stats.json")))
    recs = probe + vlib.read_ndjson(ctx.path("trace.ndjson"))
    p = ctx.path("all.ndjson")
    vlib.write_ndjson(p, recs)
    tries, matched_total, n_ok = 0, 0, 0
    while recs and tries < 12:
        ok, matched, total, res = ctx.validate_trace("CommandTree_Trace", p, n_traces=0, timeout=1500)
        ctx.states += res.distinct
        matched_total += matched
        if ok:
            break
        bad = recs[matched]
        ctx.finding(classify(bad), "player received a command tree different from Merge: %s"
                    % json.dumps({k: bad.get(k) for k in ("ev", "perms", "proxy", "backend", "got", "pid", "proto")})[:1500],
                    bad)
        recs = recs[matched + 1:]
        tries += 1
        p = ctx.path("rest%d.ndjson" % tries)
        vlib.write_ndjson(p, recs)
    ctx.traces_validated += matched_total
    if not ctx.findings and (not st["cases_with_filtered_nodes"] or not st["cases_with_replacement"]
                             or not st["cases_with_redirect"]):
        raise vlib.ToolError("vacuous: %s" % st)
    cov = {
        "samples": st["samples"][:1] or cases[:1],
        "evaluations": st["cases"],
        "distinct_nontrivial": len({json.dumps(c, sort_keys=True) for c in cases
                                    if c["proxy"] and c["backend"]}),
        "rule": "case = (proxy tree, backend tree, permission set); non-trivial = both trees non-empty",
        "cases_with_filtered_nodes": st["cases_with_filtered_nodes"],
        "cases_with_same_name_collision": st["cases_with_replacement"],
        "cases_with_redirect": st["cases_with_redirect"],
        "cases_with_cyclic_redirect": n_cyc,
        "no_packet": st["no_packet"],
        "restricted_flag_nodes_seen": st["restricted_flag_nodes"],
        "trace_events_validated": matched_total,
        "exhaustive": False,
    }
    return ctx.finish("model_checking", cov, [
        "node kind is a function of the name; arguments use brigadier:bool only",
        "the backend packet enters as a decoded packet through backendPlaySessionHandler.HandlePacket",
    ])


def classify(bad):
    if bad.get("ev") in ("crashed", "returned"):
        return "redirect-cycle:%s:%s" % (bad.get("mode"), "stack-overflow" if bad.get("stack_overflow") else bad["ev"])
    if bad.get("ev") != "merge":
        return str(bad.get("ev"))
    held = set(bad["perms"])

    def names(ns, out, path=""):
        for n in ns:
            out.add(path + "/" + n["name"])
            names(n.get("ch", []), out, path + "/" + n["name"])
            for t in n.get("rt", []):
                out.add(path + "/" + n["name"] + "->" + t["name"])
                names(t.get("ch", []), out, path + "/" + n["name"] + "->" + t["name"])
        return out

    def usable(ns, out, path=""):
        for n in ns:
            if n["req"] and n["req"] not in held:
                continue
            out.add(path + "/" + n["name"])
            usable(n["ch"], out, path + "/" + n["name"])
        return out
    got = names(bad["got"], set())
    proxy_all = names(bad["proxy"], set())
    proxy_ok = usable(bad["proxy"], set())
    shown_unusable = sorted(p for p in got if "->" not in p and p in proxy_all and p not in proxy_ok
                            and p.count("/") > 1)
    for g in bad["got"]:
        if g["exec"] and "/" + g["name"] in proxy_all and "/" + g["name"] not in proxy_ok:
            return "unusable-proxy-node-shown:depth1"
    if shown_unusable:
        return "unusable-proxy-node-shown:depth%d" % shown_unusable[0].count("/")
    missing = sorted(p for p in proxy_ok if p not in got)
    if missing:
        return "usable-proxy-node-missing:depth%d" % missing[0].count("/")
    if any("->" in p for p in got) or any(n.get("rd") for n in bad["proxy"]):
        return "redirect-differs"
    return "tree-differs"
