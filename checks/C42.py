"""C42 -- futures complete once and run every callback exactly once.

1. TLC model-checks the code-shaped Future.tla (mutex respected): invariants hold.
2. TLC on the lock-agnostic variant must find a violation (non-vacuity), and exports
   every gate-point interleaving (2 threads exhaustive; 3 threads exhaustive in
   thorough, sampled in quick) as schedules.
3. The Go harness forces each schedule on the real future package through the
   verifhook gates and records the observable history (call/ran/ret).
4. TLC validates the concatenated history against the abstract FutureHist spec.
"""
import json
import random
import vlib

META = {
    "category": "model_checking",
    "text": "TLC model-checks a code-shaped model of the future (mutex respected) against the property "
            "invariants, then enumerates every gate-point interleaving of the lock-agnostic variant; each "
            "interleaving is forced on the real code through verif-tagged gate points and the observable "
            "history (call / callback-ran / return) is validated by TLC against the abstract FutureHist "
            "spec. Schedules are the quantifier of this property, so schedule enumeration + trace "
            "validation is the right level.",
    "design_ref": "DESIGN.md section 4, C42",
    "level_note": "Trusted: the gate hooks only delay goroutines; the harness's call/ran/ret events are emitted "
                  "before the call, inside the callback and after the return. 3-thread schedules are sampled in "
                  "quick and exhaustive (then shuffled, first 6000) in thorough; ThenCompose chains use random "
                  "gate schedules (half of them with the holder completing the composed future directly) and "
                  "every sequential order of 7 calls on a two-link chain (sampled in quick).",
    "technique": "TLA+ spec + TLC schedule enumeration, forced replay on real code, TLC trace validation",
}


def run(ctx):
    r = ctx.tlc("Future")
    mc_states = r.distinct
    ctx.log("Future.tla (locked): %d distinct states, invariants hold" % r.distinct)
    r = ctx.tlc("Future", "Future_unlocked.cfg", allow_violation=True, count=False)
    if not r.violated:
        raise vlib.ToolError("lock-agnostic Future model finds no violation: invariants vacuous")
    ctx.log("Future.tla (lock ignored): violates %s (non-vacuity ok)" % r.violated)

    scheds = ctx.tlc("Future", "Future_sched2.cfg", workers=1, count=False).printed_json("SCHED")
    n2 = len(scheds)
    if ctx.quick:
        s3 = ctx.tlc("Future", "Future_sched3.cfg", workers=1, count=False, simulate=400,
                     depth=12).printed_json("SCHED")
    else:
        s3 = ctx.tlc("Future", "Future_sched3.cfg", workers=1, count=False,
                     timeout=1800).printed_json("SCHED")
        rnd = random.Random(ctx.seed)
        rnd.shuffle(s3)
        s3 = s3[:6000]
    scheds += s3
    ctx.log("schedules: %d two-thread (exhaustive) + %d three-thread" % (n2, len(s3)))
    with open(ctx.path("sched.json"), "w") as fh:
        json.dump(scheds, fh)

    ctx.harness("./c42", "TestSchedules", race=not ctx.quick,
                env={"VERIF_COMPOSE": ctx.pick(150, 1500), "VERIF_STRESS": ctx.pick(200, 3000),
                     "VERIF_SEQ": ctx.pick(400, 5040)})
    stats = json.load(open(ctx.path("stats.json")))
    need = ["fut.accept.locked", "fut.accept.pending", "fut.complete.locked",
            "fut.complete.first", "fut.complete.run"]
    missing = [g for g in need if not stats["gate_arrivals"].get(g)]
    if missing:
        raise vlib.ToolError("hook_missing: gates never reached: %s" % missing)

    runs = stats["schedules"] + stats["compose_runs"] + stats["stress_runs"]
    recs = vlib.read_ndjson(ctx.path("trace.ndjson"))
    total = len(recs)
    rejected, matched, tstates = ctx.validate_runs("FutureHist_Trace", recs)
    for rj in rejected:
        bad = rj["bad"] or {}
        kind = "hung-call" if bad.get("ev") == "hung" else "history-rejected:" + str(bad.get("ev"))
        ctx.finding(kind, "history of the real future package is not a behaviour of FutureHist "
                    "(first unexplained event: %s)" % json.dumps(bad), rj)
    cov = {
        "states": mc_states + tstates,
        "samples": stats["samples"][:2] + [{"trace_events": total, "runs": runs}],
        "evaluations": runs,
        "distinct_nontrivial": len({json.dumps(s, sort_keys=True) for s in scheds}),
        "rule": "schedule = (program, interleaving of gate points) exported by TLC from the "
                "lock-agnostic Future model; distinct = distinct (prog, sched) pairs; all involve >=2 threads",
        "schedules_forced": stats["schedules"],
        "blocked_steps": stats["blocked_steps"],
        "compose_runs": stats["compose_runs"],
        "stress_runs": stats["stress_runs"],
        "trace_events_validated": matched,
        "race_detector": not ctx.quick,
        "exhaustive": False,
    }
    return ctx.finish("model_checking", cov, [
        "gates only delay threads; a forced failure is a real execution",
        "callbacks are identified by the registering thread; values are small positive ints",
    ])
