"""C07 -- packets the proxy builds decode as intended by an independent vanilla decoder.

1. Packets.tla: TLC enumerates the shape classes (packet x protocol x field shapes: lengths on
   both sides of every prefix boundary, optionals present/absent, every subset of player-info
   actions in three supply orders, 0/1/2 entries) and checks FloorDiv / the fixed-bit-set length
   against their defining property.
2. The harness builds the real packet structs with concrete values of every shape, encodes them
   with the real Packet.Encode under a PacketContext of that protocol and logs values + bytes;
   it tabulates mathutil.FloorDiv.
3. Packets_Trace.tla (TLC): Matches(Fields(pkt, v, values), bytes) for every line: every field
   byte for byte in the vanilla wire layout written on Wire.tla, NBT text components decoded by
   the spec's own NBT reader and compared with the component meant; RoundTrip (decoding the layout with Wire's
   decoders) validates the spec itself on the same lines.
"""
import json
import vlib

META = {
    "category": "model_checking",
    "text": "For TLC-enumerated shape classes of every packet the proxy builds itself (handshake, login start, login "
            "success, encryption request/response, set compression, login plugin message/response, plugin message, "
            "disconnect, keep-alive, status request/response/ping, player-info upsert/remove, transfer) on both sides "
            "of every version switch of the vanilla format, the bytes written by the real Packet.Encode are compared by "
            "TLC with Layout(packet, protocol, values), the vanilla wire layout specified on the byte-level operators "
            "of Wire.tla; player-info updates must carry each entry's action data in the protocol's fixed order for "
            "every action subset and supply order. mathutil.FloorDiv is tabulated against its defining property.",
    "design_ref": "DESIGN.md section 4, C07",
    "level_note": "A sample of packet objects of every kind (all plugin channel classes) is additionally encoded "
                  "for every protocol of its shape in sequence, newest first, with the same object. Field values are sampled per shape class (seeded), not all values. JSON chat components (before "
                  "1.20.3 and in the login state) are opaque: the harness supplies the JSON text and the layout only "
                  "fixes its framing. NBT components (1.20.3+: disconnect in play/config, player-info display names) are "
                  "built by the proxy from a text component with 0 or 2 children and are decoded by an NBT reader written "
                  "in TLA+; the decoded tag must mean the component (text / extra as STRING tags with exactly the texts, "
                  "no other keys) for 24 text classes incl. number-, boolean- and version-looking texts; styled "
                  "components are not exercised. Signed profile keys use a real RSA key "
                  "from the Go standard library with a random signature. The login success layout is not claimed for "
                  "protocol 776 (26.2, no independent source for its session-id field). Player-info action sets are "
                  "restricted to the actions that exist in the protocol (6 before 1.21.2, 7 before 1.21.4, 8 since). "
                  "1.13 channel rewriting follows the reference rule (lower case, keep [a-z0-9_-]). 1.7 plugin message "
                  "payloads are exercised up to 100000 bytes (extended short), not up to the 2 MiB Forge limit.",
    "technique": "TLA+ layout operators on shared byte-level wire operators, TLC enumeration of shape classes, TLC "
                 "trace validation of the bytes produced by the real encoders",
}

SKIP = {("loginsuccess", 776)}


def run(ctx):
    if ctx.replay:
        # the check is deterministic for a (tier, seed): a replay is the full run under the recorded ones
        d = json.load(open(ctx.replay))
        ctx.seed, ctx.tier = int(d.get("seed", ctx.seed)), d.get("tier", ctx.tier)
    r = ctx.tlc("Packets", ctx.pick("Packets_quick.cfg", "Packets.cfg"), timeout=900)
    shapes = [s for s in r.printed_json("SHAPE") if (s["pkt"], s["v"]) not in SKIP]
    if len(shapes) < 1000:
        raise vlib.ToolError("shape export too small: %d" % len(shapes))
    ctx.log("Packets.tla: %d shape classes, FloorDiv / bit set length property holds" % r.distinct)
    vlib.write_ndjson(ctx.path("shapes.ndjson"), shapes)

    ctx.harness("./c07", "TestEncode", timeout=900)
    st = json.load(open(ctx.path("stats.json")))
    if st["reused_encodes"] < 100:
        raise vlib.ToolError("reuse phase too small: %d" % st["reused_encodes"])
    if st["packets"] != len(shapes):
        raise vlib.ToolError("harness encoded %d of %d shapes" % (st["packets"], len(shapes)))
    lines = vlib.read_ndjson(ctx.path("trace.ndjson"))

    ok, matched, total, res = ctx.validate_trace("Packets_Trace", ctx.path("trace.ndjson"), n_traces=0, timeout=1500)
    nbad, nspec = res.printed("NBAD"), res.printed("NSPECBAD")
    if not nbad or not nspec:
        raise vlib.ToolError("trace spec did not report its judgement:\n" + res.tail(40))
    if int(res.printed("MATCHED")[-1]) != len(lines):
        k = int(res.printed("MATCHED")[-1])
        raise vlib.ToolError("trace line %d not consumable by the trace spec: %s" % (k + 1, str(lines[k])[:300]))
    if int(nspec[-1]) != 0:
        k = int(res.printed("SPECBAD")[0])
        raise vlib.ToolError("Packets.tla contradicts Wire.tla (RoundTrip) on line %d: %s" % (k, str(lines[k - 1])[:300]))
    bad_idx = sorted(set(int(x) for x in res.printed("BAD")))
    if len(bad_idx) != int(nbad[-1]) or ok != (not bad_idx):
        raise vlib.ToolError("inconsistent trace verdict:\n" + res.tail(40))
    for i in bad_idx:
        report(ctx, lines[i - 1])
    if ok:
        ctx.traces_validated += 1

    nontrivial = sum(1 for x in lines if x["ev"] == "pkt" and nontriv(x)) + st["overlap_frames"]
    cov = {
        "samples": st["samples"],
        "evaluations": len(lines),
        "packets_encoded": st["packets"],
        "per_packet": st["per_packet"],
        "floordiv_cells": st["floordiv"],
        "frames_of_overlapping_sends_judged": st["overlap_frames"],
        "encodes_of_a_reused_packet_object": st["reused_encodes"],
        "protocols": sorted(set(x["v"] for x in lines if x["ev"] == "pkt")),
        "distinct_nontrivial": nontrivial,
        "rule": "a case is non-trivial when the layout depends on the protocol or on an optional/ordering decision: "
                "player-info updates with at least two actions supplied out of order, optionals present, lengths at or "
                "above a prefix boundary (>= 128), 1.7 array framing, channel rewriting",
        "cells_dropped_uncertain": ["loginsuccess@776 (26.2 session id)"],
        "exhaustive": False,
    }
    return ctx.finish("model_checking", cov, [
        "shape classes are exhaustive over the enumerated parameters; values inside a class are sampled with VERIF_SEED",
        "JSON component bodies, RSA keys and signatures are opaque byte strings to the spec",
    ])


def nontriv(x):
    p, pkt = x["shape"], x["pkt"]
    if pkt == "upsert":
        a = x["f"]["acts"]
        return len(a) >= 2 and a != sorted(a)
    if pkt in ("loginstart", "encresp"):
        return p[1] == 1 or p[2] == 1
    if pkt == "plugin":
        return x["v"] < 47 or (x["v"] >= 393 and p[0] not in (4, 6)) or p[1] >= 128
    if pkt in ("keepalive", "loginsuccess", "encreq", "disconnect"):
        return True
    return max(p) >= 128 or min(p) < 0


def report(ctx, bad):
    if bad["ev"] == "floordiv":
        a, b = bad["a"], bad["b"]
        cls = "zero" if a == 0 else ("exact" if a % b == 0 else "inexact")
        sign = "same-sign" if (a > 0) == (b > 0) and a != 0 else ("zero" if a == 0 else "opposite-sign")
        ctx.finding("floordiv:%s:%s" % (cls, sign), "mathutil.FloorDiv(%d, %d) = %d" % (a, b, bad["q"]), bad)
        return
    pkt, v, p = bad["pkt"], bad["v"], bad["shape"]
    if bad["ev"] == "frame":
        ctx.finding("frame:%s:overlapping-sends%s" % (pkt, ":compressed" if bad["thr"] >= 0 else ""),
                    "%s sent through Encoder.WritePacket to connection %s while another connection was sent one in the "
                    "middle of the send (after a compressed %s on a third connection): the connection did not receive "
                    "the one frame meant for it (%s)" % (pkt, bad["conn"], pkt, bad["err"] or "wrong payload"), slim(bad))
        return
    if bad["err"]:
        ctx.finding("%s:encode-error@%s" % (pkt, vclass(pkt, v)), "%s for protocol %d: Encode failed: %s (shape %s)"
                    % (pkt, v, bad["err"], p), slim(bad))
        return
    detail = ""
    if pkt == "upsert":
        a = bad["f"]["acts"]
        order = "in-order" if a == sorted(a) and len(set(a)) == len(a) else ("duplicate" if len(set(a)) != len(a) else "out-of-order")
        detail = ":" + order
        if bad["f"]["entries"] == []:
            detail += ":noentries"
    elif pkt == "plugin":
        detail = ":chan%d:%s" % (p[0], "ext" if p[1] > 32767 else "short")
    elif pkt in ("loginstart", "encresp", "encreq", "loginsuccess"):
        detail = ":" + "-".join(str(x) for x in p[:4])
    if pkt == "disconnect":
        detail = ":" + bad["f"]["st"]
        if "comp" in bad["f"]:
            detail += ":nbt-text:" + textkind(bad["f"]["comp"])
    if pkt == "upsert" and v >= 765:
        kinds = sorted(set(textkind(e["dnc"]) for e in bad["f"]["entries"] if "dnc" in e))
        if kinds and kinds != ["plain"]:
            detail += ":displayname:" + "+".join(kinds)
    if bad.get("reuse", 0) > 1:
        detail += ":reused-object"
    ctx.finding("%s@%s%s" % (pkt, vclass(pkt, v), detail),
                "%s for protocol %d (shape %s): the bytes written are not the vanilla layout of the values meant"
                % (pkt, v, p), slim(bad))


# version switches of each packet's layout (finding keys name the layout class, not the protocol)
def textkind(comp):
    """class of the texts in a meant component (for finding keys only)"""
    import re
    ts = [bytes(comp["text"]).decode()] + [bytes(c["text"]).decode() for c in comp["extra"]]
    kinds = set()
    for t in ts:
        if t == "":
            kinds.add("empty")
        elif t in ("true", "false", "null"):
            kinds.add("keyword-like")
        elif re.fullmatch(r"[+-]?(\d+\.?\d*|\.\d+)([eE][+-]?\d*)?[bBsSlLfFdD]?|0x[0-9a-fA-F]+", t):
            kinds.add("number-like")
        elif re.fullmatch(r"[a-zA-Z0-9_.+-]+", t):
            kinds.add("bare-token")
        else:
            kinds.add("plain")
    for k in ("number-like", "keyword-like", "empty", "bare-token", "plain"):
        if k in kinds:
            return k
    return "plain"


BOUNDS = {
    "loginstart": [759, 760, 761, 764], "loginsuccess": [5, 735, 759, 766, 768, 776], "encreq": [47, 766],
    "encresp": [47, 759, 761], "plugin": [47, 393], "disconnect": [765], "keepalive": [47, 340],
    "upsert": [765, 768, 769],
}


def vclass(pkt, v):
    lo = max([b for b in BOUNDS.get(pkt, []) if b <= v] or [4])
    return "v%d+" % lo


def slim(bad):
    s = json.dumps(bad)
    if len(s) > 20000:
        b = dict(bad)
        b["bytes"] = bad["bytes"][:64] + ["...%d bytes" % len(bad["bytes"])]
        b["f"] = "omitted (large); shape and seed reproduce it"
        return b
    return bad
