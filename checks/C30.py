"""C30 -- Lite backend selection: each distinct backend once per attempt, strategy order,
exhaustion before failure; active-connection counts.

1. TLC checks the reference rules (AttemptOK) on every behaviour of the code-shaped
   attempt loop of LiteBalance.tla over all small backend lists (duplicates, host
   spellings, default port, an unparsable port), up-sets and strategies; the variant that
   drops only the first entry naming the tried backend must violate them (non-vacuity).
2. TLC exports the scenarios; the harness runs each through the real lite.Forward
   (real proxy on TCP loopback; harness listeners = backends that accept, closed ports =
   backends that fail), recording the addresses the code tried (lb.try events) and the
   outcome, interleaved with closes and ActiveConnections() reads; plus concurrent
   batches of connections.
3. TLC model-checks LiteCount.tla (TrackConnection / untrack split at their gate points,
   a concurrent reader) and exports every interleaving of two workers and a reader; the
   harness forces them on the real StrategyManager. A free-running API stress (all
   strategies, -race in thorough) completes the concurrent part.
4. TLC validates every recorded run against LiteBalance_Trace.
"""
import json
import random
import re
import vlib

META = {
    "category": "model_checking",
    "text": "TLC checks the per-attempt rules (each distinct backend at most once, strategy order, failure only "
            "after exhaustion) on a code-shaped attempt loop over all small backend lists and exports the scenarios; "
            "the harness runs them through the real lite.Forward against counting listeners / closed ports, "
            "recording the tried addresses, outcomes and ActiveConnections(); TLC-enumerated interleavings of "
            "concurrent TrackConnection calls and a reader are forced on the real StrategyManager through gate "
            "points; TLC validates all recorded runs against the reference rules and the counting rule.",
    "design_ref": "DESIGN.md section 4, C30",
    "level_note": "Distinct backend = lower-cased host + port (25565 when absent); DNS aliases are different "
                  "backends. Round-robin rotation is required only between consecutive (non-concurrent) attempts "
                  "after a single-pick attempt on a duplicate-free list; least-connections / lowest-latency order "
                  "only for lists without two spellings of one backend (the statement does not say how spellings "
                  "share counters); random has no order. Counts are checked at quiescent points end to end and with "
                  "interval bounds under forced interleavings. Latency 0 is never recorded.",
    "technique": "TLA+ reference rules + code-shaped loop, TLC scenario/schedule export, forced replay on real "
                 "code, TLC trace validation; Go race detector in thorough",
}

GATES = ["lb.track.mid", "lb.untrack.mid", "lb.untrack.zero", "c30.hold"]


def s(cps):
    return "".join(chr(c) for c in cps)


def canon(b):
    b = b.lower()
    return b if ":" in b else b + ":25565"


def open_during_zero_window(h):
    """worker v's close reaches zero (3rd step), worker w opens (2nd step) before v removes the counter
    (4th step), and the reader chooses after that and before w closes (sampling aid only)"""
    pos = {}
    for i, t in enumerate(h):
        pos.setdefault(t, []).append(i)
    ws = [t for t in pos if t != "o"]
    for v in ws:
        for w in ws:
            if v == w or len(pos[v]) < 4 or len(pos[w]) < 3:
                continue
            if pos[v][2] < pos[w][1] < pos[v][3] and any(pos[v][3] < o < pos[w][2] for o in pos.get("o", [])):
                return True
    return False


def classify(run, bad):
    ev = bad.get("ev")
    kind = run[0].get("kind", "scenario")
    if ev == "attempt":
        tries = [s(t) for t in bad["tries"]]
        if bad["result"] == "runaway":
            dead = [t for t in tries if not re.match(r"^[^:]*(:\d+)?$", t)]
            return "attempt:never-ends" + (":unparsable-backend" if dead else "")
        if run[0].get("strategy") == "round-robin" and bad["result"] == "open" and len(set(canon(t) for t in tries)) == len(tries):
            sel = [canon(s(r["tries"][-1])) for r in run if r.get("ev") in ("attempt", "abort") and r.get("tries")
                   and r.get("seq", 0) <= bad.get("seq", 0) and (r["ev"] == "abort" or r.get("result") == "open")]
            ups = {s(u) for u in run[0].get("up", [])} & {canon(s(b)) for b in run[0].get("list", [])}
            if len(sel) >= 6 and ups - set(sel[-6:]):
                return "attempt:round-robin:accepting-backend-starved"
        cs = [canon(t) for t in tries]
        if len(set(cs)) < len(cs):
            if len(set(tries)) < len(tries):
                return "attempt:same-backend-twice:exact-duplicate"
            return "attempt:same-backend-twice:spelling-or-default-port"
        ups = {s(u) for u in run[0].get("up", [])}
        if bad["result"] == "closed" and any(":" not in s(b) and canon(s(b)) in ups for b in run[0].get("list", [])):
            return "attempt:portless-backend-not-dialled"
        return "attempt:%s:%s" % (run[0].get("strategy") or "default", bad["result"])
    if ev == "count":
        prev = [r for r in run if r.get("seq", 0) < bad.get("seq", 0) and r.get("ev") in ("attempt", "abort", "close", "opened")]
        if prev and prev[-1]["ev"] == "abort":
            return kind + ":count-after-backend-reset"
        return kind + ":count"
    if ev == "obs":
        return kind + ":count-read"
    if ev == "pick":
        return "least-connections:open-connection-not-counted"
    if ev == "lost":
        return kind + ":connection-not-forwarded"
    return kind + ":" + str(ev)


def run(ctx):
    r = ctx.tlc("LiteBalance", ctx.pick("LiteBalance_q.cfg", "LiteBalance.cfg"), timeout=1500)
    mc = r.distinct
    ctx.log("LiteBalance.tla: %d states, AttemptOK holds on every behaviour of the attempt loop" % r.distinct)
    nv = ctx.tlc("LiteBalance", "LiteBalance_dropfirst.cfg", allow_violation=True, count=False)
    if nv.violated not in ("LoopOK", "TriesOnce"):
        raise vlib.ToolError("drop-first variant does not violate the rules (%s)" % nv.violated)
    ctx.log("drop-first variant violates %s (non-vacuity ok)" % nv.violated)
    r = ctx.tlc("LiteRR")
    mc += r.distinct
    if not ctx.quick:   # the non-vacuity variants of the two small models run in thorough only (JVM starts)
        nv = ctx.tlc("LiteRR", "LiteRR_wrap.cfg", allow_violation=True, count=False)
        if nv.violated != "RRFair":
            raise vlib.ToolError("round-robin index wrapped by the shrunken list does not violate RRFair (%s)" % nv.violated)
    ctx.log("LiteRR.tla: %d states, no accepting backend starved by the rotation%s"
            % (r.distinct, "" if ctx.quick else "; wrapped-index variant violates RRFair (non-vacuity ok)"))
    r = ctx.tlc("LiteLeast")
    mc += r.distinct
    if not ctx.quick:
        nv = ctx.tlc("LiteLeast", "LiteLeast_nolock.cfg", allow_violation=True, count=False)
        if nv.violated != "PickOK":
            raise vlib.ToolError("LiteLeast without the counters' mutex does not violate PickOK (%s)" % nv.violated)
    ctx.log("LiteLeast.tla: %d states, least-connections never prefers a backend with an open connection to an "
            "idle one%s" % (r.distinct, "" if ctx.quick else "; mutex-less variant violates PickOK (non-vacuity ok)"))
    r = ctx.tlc("LiteCount")
    mc += r.distinct
    ctx.log("LiteCount.tla: %d states, reads within bounds, zero at the end" % r.distinct)

    if ctx.quick:
        scens = ctx.tlc("LiteBalance", "LiteBalance_scen.cfg", workers=1, count=False, simulate=170,
                        depth=6).printed_json("SCEN")
    else:
        scens = ctx.tlc("LiteBalance", "LiteBalance_scen.cfg", workers=1, count=False,
                        timeout=1800).printed_json("SCEN")
        rnd = random.Random(ctx.seed)
        rnd.shuffle(scens)
        scens = scens[:3000]
    with open(ctx.path("scen.json"), "w") as fh:
        json.dump(scens, fh)
    cs = ctx.tlc("LiteCount", "LiteCount_sched.cfg", workers=1, count=False).printed_json("SCHED")
    ncs = len(cs)
    rnd = random.Random(ctx.seed)
    rnd.shuffle(cs)
    cs = cs[:ctx.pick(100, ncs)]
    with open(ctx.path("countsched.json"), "w") as fh:
        json.dump(cs, fh)
    ls = ctx.tlc("LiteLeast", "LiteLeast_sched.cfg", workers=1, count=False).printed_json("SCHED")
    nls = len(ls)
    rnd = random.Random(ctx.seed)
    rnd.shuffle(ls)
    hot = [x for x in ls if open_during_zero_window(x)]
    cold = [x for x in ls if not open_during_zero_window(x)]
    ls = hot[:ctx.pick(25, 600)] + cold[:ctx.pick(55, 1400)]
    with open(ctx.path("leastsched.json"), "w") as fh:
        json.dump(ls, fh)
    ctx.log("scenarios: %d; count schedules: %d of %d; least-connections schedules: %d of %d (%d with an open "
            "inside a close's zero window)" % (len(scens), len(cs), ncs, len(ls), nls, len(hot)))

    p = ctx.harness("./c30", "TestBalance", race=not ctx.quick, timeout=2400, check=False,
                    env={"VERIF_BATCH": ctx.pick(6, 40), "VERIF_STRESS": ctx.pick(30, 300)})
    out = p.stdout
    races = []
    if p.returncode != 0:
        if "DATA RACE" not in out:
            raise vlib.ToolError("harness failed (rc=%d):\n%s" % (p.returncode, "\n".join(out.splitlines()[-60:])))
        for blk in out.split("WARNING: DATA RACE")[1:]:
            fn = re.search(r"lite\.\(\*StrategyManager\)\.(\w+)", blk)
            rd = re.search(r"(math/rand\.\(\*\w+\)\.\w+)", blk)
            races.append((fn.group(1) if fn else "unknown", rd.group(1) if rd else "", blk[:1500]))
    for fn, what, blk in races:
        ctx.finding("race:" + fn, "Go race detector: unsynchronised access in StrategyManager.%s (%s) under "
                    "concurrent use of the public API" % (fn, what), {"report": blk})
    st = json.load(open(ctx.path("stats.json")))
    missing = [g for g in GATES if not st["gate_arrivals"].get(g)]
    if missing:
        raise vlib.ToolError("hook_missing: gates never reached: %s" % missing)
    if not st["backend_reset_after_accept"]:
        raise vlib.ToolError("fault 'backend resets after accepting' never injected: %s" % st)
    if not st["attempts_with_retries"] or not st["attempts_all_failed"]:
        raise vlib.ToolError("scenarios never exercised retries / exhaustion: %s" % st)

    recs = vlib.read_ndjson(ctx.path("trace.ndjson"))
    rejected, matched, tstates = ctx.validate_runs("LiteBalance_Trace", recs, timeout=1500, max_rejects=25)
    for rj in rejected:
        bad = rj["bad"] or {}
        r0 = rj["run"][0]
        desc = "run (strategy %r, backends %r, accepting %r): first unexplained event %s" % (
            r0.get("strategy"), [s(x) for x in r0.get("list", [])], [s(x) for x in r0.get("up", [])],
            json.dumps({k: ([s(t) for t in v] if k == "tries" else v) for k, v in bad.items()}))
        ctx.finding(classify(rj["run"], bad), desc, rj)
    cov = {
        "states": mc + tstates,
        "samples": st["samples"][:2] + [{"trace_events": len(recs)}],
        "evaluations": st["attempts"] + st["concurrent_connections"] + st["count_schedules"] + st["least_schedules"]
                       + st["api_stress_runs"],
        "distinct_nontrivial": st["attempts_with_retries"],
        "rule": "connection attempts in which the code tried more than one backend (counted from lb.try events)",
        "scenarios": st["scenarios"],
        "scenarios_skipped_port_25565_busy": st["skipped_scenarios"],
        "attempts": st["attempts"],
        "attempts_by_strategy": st["attempts_by_strategy"],
        "attempts_all_backends_failed": st["attempts_all_failed"],
        "lists_with_same_backend_twice": st["lists_with_same_backend_twice"],
        "runaway_attempts": st["runaway_attempts"],
        "backend_reset_after_accept": st["backend_reset_after_accept"],
        "round_robin_run_attempts": st["round_robin_run_attempts"],
        "concurrent_batches": st["concurrent_batches"],
        "concurrent_connections": st["concurrent_connections"],
        "count_schedules_forced": st["count_schedules"],
        "count_blocked_steps": st["count_blocked_steps"],
        "least_schedules_forced": st["least_schedules"],
        "least_picks": {"tracked_backend": st["least_picks_of_tracked_backend"], "idle_backend": st["least_picks_of_idle_backend"]},
        "api_stress_runs": st["api_stress_runs"],
        "trace_events_validated": matched,
        "race_detector": not ctx.quick,
        "exhaustive": False,
    }
    return ctx.finish("model_checking", cov, [
        "a backend 'fails' when its port is closed or its address cannot be dialled; it 'accepts' when a harness "
        "listener is bound to it",
        "the tried addresses are the lb.try events between the start and the end of a (non-concurrent) attempt",
        "scenarios using 127.0.0.1:25565 are skipped when another process owns that port",
    ])
