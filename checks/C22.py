"""C22 -- commands run on the proxy or reach the backend exactly once.

1. TLC checks the decision table CommandDispatch.tla (client family x permission x typed line x
   event result deny / forward / rewrite x signedness) against the statement's invariants and
   exports every row, plus simulated histories of three lines typed by the same player.
2. The Go harness types each line into the real play session handler of a player (family chosen
   by the client protocol) on a real proxy with real registered commands (one with a permission
   requirement, one alias, one with an argument, one under a mixed-case literal, one whose handler fails) and a scripted CommandExecuteEvent subscriber,
   and records which command handlers ran and what the backend connection received.
3. TLC validates the recorded lines with CommandDispatch_Trace.tla (same Decision operator).
"""
import json
import random
import vlib

META = {
    "category": "model_checking",
    "text": "CommandDispatch.tla defines, for every (client family legacy/keyed/session/unsigned, permission, typed "
            "command line, event result deny/forward/rewrite-to, signed?) row, how many proxy executions and backend "
            "deliveries must happen and with which command text; TLC checks the table against the statement "
            "(exactly one place unless denied, denied nowhere, forwarded never runs, no permission never runs) and "
            "exports all rows plus simulated three-line histories; each is typed into the real play session handler "
            "on a real proxy with registered commands and a counting backend connection, and TLC re-evaluates the "
            "table on every recorded line.",
    "design_ref": "DESIGN.md section 4, C22",
    "level_note": "Command lines whose 'naming a registered command' the statement leaves open (upper-case spelling, "
                  "trailing space) only get the weak relation (not both places, not twice, delivered when forwarded, "
                  "nowhere when denied). Signed commands (keyed: signed flag without a player key; session: argument "
                  "signatures) run with forceKeyAuthentication off, because with it on the proxy disconnects a player "
                  "whose signed command it must consume or rewrite (a protocol constraint outside the statement). "
                  "'Executed by the proxy' is observed as the registered command's handler running; nested "
                  "per-node requirements below the command literal are C23's subject and not typed here.",
    "technique": "TLA+ decision table, TLC exhaustive row export + simulated histories, replay on real code, "
                 "TLC trace validation",
}


def run(ctx):
    r = ctx.tlc("CommandDispatch", workers=1)
    rows = r.printed_json("CASE")
    for x in rows:
        x["origin"] = "table"
    ctx.log("CommandDispatch.tla: %d rows, table satisfies the statement" % len(rows))
    r = ctx.tlc("CommandDispatch", "CommandDispatch_sim.cfg", workers=1, simulate=ctx.pick(200, 6000), depth=5)
    sims = r.printed_json("CASE")
    for x in sims:
        x["origin"] = "simulate3"
    cases = rows + sims
    random.Random(ctx.seed).shuffle(cases)
    with open(ctx.path("cases.json"), "w") as fh:
        json.dump(cases, fh)
    ctx.harness("./c22", "TestDispatch", timeout=1200)
    st = json.load(open(ctx.path("stats.json")))
    if st["hung"]:
        raise vlib.ToolError("%d lines never became idle" % st["hung"])
    recs = vlib.read_ndjson(ctx.path("trace.ndjson"))
    rejected, matched, tstates = ctx.validate_runs("CommandDispatch_Trace", recs)
    for rj in rejected:
        reset, bad = rj["run"][0], rj["bad"] or {}
        ctx.finding(classify(reset, bad), "command line handled differently from the decision table: %s (player %s)"
                    % (json.dumps(bad), json.dumps({k: reset.get(k) for k in ("fam", "perm", "proto", "fka")})), rj)
    if not rejected:      # a run in which nothing was rejected must at least have seen every kind of outcome
        for k in ("vopen", "vperm", "vargs", "vmix", "verr"):
            if not st["execs"].get(k):
                raise vlib.ToolError("vacuous: proxy command %s never ran" % k)
        for k in ("legacy", "keyed", "scmd", "ucmd"):
            if not st["backend"].get(k):
                raise vlib.ToolError("vacuous: backend never received a %s packet" % k)
    cov = {
        "samples": st["samples"][:2] or cases[:1],
        "evaluations": st["lines"],
        "distinct_nontrivial": st["distinct_rows"],
        "rule": "row = (family, permission, typed line, rewrite target, deny, forward, signed); distinct = distinct "
                "rows typed; all rows of the table are typed once alone, and again inside 3-line histories",
        "cases": st["cases"],
        "by_family": st["by_family"],
        "proxy_executions": st["execs"],
        "backend_packets": st["backend"],
        "lines_reaching_nobody": st["nothing"],
        "disconnects": st["disconnects"],
        "trace_events_validated": matched,
        "exhaustive": True,
    }
    return ctx.finish("model_checking", cov, [
        "the table is exhaustive over the fixture's command universe (13 typed lines x 5 rewrite targets), not over all strings",
        "client packets enter as decoded packets through clientPlaySessionHandler.HandlePacket",
    ])


def classify(reset, bad):
    if bad.get("ev") != "cmd":
        return "%s:%s" % (reset.get("fam"), bad.get("ev"))
    res = "deny" if bad["deny"] else ("forward" if bad["fwd"] else "allow")
    if bad["to"]:
        res += "+rewrite"
    got = "execs=%d,backend=%d" % (len(bad["execs"]), len(bad["back"]))
    if bad.get("disc"):
        got += ",disconnected"
    wrong_text = ""
    if len(bad["back"]) == 1:
        eff = bad["to"] or bad["line"]
        want = ("/" + eff) if reset.get("fam") == "legacy" else eff
        if bad["back"][0]["txt"] != want:
            wrong_text = ":text=" + ("original" if bad["back"][0]["txt"].lstrip("/") == bad["line"] else "other")
    reg = lambda l: l in ("vopen", "vperm", "valias", "vargs w", "vargs z", "VMix", "verr")
    eff = bad["to"] or bad["line"]
    return "%s:%s%s:%s:%s->%s%s" % (reset.get("fam"), res, ":signed" if bad["signed"] else "",
                                   "registered" if reg(eff) else "unregistered",
                                   "perm" if reset.get("perm") else "noperm", got, wrong_text)
