"""C32 -- Lite ping cache never serves status from before a reload.

1. TLC model-checks the code-shaped PingCache.tla (generation-stamped singleflight
   cache, one action per stretch between gate points): NoStale, OneFlight, Answered.
2. With GenCheck = FALSE (store without comparing generations) TLC must violate
   NoStale (non-vacuity).
3. TLC exports gate-point interleavings (3 threads exhaustive: 4901 up to renaming, with
   reset split at its two gate points; 4 threads / 3 keys -- two of them the same backend
   asked with different client protocols -- simulated, mutex ignored); the harness forces them on the real pingStatusCache (fake clock, loader
   blocked on a gate, the singleflight goroutine adopted as a schedulable thread).
4. Free-running stress on the cache, and end-to-end histories through a real Lite
   proxy (status requests over TCP, backends = harness listeners, reloads through
   Proxy.ApplyLiveConfig), plus fallback scenarios.
5. TLC validates the recorded history of every run against the abstract
   PingCacheHist spec (NoStale, SameKey, OneInFlight, Fresh, MustHit, Done, FallbackOK).
"""
import json
import random
import vlib

META = {
    "category": "model_checking",
    "text": "TLC model-checks a code-shaped model of the generation-stamped singleflight ping cache and exports "
            "its gate-point interleavings; each is forced on the real pingStatusCache through verif-tagged gate "
            "points (fake clock, blocked loaders). Histories of those runs, of free-running stress and of "
            "end-to-end status requests / route reloads through a real Lite proxy are validated by TLC against "
            "the abstract PingCacheHist spec (no answer obtained before a reset is given to a request started "
            "after it; one fetch in flight per key; TTL freshness; cache hits; fallback only when every backend "
            "failed).",
    "design_ref": "DESIGN.md section 4, C32",
    "level_note": "A status counts as obtained before a reset when its backend fetch BEGAN before the reset began (it was asked under the old configuration), which is what the generation stamp enforces; the weaker reading (fetch completed before) is implied. Cache keys a and b of the model are one backend with two client protocols. Overlapping calls are judged by "
                  "the weakest reading (a rule fires only if violated for every placement of the reset/tick inside "
                  "its begin..end interval). TTL is exercised on the cache object with a fake clock in steps larger "
                  "than the TTL; end to end the TTL is one hour and only hits/resets are exercised. Cached failures "
                  "count as 'backend failed' for the fallback rule. 3-thread schedules are sampled in quick.",
    "technique": "TLA+ spec + TLC schedule enumeration, forced replay on real code, TLC trace validation",
}

GATES = ["pc.miss", "pc.flight.enter", "pc.loader", "pc.flight.loaded", "pc.reset.enter", "pc.reset.mid"]


def store_in_reset_window(x):
    """a flight has fetched its status before a reset thread starts, stores it (third step) between the
    first and the last step of that reset, and another load thread starts after the reset
    (sampling aid only, no verdict role)"""
    prog, sched = x["prog"], x["sched"]
    pos = {}
    for i, t in enumerate(sched):
        pos.setdefault(t, []).append(i)
    for r, o in prog.items():
        if o["op"] != "reset" or len(pos.get(r, [])) < 3:
            continue
        a, b = pos[r][0], pos[r][2]
        for t, o2 in prog.items():
            f = pos.get(t + "f", [])
            if o2["op"] == "load" and len(f) >= 3 and f[1] < a < f[2] < b:
                if any(o3["op"] == "load" and u != t and pos.get(u) and pos[u][0] > b for u, o3 in prog.items()):
                    return True
    return False


def fetch_spans_reset(x):
    """a flight begins its fetch before a reset thread starts and stores (third step) after that reset
    finished, and another load thread starts after the store (sampling aid only, no verdict role)"""
    prog, sched = x["prog"], x["sched"]
    pos = {}
    for i, t in enumerate(sched):
        pos.setdefault(t, []).append(i)
    for r, o in prog.items():
        if o["op"] != "reset" or len(pos.get(r, [])) < 3:
            continue
        a, b = pos[r][0], pos[r][2]
        for t, o2 in prog.items():
            f = pos.get(t + "f", [])
            if o2["op"] == "load" and len(f) >= 3 and f[0] < a and b < f[2]:
                if any(o3["op"] == "load" and u != t and pos.get(u) and pos[u][0] > f[2] for u, o3 in prog.items()):
                    return True
    return False


def run(ctx):
    r = ctx.tlc("PingCache", ctx.pick("PingCache_q.cfg", "PingCache.cfg"), timeout=1500)
    mc_states = r.distinct
    ctx.log("PingCache.tla: %d distinct states, NoStale/OneFlight/Answered hold" % r.distinct)
    r = ctx.tlc("PingCache", "PingCache_nogen.cfg", allow_violation=True, count=False)
    if r.violated != "NoStale":
        raise vlib.ToolError("model without the generation check does not violate NoStale (%s)" % r.violated)
    ctx.log("PingCache.tla without generation check: violates NoStale (non-vacuity ok)")

    s3 = ctx.tlc("PingCache", "PingCache_sched3.cfg", workers=1, count=False).printed_json("SCHED")
    n3 = len(s3)
    rnd = random.Random(ctx.seed)
    rnd.shuffle(s3)
    if ctx.quick:
        # quick forces a sample: schedules in which a fetched status is stored while a reset sits between
        # its gate points, and another request starts after that reset, come first
        win = [x for x in s3 if store_in_reset_window(x)]
        span = [x for x in s3 if fetch_spans_reset(x) and not store_in_reset_window(x)]
        oth = [x for x in s3 if not store_in_reset_window(x) and not fetch_spans_reset(x)]
        nwin = len(win)
        # the few window schedules are forced three times each; then fetches that span a whole reset
        s3 = (win * 3)[:30] + span[:25] + oth[:110]
    else:
        nwin = sum(1 for x in s3 if store_in_reset_window(x))
    s4 = ctx.tlc("PingCache", "PingCache_sched4.cfg", workers=1, count=False,
                 simulate=ctx.pick(110, 2500), depth=34).printed_json("SCHED")
    scheds = s3 + s4
    ctx.log("schedules: %d of %d three-thread (exhaustive export, %d with a store inside a reset) + %d "
            "four-thread / three-key simulated" % (len(s3), n3, nwin, len(s4)))
    with open(ctx.path("sched.json"), "w") as fh:
        json.dump(scheds, fh)

    p = ctx.harness("./c32", "TestSchedules", race=not ctx.quick, timeout=1800, check=False,
                env={"VERIF_STRESS": ctx.pick(80, 1500), "VERIF_E2E": ctx.pick(8, 80),
                     "VERIF_RESOLVE": ctx.pick(40, 400)})
    if p.returncode != 0:
        if "DATA RACE" not in p.stdout:
            raise vlib.ToolError("harness failed (rc=%d):\n%s" % (p.returncode, "\n".join(p.stdout.splitlines()[-60:])))
        import re
        for blk in p.stdout.split("WARNING: DATA RACE")[1:]:
            fns = re.findall(r"gate/pkg/edition/java/lite\.(\w+)", blk)
            if not fns:
                raise vlib.ToolError("data race outside gate's lite package (harness?):\n" + blk[:1500])
            ctx.finding("race:" + fns[0], "Go race detector: unsynchronised access in lite.%s while a status request whose "
                        "client went away and the shared backend fetch overlap" % fns[0], {"report": blk[:2500]})
    st = json.load(open(ctx.path("stats.json")))
    missing = [g for g in GATES if not st["gate_arrivals"].get(g)]
    if missing:
        raise vlib.ToolError("hook_missing: gates never reached: %s" % missing)
    if not st["store_events"].get("true") or not st["store_events"].get("false"):
        raise vlib.ToolError("schedules never exercised both store outcomes: %s" % st["store_events"])

    if not st["dial_timeout_scenarios"]:
        ctx.notes.append("no backend with a full accept queue could be arranged: dial-timeout scenarios not run")
    recs = vlib.read_ndjson(ctx.path("trace.ndjson"))
    rejected, matched, tstates = ctx.validate_runs("PingCacheHist_Trace", recs, timeout=1500)
    for rj in rejected:
        bad = rj["bad"] or {}
        ev = bad.get("ev")
        if ev == "hung":
            key = "hung-call"
        elif ev == "end":
            # diagnostic only: name the rule by looking the fetch and the request up in the run
            fk = [r["key"] for r in rj["run"] if r.get("ev") == "fbegin" and r.get("f") == bad.get("v")]
            rk = [r["key"] for r in rj["run"] if r.get("ev") == "start" and r.get("r") == bad.get("r")]
            key = "answer-for-other-key" if fk and rk and fk[0] != rk[0] else "answer-rejected"
        elif ev == "fbegin":
            key = "second-fetch-in-flight"
        elif ev == "resolve":
            key = "fallback:" + str(bad.get("result")) + (":requester-gone" if bad.get("kind") == "requester-gone" else "") \
                + (":after-dial-timeout" if bad.get("dial_timeout_backend") else "")
        else:
            key = "history-rejected:" + str(ev)
        kind = rj["run"][0].get("kind", "cache")
        ctx.finding(kind + ":" + key,
                    "history of the real ping cache is not a behaviour of PingCacheHist (first unexplained "
                    "event: %s)" % json.dumps(bad), rj)
    runs = st["schedules"] + st["stress_runs"] + st["slow_fetch_runs"] + st["e2e_runs"]
    cov = {
        "states": mc_states + tstates,
        "samples": st["samples"][:2] + [{"trace_events": len(recs), "runs": runs}],
        "evaluations": runs + st["resolves"],
        "distinct_nontrivial": len({json.dumps(s, sort_keys=True) for s in scheds}),
        "rule": "schedule = (program of load/reset/tick threads, interleaving of gate points) exported by TLC "
                "from PingCache.tla; distinct (prog, sched) pairs; every one has >= 1 load and >= 3 threads",
        "schedules_forced": st["schedules"],
        "blocked_steps": st["blocked_steps"],
        "unknown_steps": st["unknown_steps"],
        "store_outcomes": st["store_events"],
        "stress_runs": st["stress_runs"],
        "slow_fetch_runs": st["slow_fetch_runs"],
        "e2e_runs": st["e2e_runs"],
        "e2e_status_requests": st["e2e_requests"],
        "e2e_reloads": st["e2e_reloads"],
        "fallback_scenarios": st["resolves"],
        "fallback_answers": st["fallback_answers"],
        "requester_gone_scenarios": st["requester_gone_scenarios"],
        "dial_timeout_scenarios": st["dial_timeout_scenarios"],
        "trace_events_validated": matched,
        "race_detector": not ctx.quick,
        "exhaustive": False,
    }
    return ctx.finish("model_checking", cov, [
        "gates only delay threads; a forced failure is a real execution",
        "the harness loader's value is 'obtained' when it emits fend, just before returning to the cache",
        "end to end the request that leads a fetch is identified by the host label the backend sees",
    ])
