"""C13 -- login plugin messages are answered exactly once by the matching consumer;
login completion runs exactly once; Forge relay answers reach the backend exactly once.

1. TLC model-checks the code-shaped LoginPluginImpl.tla (segments of SendLoginPluginMessage /
   loginEventFired / handleLoginPluginResponse between the gate points) against the property
   invariants; the variant whose completion callback stays armed must violate (non-vacuity).
2. TLC exports gate-point schedules (programs x interleavings); the in-package harness forces
   them on the real loginInboundConn over a real netmc connection.
3. The programs are also replayed black-box on the live rig: PreLoginEvent subscribers call
   SendLoginPluginMessage (synchronously, from consumers, from a goroutine outliving the event),
   a fake client answers in every order / duplicated / unknown ids / failure / success with an empty body, consumers may fail; and a fake Forge
   backend's fml:loginwrapper messages are relayed through a ModernForge client.
4. TLC validates every recorded history against the abstract LoginPlugin.tla.
"""
import json
import random
import threading
import vlib

META = {
    "category": "model_checking",
    "text": "LoginPlugin.tla is the abstract acceptor over what plugins, the client and a backend observe (send, "
            "pre-login done, message at the client, client response, consumer invocation, completion). "
            "LoginPluginImpl.tla is the code-shaped model of login_inbound.go; TLC checks it against the "
            "property invariants, shows non-vacuity with the 'callback stays armed' variant, and enumerates "
            "gate-point interleavings of goroutine sends with the read loop, which are forced on the real "
            "loginInboundConn through verif gate points. The same programs are replayed black-box on the live "
            "proxy through the public LoginPhaseConnection API from PreLoginEvent subscribers, plus the Forge "
            "login relay with a fake Forge backend and a ModernForge client. All recorded histories are "
            "validated by TLC against the abstract spec. Schedules and histories are the quantifier, so "
            "schedule enumeration + history replay + trace validation is the right level.",
    "design_ref": "DESIGN.md section 4, C13",
    "level_note": "Decision points are not observable, so 'after every outstanding message has been answered' is "
                  "judged with the sends that had returned before the last consumer return / pre-login return that "
                  "precedes the completion. Completion is observed as the completion callback (in-package) and as "
                  "GameProfileRequestEvent (live, offline mode). Liveness is judged only at quiescence (after a "
                  "generous wait). Online-mode completion (encryption request) and key-signed logins are not "
                  "exercised; relay programs use distinct backend ids and non-empty payloads.",
    "technique": "TLA+ spec + TLC schedule enumeration, forced replay on real code, live-rig history replay, "
                 "TLC trace validation",
}

GATES = ["lp.send.id", "lp.send.registered", "lp.fired.enter", "lp.fired.popped", "lp.resp.taken",
         "lp.resp.consumed", "lp.resp.checked"]


def classify(rj):
    run, bad = rj["run"], rj["bad"] or {}
    kind = run[0].get("kind", "?") if run else "?"
    ev = bad.get("ev")
    before = run[1:rj["bad_index"]]
    if ev == "complete":
        n = sum(1 for x in before if x.get("ev") == "complete") + 1
        if n > 1:
            return "complete#%d:%s" % (n, kind)
        if not any(x.get("ev") == "fired" for x in before):
            return "complete-before-prelogin:%s" % kind
        return "complete-with-outstanding:%s" % kind
    if ev == "deliver":
        twice = any(x.get("ev") == "deliver" and x.get("tag") == bad.get("tag") for x in before)
        return ("deliver-twice:%s" if twice else "deliver-unmatched:%s") % kind
    if ev == "end":
        ncomp = sum(1 for x in before if x.get("ev") == "complete")
        return "end:%s:%s" % (kind, "no-completion" if ncomp == 0 else "answered-but-undelivered")
    if ev == "hung":
        return "hung-call:%s" % kind
    return "history-rejected:%s:%s" % (kind, ev)


def run(ctx):
    bg = {}

    def model():
        try:
            r = ctx.tlc("LoginPluginImpl", ctx.pick("LoginPluginImpl_quick.cfg", "LoginPluginImpl.cfg"),
                        count=False, timeout=1800)
            bg["mc"] = r
            r2 = ctx.tlc("LoginPluginImpl", "LoginPluginImpl_armed.cfg", allow_violation=True, count=False)
            bg["armed"] = r2
        except Exception as e:  # reported by the main thread
            bg["err"] = e

    th = threading.Thread(target=model)
    th.start()

    # schedules: one goroutine exhaustive in thorough, sampled in quick; two goroutines sampled
    if ctx.quick:
        scheds = ctx.tlc("LoginPluginImpl", "LoginPluginImpl_sched3.cfg", workers=1, count=False,
                         simulate=180, depth=45).printed_json("SCHED")
    else:
        s1 = ctx.tlc("LoginPluginImpl", "LoginPluginImpl_sched.cfg", workers=1, count=False,
                     timeout=1800).printed_json("SCHED")
        s3 = ctx.tlc("LoginPluginImpl", "LoginPluginImpl_sched3.cfg", workers=1, count=False,
                     simulate=1200, depth=45, timeout=1800).printed_json("SCHED")
        rnd = random.Random(ctx.seed)
        rnd.shuffle(s1)
        scheds = s1[:1200] + s3
    # only schedules with real concurrency or at least one call beyond loginEventFired
    scheds = [s for s in scheds if s["prog"]["gor"] or s["prog"]["resps"] or s["prog"]["pre"]]
    with open(ctx.path("sched.json"), "w") as fh:
        json.dump(scheds, fh)

    # programs for the live rig
    rnd = random.Random(ctx.seed * 31 + 7)
    if ctx.quick:
        seen, progs = set(), []
        for s in scheds:
            k = json.dumps(s["prog"], sort_keys=True)
            if k not in seen:
                seen.add(k)
                progs.append(json.loads(k))
    else:
        progs = ctx.tlc("LoginPluginImpl", "LoginPluginImpl_prog.cfg", workers=1, count=False,
                        timeout=1800).printed_json("PROG")
    rnd.shuffle(progs)
    live = [dict(p) for p in progs[:ctx.pick(90, 1200)]]
    # the directed shape of the late-send scenario is always part of the sample
    live.append({"pre": 0, "resps": [{"id": 1, "ok": True, "chain": False, "cerr": False, "empty": False}], "gor": ["h1"]})
    # the consumer of the last outstanding message fails: completion must still run
    live.append({"pre": 2, "resps": [{"id": 2, "ok": True, "chain": False, "cerr": False, "empty": False},
                                     {"id": 1, "ok": True, "chain": False, "cerr": True, "empty": False}], "gor": []})
    live.append({"pre": 1, "resps": [{"id": 1, "ok": True, "chain": False, "cerr": True, "empty": False},
                                     {"id": 2, "ok": False, "chain": False, "cerr": False, "empty": False}],
                 "gor": ["h1"]})
    for i, p in enumerate(live):
        p["at"] = rnd.randrange(len(p["resps"]) + 1) if i < len(live) - 3 else (0 if i == len(live) - 3 else 1)
    # the relay's consumers are gate's own: no follow-ups, no consumer errors
    relay = [dict(p, gor=[], resps=[dict(x, chain=False, cerr=False) for x in p["resps"]])
             for p in progs if p["pre"] >= 1]
    seen, rel = set(), []
    for p in relay:
        k = json.dumps(p, sort_keys=True)
        if k not in seen:
            seen.add(k)
            rel.append(p)
    rel = rel[:ctx.pick(30, 400)]
    rel.append({"pre": 3, "resps": [{"id": 3, "ok": True, "chain": False, "cerr": False, "empty": True},
                                    {"id": 1, "ok": False, "chain": False, "cerr": False, "empty": False},
                                    {"id": 3, "ok": True, "chain": False, "cerr": False, "empty": False},
                                    {"id": 2, "ok": True, "chain": False, "cerr": False, "empty": False}],
                "gor": []})
    # relay failover: the first try-list server relays a message and drops before the client
    # answers; the late answer must not reach the second server
    for p in [dict(q) for q in rel[:3]]:
        p["failover"] = True
        rel.append(p)
    with open(ctx.path("progs.json"), "w") as fh:
        json.dump(live, fh)
    with open(ctx.path("relay.json"), "w") as fh:
        json.dump(rel, fh)
    ctx.log("schedules: %d, live programs: %d, relay programs: %d" % (len(scheds), len(live), len(rel)))

    ctx.harness("./c13", "TestSchedules|TestLive|TestRelay", race=not ctx.quick, timeout=2400)
    ctx.log("harness done")
    st = json.load(open(ctx.path("stats_sched.json")))
    sl = json.load(open(ctx.path("stats_live.json")))
    sr = json.load(open(ctx.path("stats_relay.json")))
    missing = [g for g in GATES if not st["gate_arrivals"].get(g)]
    if missing:
        raise vlib.ToolError("hook_missing: gates never reached: %s" % missing)
    if sl["completions"] == 0 or sr["backend_answers"] == 0:
        raise vlib.ToolError("live rig saw no completion / no relayed answer at all: the check would be vacuous")

    recs = []
    for f in ("trace.ndjson", "trace_live.ndjson", "trace_relay.ndjson"):
        recs += vlib.read_ndjson(ctx.path(f))
    rejected, matched, tstates = ctx.validate_runs("LoginPlugin_Trace", recs, timeout=1800)
    ctx.log("trace validation done: %d events" % matched)
    for rj in rejected:
        ctx.finding(classify(rj), "history of the real login plugin message handling is not a behaviour of "
                    "LoginPlugin.tla (first unexplained event: %s)" % json.dumps(rj["bad"]), rj)

    th.join()
    if "err" in bg:
        raise bg["err"]
    mc, armed = bg["mc"], bg["armed"]
    ctx.states += mc.distinct
    ctx.transitions += mc.generated
    if armed.violated != "CompletedOnce":
        raise vlib.ToolError("the 'callback stays armed' variant violates %s, expected CompletedOnce: "
                             "invariants vacuous" % armed.violated)
    ctx.log("LoginPluginImpl.tla: %d distinct states, invariants hold; armed variant violates %s"
            % (mc.distinct, armed.violated))

    runs = st["schedules"] + sl["runs"] + sr["runs"]
    cov = {
        "states": mc.distinct + tstates,
        "samples": (st["samples"][:1] + sl["samples"][:1] + sr["samples"][:1]) or [{"runs": runs}],
        "evaluations": runs,
        "distinct_nontrivial": len({json.dumps(s, sort_keys=True) for s in scheds})
        + len({json.dumps(p, sort_keys=True) for p in live}) + len(rel),
        "rule": "schedule = (program, gate-point interleaving) exported by TLC; live/relay program = (sends, "
                "client responses incl. order/duplicates/unknown ids/failure, goroutine send position); every "
                "counted case has at least one send or response besides loginEventFired",
        "schedules_forced": st["schedules"],
        "blocked_steps": st["blocked_steps"],
        "schedules_with_fewer_gates_than_modelled": st["diverged"],
        "live_runs": sl["runs"],
        "live_completions": sl["completions"],
        "live_goroutine_send_runs": sl["goroutine_send_runs"],
        "relay_runs": sr["runs"],
        "relay_backend_answers": sr["backend_answers"],
        "trace_events_validated": matched,
        "race_detector": not ctx.quick,
        "exhaustive": False,
    }
    return ctx.finish("model_checking", cov, [
        "gates only delay goroutines; a forced failure is a real execution",
        "messages are identified by their payload (tag); response bodies are unique per response instance",
        "live rig: offline mode, protocols 763/764/765; the fake client and backend use the harness's own codec",
    ])
