"""C08 -- online-mode admission only after verified encryption + session auth.

1. TLC model-checks Login.tla (history machine over client packets x pre-login result x
   session-server outcome) and exports every history up to the length bound.
2. The live rig replays each history against the real proxy with the real authenticator
   (RSA, verify token, shared secret, server id, HTTP status handling all real; only the
   session server is faked, and it confirms a join solely for the exact derived server id
   and user name) and records the reaction to every client packet.
3. TLC validates the recorded reactions with Login_Trace.tla (same Step relation).
"""
import json
import random
import vlib

META = {
    "category": "model_checking",
    "text": "Login.tla defines the allowed reaction to every client login packet as one relation Step; TLC "
            "enumerates all client packet sequences (<= 3 quick / 4 thorough) over login start (valid/invalid "
            "name), encryption response (token exact/wrong/garbage/empty/prefix/longer x secret ok/garbage/short), stray plugin "
            "response and unknown packet, for every pre-login result and session-server outcome (incl. a server that confirms any server id); each is "
            "replayed on the live proxy with the real authenticator and the recorded reactions, registry "
            "lookups and session-server queries are validated by TLC against the same relation.",
    "design_ref": "DESIGN.md section 4, C08",
    "level_note": "Safety only: a proxy that admits nobody satisfies the statement, so the run must see real "
                  "admissions or it reports a tool error (vacuous) instead of a verdict. 'Encryption enabled with "
                  "that secret' is observed as login success decoding under the harness's own AES/CFB8 keyed with "
                  "the secret the client sent. Key-signature logins (1.19-1.19.2 player keys) are not exercised. "
                  "After a failed authentication the spec does not require the close (the statement requires "
                  "closing only for out-of-order or repeated packets). Every login is paused (verif gate point, "
                  "delay only) between the session server's answer and its use, and each run ends with a burst "
                  "of concurrent complete online logins, so that answers of different logins are in flight together.",
    "technique": "TLA+ history machine, TLC exhaustive history export, live-rig replay with real RSA/session flow, "
                 "TLC trace validation",
}


def run(ctx):
    total_states = 0
    all_runs = 0
    admissions = 0
    online_adm = 0
    matched_total = 0
    samples = []
    nhist = 0
    for cfg_online in (True, False):
        maxlen = ctx.pick(3, 4)
        cfg = ("SPECIFICATION Spec\nCONSTANTS\n  MaxLen = %d\n  CfgOnline = %s\n"
               "INVARIANTS AdmitOnlyIfVerified NoAdmissionAfterDisorder DenyNeverAdmits Emit\n"
               % (maxlen, "TRUE" if cfg_online else "FALSE"))
        r = ctx.tlc("Login", cfg_text=cfg, workers=1, timeout=1200)
        hists = r.printed_json("HIST")
        total_states += r.distinct
        # a burst of concurrent complete online logins (the harness pauses every login between the
        # session server's answer and its use, so the answers of different logins are in flight
        # together): each is judged like any other history
        def complete_online(h):
            return ([x["k"] for x in h["h"]] == ["start", "enc"] and h["h"][0].get("name") == "v"
                    and h["h"][1].get("tok") == "exact" and h["h"][1].get("sec") == "ok"
                    and h["sess"] in ("ok", "okany")
                    and (h["pre"] == "forceOnline" or (cfg_online and h["pre"] == "allow")))
        burst = [h for h in hists if complete_online(h)]
        if not burst:
            raise vlib.ToolError("no complete online login among the exported histories")
        rnd = random.Random(ctx.seed * 7 + cfg_online)
        if ctx.quick:
            # every one-packet history and every [login start, encryption response] history,
            # plus a seeded sample of the rest
            def core(h):
                ks = [x["k"] for x in h["h"]]
                return len(ks) == 1 or ks == ["start", "enc"]
            must = [h for h in hists if core(h)]
            rest = [h for h in hists if not core(h)]
            rnd.shuffle(rest)
            hists = must + rest[:350 if cfg_online else 120]
        else:
            rnd.shuffle(hists)
            hists = hists[:12000]
        hists = hists + [burst[i % len(burst)] for i in range(ctx.pick(72, 480))]
        nhist += len(hists)
        ctx.log("Login.tla (online=%s): %d states, replaying %d histories" % (cfg_online, r.distinct, len(hists)))
        with open(ctx.path("hist.json"), "w") as fh:
            json.dump(hists, fh)
        ctx.harness("./c08", "TestReplay", env={"VERIF_CFG_ONLINE": "1" if cfg_online else "0"}, timeout=1500)
        st = json.load(open(ctx.path("stats.json")))
        ctx.log("replayed")
        all_runs += st["runs"]
        if st.get("slow"):
            ctx.log("slow reactions (>1s): %d, e.g. %s" % (len(st["slow"]), st["slow"][:3]))
        admissions += st["admissions"]
        online_adm += st["online_admissions"]
        samples += st["samples"][:1]
        recs = vlib.read_ndjson(ctx.path("trace.ndjson"))
        tcfg = ("SPECIFICATION TSpec\nCONSTANTS\n  MaxLen = 9\n  CfgOnline = %s\nINVARIANT Mark\n"
                "POSTCONDITION Accepted\nCHECK_DEADLOCK FALSE\n" % ("TRUE" if cfg_online else "FALSE"))
        rejected, matched, tstates = ctx.validate_runs("Login_Trace", recs, cfg_text=tcfg)
        matched_total += matched
        total_states += tstates
        ctx.log("trace validated: %d events" % matched)
        for rj in rejected:
            reset, bad = rj["run"][0], rj["bad"] or {}
            prior = [x.get("k") for x in rj["run"][1:rj["bad_index"]]]
            if bad.get("ev") == "end":
                key = "end:registered=%s,sidok=%s" % (bad.get("registered"), bad.get("sidok"))
            else:
                key = "%s(%s/%s/%s)after[%s]->%s%s%s" % (
                    bad.get("k"), bad.get("name", ""), bad.get("tok", ""), bad.get("sec", ""), ",".join(prior),
                    bad.get("got"), ",closed" if bad.get("closed") else "", ",registered" if bad.get("registered") else "")
            key = "online=%s,pre=%s,sess=%s:%s" % (cfg_online, reset["pre"], reset["sess"], key)
            ctx.finding(key, "login connection: proxy reaction not allowed by Login spec: %s" % json.dumps(bad), rj)
    if online_adm == 0:
        raise vlib.ToolError("no online-mode admission was observed at all: the check would be vacuous")
    cov = {
        "samples": samples or [{"note": "no multi-step admitted sample"}],
        "evaluations": all_runs,
        "distinct_nontrivial": nhist,
        "rule": "history = (pre-login result, session outcome, client packet sequence) exported by TLC and replayed on "
                "a fresh connection; distinct = distinct histories (every one has >= 1 client packet)",
        "admissions_observed": admissions,
        "online_admissions_observed": online_adm,
        "trace_events_validated": matched_total,
        "exhaustive": False,
        "states": total_states,
    }
    return ctx.finish("model_checking", cov, [
        "fake session server answers ok only for the exact (independently derived server id, user name) pair",
        "client side crypto (RSA PKCS#1 v1.5, AES/CFB8, SHA-1, math/big signed hex) is the harness's own / Go stdlib",
    ])
