"""C06 -- packet id tables agree with the reference protocol for every version.

1. Registry.tla (toy): TLC enumerates mapping lists for two packet types, proves two
   differently phrased definitions of the Register range semantics equal on all of them,
   checks the reference data for sanity (well formed, injective per state/direction) and
   exports the lists.
2. The harness replays every exported list into a fresh real PacketRegistry.Register and
   dumps what got registered; it also dumps the COMPLETE tables of gate's five state
   registries (both directions, every supported protocol, every type and id) through
   PacketID / CreatePacket, the resolution of unknown protocols and go-mc's generated
   1.20.2 id table.
3. Registry_Trace.tla (TLC) judges every line: Bijective per table, SharedAgree per cell
   against Ref (Velocity's registrations as TLA+ data) and go-mc, Fallback, Expand.
"""
import json
import vlib

META = {
    "category": "model_checking",
    "text": "TLC evaluates, on the complete dump of gate's packet registries (5 states x 2 directions x every "
            "supported protocol x every registered type and every id, read through PacketID/CreatePacket), that each "
            "table is a bijection, that every packet type shared with the reference table (Velocity's StateRegistry "
            "transcribed as TLA+ data, plus go-mc's generated vanilla 1.20.2 table) has the reference id in that "
            "version, and that unknown protocols resolve to the lowest supported version's table; the range semantics "
            "of Register (Expand) is model-checked on TLC-enumerated mapping lists replayed into the real Register.",
    "design_ref": "DESIGN.md section 4, C06",
    "level_note": "Exhaustive over gate's tables. The reference is independent of register.go but partly written from "
                  "knowledge: protocol 764 is confirmed by go-mc's machine-generated table; protocols 4..769 follow "
                  "Velocity's StateRegistry (anchor versions 47, 340, 754, 758, 762/763, 765-767 re-derived from the "
                  "vanilla packet lists), 770..773 follow Velocity's update commits; for 774 (1.21.11), 775 (26.1) "
                  "and 776 (26.2) there is no independent source offline, so only the structural invariants "
                  "(bijection, fallback, range semantics) are claimed there. SharedAgree is one-sided: a type the "
                  "reference has in a version must have that id in gate; a type gate registers for a version where "
                  "the reference does not is not judged. The play registries have the fallback switched off (as in "
                  "the reference): for them 'no table' is accepted for unknown protocols. Concurrent lookups (8 goroutines, "
                  "different protocols, 150 ms per state/direction) are a stress run, not an enumeration of interleavings.",
    "technique": "TLA+ reference data + operators, TLC model checking of the range semantics, TLC trace validation of "
                 "the complete registry dump",
}


def run(ctx):
    if ctx.replay:
        # the check is deterministic for a (tier, seed): a replay is the full run under the recorded ones
        d = json.load(open(ctx.replay))
        ctx.seed, ctx.tier = int(d.get("seed", ctx.seed)), d.get("tier", ctx.tier)
    # 1. toy model: TLC enumerates the mapping lists, checks both definitions, exports
    r = ctx.tlc("Registry", ctx.pick("Registry_quick.cfg", "Registry.cfg"), timeout=900)
    toy = r.printed_json("TOY")
    if len(toy) < 100:
        raise vlib.ToolError("toy export too small: %d" % len(toy))
    ctx.log("Registry.tla: %d toy cases, Expand == ExpandAlt on all, reference data sane" % r.distinct)
    vlib.write_ndjson(ctx.path("toy.ndjson"), toy)

    # 2. real code
    ctx.harness("./c06", "TestDump|TestToy", timeout=600)
    st = json.load(open(ctx.path("stats.json")))
    tst = json.load(open(ctx.path("toystats.json")))
    if tst["cases"] != len(toy):
        raise vlib.ToolError("toy replay incomplete")
    dump = vlib.read_ndjson(ctx.path("trace.ndjson"))
    toytrace = vlib.read_ndjson(ctx.path("toytrace.ndjson"))
    # header lines (versions, gomc) stay; the toy replay follows the dump (its own versions line is identical)
    recs = dump + [x for x in toytrace if x["ev"] == "reg"]
    header = [x for x in recs if x["ev"] in ("versions", "gomc")]
    body = [x for x in recs if x["ev"] not in ("versions", "gomc")]

    # 3. TLC judges every line in one pass and names the lines it refuses (register 2 -> "BAD")
    lines = header + body
    p = ctx.path("c06.ndjson")
    vlib.write_ndjson(p, lines)
    ok, matched, total, res = ctx.validate_trace("Registry_Trace", p, n_traces=0, timeout=900)
    nbad = res.printed("NBAD")
    if not nbad:
        raise vlib.ToolError("trace spec did not report its judgement:\n" + res.tail(40))
    bad_idx = sorted(set(int(x) for x in res.printed("BAD")))
    if len(bad_idx) != int(nbad[-1]):
        raise vlib.ToolError("trace spec reported %s refused lines, %d listed" % (nbad[-1], len(bad_idx)))
    consumed = int(res.printed("MATCHED")[-1])
    if consumed != len(lines):
        # a line no action could consume at all (malformed dump / header): never a verdict
        raise vlib.ToolError("dump line %d not consumable by the trace spec: %s" % (consumed + 1, lines[consumed]))
    if ok != (not bad_idx):
        raise vlib.ToolError("inconsistent trace verdict:\n" + res.tail(40))
    for i in bad_idx:
        report(ctx, lines[i - 1])
    judged = len(body)
    if ok:
        ctx.traces_validated += 1

    ref_cells = sum(1 for x in dump if x["ev"] == "cell" and x["proto"] <= 773)
    cov = {
        "samples": st["samples"] + [toytrace[1 + len(toytrace) // 2]],
        "evaluations": judged,
        "tables": st["tables"],
        "cells": st["cells"],
        "absent_cells_examined": st["absent_cells"],
        "supported_versions": st["versions"],
        "unknown_protocol_probes": st["unknown_probes"],
        "gomc_cells": st["gomc_cells"],
        "cells_in_reference_range": ref_cells,
        "concurrent_lookups": st["concurrent_lookups"],
        "concurrent_distinct_tables_judged": st["concurrent_tables"],
        "toy_cases_replayed": tst["cases"],
        "toy_cases_refused_by_register": tst["panics"],
        "distinct_nontrivial": sum(1 for x in dump if x["ev"] == "table" and len(x["byType"]) >= 2)
                               + sum(1 for x in toytrace if x["ev"] == "reg" and len(x["a"]) >= 2),
        "rule": "a table is non-trivial when it holds at least two packet types (bijection can fail); a toy case is "
                "non-trivial when type A has at least two mappings (range boundaries matter)",
        "reference_uncertain_cells_dropped": "all cells of protocols 774, 775, 776 (no independent source): structural "
                                             "invariants only",
        "exhaustive": True,
    }
    return ctx.finish("model_checking", cov, [
        "the reference table Ref is a transcription of Velocity's StateRegistry; protocol 764 is additionally checked "
        "against go-mc's table generated from the vanilla jar",
        "exhaustive = every cell of gate's registries; the toy enumerates all mapping lists up to length %d over 4 "
        "protocols x 2 ids (every order) for one type and 7 lists for a second type" % ctx.pick(2, 3),
    ])


def report(ctx, bad):
    ev = bad["ev"]
    if ev in ("ctable", "ccell"):
        ctx.finding("concurrent-lookup:%s/%s" % (bad["state"], bad["dir"]),
                    "ProtocolRegistry(%d) of %s %s, looked up while other protocols were looked up concurrently / "
                    "alternately, handed out a table that is not protocol %d's (it reports %s)"
                    % (bad["proto"], bad["state"], bad["dir"], bad["proto"], bad.get("reports", "a wrong id")), bad)
    elif ev == "cell":
        key = "id:%s/%s/%s@%d" % (bad["state"], bad["dir"], bad["t"], bad["proto"])
        ctx.finding(key, "gate maps %s (%s %s, protocol %d) to id %s; the reference table has a different id"
                    % (bad["t"], bad["state"], bad["dir"], bad["proto"],
                       "none" if bad["id"] < 0 else hex(bad["id"])), bad)
    elif ev == "table":
        ctx.finding("bijection:%s/%s@%d" % (bad["state"], bad["dir"], bad["proto"]),
                    "PacketID/CreatePacket of %s %s protocol %d are not mutually inverse functions"
                    % (bad["state"], bad["dir"], bad["proto"]), bad)
    elif ev == "unknown":
        ctx.finding("fallback:%s/%s" % (bad["state"], bad["dir"]),
                    "unknown protocol %d does not resolve to the lowest supported version's table in %s %s"
                    % (bad["proto"], bad["state"], bad["dir"]), bad)
    elif ev == "reg":
        shape = "len%d%s%s" % (len(bad["a"]), "+last" if bad["a"] and bad["a"][-1]["last"] else "",
                               "+b" if bad["b"] else "")
        ctx.finding("register:" + shape,
                    "Register(%s) / Register(%s) did not register the ranges the mappings denote"
                    % (bad["a"], bad["b"]), bad)
    else:
        raise vlib.ToolError("unexpected rejected line: %s" % bad)
