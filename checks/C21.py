"""C21 -- secure-chat packets keep client order and conserve acknowledgements.

1. TLC model-checks Chat.tla (the Velocity ChatQueue / ChatState machine: FIFO of tasks with
   one running head, asynchronous create / write phases, held acknowledgements) against the
   property invariants; a deliberately broken variant must violate them (non-vacuity).
2. TLC exports histories = (client packet sequence with command outcomes, schedule of recv /
   fin steps): simulated long ones, and every short one in thorough.
3. The Go harness replays each history on the real clientPlaySessionHandler / chatHandler /
   chatQueue (real proxy, event manager, command manager), forcing the completion order with
   a gate in the command goroutine and in the backend write, and records what the backend
   connection received.
4. TLC validates the recorded runs with Chat_Trace.tla, which recomputes the acknowledgement
   counters and requires only what the property states.
"""
import json
import random
import vlib

META = {
    "category": "model_checking",
    "text": "Chat.tla is the Velocity chat queue / chat state machine; TLC checks on it that the backend's "
            "acknowledgement count never exceeds the client's, lags by < 40, catches up with every forwarded "
            "packet carrying a last-seen update, and that unsigned commands neither carry nor flush held "
            "acknowledgements (broken variants violate). TLC then enumerates client packet sequences x command "
            "outcomes x completion orders; each is forced on the real play session handler, chat handler and "
            "chat queue through a gate in the asynchronous command goroutine and in the backend write; the "
            "packets the recording backend connection received are judged by TLC with Chat_Trace.tla, a weak "
            "acceptor that attributes every backend packet to a client packet in order and recomputes the "
            "client / backend acknowledgement counters.",
    "design_ref": "DESIGN.md section 4, C21",
    "level_note": "The trace acceptor is black-box: an explicit acknowledgement is attributed to the earliest "
                  "client packet that may have caused it, so forwarding held acknowledgements earlier than "
                  "Velocity would is not an alarm (the statement allows it). 'lags by fewer than 40' is judged on "
                  "the processed prefix of the client's packets (packets still queued behind an unfinished "
                  "command do not count). Chat events that deny / change chat messages are outside the "
                  "statement's quantifier and not replayed (one probe only demands that the chat queue survives a "
                  "plugin changing a signed message under forceKeyAuthentication, which disconnects the player); a command with signed arguments that the proxy has "
                  "to consume or rewrite may end in a disconnect when forceKeyAuthentication is on (as Velocity "
                  "does), after which only order and never-exceeds are judged. Client packets are handed to the "
                  "session handler as decoded packets (wire decoding is C03/C07's business).",
    "technique": "TLA+ machine + TLC model checking, TLC history/schedule export, forced replay on real code, "
                 "TLC trace validation",
}


def run(ctx):
    r = ctx.tlc("Chat", "Chat.cfg" if not ctx.quick else "Chat_quick.cfg", timeout=1500)
    mc = r.distinct
    ctx.log("Chat.tla (Velocity machine): %d distinct states, property invariants hold" % r.distinct)
    variants = ["ucmdflush"] if ctx.quick else ["ucmdflush", "rewritedrop", "sigdrop"]
    base = open(vlib.SPEC + "/Chat_broken.cfg").read()
    for v in variants:
        r = ctx.tlc("Chat", cfg_text=base.replace('"ucmdflush"', '"%s"' % v), allow_violation=True, count=False)
        if not r.violated:
            raise vlib.ToolError("broken variant %s of Chat.tla violates nothing: invariants vacuous" % v)
        ctx.log("Chat.tla variant %s: violates %s (non-vacuity ok)" % (v, r.violated))

    hists = []
    r = ctx.tlc("Chat", "Chat_export.cfg", workers=1, simulate=ctx.pick(200, 4000), depth=60, count=False,
                timeout=1500)
    sim = r.printed_json("HIST")
    for x in sim:
        x["origin"] = "simulate"
    hists += sim
    if not ctx.quick:
        r = ctx.tlc("Chat", "Chat_export2.cfg", workers=1, count=False, timeout=1500)
        ex = r.printed_json("HIST")
        for x in ex:
            x["origin"] = "exhaustive2"
        rnd = random.Random(ctx.seed)
        rnd.shuffle(ex)
        hists += ex[:9000]
    rnd = random.Random(ctx.seed * 31 + 7)
    n_ucmd = 0
    n_known = 0
    for x in hists:
        x["ucmd"] = x.pop("fam") == "1205"
        n_ucmd += x["ucmd"]
        x["fka"] = rnd.random() < 0.5
        # the known finding (1.20.5+, forceKeyAuthentication off, rewritten signed command) is kept
        # visible by a few histories only; the others of that class run with the default (on)
        rw = [i for i, p in enumerate(x["sent"]) if p["k"] == "scmd" and p["out"] == "rewritten"]
        if x["ucmd"] and rw:
            follow = any(p["k"] == "chat" or (p["k"] == "scmd" and p["out"] == "forwarded")
                         for p in x["sent"][rw[0] + 1:])
            if follow and n_known < ctx.pick(1, 3):
                x["fka"] = False
                n_known += 1
            else:
                x["fka"] = True
    ctx.log("histories: %d (%d for 1.20.5+ clients)" % (len(hists), n_ucmd))
    with open(ctx.path("hist.json"), "w") as fh:
        json.dump(hists, fh)

    ctx.harness("./c21", "TestReplay", race=not ctx.quick, timeout=1500)
    st = json.load(open(ctx.path("stats.json")))
    # probe in its own process: a plugin changes a signed chat message (forceKeyAuthentication on)
    import os
    pr = ctx.harness("./c21", "TestChangedSignedChat", check=False, timeout=600)
    if not os.path.exists(ctx.path("changed_begin.ndjson")):
        raise vlib.ToolError("probe did not start:\n" + "\n".join(pr.stdout.splitlines()[-30:]))
    probe = [{"ev": "reset", "fka": True, "proto": 765, "probe": True}] + vlib.read_ndjson(ctx.path("changed_begin.ndjson"))
    if os.path.exists(ctx.path("changed_end.ndjson")):
        probe += vlib.read_ndjson(ctx.path("changed_end.ndjson"))
    else:
        probe.append({"ev": "crashed", "rc": pr.returncode, "nil_deref": "nil pointer dereference" in pr.stdout})
    recs = probe + vlib.read_ndjson(ctx.path("trace.ndjson"))
    rejected, matched, tstates = ctx.validate_runs("Chat_Trace", recs, timeout=1500)
    for rj in rejected:
        ctx.finding(classify(rj), "backend packets of a real chat queue run are not allowed by C21 "
                    "(first unexplained event: %s)" % json.dumps(rj["bad"]), rj)
    if not rejected:      # an all-accepted run must have exercised the gates and every kind of outcome
        for gname in ("chat.create", "backend.write"):
            if not st["gate_arrivals"].get(gname):
                raise vlib.ToolError("hook_missing: gate %s never reached" % gname)
        if not st["outs"].get("chat") or not st["outs"].get("ack") or not st["proxy_command_runs"]:
            raise vlib.ToolError("vacuous run: outs=%s proxy runs=%s" % (st["outs"], st["proxy_command_runs"]))
    distinct = len({json.dumps([x["sent"], x["sched"]], sort_keys=True) for x in hists})
    cov = {
        "states": mc + tstates,
        "samples": st["samples"][:2],
        "evaluations": st["runs"],
        "distinct_nontrivial": distinct,
        "rule": "history = (client packet sequence with offsets / command outcomes, recv/fin schedule) exported by "
                "TLC; distinct = distinct (sequence, schedule) pairs; every one has >= 2 client packets",
        "histories_by_origin": st["by_origin"],
        "diverged_steps": st["diverged_steps"],
        "hung_runs": st["hung"],
        "disconnects": st["disconnects"],
        "backend_packets": st["outs"],
        "proxy_command_runs": st["proxy_command_runs"],
        "gate_arrivals": st["gate_arrivals"],
        "trace_events_validated": matched,
        "race_detector": not ctx.quick,
        "exhaustive": False,
    }
    return ctx.finish("model_checking", cov, [
        "gates only delay goroutines; a forced interleaving is a real execution",
        "texts of chat messages / commands are unique per history, so backend packets are attributable",
        "client packets enter as decoded packets through clientPlaySessionHandler.HandlePacket",
    ])


LOSSY = ("scmd:rewritten:sig", "scmd:rewritten", "scmd:consumed:sig", "scmd:denied:sig")


def cls(p):
    s = p["k"]
    if p["k"] in ("scmd", "ucmd"):
        s += ":" + p["out"] + (":sig" if p.get("sig") else "")
    return s


def classify(rj):
    """Finding key (diagnosis only, the verdict is TLC's): client family, forceKeyAuthentication, and
    the first client packet since the backend was last in step whose handling can only be proxy-made
    (rewritten command, consumed / denied command with signed arguments); else the unexplained event."""
    run, bad = rj["run"], rj["bad"] or {}
    reset = run[0]
    before = run[:rj["bad_index"]]
    sent = [x for x in before if x.get("ev") == "recv"]
    fam = "1.20.5+" if reset.get("proto", 0) >= 766 else "1.19.3-1.20.4"
    key = "%s:fka=%s" % (fam, str(reset.get("fka")).lower())
    ev = bad.get("ev")
    if reset.get("probe"):
        return "changed-signed-chat:fka=true:" + ("nil-future-panic" if bad.get("nil_deref") else str(ev))
    if ev == "hung":
        return key + ":hung"
    # last forwarded packet with last-seen that was accepted = last point where the backend was in step
    sync = 0
    for o in before:
        if o.get("ev") == "out" and o["k"] in ("chat", "scmd"):
            for p in sent:
                if o["txt"] in (p["txt"], p["rtxt"]):
                    sync = max(sync, p["i"])
    upto = len(sent)
    if ev == "out" and bad.get("txt"):
        for p in sent:
            if bad["txt"] in (p["txt"], p["rtxt"]):
                upto = p["i"]
    window = [cls(p) for p in sent if sync < p["i"] <= upto]
    lossy = [c for c in LOSSY if c in window]      # LOSSY is ordered: most proxy-made first
    if lossy:
        return key + ":acks-lost:" + lossy[0]
    key += ":" + str(ev)
    if ev == "out":
        key += ":" + str(bad.get("k"))
    return key + ":window:" + "+".join(window[-3:])
