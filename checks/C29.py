"""C29 -- Lite routes to the first route whose glob pattern matches the cleaned host.

1. TLC proves three TLA+ definitions of glob matching (recursive Match, position-set
   MatchDP, declarative wildcard assignments) equal on every pattern/host of an
   exhaustive small domain, plus laws of Clean and Subst; a line-mode matcher (what
   RE2's "." does without the s flag) must be told apart (non-vacuity).
2. TLC exports the pattern and host sets over the nasty alphabet
   {a B . * ? ( \\ LF e-acute}; the harness crosses them on the real
   lite.FindRouteWithGroups / FindRoute, adds seeded random longer inputs, every short
   ClearVirtualHost input, random route lists, parameter substitutions, and end-to-end
   routing decisions of lite.Forward (real proxy on TCP loopback, harness listeners on
   127.0.0.<$1>).
3. TLC re-evaluates the reference operators on every recorded line.
"""
import json
import vlib

META = {
    "category": "model_checking",
    "text": "TLA+ reference operators Clean, Match/MatchDP/Groups, FirstRoute and Subst (LiteRoute.tla) are "
            "cross-checked by TLC on an exhaustive small domain; TLC enumerates all patterns and hosts of length "
            "<= 3 over a nasty alphabet (regexp metacharacters, line feed, non-ASCII, both cases), the harness runs "
            "the real lite.FindRouteWithGroups/FindRoute on their cross product, on random longer inputs, random "
            "route lists, ClearVirtualHost, substituteBackendParams and end-to-end lite.Forward dial decisions, and "
            "TLC validates every recorded result against the operators (any valid wildcard assignment is accepted).",
    "design_ref": "DESIGN.md section 4, C29",
    "level_note": "Strings are valid UTF-8; case folding is checked for ASCII and Latin-1 letters only. Returned "
                  "groups are compared case-insensitively (the code returns them lower-cased). Templates with a digit "
                  "directly after a parameter or with out-of-range parameters are not generated (the statement does "
                  "not define them). Quick crosses only pattern/host pairs of combined length <= 4 (5 when the pattern has a wildcard); thorough the full "
                  "820 x 585 product. End-to-end cases are a fixed family of dialable route shapes.",
    "technique": "TLA+ reference operators, TLC exhaustive self-check, TLC vector export, TLC trace validation of "
                 "recorded real I/O",
}


def s(cps):
    return "".join(chr(c) for c in cps)


def classify(rec):
    ev = rec["ev"]
    if ev == "row":
        p, h = rec["p"], rec["hs"][0]
        wild = any(c in (42, 63) for c in p)
        if wild and 10 in h:
            return "match:wildcard-vs-linefeed"
        if any(c > 127 for c in p + h):
            return "match:non-ascii"
        if any(c in (40, 41, 46, 43, 91, 92, 93, 94, 36, 123, 124, 125) for c in p):
            return "match:regexp-metacharacter"
        return "match:other"
    if ev == "subst":
        if any(36 in g for g in rec["g"]):
            return "subst:group-text-contains-parameter"
        return "subst:other"
    if ev == "route":
        if 10 in rec["host"]:
            return "route:host-with-linefeed"
        h = s(rec["host"]).split("\x00")[0].split("///")[0].strip(".")
        if h == "":
            return "route:empty-cleaned-host:" + ("dialed" if rec["dialed"] else "not-routed")
        return "route:" + ("dialed-without-route" if rec["dialed"] else "other")
    return ev + ":other"


def describe(rec):
    ev = rec["ev"]
    if ev == "row":
        return "pattern %r vs host %r: real matched=%s groups=%r" % (
            s(rec["p"]), s(rec["hs"][0]), rec["ok"][0], [s(g) for g in rec["g"][0]])
    if ev == "subst":
        return "substituteBackendParams(%r, %r) = %r" % (s(rec["t"]), [s(g) for g in rec["g"]], s(rec["out"]))
    if ev == "clean":
        return "ClearVirtualHost(%r) = %r" % (s(rec["in"]), s(rec["out"]))
    if ev == "find":
        return "FindRouteWithGroups(%r, %r) -> route %d pattern %r groups %r" % (
            s(rec["h"]), [[s(p) for p in r] for r in rec["routes"]], rec["idx"], s(rec["pat"]),
            [s(g) for g in rec["g"]])
    if ev == "route":
        return "Forward with handshake host %r over routes %r (backends %r) dialled %r" % (
            s(rec["host"]), [[s(p) for p in r] for r in rec["routes"]], [s(t) for t in rec["tmpl"]],
            [s(d) for d in rec["dialed"]])
    return json.dumps(rec)


def split(rec):
    """one record per (pattern, host) pair so that the first failing pair can be named"""
    if rec["ev"] != "row":
        return [rec]
    out = []
    for i in range(len(rec["hs"])):
        out.append({"ev": "row", "p": rec["p"], "hs": [rec["hs"][i]], "ok": [rec["ok"][i]],
                    "okb": [rec["okb"][i]], "g": [rec["g"][i]]})
    return out


def run(ctx):
    r = ctx.tlc("LiteRoute", ctx.pick("LiteRoute.cfg", "LiteRoute_big.cfg"), timeout=1500)
    ctx.log("LiteRoute.tla: %d (pattern, host) pairs: Match == MatchDP == declarative groups; Clean/Subst laws"
            % r.distinct)
    nv = ctx.tlc("LiteRoute", "LiteRoute_nonl.cfg", allow_violation=True, count=False)
    if nv.violated != "LineModeAgrees":
        raise vlib.ToolError("line-mode matcher not told apart from Match: domain is vacuous (%s)" % nv.violated)
    ctx.log("line-mode matcher differs from Match on the domain (non-vacuity ok)")
    vec = ctx.tlc("LiteRoute", "LiteRoute_vec.cfg", workers=1, count=False).printed_json("VEC")
    if len(vec) != 1:
        raise vlib.ToolError("expected one VEC line, got %d" % len(vec))
    vec = vec[0]
    with open(ctx.path("vec.json"), "w") as fh:
        json.dump(vec, fh)
    ctx.log("vectors: %d patterns x %d hosts" % (len(vec["pats"]), len(vec["hosts"])))

    ctx.harness("./c29", "TestTrace", timeout=1500,
                env={"VERIF_N": ctx.pick(600, 6000), "VERIF_FIND": ctx.pick(800, 8000),
                     "VERIF_SUBST": ctx.pick(600, 6000), "VERIF_E2E": ctx.pick(120, 1200)})
    st = json.load(open(ctx.path("stats.json")))
    recs = vlib.read_ndjson(ctx.path("trace.ndjson"))
    ctx.log("trace: %d lines, %d pattern/host pairs" % (len(recs), st["pairs"]))

    ok, matched, total, res = ctx.validate_trace("LiteRoute_Trace", ctx.path("trace.ndjson"), timeout=1500)
    tries = 0
    rest = recs
    while not ok and tries < 14:
        bad = rest[matched]
        parts = split(bad)
        if len(parts) > 1:
            # locate the failing pairs of this row
            p = ctx.path("row%d.ndjson" % tries)
            vlib.write_ndjson(p, parts)
            k = 0
            while k < 4:
                ok2, m2, t2, _ = ctx.validate_trace("LiteRoute_Trace", p, n_traces=0)
                if ok2:
                    break
                ctx.finding(classify(parts[m2]), describe(parts[m2]), parts[m2])
                parts = parts[m2 + 1:]
                if not parts:
                    break
                vlib.write_ndjson(p, parts)
                k += 1
        else:
            ctx.finding(classify(bad), describe(bad), bad)
        rest = rest[matched + 1:]
        if not rest:
            break
        p = ctx.path("rest%d.ndjson" % tries)
        vlib.write_ndjson(p, rest)
        ok, matched, total, res = ctx.validate_trace("LiteRoute_Trace", p, n_traces=0, timeout=1500)
        tries += 1
    if not ok and tries >= 14:
        ctx.notes.append("stopped after 14 rejected lines; the rest of the trace was not examined")

    cov = {
        "samples": st["samples"],
        "evaluations": st["pairs"] + st["cleans"] + st["finds"] + st["substs"] + st["e2e"],
        "distinct_nontrivial": st["nontrivial"],
        "rule": "(pattern, host) pairs where the pattern contains a wildcard and the host is not empty; pairs come "
                "from the TLC-enumerated cross product (distinct by construction) and seeded random derivations",
        "pattern_host_pairs": st["pairs"],
        "pairs_matched": st["matched"],
        "pairs_wildcard_vs_linefeed": st["newline_pairs"],
        "clean_inputs": st["cleans"],
        "route_lists": st["finds"],
        "route_lists_with_match": st["find_hits"],
        "substitutions": st["substs"],
        "end_to_end_connections": st["e2e"],
        "end_to_end_without_dial": st["e2e_no_route"],
        "trace_lines": len(recs),
        "exhaustive": False,
    }
    return ctx.finish("model_checking", cov, [
        "hosts and patterns are valid UTF-8; case folding beyond ASCII/Latin-1 is not exercised",
        "the Forge suffix is everything from the first NUL, the TCPShield suffix everything from the first '///'",
        "end-to-end: the dialled address is observed as the local address of the connection the harness "
        "listener (bound to 0.0.0.0) accepted",
    ])
