"""C31 -- Lite forwards the connection unchanged apart from configured rewrites.

1. TLC checks the byte-level reference operators of LiteForward.tla on all combinations
   of small field values: the handshake codec round-trips, gate-style rewrites are
   accepted and an unrelated address is rejected (69 120 cases; 11 520 in quick), and exports the cases
   (route options x host x protocol x port x intent x handshake shape x delivery).
2. The harness instantiates each (sampled) case on a real Lite proxy over TCP loopback:
   real client socket, harness listener as backend capturing every byte, random further
   bytes in both directions (64 KiB / 1 MiB streams every n-th case).
3. TLC parses what the backend received (PROXY v2/v1 header, VarInt frame, handshake
   fields) and validates both byte streams.
"""
import json
import random
import vlib

META = {
    "category": "model_checking",
    "text": "TLA+ byte-level operators (PROXY v1/v2 parser, VarInt frame, handshake decoder, virtual-host and "
            "TCPShield rewrite rules) are self-checked by TLC over 69 120 field combinations; TLC enumerates the "
            "cases (8 option subsets x 18 hosts (among them addresses with 300 / 1000 bytes of appended forwarding-like data and 255 two-byte characters) x protocols x ports x intents x 4 handshake shapes x 5 deliveries, among them 'grouped' = three concurrent connections held after the handshake re-encode and 'after-failed-backend' = a refusing backend on the same host is tried first); "
            "the harness runs them through the real lite.Forward over real TCP (harness listener as backend, random "
            "byte streams both ways) and TLC validates the recorded backend and client streams byte for byte "
            "(long tails by SHA-256 chunk digests).",
    "design_ref": "DESIGN.md section 4, C31",
    "level_note": "The handshake payload must be identical when no rewrite applies; the VarInt framing it only has "
                  "to decode to its length. When virtual-host rewriting applies only the cleaned host must become the "
                  "backend host with the suffix preserved; for TCPShield real-IP the address must end in "
                  "///<client ip:port>///<unix time in the connection's window>[Forge tail] after either the sent "
                  "name or the sent address up to the Forge marker (the statement does not define the format further). "
                  "Trailing bytes of a rewritten handshake packet are not required. The PROXY header must carry the "
                  "client's address as source; the destination is not checked. Clients are IPv4 loopback; cases are "
                  "sampled (quick 400 of 11 520 with two protocols and one port, thorough 6000 of 69 120). SHA-256 is Go's crypto/sha256.",
    "technique": "TLA+ reference operators, TLC exhaustive self-check and case export, real TCP replay, TLC trace "
                 "validation of recorded byte streams",
}


def bs(x):
    return bytes(x).decode("latin-1")


def run(ctx):
    r = ctx.tlc("LiteForward", ctx.pick("LiteForward_q.cfg", "LiteForward_cases.cfg"), workers=1, timeout=1800)
    ctx.log("LiteForward.tla: %d cases: codec round trip, rewrite rules accept gate-style / reject foreign addresses"
            % r.distinct)
    cases = r.printed_json("CASE")
    if len(cases) != r.distinct:
        raise vlib.ToolError("exported %d cases of %d" % (len(cases), r.distinct))
    rnd = random.Random(ctx.seed)
    rnd.shuffle(cases)
    cases = cases[:ctx.pick(400, 6000)]
    with open(ctx.path("cases.json"), "w") as fh:
        json.dump(cases, fh)
    ctx.log("cases: %d" % len(cases))
    ctx.harness("./c31", "TestForward", timeout=2400,
                env={"VERIF_BIG_EVERY": ctx.pick(60, 150), "VERIF_BIG_SIZE": ctx.pick(1 << 16, 1 << 20)})
    st = json.load(open(ctx.path("stats.json")))
    if not st["connections_held_at_fw_updated"]:
        raise vlib.ToolError("hook_missing: no connection was held at fw.updated: %s" % st)
    recs = vlib.read_ndjson(ctx.path("trace.ndjson"))
    ctx.log("trace: %d forwards, %d client bytes, %d backend bytes" % (len(recs), st["client_bytes"],
                                                                     st["backend_bytes"]))
    ok, matched, total, res = ctx.validate_trace("LiteForward_Trace", ctx.path("trace.ndjson"), timeout=1800)
    rest = recs
    tries = 0
    while not ok and tries < 12:
        bad = rest[matched]
        opts = "+".join(k for k in ("pp", "mvh", "tcps") if bad[k]) or "none"
        host = bs(bad["host"])
        name = host.split("\x00")[0].split("///")[0].strip(".")
        applied = []
        if bad["mvh"] and name.lower() != bs(bad["bh"]).lower():
            applied.append("mvh")
        if bad["tcps"] and "///" in host:
            applied.append("tcps")
        if bad["clen"] != bad["klen"] or bad["chead"] != bad["khead"] or bad["cdig"] != bad["kdig"]:
            what = "client-stream"
        elif bad["blen"] == 0:
            what = "nothing-forwarded"
        else:
            what = "backend-stream"
        hk = "empty-host" if name == "" else ("tcpshield-host" if "///" in host else
                                              ("forge-host" if "\x00" in host else "plain-host"))
        # key: what differs, which rewrites applied (else the shape and whether a PROXY header was on), host class
        kopt = "+".join(applied) if applied else ("norewrite:%s:%s" % (bad["shape"], "pp" if bad["pp"] else "nopp"))
        if len(bad["host"]) > 255:
            hk += ":address-longer-than-255-bytes"
        if bad["delivery"] == "grouped":
            hk += ":concurrent-connections"
        if bad["delivery"] == "after-failed-backend":
            hk += ":after-failed-backend"
        ctx.finding("%s:%s:%s" % (what, kopt, hk),
                    "forward with options %s, handshake host %r (%s, %s): backend received %d bytes (head %s...), "
                    "client sent %d after the handshake; client received %d of %d backend bytes"
                    % (opts, host, bad["shape"], bad["delivery"], bad["blen"],
                       bytes(bad["bhead"][:120]).hex(), bad["rlen"], bad["clen"], bad["klen"]), bad)
        rest = rest[matched + 1:]
        if not rest:
            break
        p = ctx.path("rest%d.ndjson" % tries)
        vlib.write_ndjson(p, rest)
        ok, matched, total, res = ctx.validate_trace("LiteForward_Trace", p, n_traces=0, timeout=1800)
        tries += 1
    cov = {
        "samples": st["samples"][:2] + [{"cases": st["cases"]}],
        "evaluations": st["cases"],
        "distinct_nontrivial": st["cases_with_rewrite_options_and_matching_host"],
        "rule": "cases in which a rewrite actually applies (modifyVirtualHost with a host different from the backend's, "
                "or tcpShieldRealIP with a TCPShield-format host); cases are distinct TLC-enumerated tuples",
        "cases_run": st["cases"],
        "cases_skipped_transfer_before_1_20_5": st["skipped"],
        "by_shape": st["by_shape"],
        "by_delivery": st["by_delivery"],
        "by_options": st["by_options"],
        "big_streams": st["big_streams"],
        "concurrent_groups": st["concurrent_groups"],
        "connections_held_at_fw_updated": st["connections_held_at_fw_updated"],
        "client_bytes": st["client_bytes"],
        "backend_bytes": st["backend_bytes"],
        "exhaustive": False,
    }
    return ctx.finish("model_checking", cov, [
        "client and backend are IPv4 loopback sockets; the client's real address is what its socket reports",
        "long stream tails are compared through SHA-256 digests of 4096-byte chunks (Go crypto/sha256)",
        "the backend host name used for rewriting is the host part of the configured backend address",
    ])
