"""C01 -- packet frames survive compression, encryption and arbitrary stream chunking.

1. TLC model-checks Framing.tla: a writer (envelope rule), an abstract stream cipher and
   abstract zlib, every chunking of the byte stream and every interleaving of writes,
   arrivals and reads, with the reader cutting frames by lib/FrameRules.tla; invariants:
   deliveries are a prefix of the non-empty payloads sent, the reader never rejects, and at
   quiescence everything was delivered.  The naive writer that compresses an empty payload
   at threshold 0 must violate them (non-vacuity).
2. TLC enumerates / draws the scenario classes (FramingScen.tla: size class x threshold
   relative to the size x level x encryption x late switch x chunking x contents).
3. The Go harness runs every scenario on the real netmc writer/reader pair over an in-memory
   connection with that chunking and records the frames as an independent parser sees them
   (own VarInt, own CFB8 over crypto/aes, compress/zlib) and the payloads delivered.
   Every other late-switch connection leaves the first payload unflushed in the writer while
   encryption / compression are switched on.  One more connection carries 45 000 small compressed + encrypted packets through a single
   writer/reader pair (long-lived state: buffer pools, zlib and cipher re-use).
4. TLC validates the recorded connections (Framing_Trace.tla).
"""
import json
import vlib

META = {
    "category": "model_checking",
    "text": "Framing.tla models writer, wire, chunked arrival and reader at byte level with uninterpreted zlib/cipher; "
            "TLC explores every chunking and interleaving for small payload alphabets, thresholds -1..3, encryption "
            "on/off and a mid-stream switch of both, and proves the delivery invariants (and finds the violation of "
            "the naive empty-payload envelope). Scenario classes drawn by TLC are then run on the real "
            "netmc.Writer/Reader (codec.Encoder/Decoder, CFB8 wrappers) with real zlib levels, AES secrets and "
            "chunk policies; an independent parser (own VarInt, own CFB8 over crypto/aes, compress/zlib) measures each "
            "frame on the wire and TLC judges frames (a conforming reader must accept each as exactly the written "
            "payload) and deliveries (exactly the non-empty payloads, in order, clean end of stream).",
    "design_ref": "DESIGN.md section 4, C01",
    "level_note": "A 0-byte payload is an empty frame which readers skip by design: required is that it is not delivered "
                  "as anything else and does not disturb its neighbours. A frame that would exceed 2^21-1 bytes "
                  "(incompressible payload near the maximum with compression on) cannot be carried by the protocol; "
                  "after one, only 'nothing wrong is delivered' is required. Payloads start with a one-byte packet id "
                  "(0x7e) unknown to the empty registry the reader runs with. zlib/AES are uninterpreted in the specs "
                  "and instantiated by Go's standard library in the harness. Sizes are boundary classes, thresholds are "
                  "chosen relative to the size; payload bytes are compared by length + FNV-1a hash. Writes are completed "
                  "before the reader starts (the chunking, not concurrency, is the quantifier).",
    "technique": "TLA+ spec + TLC exhaustive exploration of chunkings, TLC-drawn scenarios replayed on real code, TLC "
                 "trace validation",
}


def run(ctx):
    r = ctx.tlc("Framing", ctx.pick("Framing_quick.cfg", "Framing.cfg"), workers=ctx.pick(4, None), timeout=1500)
    ctx.log("Framing.tla: %d distinct states (every chunking / interleaving), invariants hold" % r.distinct)
    if not ctx.quick:
        rn = ctx.tlc("Framing", "Framing_naive.cfg", allow_violation=True, count=False, workers=1)
        if not rn.violated:
            raise vlib.ToolError("naive empty-payload envelope violates nothing: invariants vacuous")
        ctx.log("Framing.tla (empty payload compressed at threshold 0): violates %s (non-vacuity ok)" % rn.violated)

    rs = ctx.tlc("FramingScen", ctx.pick("FramingScen_quick.cfg", "FramingScen.cfg"), workers=1, count=False)
    scens = rs.printed_json("SCEN")
    if len(scens) < 100:
        raise vlib.ToolError("scenario export too small: %d" % len(scens))
    with open(ctx.path("scenarios.json"), "w") as fh:
        json.dump(scens, fh)
    ctx.log("%d scenarios drawn by TLC" % len(scens))

    # plus one long-lived connection (45 000 small compressed, encrypted packets through one writer/reader
    # pair): state that builds up over a connection's life (buffer pools, zlib/cipher re-use)
    ctx.harness("./c01", "TestScenarios", timeout=1500, env={"VERIF_LONG": ctx.pick(45000, 120000)})
    st = json.load(open(ctx.path("stats.json")))
    recs = vlib.read_ndjson(ctx.path("trace.ndjson"))
    # one pass in diagnose mode: a forbidden line is printed as <<"BAD", line>>, the rest of that
    # connection is skipped, the trace goes on (Framing_Trace.cfg would stop at the first)
    ok, matched, total, res = ctx.validate_trace("Framing_Trace", ctx.path("trace.ndjson"),
                                                 cfg="Framing_Trace_diag.cfg", n_traces=0)
    if not ok:
        raise vlib.ToolError("trace not consumed in diagnose mode (machinery bug) at line %d: %s"
                             % (matched + 1, json.dumps(recs[min(matched, len(recs) - 1)])))
    ctx.states += res.distinct
    bad_lines = sorted({int(x) for x in res.printed("BAD")})
    for ln in bad_lines:
        i = ln - 1
        bad = recs[i]
        start = i
        while recs[start].get("ev") != "reset":
            start -= 1
        end = i + 1
        while end < len(recs) and recs[end].get("ev") != "reset":
            end += 1
        head = recs[start]
        thr = head["thr"]
        for rr in recs[start:i]:
            if rr.get("ev") == "setcomp":
                thr = rr["thr"]
        key = classify(bad, thr)
        ctx.finding(key, "connection (dir %s, threshold %s, level %s, enc %s, chunk %s): %s"
                    % (head.get("dir"), thr, head.get("level"), head.get("enc"), head.get("chunk"),
                       json.dumps(bad)), {"run": recs[start:end], "bad_index": i - start})
    ctx.traces_validated += st["Scenarios"] - len(bad_lines)
    cov = {
        "samples": st["Samples"][:2] + [{"scenario": scens[0]}],
        "evaluations": st["Writes"] + st["Reads"],
        "distinct_nontrivial": len([c for c in st["Classes"] if not c.startswith("plain/enc=False")]),
        "rule": "distinct scenario classes (envelope mode x encryption x late switch x chunk policy) that involve "
                "compression or encryption",
        "scenarios": st["Scenarios"],
        "by_mode": st["ByMode"],
        "by_chunk": st["ByChunk"],
        "payloads_written": st["Writes"],
        "payloads_delivered": st["Reads"],
        "wire_bytes": st["WireBytes"],
        "conn_reads": st["ConnReads"],
        "trace_lines_validated": matched,
        "connections_rejected": len(bad_lines),
        "exhaustive": False,
    }
    return ctx.finish("model_checking", cov, [
        "zlib and AES/CFB8 are instantiated by Go's standard library in the harness",
        "the in-memory connection delivers exactly the chunks of the scenario's policy",
    ])


def classify(bad, thr):
    ev = bad.get("ev")
    if ev == "write":
        n = bad.get("len")
        size = "empty" if n == 0 else ("len<thr" if n < thr else "len=thr" if n == thr else "len>thr")
        if thr < 0:
            size = "empty" if n == 0 else "plain"
        return "frame:%s:thr%s:claimed%s" % (size, "0" if thr == 0 else ("-off" if thr < 0 else ">0"),
                                             "0" if bad.get("claimed") == 0 else
                                             ("=len" if bad.get("claimed") == n else "-other"))
    if ev == "read":
        return "delivery:unexpected-payload"
    if ev == "end":
        return "end:%s" % bad.get("err")
    return "line:%s" % ev
