"""C37 -- validation accepts exactly the documented configuration space.

1. TLC: ConfigValid.tla abstracts a configuration to one atom per documented constraint.  Two
   readings of the documentation (the set of broken constraints / "every atom that is looked at in
   this mode has a documented good value") agree on every enumerated configuration: baseline, all
   single and pair deviations (triples in thorough), Lite off and on.  Both verdicts occur.
2. TLC exports every abstract configuration; the harness concretises each (several concrete
   realisations per atom value, seeded) on config.DefaultConfig, calls the real Validate() and
   records whether it reported errors.
3. Every accepted configuration (plus seeded "rich" accepted configurations that use the settings
   the atoms leave alone) is serialized as YAML / JSON (by pointer and by value) and re-read with
   the real strict decoder and the real file loader; SHA-256 fingerprints of the JSON view (gate's own
   notion of equal configurations) before and after are recorded.
4. TLC validates the trace: invalid <=> ~Valid(atoms); every round trip loads, keeps the
   fingerprint and stays valid.
"""
import json
import re
import vlib

META = {
    "category": "model_checking",
    "text": "A TLA+ model of the documented constraints over one atom per constraint (two readings checked "
            "equal by TLC on every enumerated configuration: baseline, all single/pair (thorough: triple) "
            "deviations, Lite off/on) judges the real Validate() on concretised configurations (errors iff a "
            "documented constraint is broken), and TLC checks on the recorded trace that every accepted "
            "configuration survives YAML and JSON serialize-and-reload through the real strict decoder and "
            "file loader with unchanged fingerprints.",
    "design_ref": "DESIGN.md section 4, C37",
    "level_note": "The spec pins the constraint list named in the property (bind, server names/addresses, try, "
                  "forced hosts, forwarding mode, compression, enabled quotas, Lite routes/strategies/backends, "
                  "trusted proxies); health/via/bedrock/API sections stay at their defaults. Concrete realisations "
                  "of an atom value are sampled from small pools. 'Unchanged' is gate's own notion of equal "
                  "configurations (configsEqual / the version hash: the JSON encoding), judged on SHA-256 "
                  "fingerprints (crypto/sha256 in the harness); YAML/JSON parsing itself is the real library, "
                  "not modelled. Forced-host keys are lower case (the loader normalises case).",
    "technique": "TLA+ constraint model, TLC enumeration of boundary configurations, TLC trace validation of the real Validate() and loaders",
}


def rt_key(rec):
    """mode + the first setting that differs (reported by the harness; labels only, the verdict is TLC's)."""
    if not rec["load_ok"]:
        return "roundtrip:%s:load-error:%s" % (rec["mode"], re.sub(r"[^A-Za-z]+", "-", rec.get("error", ""))[:40])
    first = rec.get("diff", "").split(":")[0]
    setting = ".".join(first.split(".")[:3])       # e.g. config.status.Motd, config.onlineMode
    return "roundtrip:%s:%s" % (rec["mode"], setting or ("not-valid" if not rec["still_valid"] else "?"))


def run(ctx):
    r = ctx.tlc("ConfigValid", ctx.pick("ConfigValid.cfg", "ConfigValid_big.cfg"), timeout=1500)
    ctx.log("ConfigValid.tla: %d abstract configurations, both readings of the documentation agree" % r.distinct)
    for cfg in ("ConfigValid_allvalid.cfg", "ConfigValid_allinvalid.cfg"):
        m = ctx.tlc("ConfigValid", cfg, allow_violation=True, count=False)
        if not m.violated:
            raise vlib.ToolError("%s not violated: enumeration is vacuous" % cfg)
    v = ctx.tlc("ConfigValid", ctx.pick("ConfigValid_vec.cfg", "ConfigValid_bigvec.cfg"), count=False, timeout=1500)
    cfgs = v.printed_json("CFG")
    if len(cfgs) != r.distinct:
        raise vlib.ToolError("exported %d of %d configurations" % (len(cfgs), r.distinct))
    with open(ctx.path("cfgs.json"), "w") as fh:
        json.dump(cfgs, fh)
    ctx.harness("./c37", "TestValidate", env={"VERIF_REPS": ctx.pick(1, 1), "VERIF_RICH": ctx.pick(150, 1500)},
                timeout=1500)
    st = json.load(open(ctx.path("stats.json")))
    ctx.log("harness: %d concrete configurations validated (%d accepted, %d rejected), %d round trips"
            % (st["configs"], st["accepted"], st["rejected"], st["roundtrips"]))
    if not st["accepted"] or not st["rejected"]:
        raise vlib.ToolError("degenerate run: %s" % st)

    recs = vlib.read_ndjson(ctx.path("trace.ndjson"))
    total = len(recs)
    # one TLC pass: the trace spec reports every line it rejects (<<"BAD", line>>)
    ok, matched, tot, res = ctx.validate_trace("ConfigValid_Trace", ctx.path("trace.ndjson"), n_traces=1,
                                               timeout=1500)
    bad_lines = sorted({int(x) for x in res.printed("BAD")})
    if not ok and not bad_lines:
        raise vlib.ToolError("trace not accepted but no line named:\n" + res.tail(40))
    matched_total = total - len(bad_lines)
    bad = [recs[i - 1] for i in bad_lines]

    def devs(rec):
        return frozenset("%s=%s" % (k, val) for k, val in rec["atoms"].items() if val != BASE.get(k))
    vbad = []
    for b in bad:
        if b["ev"] != "validate":
            continue
        if not b.get("validate_pure", True):
            ctx.finding("validate:mutates-config", "Validate() changed the configuration it was given", b)
        else:
            vbad.append(b)
    # labels: name the deviation shared by most misjudged configurations (greedy cover), so one
    # wrong constraint gives one finding however many enumerated configurations contain it
    for what in ("accepts", "rejects"):
        left = [b for b in vbad if b["invalid"] == (what == "rejects")]
        while left:
            count = {}
            for b in left:
                for d in (devs(b) or {"baseline"}):
                    count[d] = count.get(d, 0) + 1
            top = sorted(count, key=lambda d: (-count[d], d))[0]
            hit = [b for b in left if top in (devs(b) or {"baseline"})]
            ex = min(hit, key=lambda b: len(devs(b)))
            ctx.finding("validate:%s:%s" % (what, top),
                        "Validate() %s %d enumerated configuration(s) with %s that the documented constraints %s, e.g. %s"
                        % (what, len(hit), top, "forbid" if what == "accepts" else "allow",
                           json.dumps({"deviating": sorted(devs(ex)), "lite": ex["lite"], "messages": ex["messages"]})[:500]),
                        {"example": ex, "count": len(hit)})
            left = [b for b in left if b not in hit]
    for b in bad:
        if b["ev"] == "roundtrip":
            ctx.finding(rt_key(b), "an accepted configuration does not survive the %s round trip: %s"
                        % (b["mode"], b.get("error") or b.get("diff") or
                           ("no longer valid" if not b.get("still_valid") else "fingerprints differ")), b)

    cov = {
        "samples": st["samples"][:3],
        "evaluations": total,
        "distinct_nontrivial": len(cfgs) - 2,
        "rule": "abstract configuration = baseline with <= %d deviating atoms, Lite off/on; non-trivial = at least one "
                "atom deviates from the DefaultConfig-like baseline" % ctx.pick(2, 3),
        "abstract_configurations": len(cfgs),
        "concrete_configurations": st["configs"],
        "accepted": st["accepted"],
        "rejected": st["rejected"],
        "roundtrips": st["roundtrips"],
        "rich_accepted_configurations": st["rich"],
        "trace_events_validated": matched_total,
        "exhaustive": False,
    }
    return ctx.finish("model_checking", cov, [
        "abstract configurations are enumerated exhaustively up to the deviation bound; their concrete realisations are sampled",
        "sections not named by the property (health service, via, bedrock, api) stay at DefaultConfig values",
    ])


BASE = {"bind": "ok", "sname": "ok", "saddr": "ok", "try": "ok", "forced": "ok", "mode": "legacy", "level": -1,
        "thr": 256, "qcEn": True, "qcOps": "pos", "qcBurst": 1, "qcMax": 1, "qlEn": True, "qlOps": "pos",
        "qlBurst": 1, "qlMax": 1, "trusted": "default", "routes": "two", "rhost": "ok", "rbackend": "ok",
        "strat": "", "baddr": "ok"}
