"""C39 -- Floodgate identity data is authentic and interoperable with Floodgate.

1. Floodgate.tla: the envelope HEADER B64(iv) "!" B64(AEAD(key, iv, record)) with AEAD and
   Base64 uninterpreted; TLC enumerates key sizes x record shapes x what was done to the
   hostname (17 kinds: byte changed in header / iv / splitter / ciphertext / tag, other key,
   swapped iv, short / long iv, missing parts, bad base64, extra NUL, ...) and checks that a
   stage-by-stage decoder meets the statement on all 2754 cases (key bytes random / all Base64
   alphabet characters / such text ending in "==") (a decoder without the
   authenticity stage does not); the cases are exported.
2. The harness owns a Floodgate-style reference encoder / decoder over crypto/aes,
   cipher.NewGCM, encoding/base64; it builds every case for the real ReadHostname, replaces
   every single byte of valid hostnames (9 replacement values per position), and decodes
   what the real WriteHostname produces -- also encodings that were kept (uncopied) while
   later ones were made on the same Floodgate, and hostnames written by several goroutines
   at the same time.
3. TLC judges: expected reject => error, expected fields => the typed fields equal the
   record, never a panic; proxy-written hostnames decode under the reference decoder to
   the same fields.
"""
import json
import vlib

META = {
    "category": "model_checking",
    "text": "Floodgate.tla specifies the hostname envelope with AES-GCM and Base64 abstract but authentic; TLC checks a "
            "staged decoder against the statement on every combination of key size, record shape and 17 kinds of "
            "alteration, and exports the 2754 cases (3 key sizes x 3 kinds of key bytes). A harness-owned Floodgate-style encoder/decoder (Go standard library "
            "only) builds each case for the real ReadHostname, sweeps single-byte replacements over valid hostnames, and "
            "reads back the real WriteHostname output; TLC validates the recorded outcomes and field values.",
    "design_ref": "DESIGN.md section 4, C39",
    "level_note": "Interoperability is relative to the harness's transcription of Floodgate's AesCipher / Base64Topping / "
                  "BedrockData (Java's Base64 decoder is represented by Go's StdEncoding). A replaced byte that still "
                  "decodes to the same iv and ciphertext bytes (spare Base64 bits) is not an alteration of the data. "
                  "Records Floodgate would not produce (11/13 fields, empty username, xuid 0 / non numeric) are left "
                  "open apart from 'no panic'. Changes inside the original host name or the :port suffix are not "
                  "identity data.",
    "technique": "TLA+ spec with abstract AEAD, TLC case enumeration, reference encoder/decoder over the Go standard "
                 "library, TLC trace validation",
}


def run(ctx):
    r = ctx.tlc("Floodgate", workers=1)
    cases = r.printed_json("CASE")
    if len(cases) != r.distinct:
        raise vlib.ToolError("exported %d cases for %d states" % (len(cases), r.distinct))
    ctx.log("Floodgate.tla: %d cases, staged decoder meets the statement" % r.distinct)
    rb = ctx.tlc("Floodgate", "Floodgate_noauth.cfg", allow_violation=True, count=False)
    if rb.violated != "DecoderMeetsStatement":
        raise vlib.ToolError("decoder without authenticity check not caught")
    with open(ctx.path("cases.json"), "w") as fh:
        json.dump(cases, fh)
    ctx.harness("./c39", "TestTrace", env={"VERIF_WRITES": ctx.pick(120, 1200),
                                           "VERIF_CONC_WRITES": ctx.pick(40, 400)}, timeout=900)
    st = json.load(open(ctx.path("stats.json")))
    ctx.log("harness: %d reads %s, %d byte mutations (%d aliases), %d writes %s" % (
        st["reads"], st["read_outcomes"], st["byte_mutations"], st["mutations_decoding_to_same_bytes"],
        st["writes"], st["write_outcomes"]))
    recs = vlib.read_ndjson(ctx.path("trace.ndjson"))
    total = len(recs)
    path = ctx.path("trace.ndjson")
    judged, tries = 0, 0
    while True:
        ok, matched, tot, res = ctx.validate_trace("Floodgate_Trace", path, n_traces=0, timeout=900)
        judged += matched
        if ok:
            break
        bad = recs[matched]
        ev = bad["ev"]
        if ev == "read":
            c = bad["case"]
            key = "read:%s%s%s:%s" % (c["mut"], "+wrongkey" if c["wrongkey"] and c["mut"] == "none" else "",
                                      "+key-" + c["keykind"] if c["keykind"] != "random" and c["mut"] in ("none", "port") else "",
                                      bad["out"])
            desc = "ReadHostname on a hostname with alteration %r (key %d bytes %s, wrong key %s, record %s) gave %s %s" % (
                c["mut"], c["ks"], c["keykind"], c["wrongkey"], c["shape"], bad["out"], bad.get("msg", ""))
        elif ev == "mut":
            key = "bytechange:%s:%s" % (bad["region"], bad["out"])
            desc = "hostname with byte %d at position %d (%s part) gave %s %s" % (
                bad["byte"], bad["pos"], bad["region"], bad["out"], bad.get("msg", ""))
        else:
            key = "write%s:%s" % (":" + bad["kind"] if bad.get("kind") else "", bad["out"])
            desc = "WriteHostname output is not read back to the same fields by the reference decoder (%s)" % (
                bad.get("msg") or json.dumps(bad.get("ref"))[:200])
        ctx.finding(key, desc, bad)
        recs = recs[matched + 1:]
        tries += 1
        if not recs or tries >= 8:
            break
        path = ctx.path("rest%d.ndjson" % tries)
        vlib.write_ndjson(path, recs)
    ctx.traces_validated += judged
    if not st["read_outcomes"].get("ok") or not st["read_outcomes"].get("err") or not st["write_outcomes"].get("ok"):
        raise vlib.ToolError("outcomes not all exercised: %s" % st)
    cov = {
        "samples": st["samples"],
        "evaluations": total,
        "records_judged": judged,
        "distinct_nontrivial": len([c for c in cases if c["mut"] != "none" or c["wrongkey"]]),
        "rule": "TLC-exported cases with an alteration or a foreign key (every one must be rejected)",
        "cases": len(cases),
        "read_outcomes": st["read_outcomes"],
        "byte_mutations": st["byte_mutations"],
        "mutation_outcomes": st["mutation_outcomes"],
        "mutations_decoding_to_same_bytes": st["mutations_decoding_to_same_bytes"],
        "held_encodings_decoded_later": st["held_encodings"],
        "concurrent_writes": st["concurrent_writes"],
        "writes": st["writes"],
        "write_outcomes": st["write_outcomes"],
        "exhaustive": False,
    }
    return ctx.finish("model_checking", cov, [
        "AES-GCM and Base64 are Go's crypto/aes, crypto/cipher, encoding/base64 in the harness (uninterpreted in the spec)",
        "the reference encoder/decoder is the harness's transcription of Floodgate's Java classes",
    ])
