"""C44 -- connections tear down exactly once and survive handler panics.

1. TLC model-checks the code-shaped ConnClose.tla (sync.Once respected, recover() present):
   at most / exactly one teardown, closed once a closer returned, later writes closed, alive.
2. Non-vacuity: with the Once treated as a plain flag TLC finds the double teardown; without
   recover() TLC finds the dead process.  The lock-agnostic variant exports every gate-point
   interleaving of 2 threads (all closer kinds incl. write error and read-loop EOF with handler
   panics, handler switches via SetActiveSessionHandler with and without a write in Activated(),
   underlying Close failing or not)
   and sampled 3-closer ones; a one-thread model exports every handler-fault sequence of
   length <= 3 over {none, panic(error), panic(string), runtime error, panic(nil)}.
3. The Go harness, in a CHILD process, forces the schedules on a real MinecraftConn (real read
   loop, SessionHandler that counts Disconnected and panics on command), runs every fault
   sequence and free-running stress; the parent records `died` for a run that kills the child.
4. TLC validates the history against the abstract ConnCloseHist spec.  Rejected runs are run a
   second time (new child); only runs rejected twice are findings.
"""
import json
import os
import random
import re
import vlib

META = {
    "category": "model_checking",
    "text": "TLC model-checks a code-shaped model of closeKnown (sync.Once, context cancel, Disconnected) with "
            "every closer kind (Close, CloseUnknown, CloseWith, failed write, read-loop EOF), session handler "
            "switches around the close, a failing underlying net.Conn.Close, socket write errors with a parked read loop, a cancelled parent context, and of the read loop's recover(); the Once-agnostic variant violates at-most-once, the recover-less variant "
            "violates Alive, and the former enumerates every gate-point interleaving. Interleavings and all "
            "handler-fault sequences up to length 3 are forced on a real MinecraftConn in a child process; the "
            "observable history (call/ret with ErrClosedConn classification, Disconnected calls, packets "
            "handed to the handler, process exit) is validated by TLC against the abstract ConnCloseHist spec. "
            "Schedules and fault sequences are the quantifiers of this property.",
    "design_ref": "DESIGN.md section 4, C44",
    "level_note": "Trusted: gates only delay goroutines; events are emitted before a call, inside the handler "
                  "callbacks and after the return. Only what the statement says is required: at most one teardown "
                  "ever, exactly one at quiescence, writes begun after a closing call returned report "
                  "ErrClosedConn, process alive; that Close blocks until teardown completed is not required. "
                  "Panics in Disconnected() or re-entrant Close from inside Disconnected() are out of scope. "
                  "3-closer schedules are sampled; 2-closer schedules are sampled in quick, exhaustive in thorough. "
                  "A call that has not returned 20 s after its schedule ended is a hung history (rejected); the one "
                  "known shape (close vs handler switch releasing the play queue) is reached by the thorough tier only.",
    "technique": "TLA+ spec + TLC schedule/fault enumeration, forced replay on real code in a child process, "
                 "TLC trace validation",
}

NEED_GATES = ["cc.close.enter", "cc.once", "cc.torn", "cc.recovered", "sh.switch.installed"]


def classify(run, bad):
    ev = (bad or {}).get("ev")
    mode = run[0].get("mode")
    handled = [r for r in run if r.get("ev") == "handled"]
    last_kind = handled[-1]["kind"] if handled else "none"
    if ev == "died":
        return "process-died:after-handler-%s" % last_kind
    if ev == "stalled":
        return "loop-stalled:after-handler-%s" % last_kind
    if ev == "hung":
        key = "hung:" + re.sub(r"\W+", "-", bad.get("what", ""))
        if bad.get("what") == "a call never returned":
            # name the calls that were still open: "op/how/fault" of every call without a return
            opened = {}
            for r in run:
                if r.get("ev") == "call" and r.get("thread") != "rl":
                    opened[r["thread"]] = "/".join(str(r.get(k)) for k in ("op", "how", "fault") if r.get(k))
                elif r.get("ev") == "ret":
                    opened.pop(r.get("thread"), None)
            key += ":open=" + "+".join(sorted(opened.values()))
        return key
    idx = run.index(bad) if bad in run else len(run)
    before = run[:idx]
    if ev == "teardown":
        n = sum(1 for r in before if r.get("ev") == "teardown")
        if n:
            # which calls were in progress / what had happened: names the overlap
            sw = [r for r in before if r["ev"] == "call" and r["op"] == "switch"]
            opened = {}
            for r in before:
                if r["ev"] == "call":
                    opened[r["thread"]] = r["op"]
                elif r["ev"] == "ret":
                    opened.pop(r["thread"], None)
            ops = sorted(set(opened.values()))
            if not ops and sw:
                ops = ["after-switch"]
            return "teardown-twice:" + "+".join(ops)
        return "teardown-without-close"
    if ev == "ret":
        call = [r for r in before if r.get("ev") == "call" and r.get("thread") == bad.get("thread")]
        op = call[-1]["op"] if call else "?"
        if op == "write":
            return "late-write-reports-%s" % bad.get("res")
        return "ret-rejected:%s" % op
    if ev == "settled":
        fw = [r.get("fault") for r in before if r.get("ev") == "call" and r.get("fault")]
        if any(r.get("ev") == "ctxcancel" for r in before) and not fw:
            ops = sorted({r["op"] for r in before if r.get("ev") == "call" and r["op"] in ("loop", "close", "unknown")})
            return "no-teardown-after-parent-context-cancelled:" + "+".join(ops)
        return "no-teardown-after-%s" % ("write-error-" + fw[0] if fw else "closing-call-returned") + \
            (":underlying-close-failed" if run[0].get("closefail") and not fw else "")
    if ev == "end":
        n = sum(1 for r in before if r.get("ev") == "teardown")
        if n == 0:
            return "no-teardown-at-quiescence" + (":underlying-close-failed" if run[0].get("closefail") else "")
        return "end-rejected"
    if ev == "handled":
        return "packet-handled-twice-or-out-of-order"
    if ev == "childexit":
        return "child-exit-code-%s" % bad.get("code")
    return "history-rejected:%s:%s" % (mode, ev)


def gate_races(out):
    """Race-detector reports whose two racing accesses both happen on behalf of gate code: walking
    each stack from the top, the first frame that is gate's or the harness's is gate's (so a race
    inside a library called by gate counts, one inside the harness, the schedule controller or the
    verif hooks does not).  Returns ([(key, report)], n_other_reports)."""
    gate, other = [], 0
    head = re.compile(r"(?m)^(?:Read|Write|Previous read|Previous write|Atomic \w+|Previous atomic \w+) at .*$")
    for block in out.split("WARNING: DATA RACE")[1:]:
        block = block.split("==================")[0]
        owners = []
        for sec in head.split(block)[1:3]:
            sec = sec.split("\n\n")[0]
            owner = None
            for fn in re.findall(r"(?m)^\s+(\S+)\(.*\)\s*$", sec):
                if fn.startswith("verif/harness/") or "/verifhook." in fn:
                    owner = "harness"
                    break
                if fn.startswith("go.minekube.com/gate/"):
                    owner = re.sub(r"^go\.minekube\.com/gate/pkg/", "", fn)
                    break
            owners.append(owner)
        if len(owners) == 2 and all(o and o != "harness" for o in owners):
            gate.append(("+".join(sorted(set(owners))), block[:4000]))
        else:
            other += 1
    return gate, other


def harness(ctx, plan, trace, race):
    with open(ctx.path(trace + ".plan.json"), "w") as fh:
        json.dump(plan, fh)
    ctx.harness("./c44", "TestC44$", race=race, timeout=2400,
                env={"VERIF_PLAN": trace + ".plan.json", "VERIF_TRACE": trace})
    stats = json.load(open(ctx.path(trace + ".stats.json")))
    races = []
    rp = ctx.path(trace + ".race.txt")
    if os.path.exists(rp):
        out = open(rp).read()
        races, other = gate_races(out)
        if other:
            raise vlib.ToolError("race detector reports a race outside gate code (harness problem):\n"
                                 + out[out.find("WARNING: DATA RACE"):][:3000])
    return vlib.read_ndjson(ctx.path(trace)), stats, races


def run_replay(ctx):
    """bin/vcheck C44 quick --replay <file>: run the recorded schedule / fault sequence again."""
    d = json.load(open(ctx.replay))
    rp = d.get("replay") or {}
    plan = {"schedules": [rp["schedule"]] if "schedule" in rp else [],
            "faults": [rp["faults"]] if "faults" in rp else [], "stress": 0}
    if not plan["schedules"] and not plan["faults"]:
        plan["stress"] = 40
    recs, stats, races = harness(ctx, plan, "trace.ndjson", False)
    rejected, matched, tstates = ctx.validate_runs("ConnCloseHist_Trace", recs)
    for rj in rejected:
        ctx.finding(classify(rj["run"], rj["bad"]), "replayed history is not a behaviour of ConnCloseHist (first "
                    "unexplained event: %s)" % json.dumps(bad_short(rj["bad"])),
                    dict(rp, first_unexplained=rj["bad"], history=rj["run"]))
    return ctx.finish("model_checking", {
        "states": tstates, "transitions": tstates, "samples": [plan],
        "evaluations": stats["schedules"] + stats["fault_runs"] + stats["stress_runs"],
        "distinct_nontrivial": 2, "rule": "replay of one recorded schedule / fault sequence",
        "trace_events_validated": matched, "exhaustive": False}, ["replay run"])


def run(ctx):
    if ctx.replay:
        return run_replay(ctx)
    r = ctx.tlc("ConnClose", ctx.pick("ConnClose_2.cfg", "ConnClose.cfg"))
    mc_states = r.distinct
    ctx.log("ConnClose.tla (Once respected, recover present): %d distinct states, invariants hold" % r.distinct)
    r = ctx.tlc("ConnClose", "ConnClose_broken.cfg", allow_violation=True, count=False, extra=["-continue"])
    nonvac = [inv for inv in ("AtMostOnce", "ExactlyOnce", "Alive") if "Invariant %s is violated" % inv in r.out]
    if "AtMostOnce" not in nonvac or "Alive" not in nonvac:
        raise vlib.ToolError("Once-agnostic, recover-less ConnClose violates only %s: invariants vacuous" % nonvac)
    ctx.log("ConnClose.tla (Once ignored, no recover): violates %s (non-vacuity ok)" % ", ".join(nonvac))

    rnd = random.Random(ctx.seed)
    s2 = ctx.tlc("ConnClose", "ConnClose_sched2.cfg", workers=1, count=False).printed_json("SCHED")
    n_enum = len(s2)
    rnd.shuffle(s2)
    if ctx.quick:
        # seeded sample over the classes: parent context cancelled / handler switch / failing socket
        # write / failing Close / plain
        def has(x, *prefixes):
            return any(k.startswith(prefixes) for k in x["kind"].values())
        x0 = [x for x in s2 if has(x, "ctxcancel")][:60]
        a = [x for x in s2 if has(x, "switch") and not has(x, "ctxcancel")][:60]
        w = [x for x in s2 if has(x, "wreset", "wclosed") and not has(x, "switch", "ctxcancel")][:60]
        rest = [x for x in s2 if not has(x, "switch", "wreset", "wclosed", "ctxcancel")]
        b = [x for x in rest if x["closefail"]][:40]
        c = [x for x in rest if not x["closefail"]][:40]
        s2 = x0 + a + w + b + c
    s3 = ctx.tlc("ConnClose", "ConnClose_sched3.cfg", workers=1, count=False,
                 simulate=ctx.pick(60, 2500), depth=14).printed_json("SCHED")
    fr = ctx.tlc("ConnClose", "ConnClose_faults.cfg", workers=1)
    faults = [list(x.values())[0] for x in fr.printed_json("FAULTS")]
    mc_states += fr.distinct
    scheds = s2 + s3
    ctx.log("schedules: %d of %d two-closer + %d three-closer (sampled); %d handler-fault sequences (exhaustive, len<=3)"
            % (len(s2), n_enum, len(s3), len(faults)))

    plan = {"schedules": scheds, "faults": faults, "stress": ctx.pick(40, 600)}
    recs, stats, races = harness(ctx, plan, "trace.ndjson", not ctx.quick)
    missing = [g for g in NEED_GATES if not stats["gate_arrivals"].get(g)]
    if missing:
        raise vlib.ToolError("hook_missing: gates never reached: %s" % missing)
    for f, block in races:
        ctx.finding("data-race:" + f, "the race detector reports a data race between %s while closers, writers and "
                    "the read loop run concurrently" % f, {"report": block})
    if stats.get("runs_not_executed"):
        ctx.notes.append("%d planned runs were not executed (the child process died too often)"
                         % stats["runs_not_executed"])
    total = len(recs)
    runs = stats["schedules"] + stats["fault_runs"] + stats["stress_runs"]
    ctx.log("harness: %d schedules forced (%d blocked steps), %d fault runs, %d stress runs, %d children, "
            "%d died, %d events" % (stats["schedules"], stats["blocked_steps"], stats["fault_runs"],
                                    stats["stress_runs"], stats["children"], stats["died"], total))
    rejected, matched, tstates = ctx.validate_runs("ConnCloseHist_Trace", recs)
    ctx.log("history: %d runs, %d rejected at first validation" % (runs, len(rejected)))

    unrepro = 0
    if rejected:
        # run the rejected runs once more in a fresh child: same plan entries, in the same order
        ns = [rj["run"][0]["n"] for rj in rejected]
        plan2 = {"schedules": [], "faults": [], "stress": 0}
        kinds = []
        for n in ns:
            if n < len(scheds):
                plan2["schedules"].append(scheds[n])
                kinds.append("sched")
        for n in ns:
            if len(scheds) <= n < len(scheds) + len(faults):
                plan2["faults"].append(faults[n - len(scheds)])
                kinds.append("faults")
        plan2["stress"] = sum(1 for n in ns if n >= len(scheds) + len(faults)) and 40
        plan2["ns"] = [n for n in ns if n < len(scheds)] + [n for n in ns if len(scheds) <= n < len(scheds) + len(faults)]
        recs2, _, _ = harness(ctx, plan2, "replay.ndjson", False)
        rej2, _, st2 = ctx.validate_runs("ConnCloseHist_Trace", recs2, max_rejects=len(rejected) + 12)
        tstates += st2
        keys2 = {classify(rj["run"], rj["bad"]) for rj in rej2}
        for rj in rejected:
            key = classify(rj["run"], rj["bad"])
            if key not in keys2:
                unrepro += 1
                continue
            n = rj["run"][0]["n"]
            replay = {"first_unexplained": rj["bad"], "history": rj["run"]}
            if n < len(scheds):
                replay["schedule"] = scheds[n]
            elif n < len(scheds) + len(faults):
                replay["faults"] = faults[n - len(scheds)]
            ctx.finding(key, "history of the real connection is not a behaviour of ConnCloseHist (first "
                        "unexplained event: %s); reproduced when run a second time in a fresh process"
                        % json.dumps(bad_short(rj["bad"])), replay)
        if unrepro:
            ctx.notes.append("%d rejected run(s) were not rejected again when re-run (not reported)" % unrepro)

    neg = negative_control(ctx, recs, rejected)
    cov = {
        "states": mc_states + tstates,
        "samples": stats["samples"][:3] + [{"trace_events": total, "runs": runs}],
        "evaluations": runs,
        "distinct_nontrivial": len({json.dumps(s, sort_keys=True) for s in scheds}) +
                               len([f for f in faults if any(k != "none" for k in f)]),
        "rule": "schedule = (closer kinds, handler faults, interleaving of gate points) exported by TLC from the "
                "Once-agnostic ConnClose model, all with >=2 concurrent closers; fault sequence = packets on which "
                "the handler panics (error / string / runtime error / nil), non-trivial if it contains a panic",
        "schedules_enumerated_2": n_enum,
        "schedules_forced": stats["schedules"],
        "blocked_steps": stats["blocked_steps"],
        "fault_sequences": stats["fault_runs"],
        "stress_runs": stats["stress_runs"],
        "panics_thrown": stats["panics_thrown"],
        "children": stats["children"],
        "children_died": stats["died"],
        "gate_arrivals": stats["gate_arrivals"],
        "trace_events_validated": matched,
        "rejected_first_pass": len(rejected),
        "rejected_not_reproduced": unrepro,
        "nonvacuity": nonvac,
        "negative_control": neg,
        "race_detector": not ctx.quick,
        "exhaustive": False,
    }
    return ctx.finish("model_checking", cov, [
        "gates only delay threads; a forced failure is a real execution",
        "a child process death is attributed to the run whose reset line is the last in the trace",
        "net.Pipe stands for the TCP connection: Close on one end gives EOF / ErrClosedPipe on the other",
    ])


def bad_short(bad):
    if not bad:
        return bad
    b = dict(bad)
    if "output" in b:
        b["output"] = b["output"][:300]
    return b


def split_runs(recs):
    runs, cur = [], None
    for r in recs:
        if r.get("ev") == "reset":
            cur = [r]
            runs.append(cur)
        elif cur is not None:
            cur.append(r)
    return runs


def negative_control(ctx, recs, rejected):
    """Corrupt an accepted run in four ways; the spec must reject each."""
    bad_seq = {rj["run"][0]["seq"] for rj in rejected}
    for run in split_runs(recs):
        if run[0]["seq"] in bad_seq or run[0].get("mode") != "faults" or not run[0].get("handler"):
            continue
        td = [i for i, r in enumerate(run) if r["ev"] == "teardown"]
        late = [i for i, r in enumerate(run) if r["ev"] == "ret" and r.get("thread") == "main"
                and r.get("res") == "closed" and i > 0 and run[i - 1].get("op") == "write"]
        end = [i for i, r in enumerate(run) if r["ev"] == "end"]
        hd = [i for i, r in enumerate(run) if r["ev"] == "handled"]
        if not (td and late and end and len(hd) >= 2):
            continue
        run = [r for r in run if r["ev"] != "childexit"]
        variants = {
            "neg-twice": run[:td[0] + 1] + [dict(run[td[0]])] + run[td[0] + 1:],
            "neg-never": run[:td[0]] + run[td[0] + 1:],
            "neg-lateok": run[:late[0]] + [dict(run[late[0]], res="ok")] + run[late[0] + 1:],
            "neg-died": run[:hd[0] + 1] + [{"ev": "died", "run": 0, "code": 2}],
            "neg-rehandled": run[:hd[1] + 1] + [dict(run[hd[0]])] + run[hd[1] + 1:],
        }
        if ctx.quick:
            variants = {k: variants[k] for k in ("neg-twice",)}
        allruns = []
        for name in sorted(variants):
            v = variants[name]
            allruns += [dict(v[0], name=name)] + v[1:]
        before = ctx.traces_validated
        rej, _, _ = ctx.validate_runs("ConnCloseHist_Trace", allruns)
        ctx.traces_validated = before
        got = sorted(rj["run"][0]["name"] for rj in rej)
        if got != sorted(variants):
            raise vlib.ToolError("negative control: corrupted histories accepted (rejected only %s)" % got)
        return "passed (%s rejected)" % ", ".join(sorted(variants))
    return "skipped (no suitable accepted run)"
