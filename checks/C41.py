"""C41 -- Connect session principal fields are extracted exactly or rejected.

1. TLC proves, on every sequence of <= 2 abstract protobuf fields over 96 field kinds
   (5 field numbers x all wire types x boundary values, plus 6 kinds of cut field; 186 kinds
   over 10 numbers in thorough), that
   the declarative statement ExtractD equals the parser-style fold ExtractS and that
   "rejected" coincides with the listed conditions; a second config does sequences of
   <= 3 fields over fewer numbers, a broken fold must violate (non-vacuity).
2. Every explored sequence is exported; longer ones (3..6 fields over 10 numbers) come
   from TLC simulation.  The harness encodes them with protowire and calls the real
   ExtractSessionPrincipalWire (unknown-field region, and through proto.Unmarshal), then
   does the same with seeded random field sequences mutated at byte level, and with long
   proposals: 70 / 200 / 1000 filler fields (non-principal, or repeated principal scalars)
   followed by an exported sequence, so that the interesting fields come last.
3. TLC re-reads every recorded input from its bytes (Parse in Principal.tla) and accepts
   the recorded result only if it equals ExtractD of that reading.
"""
import json
import vlib

META = {
    "category": "model_checking",
    "text": "Principal.tla states the extraction rule declaratively over abstract protobuf field sequences "
            "(last value wins; the five listed conditions reject) and as a parser-style fold; TLC proves the two "
            "equal on all sequences of up to 2 fields over 96 field kinds (186 in thorough; up to 3 fields over a smaller universe). "
            "All those sequences plus simulated longer ones are encoded with protowire and given to the real "
            "ExtractSessionPrincipalWire, as are seeded random sequences with byte-level truncations, flips, "
            "insertions and non-minimal varints; TLC parses every recorded byte string with its own wire-level "
            "reader and accepts the recorded result only if it equals the declarative rule.",
    "design_ref": "DESIGN.md section 4, C41",
    "level_note": "Inputs longer than 600 bytes (the 16 KiB envelope boundary) are judged from the abstract fields "
                  "the harness encoded, not from bytes. The nonce is compared only when an envelope is present; "
                  "string fields are compared as bytes (UTF-8 validity is not required by the statement); field "
                  "numbers 2^29..2^31-1 may be read either way. Only outcome class (nil / rejected / fields) is "
                  "judged, not error texts.",
    "technique": "TLA+ reference operator (declarative vs fold, TLC exhaustive), TLC-exported vectors, "
                 "TLC trace validation of recorded real I/O from raw bytes",
}


def sig(rec):
    """input class of a record, used as the finding key"""
    if "fields" in rec:
        parts = []
        fields = rec["fields"]
        head = ""
        if rec.get("src", "").startswith("long:"):  # filler fields in front: name their count and the tail only
            k = int(rec["src"][5:])
            head = "%d filler," % k
            fields = fields[k:]
        for f in fields:
            s = "%d/%d" % (f["num"], f["wt"])
            if f["wt"] == 2:
                s += ":%d" % f["v"]["n"]
            elif f["wt"] == 9:
                s += ":%d" % f["v"][0]
            parts.append(s)
        return ("long[" + head if head else "vec[") + ",".join(parts) + "]"
    return "bytes[%s]" % rec.get("src", "?")


def run(ctx):
    r = ctx.tlc("Principal", ctx.pick("Principal.cfg", "Principal_full.cfg"), workers=1)
    vecs = r.printed_json("VEC")
    n_ex = len(vecs)
    ctx.log("Principal.tla: %d field sequences (<=2 fields), ExtractD == ExtractS, rejected <=> listed" % r.distinct)
    if n_ex != r.distinct:
        raise vlib.ToolError("exported %d vectors for %d states" % (n_ex, r.distinct))
    r3 = ctx.tlc("Principal", ctx.pick("Principal_mc3q.cfg", "Principal_mc3.cfg"))
    ctx.log("Principal.tla (<=3 fields, %s): %d sequences" % (ctx.pick("numbers 9 and 12", "numbers 5, 6, 9, 12"), r3.distinct))
    rb = ctx.tlc("Principal", "Principal_broken.cfg", allow_violation=True, count=False)
    if rb.violated != "Equiv":
        raise vlib.ToolError("fold without the nonce rule is not told apart from the statement: vacuous")
    rs = ctx.tlc("Principal", "Principal_long.cfg", workers=1, simulate=ctx.pick(100, 1500), depth=7, count=False)
    longv = rs.printed_json("VEC")
    ctx.log("simulated longer sequences: %d" % len(longv))
    vecs += longv
    with open(ctx.path("vectors.json"), "w") as fh:
        json.dump(vecs, fh)

    ctx.harness("./c41", "TestTrace", env={"VERIF_RANDOM": ctx.pick(2000, 30000),
                                           "VERIF_UNMARSHAL_EVERY": ctx.pick(5, 1)}, timeout=1200)
    st = json.load(open(ctx.path("stats.json")))
    ctx.log("harness: %d records %s" % (st["records"], st["outcomes"]))
    recs = vlib.read_ndjson(ctx.path("trace.ndjson"))
    total = len(recs)
    path = ctx.path("trace.ndjson")
    judged = 0
    tries = 0
    while True:
        ok, matched, tot, res = ctx.validate_trace("Principal_Trace", path, n_traces=0, timeout=1500)
        enc = res.printed("ENCBAD")
        if enc and int(enc[-1]) != 0:
            bad = recs[int(enc[-1]) - 1]
            raise vlib.ToolError("harness encoding and Parse disagree on %s" % json.dumps(bad)[:600])
        judged += matched
        if ok:
            break
        bad = recs[matched]
        if bad.get("out") == "panic":
            desc = "extractor panicked: %s" % bad.get("panic")
        else:
            desc = "extractor returned %s (%s) which the reference reading forbids" % (
                bad.get("out"), json.dumps(bad.get("res", bad.get("msg", "")))[:300])
        ctx.finding("%s:out=%s" % (sig(bad), bad.get("out")), desc, bad)
        recs = recs[matched + 1:]
        tries += 1
        if not recs or tries >= 6:
            break
        path = ctx.path("rest%d.ndjson" % tries)
        vlib.write_ndjson(path, recs)
    ctx.traces_validated += judged
    outc = st["outcomes"]
    cov = {
        "samples": st["samples"],
        "evaluations": total,
        "records_judged": judged,
        "distinct_nontrivial": n_ex + len(longv) + st["mutated"],
        "rule": "TLC-exported distinct field sequences (all <=2-field sequences over the field kinds, simulated 3..6-field "
                "ones) plus byte-level mutated random sequences; every one carries at least one field",
        "exhaustive_vectors": n_ex,
        "simulated_vectors": len(longv),
        "long_sequences_filler_then_vector": st["long_sequences"],
        "random_sequences": st["random"],
        "mutated": st["mutated"],
        "outcomes": outc,
        "records_judged_from_abstract_fields_only": st["records_without_raw"],
        "exhaustive": False,
    }
    if not st["long_sequences"] or not outc.get("ok") or not outc.get("nil") or not outc.get("err"):
        raise vlib.ToolError("outcome classes not all exercised: %s" % outc)
    return ctx.finish("model_checking", cov, [
        "the harness encoder (protowire) is cross-checked against the spec's Parse on every record that carries both",
        "proposals above 600 bytes are judged at the abstract level only",
        "the typed-field branch of the extractor is dead with the pinned connect descriptor (fields 1..4 only)",
    ])
