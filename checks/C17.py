"""C17 -- initial and fallback server choice: forced hosts, then the try list.

1. TLC model-checks ServerChoice.tla (history machine: configuration choice, join, sequence of
   failures) exhaustively for small bounds: Clean() on every virtual-host spelling, and the
   statement's consequences (only registered listed servers, never the failed one, forced list
   first, disconnect only when none is left).
2. TLC (simulation mode, seeded) exports complete histories with larger bounds.
3. The live rig replays each: configuration through gate's own YAML loader, Proxy.Unregister for
   the unregistered subset, fake backends that kick during login / after join (optionally with a
   stalled switch in flight); the harness records which backend gets each attempt and the end.
4. TLC validates the recorded runs with ServerChoice_Trace.tla (same Clean/Candidates/NextIdx).
"""
import json
import random
import vlib

META = {
    "category": "model_checking",
    "text": "ServerChoice.tla defines Clean (cut at NUL / '///', lower-case), Candidates (forced list when the "
            "configured key equals the cleaned host, else try list) and NextIdx (first listed server at/after the "
            "cursor that is registered and neither failed nor in flight) and a history machine over failure "
            "sequences; TLC checks it exhaustively for small bounds and exports seeded random histories (lists up "
            "to 3 with repeats, 14 host spellings incl. upper/mixed case, Forge FML/FORGE markers, TCPShield "
            "real-ip data, look-alike hosts, mixed-case configuration keys, registered subsets, servers re-registered "
            "through the API under an upper-case name, servers that were unregistered while an earlier player of the same "
            "proxy joined and registered again afterwards, up to 3 failures of "
            "kinds kick-during-login / kick-after-join / kick-after-join with a stalled switch in flight). Each is "
            "replayed on the live proxy configured through gate's YAML loader; TLC validates which backend received "
            "each attempt, the final state and that the final disconnect carries the last kick reason.",
    "design_ref": "DESIGN.md section 4, C17",
    "level_note": "Try / forced lists use the exact configured server names (validation rejects anything else). "
                  "Trailing dots and ports inside the host text are not exercised (the statement does not speak of "
                  "them). With no candidate at all at join only the disconnect is required (there is no kick "
                  "reason). Client protocol 1.20.1 only. Runs that do not reach an end within generous timeouts are "
                  "dropped (counted as inconclusive; more than 5% is a tool error), never judged.",
    "technique": "TLA+ history machine, TLC exhaustive check + seeded simulation export, live-rig replay, "
                 "TLC trace validation",
}


def pick(hists, n, rnd):
    """Prefer histories with more attempts; keep some short ones."""
    seen, uniq = set(), []
    for h in hists:
        k = json.dumps(h, sort_keys=True)
        if k not in seen:
            seen.add(k)
            uniq.append(h)
    longer = [h for h in uniq if len(h["log"]) >= 2]
    short = [h for h in uniq if len(h["log"]) < 2]
    rnd.shuffle(longer)
    rnd.shuffle(short)
    out = longer[: n * 2 // 3]
    out += short[: n - len(out)]
    rnd.shuffle(out)
    return out


def run(ctx):
    r = ctx.tlc("ServerChoice", ctx.pick("ServerChoice.cfg", "ServerChoice_full.cfg"), timeout=1500)
    ctx.log("ServerChoice.tla: %d states (exhaustive, small bounds)" % r.distinct)
    rs = ctx.tlc("ServerChoice", "ServerChoice_export.cfg", simulate=ctx.pick(350, 5000), depth=12, workers=1,
                 count=False, timeout=1500)
    hists = rs.printed_json("HIST")
    rnd = random.Random(ctx.seed)
    hists = pick(hists, ctx.pick(160, 1500), rnd)
    ctx.log("exported %d histories for replay (%d with >= 2 attempts predicted)"
            % (len(hists), sum(1 for h in hists if len(h["log"]) >= 2)))
    with open(ctx.path("hist.json"), "w") as fh:
        json.dump(hists, fh)
    ctx.harness("./c17", "TestReplay", timeout=ctx.pick(400, 1200))
    st = json.load(open(ctx.path("stats.json")))
    s = st["stats"]
    ctx.log("harness: %s" % json.dumps(s, sort_keys=True))
    if s.get("inconclusive", 0) * 20 > len(hists):
        raise vlib.ToolError("%d of %d replays were inconclusive: %s" % (s["inconclusive"], len(hists), s))
    if not s.get("with_prelude_player"):
        raise vlib.ToolError("no history with an earlier player and a registration change was replayed")
    if not s.get("end:connected") or not s.get("end:disconnected"):
        raise vlib.ToolError("replays never ended connected / never disconnected: vacuous")
    recs = vlib.read_ndjson(ctx.path("trace.ndjson"))
    path = ctx.path("trace.ndjson")
    ok, matched, total, res = ctx.validate_trace("ServerChoice_Trace", path, n_traces=0)
    ctx.log("ServerChoice_Trace: %s (%d of %d lines)" % ("accepted" if ok else "REJECTED", matched, total))
    nbad = 0
    if not ok:
        res2 = ctx.tlc("ServerChoice_Trace", "ServerChoice_Trace_collect.cfg", files={"trace.ndjson": path},
                       workers=1, count=False)
        lines = sorted({int(x) for x in res2.printed("REJECT")})
        if matched + 1 not in lines:
            raise vlib.ToolError("collect pass disagrees with the strict pass (first reject %d, listed %s)"
                                 % (matched + 1, lines[:5]))
        for ln in lines:
            i = ln - 1
            start = i
            while recs[start]["ev"] != "reset":
                start -= 1
            endi = i
            while endi + 1 < len(recs) and recs[endi + 1]["ev"] != "reset":
                endi += 1
            runrecs = recs[start:endi + 1]
            nbad += 1
            ctx.finding(classify(runrecs, i - start), describe(runrecs, i - start), runrecs)
    ctx.traces_validated += s.get("runs", 0) - nbad
    cov = {
        "samples": st["samples"] or [{"note": "no multi-attempt sample"}],
        "evaluations": s.get("runs", 0),
        "distinct_nontrivial": sum(v for k, v in s.items() if k.startswith("attempts=") and k not in ("attempts=0", "attempts=1")),
        "rule": "history = (forced entry, try list, host spelling, registered subset, failure sequence) exported by TLC "
                "simulation; every history is one player on its own proxy; non-trivial = at least two connection "
                "attempts were observed",
        "harness": s,
        "model_drift": s.get("model_drift", 0),
        "exhaustive": False,
        "states": r.distinct + res.distinct,
    }
    return ctx.finish("model_checking", cov, [
        "the kick reason is recognised as the text kick-<k> inside the final disconnect packet",
        "forced-host keys pass through gate.LoadConfig (which lower-cases them)",
    ])


def cps(a):
    return "".join(chr(c) for c in a)


def classify(run, bi):
    reset, bad = run[0], run[bi]
    host = cps(reset["vh"])
    spelling = ("forge-marker" if "\x00" in host else "") + ("tcpshield" if "///" in host else "")
    spelling = spelling or ("mixed-case" if host != host.lower() else "plain")
    # label only (the verdict is TLC's): does the forced entry apply to this host?
    clean = host.split("\x00")[0].split("///")[0].lower()
    src = "forced" if reset["forced"]["has"] and reset["forced"]["list"] and clean == cps(reset["forced"]["key"]).lower() else "try"
    prior = [a["fail"] for a in run[1:bi] if a["ev"] == "attempt"]
    prev = [a for a in run[1:bi] if a["ev"] == "attempt"][-1:]
    if prev and bad["ev"] == "attempt" and bad["server"] in reset.get("renamed", []) \
            and bad["server"] in (prev[0]["server"], prev[0]["inflight"]):
        # the failed / in-flight server is registered under another spelling of its listed name and is chosen again
        return "choice:excluded-server-chosen:registered-name-differs-in-case"
    if bad["ev"] == "attempt" and reset.get("away_before") and reset.get("role") == "main":
        return "choice:%s:after-earlier-player-joined-while-%d-listed-server(s)-were-unregistered:after[%s]" % (
            src, len(reset["away_before"]), ",".join(prior))
    if bad["ev"] == "attempt":
        return "choice:%s:%s:after[%s]->%s" % (src, spelling, ",".join(prior), "unexpected-attempt")
    return "end:%s:%s:after[%s]->%s" % (src, spelling, ",".join(prior), bad["state"])


def describe(run, bi):
    reset, bad = run[0], run[bi]
    return ("vhost %r, forced %s=%s, try %s, registered %s (renamed %s, away while an earlier player joined %s): attempts so far %s; proxy did %s, not allowed by ServerChoice spec"
            % (cps(reset["vh"]), cps(reset["forced"]["key"]), reset["forced"]["list"], reset["try"], reset["reg"], [x.upper() for x in reset.get("renamed", [])], reset.get("away_before", []),
               [(a["server"], a["fail"], a["inflight"]) for a in run[1:bi] if a["ev"] == "attempt"],
               {k: v for k, v in bad.items() if k in ("ev", "server", "fail", "state", "kicks", "text")}))
