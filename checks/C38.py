"""C38 -- config file reload fires once for the final content despite lost fs events.

1. TLC model-checks the design model ReloadWatch.tla (file operations with delivered / dropped /
   duplicated notifications, event- and tick-driven reconciliation, debounce, callback that reads
   the file itself): safety (never a call for the fingerprint evaluated last) and, under weak
   fairness of Tick and Fire and with no state constraint, liveness (eventually always
   evaluated = file, and what the application loaded is the file's content).  The loop that
   trusts the fingerprint of the last reconciliation when the debounce expires (Recheck = FALSE)
   must violate LoadsFinal in the model (non-vacuity; it is the hazard the scenarios aim at).
2. TLC exports behaviours of the model as scenarios: all hazard behaviours of a reduced alphabet
   (exhaustive, 3 operations) and simulated behaviours of the full alphabet.
3. The harness is the lossy event watcher of the real watch loop (injected through
   verifexport.ReloadWatch, real files in the scratch dir, real timers: 250 ms reconcile, 100 ms
   debounce): it performs each scenario's file operations, delivers / drops / duplicates the
   notifications, paces itself on the loop's verif-tagged events and records operations, the
   loop's reads and callbacks with their fingerprints, what the callback read, and the moment the
   loop came to rest.
4. TLC validates every run against the abstract ReloadWatchObs spec.
"""
import json
import random
import vlib

META = {
    "category": "model_checking",
    "text": "TLC model-checks the design model of the reload watch loop with lossy notifications for safety and "
            "(under fairness, no state constraint) liveness, exports its behaviours -- including every behaviour "
            "that ends in the stale-load hazard of the unchecked design -- as scenarios; the harness, acting as the "
            "lossy event watcher of the real loop on real files and timers, replays them, and TLC validates each "
            "recorded run against the abstract ReloadWatchObs spec: never a callback for the fingerprint evaluated "
            "last, and at rest the loop has evaluated and the application has loaded exactly the final content, "
            "within interval + debounce + slack.",
    "design_ref": "DESIGN.md section 4, C38",
    "level_note": "'At most once per distinct content' is judged on the evaluated fingerprints (a callback never runs "
                  "for the fingerprint evaluated last), as fixed in DESIGN.md; nothing is required when the file is "
                  "finally missing. The real-time bound is one-sided: reconcile interval + debounce + 3 s slack. "
                  "Pacing on loop events only steers; every recorded run is a real execution. Rest is detected from "
                  "the loop's own events (two reconciliations after the last operation, no debounce armed, two "
                  "reconciliations after the last fire), not by sleeping. Trusted: the rw.* events sit at the "
                  "fingerprint read, the debounce expiry and just before the callback.",
    "technique": "TLA+ design model + liveness under fairness, TLC scenario export, fault-injecting replay on real code, TLC trace validation",
}


def run(ctx):
    r = ctx.tlc("ReloadWatch", ctx.pick("ReloadWatch.cfg", "ReloadWatch_big.cfg"), timeout=1800)
    mc = r.distinct
    ctx.log("ReloadWatch.tla (re-checked design): %d states, safety + liveness under WF(Tick), WF(Fire) hold" % mc)
    t = ctx.tlc("ReloadWatch", "ReloadWatch_trust.cfg", allow_violation=True, count=False)
    if t.violated != "NoHazard":
        raise vlib.ToolError("the unchecked design does not reach the stale-load hazard: LoadsFinal vacuous")
    ts = ctx.tlc("ReloadWatch", "ReloadWatch_trustsafe.cfg", count=False)
    ctx.log("ReloadWatch.tla (design trusting the last fingerprint): safety and Converges hold, rests with a stale load "
            "(NoHazard / LoadsFinal violated; non-vacuity ok)")

    rnd = random.Random(ctx.seed)
    haz = ctx.tlc("ReloadWatch", "ReloadWatch_haz3.cfg", count=False, timeout=1800).printed_json("SCEN")
    nhaz = len(haz)
    rnd.shuffle(haz)
    haz = haz[:ctx.pick(60, 504)]
    sim = ctx.tlc("ReloadWatch", ctx.pick("ReloadWatch_scen3.cfg", "ReloadWatch_scen4.cfg"), workers=1, count=False,
                  simulate=ctx.pick(220, 2500), depth=18, timeout=1800).printed_json("SCEN")
    scens = haz + sim
    rnd.shuffle(scens)
    ctx.log("scenarios: %d of %d hazard behaviours (exhaustive enumeration, reduced alphabet) + %d simulated"
            % (len(haz), nhaz, len(sim)))
    with open(ctx.path("scen.json"), "w") as fh:
        json.dump(scens, fh)

    ctx.harness("./c38", "TestScenarios", env={"VERIF_PAR": ctx.pick(32, 48)}, timeout=2400)
    st = json.load(open(ctx.path("stats.json")))
    missing = [e for e in ("rw.reconcile", "rw.fire", "rw.callback", "cb", "settled") if not st["events"].get(e)]
    if missing:
        raise vlib.ToolError("hook_missing: never seen: %s" % missing)
    ctx.log("harness: %d scenarios on the real loop, %d reconciliations, %d callbacks, %d loop steps not taken in time, %d stalled"
            % (st["scenarios"], st["reconciles"], st["callbacks"], st["loop_steps_not_taken_in_time"], st["stalled"]))

    recs = vlib.read_ndjson(ctx.path("trace.ndjson"))
    rejected, matched, tstates = ctx.validate_runs("ReloadWatchObs_Trace", recs, max_rejects=40)
    for rj in rejected:
        bad = rj["bad"] or {}
        ev = bad.get("ev")
        ops = [x for x in rj["run"] if x.get("ev") == "op.begin"]
        if ev == "stalled":
            key, desc = "no-rest", "the loop did not come to rest within 20 s"
        elif ev == "rw.callback":
            key, desc = "callback-for-evaluated", "the callback ran for the fingerprint it evaluated last"
        elif ev == "settled":
            cbs = [x for x in rj["run"] if x.get("ev") == "cb"]
            calls = [x for x in rj["run"] if x.get("ev") == "rw.callback"]
            final = ops[-1]["c"] if ops else "?"
            last_read = cbs[-1]["read"] if cbs else "(initial)"
            last_fp = calls[-1]["fp"] if calls else "(initial)"
            if last_fp != final:
                key, desc = "final-content-not-evaluated", "at rest the loop has not evaluated the final content"
            elif last_read != final:
                key = "stale-load:write-between-reconcile-and-callback"
                desc = ("at rest the loop has evaluated fingerprint %s = file, but its callback ran while the file "
                        "held %s: the application keeps %s although the file is %s" % (last_fp, last_read, last_read, final))
            else:
                key, desc = "late-callback", "the callback for the final content came later than interval + debounce + slack"
        else:
            key, desc = "history-rejected:%s" % ev, "run is not a behaviour of ReloadWatchObs"
        ctx.finding(key, desc + "; first unexplained event: %s; ops: %s"
                    % (json.dumps(bad), [(o["kind"], o["c"]) for o in ops]), rj)
    cov = {
        "states": mc + ts.distinct + tstates,
        "samples": [scens[0], scens[1]],
        "evaluations": st["scenarios"],
        "distinct_nontrivial": len({json.dumps(s, sort_keys=True) for s in scens}),
        "rule": "scenario = behaviour of the design model: <= 3 (thorough 4) file operations, each with a notification "
                "fate, interleaved with event deliveries, ticks and debounce expiries; all have >= 1 operation; distinct behaviours counted",
        "hazard_scenarios": st["hazard_scenarios"],
        "reconciliations_observed": st["reconciles"],
        "callbacks_observed": st["callbacks"],
        "loop_steps_not_taken_in_time": st["loop_steps_not_taken_in_time"],
        "stalled": st["stalled"],
        "trace_events_validated": matched,
        "exhaustive": False,
    }
    return ctx.finish("model_checking", cov, [
        "the harness is the only source of notifications (injected watcher); fsnotify itself is not exercised",
        "real timers: reconcile 250 ms (injectable, default value), debounce 100 ms (constant)",
    ])
