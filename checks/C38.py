"""C38 -- config file reload fires once for the final content despite lost fs events.

1. TLC model-checks the design model ReloadWatch.tla (file operations with delivered / dropped /
   duplicated notifications -- also inside the window of a running callback --, an event watcher that
   breaks for good, event- and
   tick-driven reconciliation, debounce, a callback that reads the file itself and accepts or
   rejects what it read): safety (never a call for the fingerprint evaluated last) and, under weak
   fairness of the loop's steps and with no state constraint, liveness (eventually always the
   callback has run for the file's content and the application loaded it).  Three plausible but
   wrong designs (trust the last fingerprint at expiry / keep the evaluation after a callback
   whose file moved / record a fingerprint only when the callback accepts) and the residual case
   (file changed and restored inside one callback) must reach the hazard in the model
   (non-vacuity; they are what the scenarios aim at).
2. TLC exports behaviours of the model as scenarios: every hazard behaviour of those designs over
   a reduced alphabet (exhaustive, 3 operations) and simulated behaviours of the full alphabet.
3. The harness is the lossy event watcher of the real watch loop (injected through
   verifexport.ReloadWatch, real files in the scratch dir, real timers: 250 ms reconcile, 100 ms
   debounce): it performs each scenario's file operations, delivers / drops / duplicates the
   notifications, paces itself on the loop's verif-tagged events and records operations, the
   loop's reads and callbacks with their fingerprints, what the callback read, and the moment the
   loop came to rest.
4. TLC validates every run against the abstract ReloadWatchObs spec.
"""
import json
import random
import vlib

META = {
    "category": "model_checking",
    "text": "TLC model-checks the design model of the reload watch loop with lossy notifications for safety and "
            "(under fairness, no state constraint) liveness, exports its behaviours -- including every behaviour "
            "that ends in the stale-load hazard of the unchecked design -- as scenarios; the harness, acting as the "
            "lossy event watcher of the real loop on real files and timers, replays them, and TLC validates each "
            "recorded run against the abstract ReloadWatchObs spec: never a callback for the fingerprint evaluated "
            "last, and at rest the loop has evaluated and the application has loaded exactly the final content, "
            "within interval + debounce + slack.",
    "design_ref": "DESIGN.md section 4, C38",
    "level_note": "'At most once per distinct content' is judged on the evaluated fingerprints (a callback never runs "
                  "for the fingerprint evaluated last), as fixed in DESIGN.md; nothing is required when the file is "
                  "finally missing. The real-time bound is one-sided: reconcile interval + debounce + 3 s slack. "
                  "Pacing on loop events only steers; every recorded run is a real execution. Rest is detected from "
                  "the loop's own events (two reconciliations after the last operation, no debounce armed, two "
                  "reconciliations after the last fire), not by sleeping. Trusted: the rw.* events sit at the "
                  "fingerprint read, the debounce expiry and just before the callback.",
    "technique": "TLA+ design model + liveness under fairness, TLC scenario export, fault-injecting replay on real code, TLC trace validation",
}


def in_callback(run):
    """where file operations fall relative to the last callback's own read: labels only"""
    start = max((i for i, x in enumerate(run) if x.get("ev") == "rw.callback"), default=None)
    if start is None:
        return ""
    pre = post = False
    read = False
    for x in run[start + 1:]:
        if x.get("ev") == "cb":
            read = True
        elif x.get("ev") == "op.begin":
            if read:
                post = True
            else:
                pre = True
        elif x.get("ev", "").startswith("rw."):
            break
    return "both" if pre and post else "pre" if pre else "post" if post else ""


def run(ctx):
    r = ctx.tlc("ReloadWatch", ctx.pick("ReloadWatch.cfg", "ReloadWatch_big.cfg"), timeout=1800)
    mc = r.distinct
    ctx.log("ReloadWatch.tla (the loop as designed: re-check at expiry, forget after a moved callback, record always; "
            "rejecting callbacks, one file operation inside a callback): %d states, NoHazard, safety and liveness "
            "under WF hold" % mc)
    # designs that look plausible and are wrong must reach the hazard (non-vacuity), and their hazard
    # behaviours are the scenarios aimed at the real loop
    wrong = {"trust": "trusts the fingerprint of the last reconciliation at expiry",
             "rearm": "re-arms after a moved callback but keeps the evaluation",
             "accept": "records a fingerprint as evaluated only when the callback accepts",
             "blind": "skips the periodic reconciliation while no event watcher can be created",
             "both": "the loop as designed, file changed and restored inside one callback (residual)"}
    for name, what in wrong.items():
        t = ctx.tlc("ReloadWatch", "ReloadWatch_%s.cfg" % name, allow_violation=True, count=False)
        if t.violated != "NoHazard":
            raise vlib.ToolError("design '%s' does not reach the hazard: NoHazard / liveness vacuous" % name)
    ts = ctx.tlc("ReloadWatch", "ReloadWatch_trustsafe.cfg", count=False)
    ctx.log("ReloadWatch.tla: the designs %s each rest in the hazard (non-vacuity ok)" % sorted(wrong))

    rnd = random.Random(ctx.seed)
    haz = ctx.tlc("ReloadWatch", "ReloadWatch_haz3.cfg", count=False, timeout=1800).printed_json("SCEN")
    nhaz = len(haz)
    rnd.shuffle(haz)
    haz = haz[:ctx.pick(40, 504)]
    aimed = []
    for name in ("rearm", "accept"):
        aimed += ctx.tlc("ReloadWatch", "ReloadWatch_haz%s.cfg" % name, count=False).printed_json("SCEN")
    # every behaviour of two operations that puts the initial (evaluated) content back: a revert inside or
    # outside the debounce window, notifications delivered or lost, in every order with ticks and expiries
    all2 = ctx.tlc("ReloadWatch", "ReloadWatch_all2.cfg", count=False).printed_json("SCEN")
    revert = [s for s in all2 if [x["c"] for x in s["steps"] if x["a"] == "op"][-1:] == [s["steps"][0]["c"]]
              and len({x["c"] for x in s["steps"] if x["a"] in ("op", "init")}) > 1]
    nrev = len(revert)
    rnd.shuffle(revert)
    revert = revert[:ctx.pick(50, 400)]
    aimed += revert
    # the zero-byte file is a content of its own (Missing # Empty): two-operation behaviours over {A, empty}
    # that use the empty content, deletions included
    all2e = ctx.tlc("ReloadWatch", "ReloadWatch_all2e.cfg", count=False).printed_json("SCEN")
    empt = [s for s in all2e if any(x.get("c") == "empty" for x in s["steps"])]
    rnd.shuffle(empt)
    empt.sort(key=lambda s: not any(x.get("kind") == "delete" for x in s["steps"]))   # empty next to missing first
    aimed += empt[:ctx.pick(40, 300)]
    blind = ctx.tlc("ReloadWatch", "ReloadWatch_hazblind.cfg", count=False, timeout=1800).printed_json("SCEN")
    rnd.shuffle(blind)
    aimed += blind[:ctx.pick(30, 400)]       # the watcher breaks for good, then the file changes
    residual = ctx.tlc("ReloadWatch", "ReloadWatch_hazboth.cfg", count=False).printed_json("SCEN")
    for s in residual:
        s["residual"] = True
    sim = ctx.tlc("ReloadWatch", ctx.pick("ReloadWatch_scen3.cfg", "ReloadWatch_scen4.cfg"), workers=1, count=False,
                  simulate=ctx.pick(170, 2500), depth=24, timeout=1800).printed_json("SCEN")
    scens = haz + aimed + residual + sim
    rnd.shuffle(scens)
    ctx.log("scenarios: %d of %d stale-fingerprint hazards + %d aimed (hazards of the rearm/accept designs: file "
            "operation inside the callback, rejecting callback; %d of %d reverts to the evaluated content) + %d residual "
            "+ %d simulated" % (len(haz), nhaz, len(aimed), len(revert), nrev, len(residual), len(sim)))
    with open(ctx.path("scen.json"), "w") as fh:
        json.dump(scens, fh)

    ctx.harness("./c38", "TestScenarios", env={"VERIF_PAR": ctx.pick(32, 48)}, timeout=2400)
    st = json.load(open(ctx.path("stats.json")))
    missing = [e for e in ("rw.reconcile", "rw.fire", "rw.callback", "cb", "settled") if not st["events"].get(e)]
    if missing:
        raise vlib.ToolError("hook_missing: never seen: %s" % missing)
    ctx.log("harness: %d scenarios on the real loop, %d reconciliations, %d callbacks, %d loop steps not taken in time, %d stalled"
            % (st["scenarios"], st["reconciles"], st["callbacks"], st["loop_steps_not_taken_in_time"], st["stalled"]))

    recs = vlib.read_ndjson(ctx.path("trace.ndjson"))
    rejected, matched, tstates = ctx.validate_runs("ReloadWatchObs_Trace", recs, max_rejects=40)
    for rj in rejected:
        bad = rj["bad"] or {}
        ev = bad.get("ev")
        ops = [x for x in rj["run"] if x.get("ev") == "op.begin"]
        if ev == "stalled" and any(x.get("ev") == "break" for x in rj["run"]):
            key = "no-reconciliation-after-watcher-loss"
            desc = ("after the event watcher broke for good the loop stopped reconciling: the file change that followed "
                    "was not picked up within 20 s")
        elif ev == "stalled":
            key, desc = "no-rest", "the loop did not come to rest within 20 s"
        elif ev == "rw.callback":
            prev = [x for x in rj["run"][:rj["bad_index"]] if x.get("ev") == "rw.callback"]
            last = prev[-1]["fp"] if prev else rj["run"][0].get("init")
            if bad.get("fp") == last:
                key, desc = "callback-for-evaluated", "the callback ran for the fingerprint it evaluated last"
            else:
                key = "callback-for-content-the-file-no-longer-holds"
                desc = ("the callback was started for fingerprint %s although the file has not held it since the "
                        "loop's last read (a change the loop saw reverted)" % bad.get("fp"))
        elif ev == "settled":
            cbs = [x for x in rj["run"] if x.get("ev") == "cb"]
            calls = [x for x in rj["run"] if x.get("ev") == "rw.callback"]
            final = ops[-1]["c"] if ops else "?"
            last_read = cbs[-1]["read"] if cbs else "(initial)"
            last_fp = calls[-1]["fp"] if calls else "(initial)"
            if last_fp != final:
                key, desc = "final-content-not-evaluated", "at rest the loop has not evaluated the final content"
            elif last_read != final and in_callback(rj["run"]) == "both":
                key = "stale-load:file-changed-and-restored-within-one-callback"
                desc = ("the file was changed before the callback's read and restored before the callback returned: "
                        "the loop cannot see it (callback read %s, file is %s)" % (last_read, final))
            elif last_read != final and in_callback(rj["run"]):
                key = "stale-load:file-changed-during-callback"
                desc = ("the file changed while the callback ran (it read %s) and was %s afterwards; the loop kept the "
                        "evaluation and rests although the application holds %s" % (last_read, final, last_read))
            elif last_read != final:
                key = "stale-load:write-between-reconcile-and-callback"
                desc = ("at rest the loop has evaluated fingerprint %s = file, but its callback ran while the file "
                        "held %s: the application keeps %s although the file is %s" % (last_fp, last_read, last_read, final))
            else:
                key, desc = "late-callback", "the callback for the final content came later than interval + debounce + slack"
        else:
            key, desc = "history-rejected:%s" % ev, "run is not a behaviour of ReloadWatchObs"
        ctx.finding(key, desc + "; first unexplained event: %s; ops: %s"
                    % (json.dumps(bad), [(o["kind"], o["c"]) for o in ops]), rj)
    cov = {
        "states": mc + ts.distinct + tstates,
        "samples": [scens[0], scens[1]],
        "evaluations": st["scenarios"],
        "distinct_nontrivial": len({json.dumps(s, sort_keys=True) for s in scens}),
        "rule": "scenario = behaviour of the design model: <= 3 (thorough 4) file operations, each with a notification "
                "fate, interleaved with event deliveries, ticks and debounce expiries; all have >= 1 operation; distinct behaviours counted",
        "hazard_scenarios": st["hazard_scenarios"],
        "reconciliations_observed": st["reconciles"],
        "callbacks_observed": st["callbacks"],
        "loop_steps_not_taken_in_time": st["loop_steps_not_taken_in_time"],
        "stalled": st["stalled"],
        "trace_events_validated": matched,
        "exhaustive": False,
    }
    return ctx.finish("model_checking", cov, [
        "the harness is the only source of notifications (injected watcher); fsnotify itself is not exercised",
        "real timers: reconcile 250 ms (injectable, default value), debounce 100 ms (constant)",
    ])
