"""C27 -- resource-pack prompts never block and follow the client-version rules.

1. TLC model-checks ResourcePack.tla (reference machine = Velocity's handler semantics) for the
   three handler kinds: every step satisfies the specification relations LegacyStep / ModernStep
   (PROPERTY Refines), at most one prompt outstanding, auto-decline only after a client decline;
   a broken variant (starts as if the client had declined) must violate.  TLC exports every call
   history of the explored bound, plus simulated longer ones.
2. The harness replays each history on the real handler (fresh fake player per history), every call
   in a goroutine under a watchdog, and records prompts / backend reports / handled / returned.
3. TLC validates the recorded calls with ResourcePack_Trace.tla (same relations).
"""
import json
import random
import vlib

META = {
    "category": "model_checking",
    "text": "ResourcePack.tla states the required reaction of a resource-pack handler to one call (queue / client "
            "response(status) / remove / clear) as relations LegacyStep and ModernStep over the outstanding-pack "
            "queue(s): legacy handlers prompt only the head of the queue, exactly once, auto-decline only after the "
            "client declined one and never a forced pack on 1.17+, the modern handler keeps one queue per pack id, and "
            "a client response is reported to the backend iff the answered pack came from the backend. TLC checks "
            "Velocity's handler semantics against these relations and exports all call histories (exhaustive for "
            "short ones, simulated longer ones) for client protocols 754, 755, 756, 764, 765 (both sides of the 1.17 and 1.20.3 "
            "handler switches; the handler kind is the spec's ModeOf(protocol)); each history is replayed on gate's real "
            "handler with a recording fake player, every call under a watchdog, and TLC validates the recorded calls "
            "line by line. The last call of a history may run with an injected write fault (client refuses the "
            "prompt / first backend write fails); attempted writes are recorded and the report requirement stays. "
            "Eight two-goroutine scenarios on the modern handler (a final response held at its status event while another "
            "goroutine queues a pack of the same id) are judged against both sequential orders. Histories are the quantifier, so exhaustive short histories over all statuses plus random "
            "longer ones is the right level.",
    "design_ref": "DESIGN.md section 4, C27",
    "level_note": "A call that has not returned after the watchdog (3 s, confirmed by one re-run on a fresh handler) or "
                  "that panics is the 'does not return' verdict. 'Reported to the backend' = written to the in-flight "
                  "backend connection and handled=false (the session handler then forwards the client's packet). "
                  "Not required because the statement is silent: what happens to a response when nothing is "
                  "outstanding (only: the call returns and prompts nothing), whether auto-declined backend packs are "
                  "reported, that auto-declining happens at all (it is only permitted after a client decline, and "
                  "'declined' is never forgotten), pending/applied bookkeeping, the kick for declined forced packs. "
                  "Remove is not driven on legacy handlers (unsupported by design: it panics deliberately, as in "
                  "Velocity). For 1.20.3+ 'tracked per id' is read as Velocity's per-id queue discipline (a pack is "
                  "prompted when it becomes the first outstanding one of its id).",
    "technique": "TLA+ history machine with step relations, TLC exhaustive + simulated history export, replay on the real "
                 "handlers with watchdog, TLC trace validation",
}

ALL = ["accepted", "declined", "success", "failed", "downloaded", "invalidUrl", "failedReload", "discarded"]
CORE = ["accepted", "declined", "success", "discarded"]


def cfg(versions, packs, statuses, maxlen, initprev="none", emit=True):
    return ("SPECIFICATION Spec\nCONSTANTS\n  Versions = {%s}\n  PackNames = {%s}\n  Statuses = {%s}\n"
            "  MaxLen = %d\n  InitPrev = \"%s\"\nINVARIANTS OnePrompt AutoOnlyAfterDecline%s\nPROPERTY Refines\n"
            % (", ".join(str(v) for v in versions), ", ".join('"%s"' % p for p in packs),
               ", ".join('"%s"' % s for s in statuses), maxlen, initprev, " Emit" if emit else ""))


def abstract_state(mode, prior):
    """Outstanding queue(s) before the rejected call, reconstructed from the logged prompts.
    Only names the finding (canonical key); the verdict is TLC's."""
    qs, decl = {0: [], 1: [], 2: []}, False
    ident = {"A": 1, "B": 2, "C": 1, "D": 2}
    for r in prior:
        i = (ident.get(r["pack"], 0) if r["op"] == "queue" else r["sid"]) if mode == "modern" else 0
        q = qs[i]
        if r["op"] == "queue":
            if q or r["prompts"] or mode == "modern":
                q.append(r["pack"])
        elif r["op"] == "response":
            decl = decl or r["st"] == "declined"
            if q and r["st"] not in ("accepted", "downloaded"):
                rest = q[1:]
                if mode != "modern":
                    rest = rest[rest.index(r["prompts"][0]):] if r["prompts"] and r["prompts"][0] in rest else []
                qs[i] = rest
        elif r["op"] == "remove":
            qs[i] = []
        elif r["op"] == "clear" and mode == "modern":
            qs = {0: [], 1: [], 2: []}
    if mode == "modern":
        return "q1=%s,q2=%s" % ("".join(qs[1]) or "-", "".join(qs[2]) or "-")
    return "q=%s,%s" % ("".join(qs[0]) or "-", "declined-before" if decl else "never-declined")


def describe(o):
    if o["op"] == "queue":
        return "queue(%s)" % o["pack"]
    if o["op"] == "response":
        return "response(%s%s%s)" % (("id%d," % o["sid"]) if o["sid"] else "", o["st"],
                                     (",%s-write-fails" % o["fail"]) if o.get("fail") else "")
    if o["op"] == "remove":
        return "remove(id%d)" % o["sid"]
    return o["op"]


def run(ctx):
    # non-vacuity: the broken variant (gate's original initial state) must violate on the model
    r = ctx.tlc("ResourcePack", "ResourcePack_initdeclined.cfg", workers=1, allow_violation=True)
    if r.violated not in ("AutoOnlyAfterDecline", "Refines"):
        raise vlib.ToolError("broken variant InitPrev=dec was not rejected by the model (violated=%s)" % r.violated)
    ctx.log("broken variant rejected by", r.violated)

    rnd = random.Random(ctx.seed)
    modes = ["legacy", "legacy117", "modern"]
    # client protocols on both sides of every handler switch: 1.16.4 | 1.17, 1.17.1 ... 1.20.2 | 1.20.3
    versions = [754, 755, 756, 764, 765]
    hists, model_states = [], 0
    if ctx.quick:
        plans = [(["A", "C"], CORE, 3, None, 0), (["A", "B", "C", "D"], ALL, 6, 100, 700)]
    else:
        plans = [(["A", "C"], CORE, 4, None, 0), (["B", "D"], ALL, 3, None, 0), (["A", "B", "C", "D"], ALL, 7, 1500, 20000)]
    for packs, statuses, maxlen, sim, cap in plans:
        r = ctx.tlc("ResourcePack", cfg_text=cfg(versions, packs, statuses, maxlen), workers=1, timeout=900,
                    simulate=sim, depth=(maxlen + 1) if sim else None)
        hs = r.printed_json("HIST")
        if not hs:
            raise vlib.ToolError("no histories exported")
        model_states += r.distinct
        if ctx.quick and not sim:
            # quick: every legacy history, a seeded sample of the (much more numerous) modern ones
            mod = [h for h in hs if h["mode"] == "modern"]
            rnd.shuffle(mod)
            hs = [h for h in hs if h["mode"] != "modern"] + mod[:1300]
        if sim and len(hs) > cap:
            # the simulator evaluates (and exports) every successor of the states on its random
            # traces: keep a seeded sample
            rnd.shuffle(hs)
            hs = hs[:cap]
        hists += hs
        ctx.log("ResourcePack.tla packs=%s statuses=%d len=%d%s: %d states, %d histories (%s)"
                % ("".join(packs), len(statuses), maxlen, " simulated" if sim else "", r.distinct, len(hs),
                   ", ".join("%s %d" % (m, sum(1 for h in hs if h["mode"] == m)) for m in modes)))
    hists.sort(key=lambda h: (h["ver"], json.dumps(h["h"])))
    nhist = len(hists)
    files = hists
    with open(ctx.path("hist.json"), "w") as fh:
        json.dump(files, fh)
    # two goroutines on one modern handler: a final response held at its status event || a queue call for the same id
    par = [{"first": f, "st": st, "next": n} for f in ("A", "C") for st in ("success", "declined") for n in ("A", "C")]
    with open(ctx.path("par.json"), "w") as fh:
        json.dump(par, fh)
    ctx.harness("./c27", "TestReplay|TestConcurrent", timeout=1200)
    st = json.load(open(ctx.path("stats.json")))
    recs = vlib.read_ndjson(ctx.path("trace.ndjson")) + vlib.read_ndjson(ctx.path("par.ndjson"))
    pst = json.load(open(ctx.path("par_stats.json")))
    ctx.log("replayed %d histories, %d calls (hung %d, panics %d, skipped after hangs %d)"
            % (st["runs"], st["calls"], st["hung"], st["panics"], st["skipped_after_hung"]))
    if st["skipped_after_hung"]:
        ctx.notes.append("%d histories not replayed after %d confirmed hangs (each costs two watchdog periods)"
                         % (st["skipped_after_hung"], st["hung"]))
    if st["unconfirmed_hangs"]:
        ctx.notes.append("%d watchdog expiries did not reproduce on the re-run (not a verdict)" % st["unconfirmed_hangs"])
    rejected, matched, tstates = ctx.validate_runs("ResourcePack_Trace", recs, max_rejects=ctx.pick(12, 30))
    for rj in rejected:
        mode, bad = "%s@%d" % (rj["run"][0]["mode"], rj["run"][0]["ver"]), rj["bad"] or {}
        if bad.get("ev") == "par":
            key = "%s:concurrent:%s||%s->prompts=%s" % (mode, describe(bad["a"]), describe(bad["b"]),
                                                         "".join(bad.get("prompts", [])) or "-")
            ctx.finding(key, "modern handler, two goroutines: %s while %s is at its status event: what was written is "
                             "not what the two calls write in either order: %s" % (describe(bad["b"]), describe(bad["a"]),
                                                                                  json.dumps(bad)), rj)
            continue
        prior = [describe(x) for x in rj["run"][1:rj["bad_index"]]]
        state = abstract_state(rj["run"][0]["mode"], rj["run"][1:rj["bad_index"]])
        if not bad.get("returned", True):
            sym = "hung"
        elif bad.get("panicked"):
            sym = "panic"
        else:
            sym = "prompts=%s,reports=%s,handled=%s" % (
                "".join(bad.get("prompts", [])) or "-",
                ",".join(x["st"] for x in bad.get("reports", [])) or "-", str(bad.get("handled")).lower())
        key = "%s:%s:%s->%s" % (mode, state, describe(bad), sym)
        ctx.finding(key, "%s handler: call %s after [%s] is not allowed by the ResourcePack spec: %s"
                    % (mode, describe(bad), ", ".join(prior), json.dumps(bad)), rj)
    nontrivial = sum(1 for f in files
                     if any(o["op"] == "queue" for o in f["h"]) and any(o["op"] == "response" for o in f["h"]))
    cov = {
        "samples": st["samples"] or [{"note": "no sample with a prompt in the last call"}],
        "evaluations": st["calls"],
        "distinct_nontrivial": nontrivial,
        "rule": "history = call sequence exported by TLC, replayed on a fresh handler; non-trivial = contains at least "
                "one queue and one client response",
        "histories": nhist,
        "per_mode": st["per_mode"],
        "concurrent_pairs": pst["cases"],
        "concurrent_pairs_overlapped": pst["overlapped"],
        "hung_calls": st["hung"],
        "panicked_calls": st["panics"],
        "trace_events_validated": matched,
        "exhaustive": False,
        "states": model_states + tstates,
    }
    return ctx.finish("model_checking", cov, [
        "the fake player accepts every packet at once (the statement conditions returning on the writes being accepted)",
        "event manager is event.Nop: the asynchronous kick for declined forced packs is not exercised",
        "calls are sequential (one at a time per handler), as on a connection's read loops",
    ])
