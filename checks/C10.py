"""C10 -- offline identities match vanilla; only valid user names are admitted."""
import json
import random
import vlib

META = {
    "category": "model_checking",
    "text": "OfflineId.tla defines the user-name rule (2..16 of A-Za-z0-9_) and the RFC 4122 v3 bit fix-up of an MD5 "
            "digest; TLC enumerates every name of length 0..2 (quick) / 0..3 (thorough) over an 18-symbol boundary "
            "alphabet plus 14..18-character names with a boundary character substituted, each is one offline-mode "
            "login attempt against the live proxy (the client claiming a random UUID), and TLC validates the "
            "recorded outcome: admitted => valid name, login-success UUID = V3(MD5('OfflinePlayer:'+name)), and the "
            "UUID the backend received in the proxy's login start is the same. uuid.OfflinePlayerUUID is also "
            "recorded for all names and random Unicode strings.",
    "design_ref": "DESIGN.md section 4, C10",
    "level_note": "MD5 is crypto/md5 in the harness (uninterpreted in the spec). Only the direction the statement "
                  "gives is a verdict (admitted => valid); valid-but-rejected names are counted in evidence and a run "
                  "that admits nobody is a tool error (vacuous). Backend-visible UUID is checked for 1.20.1 / 1.20.4 "
                  "clients (login start carries a UUID from 1.19.3 on).",
    "technique": "TLA+ reference operators, TLC name enumeration, live-rig replay, TLC trace validation",
}


def run(ctx):
    cfg = open(vlib.SPEC + "/OfflineId.cfg").read().replace("MaxShort = 2", "MaxShort = %d" % ctx.pick(2, 3))
    r = ctx.tlc("OfflineId", cfg_text=cfg, workers=1)
    names = r.printed_json("NAME")
    nvalid = sum(1 for n in names if n["valid"])
    if not ctx.quick:
        rnd = random.Random(ctx.seed)
        valid = [n for n in names if n["valid"]]
        rest = [n for n in names if not n["valid"]]
        rnd.shuffle(rest)
        names = valid + rest[:2500]
    ctx.log("OfflineId.tla: %d names enumerated (%d valid), %d used" % (r.distinct, nvalid, len(names)))
    with open(ctx.path("names.json"), "w") as fh:
        json.dump(names, fh)
    ctx.harness("./c10", "TestTrace", env={"VERIF_RANDOM": ctx.pick(2000, 20000)}, timeout=1500)
    st = json.load(open(ctx.path("stats.json")))
    if st["admitted"] == 0 or st["backend_seen"] == 0:
        raise vlib.ToolError("no offline login was admitted / reached the backend: vacuous")
    recs = vlib.read_ndjson(ctx.path("trace.ndjson"))
    path = ctx.path("trace.ndjson")
    tries = 0
    matched_total = 0
    while True:
        ok, matched, total, res = ctx.validate_trace("OfflineId_Trace", path, n_traces=0)
        matched_total += matched
        if ok or tries >= 10 or matched >= len(recs):
            break
        bad = recs[matched]
        if bad["ev"] == "uuid":
            ctx.finding("uuid-func", "OfflinePlayerUUID result %s is not V3(md5) of %s" % (bad["uuid"], bad["md5"]), bad)
        else:
            name = "".join(chr(c) for c in bad["cps"])
            valid = 2 <= len(bad["cps"]) <= 16 and all(
                48 <= c <= 57 or 65 <= c <= 90 or 97 <= c <= 122 or c == 95 for c in bad["cps"])
            if bad["admitted"] and not valid:
                key = "admitted-invalid-name:len%d" % len(bad["cps"])
            elif bad["admitted"]:
                key = "uuid-mismatch:" + ("backend" if bad["backend"] and bad["uuid"] != bad["backend"] else "login-success")
            else:
                key = "backend-reached-without-admission"
            ctx.finding(key, "offline login of %r: %s" % (name, json.dumps(bad)), bad)
        recs = recs[matched + 1:]
        if not recs:
            break
        tries += 1
        path = ctx.path("rest%d.ndjson" % tries)
        vlib.write_ndjson(path, recs)
    ctx.traces_validated += 1
    valid_rejected = nvalid - st["admitted"] if ctx.quick else None
    cov = {
        "samples": st["samples"],
        "evaluations": st["logins"] + st["uuid_calls"],
        "distinct_nontrivial": len(names),
        "rule": "name = code-point sequence enumerated by TLC over the boundary alphabet; each distinct name is one live "
                "login attempt; non-trivial = every name (the empty name included: it must be rejected)",
        "live_logins": st["logins"],
        "admitted": st["admitted"],
        "valid_names": nvalid,
        "valid_but_rejected_informational": valid_rejected,
        "backend_uuid_observed": st["backend_seen"],
        "uuid_function_calls": st["uuid_calls"],
        "exhaustive": ctx.quick,
        "states": r.distinct + res.distinct,
    }
    return ctx.finish("model_checking", cov, ["MD5 instantiated by crypto/md5"])
