"""C19 -- backend handshake keeps the player's host first; legacy/BungeeGuard forwarding data well-formed.

1. TLC enumerates HandshakeAddr.tla's scenarios (client handshake address shape x client
   protocol / Forge marker x forwarding mode x profile property list x address hook) and
   checks the reference operators (undashed hex, Java split) on known vectors.
2. The live rig logs every scenario in; the fake backend records the server address of the
   handshake the proxy sends. The harness only splits on NUL and parses part 4 like
   BungeeCord/Spigot (Gson semantics via encoding/json).
3. TLC judges every recorded login with HandshakeAddr_Trace.tla (Judge).
"""
import json
import random
import vlib

META = {
    "category": "model_checking",
    "text": "HandshakeAddr.tla defines what a backend must receive as handshake server address: in modes "
            "none/velocity the first NUL-part equals the first NUL-part of the client's own handshake address; in "
            "modes legacy/bungeeguard exactly backendAddr NUL playerIP NUL undashed-UUID NUL JSON whose Gson-style "
            "parse is the player's property list (+ optional Forge extraData marker, + bungeeguard-token). TLC "
            "enumerates 24 address shapes (Forge FML/FML2/FML3/FORGE markers, hosts that themselves begin with a marker string, TCPShield, IPv6 literal, host with "
            "port, unknown parts, empty host) x 7 client protocols x 4 modes x 9 property lists (quotes, "
            "backslashes, NUL, non-ASCII, HTML, 1.2 kB, nil list) x hooks (none / ServerInfo HandshakeAddresser / "
            "Proxy.SetBackendHandshakeAddresser); each is a real login through the live proxy from its own source "
            "IP with its own UUID, and TLC judges the address the fake backend received.",
    "design_ref": "DESIGN.md section 4, C19",
    "level_note": "Only the first NUL-part is required in modes none/velocity (the statement's wording); the exact "
                  "Forge suffix is not. No requirement when the client's host part is empty (the proxy then "
                  "substitutes the backend's host) and none for legacy/bungeeguard combined with a ServerInfo "
                  "addresser (the addresser replaces the forwarding scheme by design). Part 1 may be host:port or "
                  "host of the backend. A Forge-marker client may carry one extra 'extraData' property. Logins "
                  "that never reach the backend carry no obligation; more than 2% of them is a tool error. Forwarding mode "
                  "and secrets are restart-required settings (Proxy.ApplyLiveConfig only accepts Lite route changes; the "
                  "harness probes that on every rig and a run where such a change is accepted is a tool error), so one "
                  "player never sees two forwarding configurations and single-connection scenarios are the whole space.",
    "technique": "TLA+ reference operators + scenario enumeration by TLC, live-rig replay, TLC trace validation",
}


def describe(bad):
    def s(b):
        return bytes(b).decode("utf-8", "replace")
    return {"client_addr": "\\0".join(s(p) for p in bad["vh"]), "backend_addr": "\\0".join(s(p) for p in bad["parts"]),
            "mode": bad["mode"], "hook": bad["hook"], "proto": bad["proto"]}


def classify(bad):
    def s(b):
        return bytes(b).decode("utf-8", "replace")
    if bad["mode"] in ("none", "velocity"):
        host = s(bad["vh"][0])
        shape = ("tcpshield" if "///" in host else "ipv6-literal" if host.count(":") > 1 else
                 "host-with-port" if ":" in host else "plain")
        marker = s(bad["vh"][1]) if len(bad["vh"]) > 1 else "-"
        if bad["parts"] and ":" in host and s(bad["parts"][0]) == host + ":25565":
            # one input class whatever the marker / hook: the handshake port stays glued to a host with a colon
            return "host-first:port-glued-to-host-containing-colon"
        return "host-first:%s:marker=%s:hook=%s" % (shape, marker, bad["hook"])
    parts = bad["parts"]
    if len(parts) != 4:
        return "forwarding:%d-parts" % len(parts)
    if not bad["jsonok"]:
        return "forwarding:json-unparseable"
    if s(parts[2]) != bytes(bad["uuid"]).hex():
        return "forwarding:uuid"
    if parts[1] != bad["ip"]:
        return "forwarding:ip"
    if parts[0] not in (bad["backendAddr"], bad["backendHost"]):
        return "forwarding:backend-address"
    return "forwarding:properties:%s" % bad["mode"]


def run(ctx):
    r = ctx.tlc("HandshakeAddr", workers=1)
    scens = r.printed_json("SC")
    total = len(scens)
    rnd = random.Random(ctx.seed)
    if ctx.quick:
        light = [s for s in scens if s["mode"] in ("none", "velocity")]
        heavy = [s for s in scens if s["mode"] not in ("none", "velocity")]
        rnd.shuffle(heavy)
        scens = light + heavy[:1500]
    ctx.log("HandshakeAddr.tla: %d scenarios enumerated, %d driven" % (total, len(scens)))
    with open(ctx.path("scen.json"), "w") as fh:
        json.dump(scens, fh)
    ctx.harness("./c19", "TestTrace", timeout=ctx.pick(300, 900))
    st = json.load(open(ctx.path("stats.json")))
    ctx.log("live rig: %d logins, %d reached the backend" % (st["cases"], st["reached"]))
    if st.get("reload_accepted"):
        raise vlib.ToolError("the proxy accepted a live change of forwarding mode / secret (%d times): C19 must be extended "
                             "with histories 'connect, reload, connect to a second server'" % st["reload_accepted"])
    if st["unreached"] * 50 > st["cases"]:
        raise vlib.ToolError("%d of %d logins never reached the backend" % (st["unreached"], st["cases"]))
    recs = vlib.read_ndjson(ctx.path("trace.ndjson"))
    path = ctx.path("trace.ndjson")
    ok, matched, total_l, res = ctx.validate_trace("HandshakeAddr_Trace", path, n_traces=0)
    tstates = res.distinct
    ctx.log("HandshakeAddr_Trace: %s (%d of %d lines)" % ("accepted" if ok else "REJECTED", matched, total_l))
    nbad = 0
    if not ok:
        # the trace was rejected at line matched+1; a second TLC pass lists every forbidden line
        res2 = ctx.tlc("HandshakeAddr_Trace", "HandshakeAddr_Trace_collect.cfg", files={"trace.ndjson": path},
                       workers=1, count=False)
        lines = sorted({int(x) for x in res2.printed("REJECT")})
        if matched + 1 not in lines:
            raise vlib.ToolError("collect pass disagrees with the strict pass (first reject %d, listed %s)"
                                 % (matched + 1, lines[:5]))
        for ln in lines:
            bad = recs[ln - 1]
            nbad += 1
            ctx.finding(classify(bad), "backend handshake address not allowed by HandshakeAddr spec: %s"
                        % json.dumps(describe(bad)), bad)
    ctx.traces_validated += st["reached"] - nbad
    cov = {
        "samples": st["samples"] or [{"note": "no sample collected"}],
        "evaluations": st["cases"],
        "distinct_nontrivial": st["reached"],
        "rule": "scenario = (client address parts, protocol, mode, property list, hook) enumerated by TLC; each is one "
                "live login; non-trivial = the backend received the proxy's handshake for it",
        "scenarios_enumerated": total,
        "per_mode_hook": st["classes"],
        "unreached": st["unreached"],
        "live_forwarding_changes_refused": st.get("reload_refused", 0),
        "exhaustive": not ctx.quick,
        "states": r.distinct + tstates,
    }
    return ctx.finish("model_checking", cov, [
        "JSON parsed with encoding/json under Gson's rules (null = no list, unknown members ignored, trailing data rejected)",
        "player IPs are loopback source addresses 127.x.y.z; UUIDs and properties are set by a GameProfileRequestEvent subscriber",
    ])
