"""C14 -- packets written during the configuration phase are held and delivered after it,
in order, without loss.

1. TLC model-checks the code-shaped PlayQueueImpl.tla (c.mu respected): invariants hold.
2. TLC on the lock-agnostic variant must violate NoStranded (packet pushed into a released
   queue), NoSpuriousClose (play packet reaching the encoder in config state) and NoOvertake
   (a packet written between the encoder switch and the release of the queue): non-vacuity.
   The same variant exports every gate-point interleaving as a schedule.
3. The Go harness forces each schedule on a real netmc.MinecraftConn over a net.Pipe whose far
   end decodes the byte stream by hand, plus deterministic scenarios (immediate config packets,
   order, 1024-bound overflow), schedules at the bound (queue holding 1023, two writers forced between
   the bound check and the push), free-running stress, and -- in a child process, whose death is
   recorded as `died` -- bursts of four writers buffering play-only packets at once during
   configuration; it records call / ret / wire / sync / eof.
4. TLC validates the concatenated history against the abstract PlayQueue spec (every call takes
   effect atomically between its call and its return; the peer sees exactly `wire`).
   Rejected runs are forced a second time; only runs rejected twice are findings.
"""
import json
import random
import re
import vlib

META = {
    "category": "model_checking",
    "text": "TLC model-checks a code-shaped model of bufferPacket/SetState/PlayPacketQueue (c.mu respected) "
            "against no-stranding, no-loss/no-dup, order and bound invariants, shows the lock-agnostic variant "
            "violates them, and enumerates every gate-point interleaving of 2 writers (3 writes, play-only and "
            "config-valid packets) with enter/leave. Each interleaving is forced on a real MinecraftConn over "
            "a pipe; the far end decodes the byte stream independently and the observable history (call/ret of "
            "writes and state changes, packets seen by the peer in order, sync points, EOF) is validated by TLC "
            "against the abstract PlayQueue spec, a linearizability-style acceptor. Schedules are the "
            "quantifier of this property, so schedule enumeration + trace validation is the right level.",
    "design_ref": "DESIGN.md section 4, C14",
    "level_note": "Trusted: gates only delay goroutines; the far-end frame decoder and the packet ids 0x62/0x24/0x03 "
                  "of protocol 764 are written down in the harness. The bound is taken to be 1024 (anchor). A write "
                  "that fails for any reason other than overflow or an already closed connection is treated as a "
                  "violation (the packet is neither held nor delivered). Quick forces a seeded sample of the "
                  "exhaustively enumerated schedules, thorough all of them plus sampled larger programs and -race "
                  "stress; data races reported by the race detector in gate code are reported as findings because "
                  "the spec's atomic steps presuppose race freedom.",
    "technique": "TLA+ spec + TLC schedule enumeration, forced replay on real code, TLC trace validation",
}

NEED_GATES = ["pq.readptr", "pq.queue.checked", "pq.release.begin", "pq.queued", "pq.written", "pq.activate", "pq.release"]


def split_runs(recs):
    runs, cur = [], None
    for r in recs:
        if r.get("ev") == "reset":
            cur = [r]
            runs.append(cur)
        elif cur is not None:
            cur.append(r)
    return runs


def run_id(run):
    h = run[0]
    return (h.get("mode"), h.get("name", h.get("n")))


def classify(run, bad=None):
    """A specific key for a rejected run: what went wrong for which kind of overlap."""
    head = run[0]
    mode = head.get("mode")
    if mode == "scenario":
        key = "scenario:%s" % head.get("name")
        if bad and bad.get("ev") == "ret" and bad in run:
            i = run.index(bad)
            call = run[i - 1] if i and run[i - 1].get("ev") == "call" else {}
            held = 0
            for r in run[:i - 1]:
                if r.get("ev") == "call" and r.get("op") in ("enter", "leave"):
                    held = 0
                elif r.get("ev") == "call" and r.get("op") == "write" and r.get("kind") == "P":
                    held += 1
            key += ":%s-%s-reports-%s-with-%d-written-since-enter" % (call.get("kind", ""), call.get("op", "?"),
                                                                     bad.get("res"), held)
        return key
    for r in run:
        if r.get("ev") == "died":
            m = re.search(r"(panic: [^\n]*|fatal error: [^\n]*)", r.get("output", ""))
            return "process-died:concurrent-play-writes-in-config" + (":" + re.sub(r"\W+", "-", m.group(1))[:60] if m else "")
        if r.get("ev") == "hung":
            return "hung:" + re.sub(r"\W+", "-", r.get("what", ""))
    calls, state_iv, writes = {}, [], []
    for r in run:
        if r["ev"] == "call":
            calls[r["thread"]] = r
        elif r["ev"] == "ret" and r["thread"] in calls:
            c = calls.pop(r["thread"])
            if c["op"] in ("enter", "leave") and c["thread"] != "main":
                state_iv.append((c["seq"], r["seq"], c["op"]))
            elif c["op"] == "write":
                writes.append((c, r))
    wire = [r["pkt"] for r in run if r["ev"] == "wire"]

    def overlap(c, r):
        ops = sorted({op for (a, b, op) in state_iv if a < r["seq"] and c["seq"] < b})
        return "+".join(ops) if ops else "nothing"

    for c, r in writes:
        if r["res"] != "ok" and "queue full" not in r["err"] and "connection is closed" not in r["err"]:
            return "spurious-close:%s-write-overlaps-%s" % (c["kind"], overlap(c, r))
    closed = any(r["ev"] == "syncfail" for r in run)
    if not closed:
        for c, r in writes:
            if r["res"] == "ok" and c["pkt"] not in wire:
                return "lost:%s-write-overlaps-%s" % (c["kind"], "concurrent-play-writes-in-config"
                                                      if mode == "burst" else overlap(c, r))
    if len(set(wire)) != len(wire):
        return "duplicated" + (":concurrent-play-writes-in-config" if mode == "burst" else "")
    if head.get("prefill"):
        ok_held = sum(1 for c, r in writes if c["kind"] == "P" and r["res"] == "ok")
        if ok_held > head.get("cap", 1024):
            return "bound-exceeded:two-writers-between-check-and-push"
    # everything arrived once: the order is wrong.  Name the packet that came too early.
    return "reordered:" + early_packet(run, writes, overlap)


def early_packet(run, writes, overlap):
    """the first delivered packet whose write began after the write of a later delivered packet of the
    same kind had returned (it overtook it)"""
    wire = [r["pkt"] for r in run if r["ev"] == "wire"]
    by = {c["pkt"]: (c, r) for c, r in writes}
    for i, p in enumerate(wire):
        for q in wire[i + 1:]:
            if p in by and q in by and by[q][1]["seq"] < by[p][0]["seq"]:
                return "%s-write-overlaps-%s-overtakes-%s" % (by[p][0]["kind"], overlap(*by[p]), by[q][0]["kind"])
    return "other"


def in_release_window(s):
    """a whole write (both segments of one writer) lies between the two segments of the leave, and
    a whole write lies between the enter and the leave: the narrowest window of the property"""
    sc = s["sched"]
    pos = [i for i, t in enumerate(sc) if t == "s"]
    if len(pos) < 3:
        return False

    def whole_write(a, b):
        seg = sc[a + 1:b]
        return any(seg.count(w) >= 2 for w in set(seg))
    return whole_write(pos[-2], pos[-1]) and whole_write(pos[0], pos[-2])


def gate_races(out):
    """Race-detector reports whose two racing accesses both happen on behalf of gate code: walking
    each stack from the top, the first frame that is gate's or the harness's is gate's (so a race
    inside a library called by gate counts, one inside the harness, the schedule controller or the
    verif hooks does not).  Returns ([(key, report)], n_other_reports)."""
    gate, other = [], 0
    head = re.compile(r"(?m)^(?:Read|Write|Previous read|Previous write|Atomic \w+|Previous atomic \w+) at .*$")
    for block in out.split("WARNING: DATA RACE")[1:]:
        block = block.split("==================")[0]
        owners = []
        for sec in head.split(block)[1:3]:
            sec = sec.split("\n\n")[0]
            owner = None
            for fn in re.findall(r"(?m)^\s+(\S+)\(.*\)\s*$", sec):
                if fn.startswith("verif/harness/") or "/verifhook." in fn:
                    owner = "harness"
                    break
                if fn.startswith("go.minekube.com/gate/"):
                    owner = re.sub(r"^go\.minekube\.com/gate/pkg/", "", fn)
                    break
            owners.append(owner)
        if len(owners) == 2 and all(o and o != "harness" for o in owners):
            gate.append(("+".join(sorted(set(owners))), block[:4000]))
        else:
            other += 1
    return gate, other


def harness(ctx, sched, trace, scenarios, stress, race, burst=0):
    with open(ctx.path(trace + ".sched.json"), "w") as fh:
        json.dump(sched, fh)
    p = ctx.harness("./c14", "TestSchedules", race=race, check=False, timeout=1500,
                    env={"VERIF_SCHED_FILE": trace + ".sched.json", "VERIF_TRACE": trace,
                         "VERIF_SCENARIOS": scenarios, "VERIF_STRESS": stress, "VERIF_BURST": burst})
    races, other = gate_races(p.stdout)
    if other:
        raise vlib.ToolError("race detector reports a race outside gate code (harness problem):\n"
                             + p.stdout[p.stdout.find("WARNING: DATA RACE"):][:3000])
    if p.returncode != 0 and not races:
        raise vlib.ToolError("harness failed:\n" + "\n".join(p.stdout.splitlines()[-60:]))
    stats = json.load(open(ctx.path(trace + ".stats.json")))
    return vlib.read_ndjson(ctx.path(trace)), stats, races, p.stdout


def run_replay(ctx):
    """bin/vcheck C14 quick --replay <file>: force the recorded schedule again and judge it."""
    d = json.load(open(ctx.replay))
    sc = (d.get("replay") or {}).get("schedule")
    recs, stats, races, out = harness(ctx, [sc] if sc else [], "trace.ndjson", 0 if sc else 1,
                                      0 if sc else 25, False)
    rejected, matched, tstates = ctx.validate_runs("PlayQueue_Trace", recs)
    for rj in rejected:
        ctx.finding(classify(rj["run"], rj["bad"]), "replayed history is not a behaviour of PlayQueue (first unexplained "
                    "event: %s)" % json.dumps(rj["bad"]), {"schedule": sc, "first_unexplained": rj["bad"],
                                                          "history": rj["run"]})
    return ctx.finish("model_checking", {
        "states": tstates, "transitions": tstates, "samples": [sc or "scenarios+stress"],
        "evaluations": stats["schedules"] + stats["scenarios"] + stats["stress_runs"],
        "distinct_nontrivial": 2, "rule": "replay of one recorded schedule (2 concurrent writers + state changes)",
        "trace_events_validated": matched, "exhaustive": False}, ["replay run"])


def run(ctx):
    if ctx.replay:
        return run_replay(ctx)
    r = ctx.tlc("PlayQueueImpl")
    mc_states = r.distinct
    ctx.log("PlayQueueImpl.tla (c.mu respected): %d distinct states, invariants hold" % r.distinct)
    r = ctx.tlc("PlayQueueImpl", "PlayQueueImpl_unlocked.cfg", allow_violation=True, count=False,
                extra=["-continue"])
    nonvac = sorted(set(re.findall(r"(?:Invariant|Action property) (\S+) is violated", r.out)))
    if not {"NoStranded", "NoSpuriousClose", "NoOvertake"} <= set(nonvac):
        raise vlib.ToolError("lock-agnostic PlayQueueImpl violates only %s: invariants vacuous" % nonvac)
    ctx.log("PlayQueueImpl.tla (lock ignored): violates %s (non-vacuity ok)" % ", ".join(nonvac))

    if not ctx.quick:
        r = ctx.tlc("PlayQueueImpl", "PlayQueueImpl_boundchk.cfg", allow_violation=True, count=False)
        if r.violated != "Bounded":
            raise vlib.ToolError("lock-agnostic PlayQueueImpl with split Queue() does not violate Bounded")
        nonvac.append("Bounded")
    rnd = random.Random(ctx.seed)
    base = ctx.tlc("PlayQueueImpl", "PlayQueueImpl_sched.cfg", workers=1, count=False).printed_json("SCHED")
    n_enum = len(base)
    rnd.shuffle(base)
    if ctx.quick:
        # seeded sample; half of it from the schedules in which a writer runs between the two
        # segments of the leave (encoder switched / queue released), the narrowest window
        inside = [s for s in base if in_release_window(s)]
        rest = [s for s in base if not in_release_window(s)]
        scheds = inside[:110] + rest[:110]
        big = []
    else:
        scheds = base
        big = ctx.tlc("PlayQueueImpl", "PlayQueueImpl_sched22.cfg", workers=1, count=False,
                      simulate=1500, depth=14).printed_json("SCHED")
    bound = ctx.tlc("PlayQueueImpl", "PlayQueueImpl_bound.cfg", workers=1, count=False).printed_json("SCHED")
    rnd.shuffle(bound)
    if ctx.quick:
        # both writers send a play-only packet into the queue holding cap-1: prefer the interleavings
        # that put both between the bound check and the push
        both = [s for s in bound if all(k == ["P"] for k in s["prog"].values())]
        inside = [s for s in both if s["sched"][:4] in (["w1", "w1", "w2", "w2"], ["w2", "w2", "w1", "w1"],
                                                         ["w1", "w2", "w1", "w2"], ["w2", "w1", "w2", "w1"],
                                                         ["w1", "w2", "w2", "w1"], ["w2", "w1", "w1", "w2"])]
        bound = inside[:2] + [s for s in bound if s not in inside][:1]
    scheds = scheds + big + bound
    ctx.log("schedules: %d of %d enumerated (2 writers, 3 writes, enter/leave) + %d sampled "
            "(2x2 writes, enter/leave/enter) + %d at the bound (queue holding cap-1, check/push split)"
            % (len(scheds) - len(big) - len(bound), n_enum, len(big), len(bound)))

    recs, stats, races, out = harness(ctx, scheds, "trace.ndjson", 1, ctx.pick(25, 400), not ctx.quick,
                                      burst=ctx.pick(6, 60))
    missing = [g for g in NEED_GATES if not stats["gate_arrivals"].get(g)]
    for f, report in races:
        ctx.finding("data-race:" + f, "the race detector reports a data race between %s while writers and state "
                    "changes run concurrently" % f, {"report": report})

    total = len(recs)
    ctx.log("harness: %d schedules forced (%d blocked steps), %d scenarios, %d stress runs, %d bursts "
            "(child process), %d events" % (stats["schedules"], stats["blocked_steps"], stats["scenarios"],
                                            stats["stress_runs"], stats["burst_runs"], total))
    rejected, matched, tstates = ctx.validate_runs("PlayQueue_Trace", recs)
    ctx.log("history: %d events, %d runs, %d rejected at first validation" %
            (total, stats["schedules"] + stats["scenarios"] + stats["stress_runs"], len(rejected)))

    # force every rejected schedule a second time; scenarios / stress are re-run as a whole
    unrepro = 0
    if rejected:
        again = [scheds[rj["run"][0]["n"]] for rj in rejected if rj["run"][0].get("mode") == "sched"]
        others = any(rj["run"][0].get("mode") != "sched" for rj in rejected)
        recs2, _, _, _ = harness(ctx, again, "replay.ndjson", 1 if others else 0,
                                 ctx.pick(25, 400) if others else 0, False,
                                 burst=ctx.pick(6, 60) if others else 0)
        rej2, _, st2 = ctx.validate_runs("PlayQueue_Trace", recs2, max_rejects=len(rejected) + 12)
        tstates += st2
        # sched runs of the replay are numbered 0.. in the order of `again`
        again_ids = [run_id(rj["run"]) for rj in rejected if rj["run"][0].get("mode") == "sched"]
        rejected2 = set()
        for rj in rej2:
            h = rj["run"][0]
            rejected2.add(again_ids[h["n"]] if h.get("mode") == "sched" else run_id(rj["run"]))
        second_by_key = {}
        for rj in rej2:
            second_by_key.setdefault(classify(rj["run"], rj["bad"]), rj)
        for rj in rejected:
            key = classify(rj["run"], rj["bad"])
            mode = rj["run"][0].get("mode")
            repro = run_id(rj["run"]) in rejected2 or (mode in ("stress", "burst") and key in second_by_key)
            if not repro:
                unrepro += 1
                continue
            replay = {"first_unexplained": rj["bad"], "history": rj["run"]}
            if mode == "sched":
                replay["schedule"] = scheds[rj["run"][0]["n"]]
            ctx.finding(key, "history of the real connection is not a behaviour of PlayQueue "
                        "(first unexplained event: %s); reproduced when forced a second time"
                        % json.dumps(rj["bad"]), replay)
        if unrepro:
            ctx.notes.append("%d rejected run(s) were not rejected again when re-run (not reported)" % unrepro)

    if missing and not ctx.findings:
        # (with findings the missing gates are a consequence of the misbehaviour, not of the tooling)
        raise vlib.ToolError("hook_missing: gates never reached: %s" % missing)

    # negative control: corrupt an accepted run and see it rejected
    neg = negative_control(ctx, recs, rejected)

    runs = stats["schedules"] + stats["scenarios"] + stats["stress_runs"] + stats["burst_runs"]
    cov = {
        "states": mc_states + tstates,
        "samples": stats["samples"][:2] + [{"trace_events": total, "runs": runs}],
        "evaluations": runs,
        "distinct_nontrivial": len({json.dumps(s, sort_keys=True) for s in scheds}),
        "rule": "schedule = (program of P/K writes, enter/leave sequence, interleaving of gate points) exported "
                "by TLC from the lock-agnostic PlayQueueImpl model; distinct = distinct schedules; all have 2 "
                "writers concurrent with state changes",
        "schedules_enumerated": n_enum,
        "schedules_forced": stats["schedules"],
        "blocked_steps": stats["blocked_steps"],
        "scenarios": stats["scenarios"],
        "stress_runs": stats["stress_runs"],
        "burst_runs": stats["burst_runs"],
        "burst_child_died": stats["burst_child_died"],
        "packets_written": stats["packets_written"],
        "packets_on_wire": stats["packets_on_wire"],
        "gate_arrivals": stats["gate_arrivals"],
        "trace_events_validated": matched,
        "rejected_first_pass": len(rejected),
        "rejected_not_reproduced": unrepro,
        "nonvacuity": nonvac,
        "negative_control": neg,
        "race_detector": not ctx.quick,
        "exhaustive": False,
    }
    return ctx.finish("model_checking", cov, [
        "gates only delay threads; a forced failure is a real execution",
        "the peer's frame decoder and the three packet shapes are the harness's own",
        "net.Pipe is synchronous: a returned flush has been read by the peer",
    ])


def negative_control(ctx, recs, rejected):
    """Corrupt the (single-threaded, hence totally ordered) "order" scenario: the spec must reject."""
    bad_seq = {rj["run"][0]["seq"] for rj in rejected}
    for run in split_runs(recs):
        if run[0]["seq"] in bad_seq or not str(run[0].get("name", "")).startswith("order@"):
            continue
        wires = [i for i, r in enumerate(run) if r["ev"] == "wire"]
        if len(wires) < 4:
            continue
        a, b = wires[2], wires[3]
        swapped = list(run)
        swapped[a], swapped[b] = dict(run[a], pkt=run[b]["pkt"]), dict(run[b], pkt=run[a]["pkt"])
        variants = {
            "neg-drop": run[:a] + run[a + 1:],            # a delivered packet vanishes
            "neg-swap": swapped,                          # two delivered packets change places
            "neg-dup": run[:b] + [dict(run[a])] + run[b:],  # a packet is delivered twice
        }
        if ctx.quick:
            variants = {k: variants[k] for k in ("neg-swap",)}
        allruns = []
        for name in sorted(variants):
            v = variants[name]
            allruns += [dict(v[0], name=name)] + v[1:]
        before = ctx.traces_validated
        rej, _, _ = ctx.validate_runs("PlayQueue_Trace", allruns)
        ctx.traces_validated = before
        got = sorted(rj["run"][0]["name"] for rj in rej)
        if got != sorted(variants):
            raise vlib.ToolError("negative control: corrupted histories accepted (rejected only %s)" % got)
        return "passed (%s rejected)" % ", ".join(sorted(variants))
    return "skipped (order scenario missing or itself rejected)"
