"""C33 -- PROXY protocol headers are honoured only from trusted upstreams.

1. TLC checks the rules (normalisation, CIDR membership by bits == by arithmetic, mapped
   address trusted iff its IPv4 address is, zone irrelevant, outcome table) exhaustively on a
   scaled address space: every prefix x every peer; a Norm that forgets to unmap must violate.
2. TLC evaluates the same operators at 32 / 128 bits on boundary-structured cases (prefix
   lengths 0,1,7,8,9,..,/32,/128, masked and unmasked bases, peers with the last inside / first
   outside bit flipped, plain / mapped / zoned, cross-family) and exports them.
3. The harness turns each case into text and drives the real ParseTrustedNetworks, Contains,
   ContainsStr and the proxy's connection wrapper (fake conn with the case's RemoteAddr, every
   kind of first bytes: v1/v2 TCP4/TCP6, UNKNOWN, LOCAL, none); plus random prefixes of every
   length, non-IP peers, and mutated list entries.
3a. Sequences of connections go through ONE wrapper instance: look-alike peers (textual
   prefix of a trusted address: 192.0.2.1 / 192.0.2.10 / 192.0.2.100), then the trusted
   upstream, then the look-alikes again; every wrap is judged by the same history-free rule.
3b. TLC enumerates configured lists of up to three entries (valid IPv4 / CIDRs, blank and
   white-space entries, garbage, a mapped address; 585 lists) with the verdict; the harness
   puts each into a proxy configuration (proxy.New with ProxyProtocol on, Config.Validate)
   and, where it is acceptable, wraps connections under that configuration.
4. TLC reads every logged text with its own IP / CIDR / host:port grammar and judges.
"""
import json
import vlib

META = {
    "category": "model_checking",
    "text": "ProxyProto.tla defines normalisation, CIDR membership, trust and the wrapped connection's outcome on "
            "bit sequences of parametric width; TLC checks the rules on every prefix x peer of a scaled address "
            "space (and that a non-unmapping variant fails), evaluates them at 32/128 bits on boundary cases and "
            "exports these. The harness spells the cases as text, runs the real ParseTrustedNetworks / Contains / "
            "ContainsStr and the proxy's PROXY-protocol wrapper over fake connections for every kind of first "
            "bytes, and TLC judges the recorded results after reading all addresses with its own textual grammar.",
    "design_ref": "DESIGN.md section 4, C33",
    "level_note": "Left open (either result accepted): a mapped peer against an IPv6 prefix that holds its 128-bit "
                  "form (::/0), list entries with a zone, with leading zeros or with white space around a non-blank text, first bytes that start like a header "
                  "but are none, and the address after a trusted UNKNOWN/LOCAL header. CIDR entries with host bits set "
                  "count as valid. The header-sniffing timeout is not exercised. Peer texts are the well-formed "
                  "host:port / [host]:port / bare forms.",
    "technique": "TLA+ reference operators (TLC exhaustive on a scaled space + boundary vectors), "
                 "TLC trace validation of recorded real I/O read from text",
}


def run(ctx):
    r = ctx.tlc("ProxyProto", ctx.pick("ProxyProto.cfg", "ProxyProto_w36.cfg"))
    ctx.log("ProxyProto.tla scaled: %d (prefix, peer) pairs, rules hold" % r.distinct)
    rb = ctx.tlc("ProxyProto", "ProxyProto_nounmap.cfg", allow_violation=True, count=False)
    if rb.violated != "MappedAsV4":
        raise vlib.ToolError("Norm without unmapping is not caught (%s)" % rb.violated)
    rv = ctx.tlc("ProxyProto", "ProxyProto_vec.cfg", workers=1)
    vecs = rv.printed_json("VEC")
    if len(vecs) != rv.distinct:
        raise vlib.ToolError("exported %d vectors for %d states" % (len(vecs), rv.distinct))
    ctx.log("boundary cases at 32/128 bits: %d (%d trusted)" % (len(vecs), sum(1 for v in vecs if v["trusted"])))
    with open(ctx.path("vectors.json"), "w") as fh:
        json.dump(vecs, fh)
    rl = ctx.tlc("ProxyProto", "ProxyProto_lists.cfg", workers=1)
    lists = rl.printed_json("LIST")
    if len(lists) != rl.distinct:
        raise vlib.ToolError("exported %d lists for %d states" % (len(lists), rl.distinct))
    ctx.log("configured lists of <= 3 entries: %d (%d acceptable)" % (len(lists), sum(1 for x in lists if x["verdict"] == "ok")))
    with open(ctx.path("lists.json"), "w") as fh:
        json.dump(lists, fh)

    ctx.harness("./c33", "TestTrace", env={"VERIF_RANDOM": ctx.pick(120, 4000),
                                           "VERIF_MUTATIONS": ctx.pick(500, 20000),
                                           "VERIF_KINDS_PER_VECTOR": ctx.pick(2, 9)}, timeout=1200)
    st = json.load(open(ctx.path("stats.json")))
    ctx.log("harness: %d parse, %d contains, %d wraps" % (st["parse"], st["contains"], st["wraps"]))
    recs = vlib.read_ndjson(ctx.path("trace.ndjson"))
    total = len(recs)
    path = ctx.path("trace.ndjson")
    judged, tries = 0, 0
    while True:
        ok, matched, tot, res = ctx.validate_trace("ProxyProto_Trace", path, n_traces=0, timeout=1500)
        nb = res.printed("NETSBAD")
        if nb and int(nb[-1]) != 0:
            raise vlib.ToolError("the spec cannot read a list the harness used: %s"
                                 % json.dumps(recs[int(nb[-1]) - 1].get("s")))
        judged += matched
        if ok:
            break
        bad = recs[matched]
        ev = bad["ev"]
        if ev == "cfglist":
            key = "cfglist:%s:%s" % (bad["s"], "accepted" if bad["new_ok"] or bad["validate_ok"] else "rejected")
            desc = "configured proxyProtocolTrustedProxies %s: proxy.New %s, Validate %s" % (
                bad["s"], "ok" if bad["new_ok"] else "error", "ok" if bad["validate_ok"] else "error")
        elif ev == "parse":
            key = "parse:%s:%s" % (bad["s"], "accepted" if bad["ok"] else "rejected")
            desc = "trusted-list entry %r was %s" % (bad["s"], "accepted" if bad["ok"] else "rejected")
        elif ev == "contains":
            key = "contains:%s=%s" % (bad["s"], bad["res"])
            desc = "Contains(%s) via %s returned %s" % (bad["s"], bad["via"], bad["res"])
        else:
            key = "wrap:%s:%s:err=%s" % (bad["first"], bad["s"], bad["err"])
            desc = "wrapped connection (%s, first bytes %s): read error %s, remote address %r" % (
                bad["s"], bad["first"], bad["err"], bytes(bad["remote"]).decode("latin1"))
        ctx.finding(key, desc, bad)
        recs = recs[matched + 1:]
        tries += 1
        if not recs or tries >= 6:
            break
        path = ctx.path("rest%d.ndjson" % tries)
        vlib.write_ndjson(path, recs)
    ctx.traces_validated += judged
    if not st["wraps_in_sequences"] or st["configured_lists_accepted"] in (0, st["configured_lists"]) or not st["wrap_address_changed"] or not st["wrap_read_errors"] or not st["contains_true"] \
            or st["parse_ok"] in (0, st["parse"]):
        raise vlib.ToolError("outcome classes not all exercised: %s" % st)
    cov = {
        "samples": st["samples"],
        "evaluations": total,
        "records_judged": judged,
        "distinct_nontrivial": len(vecs) + st["random_cases"],
        "rule": "TLC-exported distinct (prefix, peer) boundary cases plus random prefix/peer pairs; each is run "
                "through Contains (TCPAddr / textual / bare forms), ContainsStr and the wrapper",
        "boundary_vectors": len(vecs),
        "random_cases": st["random_cases"],
        "wraps_in_sequences_on_one_instance": st["wraps_in_sequences"],
        "configured_lists": st["configured_lists"],
        "configured_lists_accepted": st["configured_lists_accepted"],
        "parse_events": st["parse"],
        "parse_accepted": st["parse_ok"],
        "contains_events": st["contains"],
        "contains_true": st["contains_true"],
        "wraps": st["wraps"],
        "wraps_by_kind": st["wraps_by_kind"],
        "wrap_read_errors": st["wrap_read_errors"],
        "wrap_address_changed": st["wrap_address_changed"],
        "exhaustive": False,
    }
    return ctx.finish("model_checking", cov, [
        "PROXY headers are hand-built by the harness (v1 text, v2 binary) from the PROXY protocol specification",
        "for an empty configured list the trust decision is judged against the documented built-in set "
        "(loopback, RFC 1918, link-local, ULA), copied into the harness",
    ])
