"""C18 -- keep-alive replies reach only the backend that asked, once.

1. TLC checks the abstract design KeepAlive.tla (bounded pending sets per backend connection,
   current backend before the one in flight) against the property invariants and exports
   histories of backend keep-alives and client replies (matching / unknown / duplicate ids).
2. The live rig replays them: a 1.20.4 initial join (backend in its configuration phase, in
   flight) and a 1.20.1 server switch (current backend + a second one in flight); plus 64 /
   65 / 130 pending keep-alives, concurrent bursts, and several reply handlers
   (forwardKeepAlive) running at once.  The fake backends log which replies reach them.
3. TLC validates the observations against the black-box acceptor KeepAliveObs.tla.
"""
import json
import random
import vlib

META = {
    "category": "model_checking",
    "text": "KeepAliveObs.tla is the black-box acceptor: a backend connection may receive a keep-alive reply only "
            "for an id it sent and has not been given an answer for, and every client reply is forwarded at most "
            "once. KeepAlive.tla is the abstract design (LRU of pending ids per backend connection, current before "
            "in-flight) whose invariants TLC checks and whose histories (<= 4 quick / 5 thorough steps over "
            "keep-alives of two backends and replies with known, repeated and unknown ids) are replayed on the "
            "live proxy with scripted fake backends; concurrent bursts and concurrently running reply handlers "
            "(exported forwardKeepAlive, real connections; gate points hold them until all are at the consume "
            "step, between the pending-id lookup and its removal, and again before the backend write) cover 'even under concurrent handling'. The recorded "
            "sends, replies and arrivals are validated by TLC.",
    "design_ref": "DESIGN.md section 4, C18",
    "level_note": "Only the 'only if / at most once / otherwise dropped' direction is judged, as stated; that matching "
                  "replies are forwarded at all is only used as a vacuity guard (the run must see forwards). 'The "
                  "backend is in configuration or play' is implied by the scripted backends (they can send "
                  "keep-alives only there). Keep-alive ids are small integers (TLC ints are 32-bit). A reply forwarded "
                  "after the end-of-run wait would be missed (never a false alarm).",
    "technique": "TLA+ spec + TLC history enumeration, live-rig replay, TLC trace validation",
}


def run(ctx):
    cfg = open(vlib.SPEC + "/KeepAlive.cfg").read().replace("MaxLen = 4", "MaxLen = %d" % ctx.pick(4, 5))
    r = ctx.tlc("KeepAlive", cfg_text=cfg, workers=1, timeout=1800)
    hists = r.printed_json("HIST")
    nall = len(hists)
    rnd = random.Random(ctx.seed)
    rnd.shuffle(hists)
    # histories with at least one reply that can match are the interesting ones; keep some others
    def nontrivial(h):
        ids = {s["id"] for s in h["h"] if s["k"] == "ka"}
        return any(s["k"] == "reply" and s["id"] in ids for s in h["h"])
    good = [h for h in hists if nontrivial(h)]
    rest = [h for h in hists if not nontrivial(h)]
    ng = ctx.pick(55, 1250)   # per kind
    good = ([h for h in good if h["kind"] == "cfg765"][:ng] + [h for h in good if h["kind"] == "sw763"][:ng])
    hists = good + rest[:ctx.pick(15, 300)]
    extra = [{"kind": "lru", "n": n} for n in (64, 65, 130)]
    extra += [{"kind": "burst"} for _ in range(ctx.pick(3, 12))]
    extra += [{"kind": "handlers"} for _ in range(ctx.pick(6, 40))]
    with open(ctx.path("hist.json"), "w") as fh:
        json.dump(hists + extra, fh)
    ctx.log("KeepAlive.tla: %d states, %d histories; replaying %d + %d explicit/concurrent runs"
            % (r.distinct, nall, len(hists), len(extra)))
    ctx.harness("./c18", "TestReplay", timeout=2400)
    st = json.load(open(ctx.path("stats.json")))
    if st["aborted"] > (len(hists) + len(extra)) // 4:
        raise vlib.ToolError("%d scripted connections could not be set up" % st["aborted"])
    if not st.get("rendezvous_met"):
        raise vlib.ToolError("hook_missing: no group of concurrent reply handlers met at the ka.consume gate")
    if st["forwards"] == 0:
        raise vlib.ToolError("no keep-alive reply reached any backend: the check would be vacuous")
    recs = vlib.read_ndjson(ctx.path("trace.ndjson"))
    rejected, matched, tstates = ctx.validate_runs("KeepAlive_Trace", recs, timeout=1800)
    for rj in rejected:
        run_, bad = rj["run"], rj["bad"] or {}
        kind = run_[0].get("kind", "?")
        before = run_[1:rj["bad_index"]]
        b, i = bad.get("b"), bad.get("id")
        sent = sum(1 for x in before if x.get("ev") == "bsend" and x.get("b") == b and x.get("id") == i)
        got = sum(1 for x in before if x.get("ev") == "brecv" and x.get("b") == b and x.get("id") == i)
        allgot = sum(1 for x in before if x.get("ev") == "brecv" and x.get("id") == i)
        reps = sum(1 for x in before if x.get("ev") == "creply" and x.get("id") == i)
        if sent == 0:
            key = "reply-to-backend-that-never-asked:%s" % kind
        elif got >= sent:
            key = "reply-forwarded-again:%s" % kind
        elif allgot >= reps:
            key = "one-reply-forwarded-twice:%s" % kind
        else:
            key = "history-rejected:%s:%s" % (kind, bad.get("ev"))
        ctx.finding(key, "keep-alive reply %s reached backend connection %s although KeepAliveObs.tla forbids it "
                    "(sent %d, already answered %d, client replies %d, forwarded %d)" % (i, b, sent, got, reps, allgot), rj)
    cov = {
        "states": r.distinct + tstates,
        "samples": st["samples"][:2] or [{"runs": st["runs"]}],
        "evaluations": st["runs"],
        "distinct_nontrivial": len(good) + len(extra),
        "rule": "history = (kind, sequence of backend keep-alives and client replies) exported by TLC; non-trivial = "
                "contains a reply whose id some backend sent before or after; plus the explicit LRU / burst / "
                "concurrent-handler runs",
        "runs_by_kind": st["kinds"],
        "replies_forwarded": st["forwards"],
        "handler_rendezvous_met": st["rendezvous_met"],
        "handler_rendezvous_timed_out": st["rendezvous_timed_out"],
        "trace_events_validated": matched,
        "race_detector": False,
        "exhaustive": False,
    }
    return ctx.finish("model_checking", cov, [
        "the race detector is off: concurrent server switches trip an unrelated data race in gate (the shared "
        "ComponentHolder of tablist.ClearHeaderFooter caches its JSON lazily)",
        "fake client and backends speak the harness's own codec; packet ids from the vanilla tables",
        "concurrent reply handlers are started through the verif-tagged export of forwardKeepAlive",
    ])
